"""Function-level scenarios mixing value-dependent and static methods (C10, C11, C01)."""
import json
import random

from corr_e import POOL, EWorld, all_fdeps, gen_applicable_type, gen_dep_type, tri
from world import C_BOOL, C_DICT, C_INT, C_LIST, C_OBJECT, C_STR, C_TUPLE, NBUILTIN, make_world


def gen_dep_fn_scenario(rng: random.Random, steer=None):
    w = make_world(rng, nuser=rng.randint(1, 3))
    w.tables_cache = w.tables()
    ew = EWorld(w, rng)
    npos = rng.choice([1, 1, 1, 2])
    focus = [rng.choice([C_INT, C_INT, C_BOOL, C_STR, C_STR, C_TUPLE, C_DICT]) for _ in range(npos)]
    nmeth = rng.randint(2, 7)
    defs = []
    # call shapes: an optional trailing positional and / or an optional keyword-only parameter, declared alike by
    # every method, so that calls of different shapes reach the same value-dependent ranks
    opt_pos = steer != "literals" and rng.random() < 0.35
    opt_kw = steer != "literals" and rng.random() < 0.3
    kw_focus = rng.choice([C_INT, C_STR]) if opt_kw and rng.random() < 0.6 else None
    # now and then the ONLY value-dependent parameter is the keyword-only one, behind an optional positional: whether
    # a rank needs a value dispatcher must not be read off a prefix of the declared parameters
    kwdep = steer != "literals" and rng.random() < 0.15
    if kwdep:
        opt_pos, opt_kw, kw_focus = rng.random() < 0.8, True, rng.choice([C_INT, C_STR])
    for i in range(nmeth):
        params = []
        for j in range(npos):
            r = rng.random()
            if steer == "literals":
                ints = [0, 1, 2, 3, 4]
                focus[j] = C_INT
                if r < 0.8:
                    vs = [rng.choice(ints) for _ in range(rng.choice([1, 1, 2, 3]))]
                    t = ["lit", vs, ["cls", C_INT]]
                else:
                    t = ["cls", rng.choice([C_INT, C_OBJECT])]
            elif r < 0.6 and not kwdep:
                t = gen_applicable_type(rng, ew, focus[j]) if rng.random() < 0.8 else gen_dep_type(rng, ew, focus[j])
            else:
                supers = [c for c in range(w.n) if w.tables_cache["sub"][focus[j]][c]]
                t = ["cls", rng.choice(supers + [C_INT, C_STR])]
            params.append({"name": j, "kind": "pk", "req": True, "ty": t})
        if opt_pos:
            params.append({"name": npos, "kind": "pk", "req": False, "ty": ["cls", C_OBJECT]})
        if opt_kw:
            # the keyword-only parameter is itself value-dependent now and then (it sits after an optional
            # positional, or alone: the supplied arguments are then not a prefix of the declared parameters)
            tk = ["cls", C_OBJECT]
            if kw_focus is not None and rng.random() < (0.85 if kwdep else 0.6):
                tk = gen_applicable_type(rng, ew, kw_focus, allow_combo=False)
            params.append({"name": 90, "kind": "ko", "req": False, "ty": tk})
        body = ["ret"]
        if rng.random() < (0.5 if steer == "literals" else 0.3):
            body = ["callNext", [["p", j] for j in range(npos)]]
        defs.append({"id": i, "code": 100 + i, "isMethod": False, "prio": rng.choice([0, 0, 0, 0, 1, -1]), "params": params, "body": body})
    # now and then a sibling that differs from another method ONLY in the bound of one value-dependent parameter
    # (the same values / the same condition with the same parameters): the two are different types
    rebound = None
    if rng.random() < 0.3:
        # (Literals and user conditions: the built-in string / dict checks are written for their own bound only)
        cands = [(d, p) for d in defs for p in d["params"]
                 if (p["ty"][0] == "lit" or (p["ty"][0] == "fdep" and p["ty"][1] < 100)) and p["kind"] != "ko" and p["name"] < npos]
        if cands:
            d0, p0 = rng.choice(cands)
            supers = [c for c in range(w.n) if w.tables_cache["sub"][focus[p0["name"]]][c]]
            alts = [["cls", c] for c in supers if ["cls", c] != p0["ty"][-1]]
            if alts:
                nd = json.loads(json.dumps(d0))
                nd["id"], nd["code"] = len(defs), 100 + len(defs)
                for q in nd["params"]:
                    if q["name"] == p0["name"]:
                        q["ty"] = p0["ty"][:-1] + [rng.choice(alts)]
                defs.append(nd)
                nmeth += 1
                # values of both bounds are then called with
                rebound = (p0["name"], [b[1] for b in (p0["ty"][-1], nd["params"][[q["name"] for q in nd["params"]].index(p0["name"])]["ty"][-1]) if b[0] == "cls"])
    # arguments: every pool value once (identity!), plus instances of the user classes
    args = []
    for pi, v in enumerate(POOL):
        args.append({"vid": len(args), "kind": "val", "pool": pi})
    for c in range(NBUILTIN, w.n):
        args.append({"vid": len(args), "kind": "inst", "c": c})
    ops = [["reg", i] for i in range(nmeth)]
    by_cls = {}
    for a in args:
        if a["kind"] == "val":
            by_cls.setdefault(ew.cls_id(POOL[a["pool"]]), []).append(a["vid"])
    for _ in range(rng.randint(4, 12)):
        pos = []
        for j in range(npos):
            cands = by_cls.get(focus[j], []) if rng.random() < 0.85 else list(range(len(args)))
            if focus[j] == C_INT and rng.random() < 0.3:
                cands = cands + by_cls.get(C_BOOL, [])
            if rebound is not None and rebound[0] == j and rng.random() < 0.5:
                cands = [v for c in rebound[1] for v in by_cls.get(c, [])] or cands
            pos.append(rng.choice(cands or list(range(len(args)))))
        extra = list(pos)
        kw = []
        if opt_pos and rng.random() < 0.5:
            extra.append(rng.randrange(len(args)))
        if opt_kw and rng.random() < (0.7 if kw_focus is not None else 0.5):
            kc = by_cls.get(kw_focus, []) if kw_focus is not None and rng.random() < 0.85 else []
            kw = [[90, rng.choice(kc or list(range(len(args))))]]
        ops.append(["call", extra, kw])
        if rng.random() < 0.2:
            ops.append(["call", list(extra), list(kw)])
        if (opt_pos or opt_kw) and rng.random() < 0.4:
            # the same dispatched values in the other shape
            ops.append(["call", list(pos) if len(extra) > len(pos) or kw else extra + ([rng.randrange(len(args))] if opt_pos else []), []])
    alltys = []
    for d in defs:
        for p in d["params"]:
            if p["ty"] not in alltys:
                alltys.append(p["ty"])
    tyrank = list(alltys)
    rng.shuffle(tyrank)
    hrank = list(range(nmeth))
    rng.shuffle(hrank)
    sc = {"defs": defs, "args": args, "ops": ops, "tyrank_desc": tyrank, "hrank": hrank, "allowReplacement": True}
    return w, ew, sc


def to_model_dep(w, ew, sc, vals):
    """`vals`: the live argument objects (FnWorld.vals), so that user conditions can be tabulated on them"""
    margs = []
    for a, v in zip(sc["args"], vals):
        e = ew.enc(v)
        t = ["cls", e["cls"]]
        margs.append({"vid": a["vid"], "cls": t, "subtler": t, "val": e})
    fds = []
    for d in sc["defs"]:
        for p in d["params"]:
            all_fdeps(p["ty"], fds)
    chk, seen = [], set()
    n_logged = len(ew.pred_log)
    for d in fds:
        k = json.dumps(d[:3])
        if k in seen:
            continue
        seen.add(k)
        T = ew.ty(d)
        for vid, v in enumerate(ew.by_vid):
            chk.append([d[1], d[2], vid, tri(lambda: T.check(v))])
    del ew.pred_log[n_logged:]
    metas, kinds = [], {}
    for c in w.classes:
        metas.append(kinds.setdefault(type(c), len(kinds)))
    defs = [{**d, "params": [{**p, "ty": ew.tyj(p["ty"])} for p in d["params"]]} for d in sc["defs"]]
    return {
        "layer": "F", "hier": w.tables_cache, "meta": metas, "chk": chk,
        "tyrank": [ew.tyj(t) for t in sc["tyrank_desc"]], "hrank": sc["hrank"],
        "defs": defs, "args": margs, "ops": sc["ops"], "allowReplacement": True,
    }
