import Ovldverif.Spec.CacheSpec
import Ovldverif.Model.MultiMap
/-!
# The concrete resolution plan of `MultiTypeMap` satisfies `PlanOK`

Every candidate lands in exactly one rank of `_pull`, so when registered handlers have pairwise distinct
identities and pairwise distinct code objects, the code objects of different ranks are distinct; and the
codes of every rank are among the codes `mro` records in `self.all[key]`.
-/
set_option autoImplicit false
namespace Ovld

/-! ## generic list facts -/

/-- a function whose image list has no duplicates is injective on the list -/
theorem eq_of_nodup_map {α β : Type} (f : α → β) :
    ∀ (l : List α), (l.map f).Nodup → ∀ a ∈ l, ∀ b ∈ l, f a = f b → a = b
  | [], _, _, ha, _, _, _ => by cases ha
  | x :: l, h, a, ha, b, hb, e => by
    rw [List.map_cons, List.nodup_cons] at h
    rcases List.mem_cons.mp ha with rfl | ha'
    · rcases List.mem_cons.mp hb with rfl | hb'
      · rfl
      · exact absurd (e ▸ List.mem_map_of_mem hb') h.1
    · rcases List.mem_cons.mp hb with rfl | hb'
      · exact absurd (e ▸ List.mem_map_of_mem ha') h.1
      · exact eq_of_nodup_map f l h.2 a ha' b hb' e

/-! ## step 1: the codes of the ranks -/

theorem rankCodes_mkRanks (ms : List Meth) (gs : List (List Cand)) :
    rankCodes (mkRanks ms gs) = (gs.flatten.map (·.id)).filterMap (codeOf ms) := by
  induction gs with
  | nil => rfl
  | cons g gs ih =>
    have ih' : List.flatMap (·.codes) (mkRanks ms gs)
        = (gs.flatten.map (·.id)).filterMap (codeOf ms) := ih
    simp only [rankCodes, mkRanks, List.flatMap_cons, List.flatten_cons, List.map_append,
      List.filterMap_append, ih']

/-! ## step 2: `_pull` puts every candidate in at most one rank -/

theorem pull_spec (f : Nat) : ∀ (cands : List Cand) (processed : List Nat),
    (cands.map (·.id)).Nodup →
    ((pull f cands processed).flatten.map (·.id)).Nodup ∧
    ∀ c ∈ (pull f cands processed).flatten, c ∈ cands ∧ c.id ∉ processed := by
  induction f with
  | zero => intro cands processed _; simp [pull]
  | succ f ih =>
    intro cands processed hnd
    rw [pull]
    have hsub : (cands.filter (fun c => !processed.contains c.id)).Sublist cands :=
      List.filter_sublist
    have hmem : ∀ c ∈ cands.filter (fun c => !processed.contains c.id),
        c ∈ cands ∧ c.id ∉ processed := by
      intro c hc
      have := List.mem_filter.mp hc
      refine ⟨this.1, ?_⟩
      simpa using this.2
    generalize cands.filter (fun c => !processed.contains c.id) = l at hsub hmem
    cases l with
    | nil => simp
    | cons c1 rest =>
      dsimp only
      have hnd1 : ((c1 :: rest).map (·.id)).Nodup := (hsub.map _).nodup hnd
      rw [List.map_cons, List.nodup_cons] at hnd1
      obtain ⟨hc1, hndr⟩ := hnd1
      have hex : (rest.filter (fun c2 => !dominates c1 c2)).Sublist rest := List.filter_sublist
      generalize rest.filter (fun c2 => !dominates c1 c2) = extra at hex
      obtain ⟨ih1, ih2⟩ := ih rest (processed ++ extra.map (·.id)) hndr
      rw [List.flatten_cons]
      generalize (pull f rest (processed ++ extra.map (·.id))).flatten = later at ih1 ih2
      have hrest : ∀ c ∈ rest, c.id ≠ c1.id := fun c hc e =>
        hc1 (e ▸ List.mem_map_of_mem hc)
      constructor
      · rw [List.map_append, List.nodup_append]
        refine ⟨?_, ih1, ?_⟩
        · rw [List.map_cons, List.nodup_cons]
          refine ⟨?_, (hex.map _).nodup hndr⟩
          intro h
          obtain ⟨c, hc, e⟩ := List.mem_map.mp h
          exact hrest c (hex.subset hc) e
        · intro a ha b hb e
          subst e
          obtain ⟨c, hc, e⟩ := List.mem_map.mp hb
          obtain ⟨hcr, hcp⟩ := ih2 c hc
          rcases List.mem_cons.mp ha with h | h
          · exact hrest c hcr (e.trans h)
          · exact hcp (List.mem_append_right _ (e ▸ h))
      · intro c hc
        rcases List.mem_append.mp hc with h | h
        · rcases List.mem_cons.mp h with rfl | h
          · exact hmem _ List.mem_cons_self
          · exact hmem _ (List.mem_cons_of_mem _ (hex.subset h))
        · obtain ⟨hcr, hcp⟩ := ih2 c h
          exact ⟨(hmem _ (List.mem_cons_of_mem _ hcr)).1,
            fun hp => hcp (List.mem_append_left _ hp)⟩

/-! ## step 4: `codeOf` is injective on ids that have a code -/

theorem codeOf_some {ms : List Meth} {id c : Nat} (h : codeOf ms id = some c) :
    ∃ m ∈ ms, m.id = id ∧ m.code = c := by
  unfold codeOf findMeth at h
  split at h
  · rename_i m hm
    refine ⟨m, List.mem_of_find?_eq_some hm, ?_, ?_⟩
    · have := List.find?_some hm
      exact eq_of_beq this
    · split at h
      · exact Option.some.inj h
      · cases h
  · cases h

theorem codeOf_inj (ms : List Meth) (hcode : (ms.map (·.code)).Nodup) {a b c : Nat}
    (ha : codeOf ms a = some c) (hb : codeOf ms b = some c) : a = b := by
  obtain ⟨m1, hm1, rfl, e1⟩ := codeOf_some ha
  obtain ⟨m2, hm2, rfl, e2⟩ := codeOf_some hb
  rw [eq_of_nodup_map (·.code) ms hcode m1 hm1 m2 hm2 (e1.trans e2.symm)]

theorem codes_nodup_of_ids (ms : List Meth) (hcode : (ms.map (·.code)).Nodup) (l : List Nat)
    (h : l.Nodup) : (l.filterMap (codeOf ms)).Nodup :=
  List.Pairwise.filterMap (R := (· ≠ ·)) (S := (· ≠ ·)) (codeOf ms)
    (fun _ _ hne _ hb _ hb' e => hne (codeOf_inj ms hcode hb (e ▸ hb'))) h

/-! ## the plan, given that the candidate ids are distinct -/

theorem sortCands_ids_nodup (cs : List Cand) (h : (cs.map (·.id)).Nodup) :
    ((sortCands cs).map (·.id)).Nodup :=
  ((List.mergeSort_perm cs _).map (·.id)).nodup_iff.mpr h

theorem plan_ok_of_cands (cfg : Cfg) (ms : List Meth) (hcode : (ms.map (·.code)).Nodup)
    (hc : ∀ k cs, candidates cfg ms k = some cs → (cs.map (·.id)).Nodup) :
    PlanOK (plan cfg ms) := by
  constructor
  · intro k
    unfold plan
    cases h : candidates cfg ms k with
    | none => exact List.nodup_nil
    | some cs =>
      dsimp only
      rw [rankCodes_mkRanks]
      exact codes_nodup_of_ids ms hcode _
        (pull_spec _ _ [] (sortCands_ids_nodup cs (hc k cs h))).1
  · intro k
    unfold plan
    cases h : candidates cfg ms k with
    | none => intro c hc'; cases hc'
    | some cs =>
      dsimp only
      rw [rankCodes_mkRanks]
      intro c hc'
      obtain ⟨id, hid', hco⟩ := List.mem_filterMap.mp hc'
      obtain ⟨cand, hcand, rfl⟩ := List.mem_map.mp hid'
      have hs := ((pull_spec _ _ [] (sortCands_ids_nodup cs (hc k cs h))).2 cand hcand).1
      exact List.mem_filterMap.mpr ⟨cand, hs, hco⟩

/-! ## step 3: the candidate ids are distinct -/

theorem dedupTy_nodup : ∀ l : List Ty, (dedupTy l).Nodup
  | [] => List.nodup_nil
  | t :: ts => by
    rw [dedupTy]
    split
    · exact dedupTy_nodup ts
    · rename_i h
      rw [List.nodup_cons]
      exact ⟨by simpa using h, dedupTy_nodup ts⟩

theorem slotTypes_nodup (cfg : Cfg) (ms : List Meth) (s : Slot) : (slotTypes cfg ms s).Nodup := by
  unfold slotTypes
  exact (List.mergeSort_perm _ _).nodup_iff.mpr
    ((List.reverse_perm _).nodup_iff.mpr (dedupTy_nodup _))

theorem batches_spec {α : Type} [DecidableEq α] (pred : α → List α) (f : Nat) :
    ∀ (rem done : List α), rem.Nodup →
      (batches pred f rem done).flatten.Nodup ∧ ∀ x ∈ (batches pred f rem done).flatten, x ∈ rem := by
  induction f with
  | zero => intro rem done _; simp [batches]
  | succ f ih =>
    intro rem done hnd
    rw [batches]
    have hr : (ready pred rem done).Sublist rem := List.filter_sublist
    generalize ready pred rem done = r at hr
    split
    · simp
    · have hnd' : (rem.filter (fun v => v ∉ r)).Nodup := (List.filter_sublist).nodup hnd
      obtain ⟨ih1, ih2⟩ := ih (rem.filter (fun v => v ∉ r)) (done ++ r) hnd'
      rw [List.flatten_cons]
      generalize (batches pred f (rem.filter (fun v => v ∉ r)) (done ++ r)).flatten = later at ih1 ih2
      constructor
      · rw [List.nodup_append]
        refine ⟨hr.nodup hnd, ih1, ?_⟩
        intro a ha b hb e
        subst e
        have := (List.mem_filter.mp (ih2 a hb)).2
        simp at this
        exact this ha
      · intro x hx
        rcases List.mem_append.mp hx with h | h
        · exact hr.subset h
        · exact (List.mem_filter.mp (ih2 x h)).1

theorem flatMap_tag_fst {α β : Type} (g : Nat → β) : ∀ (l : List (List α × Nat)),
    (l.flatMap (fun (b, i) => b.map (fun t => (t, g i)))).map (·.1) = (l.map (·.1)).flatten
  | [] => rfl
  | (b, i) :: l => by
    rw [List.flatMap_cons, List.map_append, flatMap_tag_fst g l, List.map_cons, List.flatten_cons,
      List.map_map]
    congr 1
    exact List.map_id' b

theorem levels_fst_nodup (H : Hier) (cls : Ty) (avail : List Ty) (lv : List (Ty × Nat))
    (hav : avail.Nodup) (h : levels H cls avail = some lv) : (lv.map (·.1)).Nodup := by
  unfold levels sortTypes at h
  dsimp only at h
  split at h
  · cases h
  · rename_i bs hbs
    split at hbs
    · cases Option.some.inj hbs
      cases Option.some.inj h
      rw [flatMap_tag_fst (fun i => _ - 1 - i), List.zipIdx_map_fst]
      exact (batches_spec _ _ _ _ ((List.filter_sublist).nodup hav)).1
    · cases hbs

theorem tmLookup_fst_nodup (cfg : Cfg) (ms : List Meth) (hid : (ms.map (·.id)).Nodup)
    (s : Slot) (cls : Ty) (r : List (Nat × Nat)) (h : tmLookup cfg ms s cls = some r) :
    (r.map (·.1)).Nodup := by
  unfold tmLookup at h
  split at h
  · cases h
  · rename_i lv hlv
    cases Option.some.inj h
    have hlvn := levels_fst_nodup _ _ _ _ (slotTypes_nodup cfg ms s) hlv
    rw [List.map_flatMap]
    show List.Pairwise (· ≠ ·) _
    rw [List.pairwise_flatMap]
    constructor
    · rintro ⟨t, l⟩ _
      dsimp only
      rw [List.map_map]
      exact ((List.filter_sublist (l := ms)).map _).nodup hid
    · refine (List.pairwise_map.mp hlvn).imp ?_
      rintro ⟨t1, l1⟩ ⟨t2, l2⟩ hne x hx y hy e
      dsimp only at hx hy hne
      rw [List.map_map] at hx hy
      obtain ⟨m1, hm1, rfl⟩ := List.mem_map.mp hx
      obtain ⟨m2, hm2, e2⟩ := List.mem_map.mp hy
      obtain ⟨hm1, ht1⟩ := List.mem_filter.mp hm1
      obtain ⟨hm2, ht2⟩ := List.mem_filter.mp hm2
      have : m2 = m1 := eq_of_nodup_map (·.id) ms hid m2 hm2 m1 hm1 (e2.trans e.symm)
      subst this
      have e1 := eq_of_beq ht1
      have e2 := eq_of_beq ht2
      exact hne (Option.some.inj (e1.symm.trans e2))

theorem mapM_option_forall {α β : Type} (f : α → Option β) (P : β → Prop)
    (hf : ∀ a b, f a = some b → P b) :
    ∀ (l : List α) (rs : List β), l.mapM f = some rs → ∀ r ∈ rs, P r
  | [], rs, h, r, hr => by
    rw [List.mapM_nil] at h
    cases Option.some.inj h
    cases hr
  | a :: l, rs, h, r, hr => by
    rw [List.mapM_cons] at h
    cases hfa : f a with
    | none => rw [hfa] at h; cases h
    | some b =>
      cases hl : l.mapM f with
      | none => rw [hfa, hl] at h; cases h
      | some bs =>
        rw [hfa, hl] at h
        cases Option.some.inj h
        rcases List.mem_cons.mp hr with rfl | hr'
        · exact hf a _ hfa
        · exact mapM_option_forall f P hf l bs hl r hr'

theorem slotResults_fst_nodup (cfg : Cfg) (ms : List Meth) (hid : (ms.map (·.id)).Nodup)
    (k : Key) (rs : List (List (Nat × Nat))) (h : slotResults cfg ms k = some rs) :
    ∀ r ∈ rs, (r.map (·.1)).Nodup := by
  unfold slotResults at h
  refine mapM_option_forall _ _ ?_ k rs h
  rintro ⟨s, cls⟩ b hb
  dsimp only at hb
  split at hb
  · cases hb
  · rename_i r hr
    cases Option.some.inj hb
    exact ((List.filter_sublist).map _).nodup (tmLookup_fst_nodup cfg ms hid s cls r hr)

theorem candIds_nodup (rs : List (List (Nat × Nat))) (h : ∀ r ∈ rs, (r.map (·.1)).Nodup) :
    (candIds rs).Nodup := by
  unfold candIds
  split
  · exact List.nodup_nil
  · exact (List.filter_sublist).nodup (h _ List.mem_cons_self)

theorem zeroArgIds_nodup (ms : List Meth) (hid : (ms.map (·.id)).Nodup) : (zeroArgIds ms).Nodup :=
  ((List.filter_sublist (l := ms)).map _).nodup hid

theorem candidates_nodup (cfg : Cfg) (ms : List Meth) (hid : (ms.map (·.id)).Nodup)
    (k : Key) (cs : List Cand) (h : candidates cfg ms k = some cs) : (cs.map (·.id)).Nodup := by
  unfold candidates at h
  split at h
  · cases h
  · rename_i rs hrs
    cases Option.some.inj h
    rw [List.map_map]
    have : ((fun c : Cand => c.id) ∘ mkCand ms rs) = id := rfl
    rw [this, List.map_id]
    refine (List.mergeSort_perm _ _).nodup_iff.mpr ?_
    split
    · exact zeroArgIds_nodup ms hid
    · exact candIds_nodup rs (slotResults_fst_nodup cfg ms hid k rs hrs)

theorem plan_ok (cfg : Cfg) (ms : List Meth)
    (hid : (ms.map (·.id)).Nodup) (hcode : (ms.map (·.code)).Nodup) :
    PlanOK (plan cfg ms) :=
  plan_ok_of_cands cfg ms hcode (candidates_nodup cfg ms hid)

end Ovld
