import random, sys
import ovld.typemap as tm
from ovld import Ovld
exec(open('p_c02.py').read().split("def gen(seed):")[0].split("import ovld.typemap as tm")[1].replace("from ovld import Ovld",""))  # PermSet injection
def mkfn(j, ts, nopt):
    ar = len(ts)
    params = [f"a{i}: T{i}" + (" = None" if i >= ar - nopt else "") for i in range(ar)]
    src = f"def m{j}({', '.join(params)}):\n    return {j}\n"
    g = {f"T{i}": t for i, t in enumerate(ts)}
    exec(compile(src, f"<g{j}>", "exec"), g)
    return g[f"m{j}"]
def outcome(F, call):
    try: return ("ran", F(*[c() for c in call]))
    except TypeError as e:
        s = str(e); return ("amb",) if s.startswith("Ambig") else ("nomethod",) if (s.startswith("No method") or "positional arg" in s) else ("TE", s[:40])
    except Exception as e: return ("EXC", type(e).__name__, str(e)[:40])
bad = 0; tot = 0; d21 = 0
for seed in range(int(sys.argv[1]), int(sys.argv[2])):
    rnd = random.Random(seed)
    n = rnd.randint(2, 5); classes = []
    for i in range(n):
        k = min(rnd.choice([0,1,1,2]), len(classes)); bases = tuple(rnd.sample(classes, k))
        try: c = type(f"K{i}", bases or (object,), {})
        except TypeError: c = type(f"K{i}", (object,), {})
        classes.append(c)
    types = classes + [object]
    sigs = [ (tuple(rnd.choice(types) for _ in range(rnd.choice([1,1,2]))), rnd.choice([0,0,1]), 0) for _ in range(3)]
    sigs += [(s[0] + (rnd.choice(types),), s[1], 1) for s in sigs[:1]]
    F = Ovld(name="F"); live = []  # list of (j, sig, fn) chronological
    j = 0; ops = []
    for step in range(rnd.randint(3, 10)):
        r = rnd.random()
        if r < 0.5 or not live:
            sg = rnd.choice(sigs); fn = mkfn(j, sg[0], sg[2]); F.register(fn, priority=sg[1]); live.append((j, sg, fn)); ops.append(("reg", j, sg)); j += 1
        elif r < 0.7:
            x = rnd.choice(live); F.unregister(x[2]); live.remove(x); ops.append(("unreg", x[0]))
        else:
            call = tuple(rnd.choice(classes) for _ in range(rnd.choice([1, 2]))); outcome(F, call); ops.append(("call",))
    G = Ovld(name="G")
    for (jj, sg, fn) in live: G.register(mkfn(jj, sg[0], sg[2]), priority=sg[1])
    for call in [tuple(rnd.choice(classes) for _ in range(rnd.choice([1,2]))) for _ in range(6)]:
        tot += 1
        a, b = outcome(F, call), outcome(G, call)
        if a != b:
            # D21 class: some unregister happened of a method whose signature had been registered more than once
            regs = {}; cls21 = False
            for op in ops:
                if op[0] == "reg": regs.setdefault(op[2], []).append(op[1])
                if op[0] == "unreg":
                    for sg, js in regs.items():
                        if op[1] in js and len(js) > 1: cls21 = True
            if cls21: d21 += 1
            else:
                bad += 1
                if bad < 6: print("MISMATCH seed", seed, [c.__name__ for c in call], a, b, ops)
print("total", tot, "mismatch outside D21 class", bad, "inside D21 class", d21)
