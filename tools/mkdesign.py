"""Development-time helper: refresh the generated blocks of DESIGN.md (between <!-- GEN:x --> markers) from
tools/mkmanifest.py's claim table, known_findings.json and seeded/*/meta.json.  Hand-written text is untouched."""
import glob, json, re, runpy, os
src = open('/verif/tools/mkmanifest.py').read()
ns = {}
exec(src.split("checks = []")[0], ns)
CLAIMED = ns["CLAIMED"]
doc = open('/verif/DESIGN.md').read()

def block(name, text):
    global doc
    a, b = f"<!-- GEN:{name} -->", f"<!-- /GEN:{name} -->"
    new = f"{a}\n{text.rstrip()}\n{b}"
    if a in doc:
        doc = re.sub(re.escape(a) + r".*?" + re.escape(b), lambda m: new, doc, flags=re.S)
    else:
        raise SystemExit(f"marker {a} missing")

def wrap(s, width=100):
    import textwrap
    return "\n".join(textwrap.fill(p, width) for p in s.split("\n"))

for pid, c in CLAIMED.items():
    block(f"asbuilt-{pid}", "**As built (what the check claims and does).** " + wrap(c["text"]) + "\n\n**Limits / labelled partial.** " + wrap(c["note"].replace(ns["TB"], "Trusted base: section 5.")))

k = json.load(open('/verif/known_findings.json'))
rows = ["| property | commit | defect | what failed |", "|---|---|---|---|"]
for f in k["fixed"]:
    what = f["line"].split(f["commit"], 1)[1].strip()
    rows.append(f"| {f['property']} | {f['commit']} | {f['defect']} | {what} |")
block("fixed", "\n".join(rows))
rows = ["| property | class id | what fails |", "|---|---|---|"]
for f in k["findings"]:
    rows.append(f"| {f['property']} | {f['id']} | {f['what'][:260]} |")
block("known", "\n".join(rows))
rows = ["| seeded change | property | what it needs to show | caught by |", "|---|---|---|---|"]
for d in sorted(glob.glob('/verif/seeded/*/meta.json')):
    m = json.load(open(d))
    name = os.path.basename(os.path.dirname(d))
    cb = "; ".join(f"**{p}**: {t}" for p, t in m["caught_by"].items())
    rows.append(f"| `{name}` | {m['property']} | {m['needs']} | {cb} |")
block("seeded", "\n".join(rows))
open('/verif/DESIGN.md', 'w').write(doc)
print("ok")
