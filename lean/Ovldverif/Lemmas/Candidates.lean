import Ovldverif.Spec.Resolve
import Ovldverif.Spec.Runs
import Ovldverif.Lemmas.LevelsStatic
import Ovldverif.Lemmas.PlanOK
/-!
# The candidate list of `MultiTypeMap.mro` on a static table (steps 1 and 2 of C02)

For a table whose declared types are plain classes and a well-formed key: `candidates` is defined, its
elements correspond one-to-one (by handler id) to the methods applicable to the key, and the specificity
vector of a candidate is the list of levels of its declared types in the slots of the key.
-/
set_option autoImplicit false
namespace Ovld

/-! ## generic list facts -/

/-- in an association list with distinct keys, `find?` on a key returns its pair -/
theorem find_fst_of_mem {α β : Type} [DecidableEq α] : ∀ (l : List (α × β)), (l.map (·.1)).Nodup →
    ∀ (a : α) (b : β), (a, b) ∈ l → l.find? (fun p => p.1 == a) = some (a, b)
  | [], _, _, _, h => by cases h
  | p :: l, nd, a, b, h => by
    rw [List.map_cons, List.nodup_cons] at nd
    rw [List.find?_cons]
    rcases List.mem_cons.mp h with e | e
    · subst e; simp
    · have hne : p.1 ≠ a := by
        intro e'
        apply nd.1
        rw [e']
        exact List.mem_map.mpr ⟨(a, b), e, rfl⟩
      have : (p.1 == a) = false := by simpa using hne
      rw [this]
      exact find_fst_of_mem l nd.2 a b e

theorem mapM_some_of_forall {α β : Type} (f : α → Option β) (g : α → β) :
    ∀ (l : List α), (∀ a ∈ l, f a = some (g a)) → l.mapM f = some (l.map g)
  | [], _ => by simp
  | a :: l, h => by
    rw [List.mapM_cons, h a List.mem_cons_self,
      mapM_some_of_forall f g l (fun x hx => h x (List.mem_cons_of_mem _ hx))]
    rfl

theorem singleton_of_nodup_all_eq {α : Type} (l : List α) (nd : l.Nodup) (m : α) (hm : m ∈ l)
    (h : ∀ x ∈ l, x = m) : l = [m] := by
  match l, nd, hm, h with
  | [a], _, _, h => rw [h a List.mem_cons_self]
  | a :: b :: l, nd, _, h =>
    exfalso
    have ha := h a List.mem_cons_self
    have hb := h b (List.mem_cons_of_mem _ List.mem_cons_self)
    rw [List.nodup_cons] at nd
    apply nd.1
    rw [ha, ← hb]
    exact List.mem_cons_self

/-! ## step 1: one slot -/

theorem tyAt_mem_params (m : Meth) (s : Slot) (t : Ty) (h : m.tyAt s = some t) : (s, t) ∈ m.params := by
  unfold Meth.tyAt at h
  split at h
  · rename_i p hp
    cases Option.some.inj h
    have hm := List.mem_of_find?_eq_some hp
    have e0 := List.find?_some hp
    have e : p.1 = s := by simpa using e0
    rw [← e]
    exact hm
  · cases h

theorem dedupTy_mem (t : Ty) : ∀ l : List Ty, t ∈ dedupTy l ↔ t ∈ l
  | [] => Iff.rfl
  | a :: l => by
    rw [dedupTy]
    split
    · rename_i h
      rw [dedupTy_mem t l, List.mem_cons]
      constructor
      · exact Or.inr
      · rintro (e | e)
        · subst e; exact (dedupTy_mem _ l).mp (by simpa using h)
        · exact e
    · rw [List.mem_cons, List.mem_cons, dedupTy_mem t l]

section
variable (cfg : Cfg) (ms : List Meth)

theorem slotTypes_mem (s : Slot) (t : Ty) : t ∈ slotTypes cfg ms s ↔ ∃ m ∈ ms, m.tyAt s = some t := by
  unfold slotTypes
  rw [(List.mergeSort_perm _ _).mem_iff, List.mem_reverse, dedupTy_mem, List.mem_reverse, List.mem_filterMap]

theorem slotTypes_allCls (hst : staticTable ms = true) (s : Slot) : allCls (slotTypes cfg ms s) := by
  intro t ht
  obtain ⟨m, hm, hty⟩ := (slotTypes_mem cfg ms s t).mp ht
  have hp := tyAt_mem_params m s t hty
  unfold staticTable at hst
  have h1 := (List.all_eq_true.mp hst) m hm
  have h2 := (List.all_eq_true.mp h1) (s, t) hp
  cases t <;> simp [Ty.isCls] at h2
  exact ⟨_, rfl⟩

/-- the `{handler: level}` dict of a slot, given the levels of the registered types -/
def tmRes (s : Slot) (lv : List (Ty × Nat)) : List (Nat × Nat) :=
  lv.flatMap (fun (t, l) => (ms.filter (fun m => m.tyAt s == some t)).map (fun m => (m.id, l)))

theorem mem_tmRes (s : Slot) (lv : List (Ty × Nat)) (id l : Nat) :
    (id, l) ∈ tmRes ms s lv ↔ ∃ t, (t, l) ∈ lv ∧ ∃ m ∈ ms, m.tyAt s = some t ∧ m.id = id := by
  unfold tmRes
  rw [List.mem_flatMap]
  constructor
  · rintro ⟨⟨t, l'⟩, hl, hm⟩
    dsimp only at hm
    obtain ⟨m, hmf, e⟩ := List.mem_map.mp hm
    obtain ⟨hm', ht⟩ := List.mem_filter.mp hmf
    cases e
    exact ⟨t, hl, m, hm', eq_of_beq ht, rfl⟩
  · rintro ⟨t, hl, m, hm, ht, rfl⟩
    refine ⟨(t, l), hl, ?_⟩
    dsimp only
    exact List.mem_map.mpr ⟨m, List.mem_filter.mpr ⟨hm, by rw [ht]; exact beq_self_eq_true _⟩, rfl⟩

/-- levels of the registered types of the slot of a key entry (empty on `CycleError`) -/
def keyLv (e : Slot × Ty) : List (Ty × Nat) := (levels cfg.H e.2 (slotTypes cfg ms e.1)).getD []

theorem levels_fst_perm (H : Hier) (wf : H.WF) (anti : H.Antisym) (c : Nat) (avail : List Ty)
    (hs : allCls avail) (nd : avail.Nodup) (lv : List (Ty × Nat)) (h : levels H (.cls c) avail = some lv) :
    (lv.map (·.1)).Perm (applicableTys H (.cls c) avail) := by
  rw [levels_eq H wf anti c avail hs nd] at h
  cases h
  rw [lvOf_fst]
  exact batchesOf_perm H wf anti c avail hs nd

/-- what is needed about the levels in the slot of one key entry -/
structure SlotOK (e : Slot × Ty) : Prop where
  lv_eq : levels cfg.H e.2 (slotTypes cfg ms e.1) = some (keyLv cfg ms e)
  nodup : ((keyLv cfg ms e).map (·.1)).Nodup
  mem : ∀ t, t ∈ (keyLv cfg ms e).map (·.1) ↔
    (∃ m ∈ ms, m.tyAt e.1 = some t) ∧ subclasscheck cfg.H e.2 t = true
  cls : ∀ t ∈ (keyLv cfg ms e).map (·.1), ∃ d, t = .cls d
  mono : ∀ x y lx ly, (Ty.cls x, lx) ∈ keyLv cfg ms e → (Ty.cls y, ly) ∈ keyLv cfg ms e →
    cfg.H.sub x y = true → x ≠ y → lx > ly

theorem slotOK_of_cls (wf : cfg.H.WF) (anti : cfg.H.Antisym) (hst : staticTable ms = true)
    (e : Slot × Ty) (he : e.2.isCls = true) : SlotOK cfg ms e := by
  obtain ⟨s, t⟩ := e
  cases t <;> simp [Ty.isCls] at he
  rename_i c
  have hs := slotTypes_allCls cfg ms hst s
  have nd := slotTypes_nodup cfg ms s
  obtain ⟨lv, hlv⟩ := levels_defined cfg.H wf anti c _ hs nd
  have hk : keyLv cfg ms (s, .cls c) = lv := by
    unfold keyLv; dsimp only; rw [hlv]; rfl
  have hp := levels_fst_perm cfg.H wf anti c _ hs nd lv hlv
  have hmem : ∀ t, t ∈ lv.map (·.1) ↔
      (∃ m ∈ ms, m.tyAt s = some t) ∧ subclasscheck cfg.H (.cls c) t = true := by
    intro t
    rw [hp.mem_iff]
    unfold applicableTys
    rw [List.mem_filter, slotTypes_mem]
  refine ⟨by rw [hk]; exact hlv, ?_, ?_, ?_, ?_⟩
  · rw [hk]; exact (levels_mem cfg.H wf anti c _ hs nd lv hlv).1
  · rw [hk]; exact hmem
  · rw [hk]
    intro t ht
    rw [hp.mem_iff] at ht
    exact hs t (List.mem_filter.mp ht).1
  · rw [hk]
    intro x y lx ly hx hy hsub hne
    exact levels_mono cfg.H wf anti c _ hs nd lv hlv x y lx ly hx hy hsub hne

theorem tmLookup_eq (e : Slot × Ty) (h : SlotOK cfg ms e) :
    tmLookup cfg ms e.1 e.2 = some (tmRes ms e.1 (keyLv cfg ms e)) := by
  unfold tmLookup
  rw [h.lv_eq]
  rfl

/-! ## step 2: the candidates -/

/-- the filtered `{handler: level}` dict of one key entry -/
def slotRes (na : Nat) (nm : List Nat) (e : Slot × Ty) : List (Nat × Nat) :=
  (tmRes ms e.1 (keyLv cfg ms e)).filter (fun p => sigOK ms na nm p.1)

theorem slotResults_eq (k : Key) (hall : ∀ e ∈ k, SlotOK cfg ms e) :
    slotResults cfg ms k = some (k.map (slotRes cfg ms (keyNargs k) (keyNames k))) := by
  unfold slotResults
  apply mapM_some_of_forall
  rintro ⟨s, cls⟩ he
  dsimp only
  rw [tmLookup_eq cfg ms (s, cls) (hall _ he)]
  rfl

theorem slotRes_fst_nodup (hid : (ms.map (·.id)).Nodup) (na : Nat) (nm : List Nat) (e : Slot × Ty)
    (h : SlotOK cfg ms e) : ((slotRes cfg ms na nm e).map (·.1)).Nodup :=
  ((List.filter_sublist).map _).nodup (tmLookup_fst_nodup cfg ms hid e.1 e.2 _ (tmLookup_eq cfg ms e h))

theorem mem_candIds (rs : List (List (Nat × Nat))) (hne : rs ≠ []) (id : Nat) :
    id ∈ candIds rs ↔ ∀ r ∈ rs, id ∈ r.map (·.1) := by
  cases rs with
  | nil => exact absurd rfl hne
  | cons r rest =>
    unfold candIds
    simp only [List.mem_filter, List.all_eq_true, List.contains_iff_mem, List.forall_mem_cons]

theorem findMeth_of_mem (hid : (ms.map (·.id)).Nodup) (m : Meth) (hm : m ∈ ms) : findMeth ms m.id = some m := by
  unfold findMeth
  cases h : ms.find? (fun m' => m'.id == m.id) with
  | none =>
    have := List.find?_eq_none.mp h m hm
    simp at this
  | some m' =>
    have hm' := List.mem_of_find?_eq_some h
    have e0 := List.find?_some h
    have e : m'.id = m.id := by simpa using e0
    rw [eq_of_nodup_map (·.id) ms hid m' hm' m hm e]

theorem sigOK_of_mem (hid : (ms.map (·.id)).Nodup) (m : Meth) (hm : m ∈ ms) (k : Key) :
    sigOK ms (keyNargs k) (keyNames k) m.id = arityOK m k := by
  unfold sigOK
  rw [findMeth_of_mem ms hid m hm]
  rfl

theorem applicableTo_iff (k : Key) (m : Meth) :
    applicableTo cfg.H k m = true ↔
      arityOK m k = true ∧ ∀ e ∈ k, ∃ t, m.tyAt e.1 = some t ∧ subclasscheck cfg.H e.2 t = true := by
  unfold applicableTo
  rw [Bool.and_eq_true, List.all_eq_true]
  refine and_congr_right (fun _ => forall_congr' (fun e => forall_congr' (fun _ => ?_)))
  cases m.tyAt e.1 with
  | none => simp
  | some t => simp

/-- which handlers the dict of one key entry holds -/
theorem mem_slotRes (na : Nat) (nm : List Nat) (e : Slot × Ty) (h : SlotOK cfg ms e) (id : Nat) :
    id ∈ (slotRes cfg ms na nm e).map (·.1) ↔
      ∃ m ∈ ms, m.id = id ∧ sigOK ms na nm id = true ∧
        ∃ t, m.tyAt e.1 = some t ∧ subclasscheck cfg.H e.2 t = true := by
  constructor
  · intro hmem
    obtain ⟨⟨id', l⟩, hp, e'⟩ := List.mem_map.mp hmem
    dsimp only at e'
    subst e'
    obtain ⟨hp, hsig⟩ := List.mem_filter.mp hp
    obtain ⟨t, hl, m, hm, hty, hmid⟩ := (mem_tmRes ms e.1 _ id' l).mp hp
    have ht : t ∈ (keyLv cfg ms e).map (·.1) := List.mem_map.mpr ⟨(t, l), hl, rfl⟩
    exact ⟨m, hm, hmid, hsig, t, hty, ((h.mem t).mp ht).2⟩
  · rintro ⟨m, hm, hmid, hsig, t, hty, hsub⟩
    have ht : t ∈ (keyLv cfg ms e).map (·.1) := (h.mem t).mpr ⟨⟨m, hm, hty⟩, hsub⟩
    obtain ⟨⟨t', l⟩, hl, e'⟩ := List.mem_map.mp ht
    dsimp only at e'
    subst e'
    refine List.mem_map.mpr ⟨(id, l), List.mem_filter.mpr ⟨?_, hsig⟩, rfl⟩
    exact (mem_tmRes ms e.1 _ id l).mpr ⟨t', hl, m, hm, hty, hmid⟩

/-- level lookup in an association list (0 when absent) -/
def lvlOf (lv : List (Ty × Nat)) (t : Ty) : Nat :=
  match lv.find? (fun p => p.1 == t) with
  | some p => p.2
  | none => 0

theorem lvlOf_of_mem (lv : List (Ty × Nat)) (nd : (lv.map (·.1)).Nodup) (t : Ty) (l : Nat) (h : (t, l) ∈ lv) :
    lvlOf lv t = l := by
  unfold lvlOf
  rw [find_fst_of_mem lv nd t l h]

theorem lvlIn_of_mem (r : List (Nat × Nat)) (nd : (r.map (·.1)).Nodup) (id l : Nat) (h : (id, l) ∈ r) :
    lvlIn r id = l := by
  unfold lvlIn
  rw [find_fst_of_mem r nd id l h]

theorem lvlIn_slotRes (hid : (ms.map (·.id)).Nodup) (na : Nat) (nm : List Nat) (e : Slot × Ty)
    (h : SlotOK cfg ms e) (m : Meth) (hm : m ∈ ms) (hsig : sigOK ms na nm m.id = true) (t : Ty)
    (hty : m.tyAt e.1 = some t) (hsub : subclasscheck cfg.H e.2 t = true) :
    lvlIn (slotRes cfg ms na nm e) m.id = lvlOf (keyLv cfg ms e) t := by
  have ht : t ∈ (keyLv cfg ms e).map (·.1) := (h.mem t).mpr ⟨⟨m, hm, hty⟩, hsub⟩
  obtain ⟨⟨t', l⟩, hl, e'⟩ := List.mem_map.mp ht
  dsimp only at e'
  subst e'
  rw [lvlOf_of_mem _ h.nodup t' l hl]
  apply lvlIn_of_mem _ (slotRes_fst_nodup cfg ms hid na nm e h)
  exact List.mem_filter.mpr ⟨(mem_tmRes ms e.1 _ m.id l).mpr ⟨t', hl, m, hm, hty, rfl⟩, hsig⟩

/-- the facts about the candidate list that the ranking argument uses -/
structure CandsOK (k : Key) (cs : List Cand) : Prop where
  nodup : (cs.map (·.id)).Nodup
  sound : ∀ c ∈ cs, ∃ m ∈ ms, m.id = c.id ∧ applicableTo cfg.H k m = true ∧ c.prio = m.prio ∧ c.tb = m.tb ∧
    c.spec = k.map (fun e => lvlOf (keyLv cfg ms e) ((m.tyAt e.1).getD default))
  complete : ∀ m ∈ ms, applicableTo cfg.H k m = true → ∃ c ∈ cs, c.id = m.id

theorem mem_candIds_key (hid : (ms.map (·.id)).Nodup) (k : Key) (hne : k ≠ [])
    (hall : ∀ e ∈ k, SlotOK cfg ms e) (id : Nat) :
    id ∈ candIds (k.map (slotRes cfg ms (keyNargs k) (keyNames k))) ↔
      ∃ m ∈ ms, m.id = id ∧ applicableTo cfg.H k m = true := by
  rw [mem_candIds _ (by simpa using hne)]
  simp only [List.forall_mem_map]
  constructor
  · intro h
    obtain ⟨e0, k', rfl⟩ : ∃ e0 k', k = e0 :: k' := by
      cases k with
      | nil => exact absurd rfl hne
      | cons a b => exact ⟨a, b, rfl⟩
    obtain ⟨m, hm, hmid, hsig, _⟩ :=
      (mem_slotRes cfg ms _ _ e0 (hall e0 List.mem_cons_self) id).mp (h e0 List.mem_cons_self)
    refine ⟨m, hm, hmid, (applicableTo_iff cfg _ m).mpr ⟨?_, ?_⟩⟩
    · rw [← sigOK_of_mem ms hid m hm, hmid]; exact hsig
    · intro e he
      obtain ⟨m', hm', hmid', _, ht⟩ := (mem_slotRes cfg ms _ _ e (hall e he) id).mp (h e he)
      have : m' = m := eq_of_nodup_map (·.id) ms hid m' hm' m hm (hmid'.trans hmid.symm)
      subst this
      exact ht
  · rintro ⟨m, hm, hmid, happ⟩ e he
    obtain ⟨har, hsl⟩ := (applicableTo_iff cfg k m).mp happ
    refine (mem_slotRes cfg ms _ _ e (hall e he) id).mpr ⟨m, hm, hmid, ?_, hsl e he⟩
    rw [← hmid, sigOK_of_mem ms hid m hm]; exact har

theorem candidates_ok (hid : (ms.map (·.id)).Nodup) (k : Key) (hne : k ≠ [])
    (hall : ∀ e ∈ k, SlotOK cfg ms e) :
    ∃ cs, candidates cfg ms k = some cs ∧ CandsOK cfg ms k cs := by
  have hrs := slotResults_eq cfg ms k hall
  have hc : candidates cfg ms k = some (((candIds (k.map (slotRes cfg ms (keyNargs k) (keyNames k)))).mergeSort
      (fun a b => cfg.hRank a ≤ cfg.hRank b)).map (mkCand ms (k.map (slotRes cfg ms (keyNargs k) (keyNames k))))) := by
    unfold candidates
    rw [hrs]
    simp only [List.isEmpty_eq_false_iff.mpr hne, Bool.false_eq_true, if_false]
  refine ⟨_, hc, candidates_nodup cfg ms hid k _ hc, ?_, ?_⟩
  · intro c hcm
    obtain ⟨id, hidm, rfl⟩ := List.mem_map.mp hcm
    rw [(List.mergeSort_perm _ _).mem_iff] at hidm
    obtain ⟨m, hm, hmid, happ⟩ := (mem_candIds_key cfg ms hid k hne hall id).mp hidm
    subst hmid
    refine ⟨m, hm, rfl, happ, ?_, ?_, ?_⟩
    · simp only [mkCand, findMeth_of_mem ms hid m hm, Option.getD_some]
    · simp only [mkCand, findMeth_of_mem ms hid m hm, Option.getD_some]
    · simp only [mkCand, List.map_map]
      apply List.map_congr_left
      intro e he
      obtain ⟨har, hsl⟩ := (applicableTo_iff cfg k m).mp happ
      obtain ⟨t, hty, hsub⟩ := hsl e he
      simp only [Function.comp_apply, hty, Option.getD_some]
      exact lvlIn_slotRes cfg ms hid _ _ e (hall e he) m hm
        (by rw [sigOK_of_mem ms hid m hm]; exact har) t hty hsub
  · intro m hm happ
    have : m.id ∈ candIds (k.map (slotRes cfg ms (keyNargs k) (keyNames k))) :=
      (mem_candIds_key cfg ms hid k hne hall m.id).mpr ⟨m, hm, rfl, happ⟩
    exact ⟨mkCand ms _ m.id,
      List.mem_map.mpr ⟨m.id, (List.mergeSort_perm _ _).mem_iff.mpr this, rfl⟩, rfl⟩

end

/-! ## the call without arguments (`k = []`): the candidates are the methods that require no argument -/

theorem arityOK_nil (m : Meth) : arityOK m [] = (m.reqPos == 0 && m.reqNames.isEmpty) := by
  unfold arityOK keyNargs keyNames
  cases h : m.reqNames <;> simp
  cases h0 : m.reqPos <;> simp

theorem applicableTo_nil (H : Hier) (m : Meth) :
    applicableTo H [] m = (m.reqPos == 0 && m.reqNames.isEmpty) := by
  unfold applicableTo
  rw [arityOK_nil, List.all_nil, Bool.and_true]

theorem mem_zeroArgIds (H : Hier) (ms : List Meth) (id : Nat) :
    id ∈ zeroArgIds ms ↔ ∃ m ∈ ms, m.id = id ∧ applicableTo H [] m = true := by
  unfold zeroArgIds
  simp only [List.mem_map, List.mem_filter, applicableTo_nil]
  constructor
  · rintro ⟨m, ⟨hm, h⟩, e⟩; exact ⟨m, hm, e, h⟩
  · rintro ⟨m, hm, e, h⟩; exact ⟨m, ⟨hm, h⟩, e⟩

theorem candidates_nil (cfg : Cfg) (ms : List Meth) :
    candidates cfg ms [] = some (((zeroArgIds ms).mergeSort (fun a b => cfg.hRank a ≤ cfg.hRank b)).map (mkCand ms [])) := by
  rfl

theorem candidates_ok_nil (cfg : Cfg) (ms : List Meth) (hid : (ms.map (·.id)).Nodup) :
    ∃ cs, candidates cfg ms [] = some cs ∧ CandsOK cfg ms [] cs := by
  refine ⟨_, candidates_nil cfg ms, candidates_nodup cfg ms hid [] _ (candidates_nil cfg ms), ?_, ?_⟩
  · intro c hcm
    obtain ⟨id, hidm, rfl⟩ := List.mem_map.mp hcm
    rw [(List.mergeSort_perm _ _).mem_iff] at hidm
    obtain ⟨m, hm, hmid, happ⟩ := (mem_zeroArgIds cfg.H ms id).mp hidm
    subst hmid
    refine ⟨m, hm, rfl, happ, ?_, ?_, rfl⟩
    · simp only [mkCand, findMeth_of_mem ms hid m hm, Option.getD_some]
    · simp only [mkCand, findMeth_of_mem ms hid m hm, Option.getD_some]
  · intro m hm happ
    have : m.id ∈ zeroArgIds ms := (mem_zeroArgIds cfg.H ms m.id).mpr ⟨m, hm, rfl, happ⟩
    exact ⟨mkCand ms _ m.id,
      List.mem_map.mpr ⟨m.id, (List.mergeSort_perm _ _).mem_iff.mpr this, rfl⟩, rfl⟩

theorem candidates_ok_all (cfg : Cfg) (ms : List Meth) (hid : (ms.map (·.id)).Nodup) (k : Key)
    (hall : ∀ e ∈ k, SlotOK cfg ms e) :
    ∃ cs, candidates cfg ms k = some cs ∧ CandsOK cfg ms k cs := by
  by_cases hne : k = []
  · subst hne; exact candidates_ok_nil cfg ms hid
  · exact candidates_ok cfg ms hid k hne hall
end Ovld
