"""Correspondence at function level with value-dependent methods."""
import json, random, sys
from common import run_driver, use_repo
use_repo()
from fngen_dep import gen_dep_fn_scenario, to_model_dep
from fnlevel import FnWorld
from corr_f import canon_model_op

def run(seed, n, steer=None):
    rng = random.Random(seed)
    scs, impls, keep = [], [], []
    for _ in range(n):
        w, ew, sc = gen_dep_fn_scenario(rng, steer=steer if steer else ("literals" if rng.random() < 0.3 else None))
        fw = FnWorld(w, sc, ew=ew)
        m = to_model_dep(w, ew, sc, fw.vals)
        impls.append(fw.run())
        scs.append(m)
        keep.append((w, ew, sc))
    res = run_driver(scs)
    diffs, nops, hist = [], 0, {}
    for i, (r, im) in enumerate(zip(res, impls)):
        if "error" in r:
            diffs.append((i, "driver-error", r["error"])); continue
        for j, (a, b) in enumerate(zip(r["ops"], im)):
            nops += 1
            hist[b["o"][0]] = hist.get(b["o"][0], 0) + 1
            a = canon_model_op(a)
            b2 = {k: v for k, v in b.items() if k in ("o", "t", "nres")}
            if b2["o"] == ["cycle"]:
                a.pop("nres", None); b2.pop("nres", None)
            if a != b2:
                diffs.append((i, j, "model", a, "impl", b2, b.get("msg"), keep[i][2]["ops"][j])); break
    return nops, diffs, hist, keep

if __name__ == "__main__":
    seed = int(sys.argv[1]) if len(sys.argv) > 1 else 0
    n = int(sys.argv[2]) if len(sys.argv) > 2 else 50
    nops, diffs, hist, keep = run(seed, n)
    print("ops", nops, "diffs", len(diffs), hist)
    for d in diffs[:4]:
        print(json.dumps(d, default=str)[:1000])
        print(json.dumps(keep[d[0]][2]["defs"])[:1500])
