import Ovldverif.Spec.Runs
import Ovldverif.Lemmas.CacheInv
import Ovldverif.Lemmas.PlanOK
import Ovldverif.Lemmas.FnInv
/-!
# C20 — each argument-type combination is resolved at most once between changes

`resolve` is the only caller of `mro` / `sort_types` / `typeorder` / `subclasscheck`, hence of the user's class
predicates and hooks.  `MMap.resolvesAt` says whether a lookup runs it; `Fn.nres` counts the lookups of a call
that did.
-/
set_option autoImplicit false
namespace Ovld

/-- a cache hit never resolves and changes nothing -/
theorem C20_hit (cfg : Cfg) (mm : MMap) (ck : CKey Key) (e : Entry) (h : mm.st.cache ck = some e) :
    mm.resolvesAt cfg ck = false := by
  obtain ⟨c, k⟩ := ck
  rw [MMap.resolvesAt_eq]
  cases c <;> simp [resolves, h]

/-- table level: once a lookup has succeeded, the same lookup never resolves again, whatever other lookups
    happen in between -/
theorem C20_table (cfg : Cfg) (ms : List Meth) (hd : DistinctHandlers ms)
    (hist1 : List (CKey Key)) (ck : CKey Key) (e : Entry)
    (hok : (((MMap.fresh ms).runLookups cfg hist1).lookup cfg ck).2 = .ok e) (hist2 : List (CKey Key)) :
    ((((MMap.fresh ms).runLookups cfg hist1).lookup cfg ck).1.runLookups cfg hist2).resolvesAt cfg ck = false := by
  have ok := plan_ok cfg ms hd.ids hd.codes
  have h1 := (MMap.runLookups_inv cfg ms ok hist1 _ (MMap.fresh_inv cfg ms)).1
  have h2 := (MMap.lookup_spec cfg ms ok _ h1 ck).2
  have hw := MMap.lookup_ok_warm cfg ms ok _ h1 ck e hok
  exact (MMap.runLookups_inv cfg ms ok hist2 _ h2).2 ck hw

/-- function level: after a call has been handled successfully, repeating it — directly, and for every
    `recurse` / `call_next` / `f.next` lookup its methods perform — runs no resolution at all, whatever other
    calls happened in between -/
theorem C20_fn (cfg : Cfg) (ds : List (Def × Int)) (hd : DistinctHandlers (Fn.methsOf ds))
    (hist1 : List Call) (c : Call) (id : Nat)
    (hok : Fn.outcome (((Fn.fresh ds).runCalls cfg hist1).call cfg c) = .ran id) (hist2 : List Call) :
    Fn.nres (((((Fn.fresh ds).runCalls cfg hist1).call cfg c).1.runCalls cfg hist2).call cfg c) = 0 := by
  have ok := plan_ok (Fn.cfgOf cfg ds) (Fn.methsOf ds) hd.ids hd.codes
  cases ha : analyze (ds.map (·.1.d)) with
  | error err =>
    rw [Fn.runCalls_fresh_err cfg ds err ha hist1, Fn.call_fresh_err cfg ds err ha c] at hok
    cases hok
  | ok ana =>
    obtain ⟨fnA, hA, hcall⟩ := Fn.runCalls_fresh_ok cfg ds ana ok ha hist1
    rw [hcall c] at hok ⊢
    have hB := (call_rel cfg ds ana ok fnA fnA hA hA c).inv1
    have hC := runCalls_inv cfg ds ana ok hist2 _ hB
    exact (call_rel cfg ds ana ok fnA _ hA hC.1 c).warm id hok hC.2

end Ovld
