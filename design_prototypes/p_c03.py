import random, sys, inspect, itertools, collections
from ovld import Ovld
class A: pass
class B: pass
TYPES = [A, B, object]
def gen_sigs(rnd):
    nm = rnd.randint(1, 3)
    uniform = rnd.random() < 0.6
    posnames = ["x", "y", "z"]
    sigs = []
    for j in range(nm):
        npos = rnd.randint(0, 3)
        nopt = rnd.randint(0, min(npos, 2)) if rnd.random() < 0.5 else 0
        posonly = rnd.random() < 0.25
        names = posnames[:npos] if uniform else [rnd.choice(["x","y","z","u","v"]) + str(i) if rnd.random()<0.5 else posnames[i] for i in range(npos)]
        kws = []
        for kn in rnd.sample(["k", "l"], rnd.choice([0,0,1,1,2])):
            kws.append((kn, rnd.random() < 0.5))   # (name, optional?)
        sigs.append(dict(pos=[(names[i], rnd.choice(TYPES), i >= npos - nopt) for i in range(npos)], posonly=posonly, kws=[(kn, rnd.choice(TYPES), opt) for kn, opt in kws]))
    return sigs
def mkfn(j, sg):
    parts = []
    g = {}
    for i, (nm, t, opt) in enumerate(sg["pos"]):
        g[f"P{i}"] = t; parts.append(f"{nm}: P{i}" + (f" = 'D{j}{nm}'" if opt else ""))
    if sg["posonly"] and sg["pos"]: parts.append("/")
    if sg["kws"]: parts.append("*")
    for (kn, t, opt) in sg["kws"]:
        g[f"K{kn}"] = t; parts.append(f"{kn}: K{kn}" + (f" = 'D{j}{kn}'" if opt else ""))
    allnames = [p[0] for p in sg["pos"]] + [k[0] for k in sg["kws"]]
    src = f"def m{j}({', '.join(parts)}):\n    return ({j}, {{{', '.join(repr(n)+': '+n for n in allnames)}}})\n"
    exec(compile(src, f"<g{j}>", "exec"), g)
    return g[f"m{j}"]
def isinst(v, t): return isinstance(v, t)
stats = collections.Counter(); shown = collections.Counter()
for seed in range(int(sys.argv[1]), int(sys.argv[2])):
    rnd = random.Random(seed)
    sigs = gen_sigs(rnd)
    try:
        fns = [mkfn(j, sg) for j, sg in enumerate(sigs)]
    except SyntaxError:
        stats["gen-syntax"] += 1; continue
    F = Ovld(name="F")
    try:
        for fn in fns: F.register(fn)
        F.compile()
    except Exception as e:
        stats["config:" + type(e).__name__] += 1; continue
    for npos in range(0, 4):
        for kwset in ([], ["k"], ["l"], ["k", "l"]):
            args = [rnd.choice([A(), B()]) for _ in range(npos)]
            kwargs = {k: rnd.choice([A(), B()]) for k in kwset}
            # oracle: methods that bind and whose annotations hold
            ok = []
            for j, fn in enumerate(fns):
                try: ba = inspect.signature(fn).bind(*args, **kwargs)
                except TypeError: continue
                if all(isinst(v, fn.__annotations__[n]) for n, v in ba.arguments.items()):
                    ba.apply_defaults(); ok.append((j, dict(ba.arguments)))
            try: got = ("ran",) + F(*args, **kwargs)
            except TypeError as e:
                s = str(e); got = ("amb",) if s.startswith("Ambig") else ("nomethod",) if s.startswith("No method") else ("bind", s[:60])
            except Exception as e: got = ("EXC", type(e).__name__)
            stats["calls"] += 1
            if got[0] == "ran":
                j, recv = got[1], got[2]
                exp = [o for o in ok if o[0] == j]
                if not exp: kind = "RAN-NOT-APPLICABLE"
                elif exp[0][1] != recv or any(exp[0][1][n] is not recv[n] for n in recv): kind = "RAN-WRONG-ARGS"
                else: kind = None
            else:
                kind = ("REJECTED-" + got[0]) if ok else None
            if kind and kind != "REJECTED-amb":
                maxpos = max(len(sg["pos"]) for sg in sigs)
                d8 = bool(kwset) and npos < maxpos
                d9 = npos == 0 and not kwset
                if d8: kind = "D8:" + kind
                elif d9: kind = "D9:" + kind
            if kind:
                stats[kind] += 1
                if shown[kind] < 3:
                    shown[kind] += 1
                    print(kind, "seed", seed, "npos", npos, "kw", kwset, "got", got[:2], "ok", [o[0] for o in ok], [str(inspect.signature(f)) for f in fns])
print(dict(stats))
