import Ovldverif.Spec.Resolve
import Ovldverif.Spec.Runs
import Ovldverif.Lemmas.LevelsStatic
import Ovldverif.Lemmas.PlanOK
/-!
# The candidate list of `MultiTypeMap.mro` on a static table (steps 1 and 2 of C02)

For a table whose declared types are plain classes and a well-formed key: `candidates` is defined, its
elements correspond one-to-one (by handler id) to the methods applicable to the key, and the specificity
vector of a candidate is the list of levels of its declared types in the slots of the key.
-/
set_option autoImplicit false
namespace Ovld

/-! ## generic list facts -/

theorem eraseDups_length_le {α : Type} [BEq α] : ∀ (n : Nat) (l : List α), l.length ≤ n →
    l.eraseDups.length ≤ l.length
  | _, [], _ => by simp
  | 0, _ :: _, h => by simp at h
  | n + 1, a :: as, h => by
    rw [List.eraseDups_cons]
    have h1 : (as.filter fun b => !b == a).length ≤ as.length := List.length_filter_le _ _
    have h2 := eraseDups_length_le n (as.filter fun b => !b == a) (by simp at h; omega)
    simp only [List.length_cons]
    omega

theorem nodup_of_eraseDups_length {α : Type} [BEq α] [LawfulBEq α] : ∀ (n : Nat) (l : List α), l.length ≤ n →
    l.eraseDups.length = l.length → l.Nodup
  | _, [], _, _ => List.nodup_nil
  | 0, _ :: _, h, _ => by simp at h
  | n + 1, a :: as, h, he => by
    rw [List.eraseDups_cons] at he
    simp only [List.length_cons] at he h
    have h1 : (as.filter fun b => !b == a).length ≤ as.length := List.length_filter_le _ _
    have h2 := eraseDups_length_le n (as.filter fun b => !b == a) (by omega)
    have hlen : (as.filter fun b => !b == a).length = as.length := by omega
    have hfe : as.filter (fun b => !b == a) = as := List.length_filter_eq_length_iff.mp hlen |> fun hall =>
      List.filter_eq_self.mpr hall
    rw [hfe] at he
    have ih := nodup_of_eraseDups_length n as (by omega) (by omega)
    rw [List.nodup_cons]
    refine ⟨?_, ih⟩
    intro hmem
    have := (List.filter_eq_self.mp hfe) a hmem
    simp at this

/-- in an association list with distinct keys, `find?` on a key returns its pair -/
theorem find_fst_of_mem {α β : Type} [DecidableEq α] : ∀ (l : List (α × β)), (l.map (·.1)).Nodup →
    ∀ (a : α) (b : β), (a, b) ∈ l → l.find? (fun p => p.1 == a) = some (a, b)
  | [], _, _, _, h => by cases h
  | p :: l, nd, a, b, h => by
    rw [List.map_cons, List.nodup_cons] at nd
    rw [List.find?_cons]
    rcases List.mem_cons.mp h with e | e
    · subst e; simp
    · have hne : p.1 ≠ a := by
        intro e'
        apply nd.1
        rw [e']
        exact List.mem_map.mpr ⟨(a, b), e, rfl⟩
      have : (p.1 == a) = false := by simpa using hne
      rw [this]
      exact find_fst_of_mem l nd.2 a b e

theorem mapM_some_of_forall {α β : Type} (f : α → Option β) (g : α → β) :
    ∀ (l : List α), (∀ a ∈ l, f a = some (g a)) → l.mapM f = some (l.map g)
  | [], _ => by simp
  | a :: l, h => by
    rw [List.mapM_cons, h a List.mem_cons_self,
      mapM_some_of_forall f g l (fun x hx => h x (List.mem_cons_of_mem _ hx))]
    rfl

theorem singleton_of_nodup_all_eq {α : Type} (l : List α) (nd : l.Nodup) (m : α) (hm : m ∈ l)
    (h : ∀ x ∈ l, x = m) : l = [m] := by
  match l, nd, hm, h with
  | [a], _, _, h => rw [h a List.mem_cons_self]
  | a :: b :: l, nd, _, h =>
    exfalso
    have ha := h a List.mem_cons_self
    have hb := h b (List.mem_cons_of_mem _ List.mem_cons_self)
    rw [List.nodup_cons] at nd
    apply nd.1
    rw [ha, ← hb]
    exact List.mem_cons_self

/-! ## step 1: one slot -/

theorem tyAt_mem_params (m : Meth) (s : Slot) (t : Ty) (h : m.tyAt s = some t) : (s, t) ∈ m.params := by
  unfold Meth.tyAt at h
  split at h
  · rename_i p hp
    cases Option.some.inj h
    have hm := List.mem_of_find?_eq_some hp
    have e0 := List.find?_some hp
    have e : p.1 = s := by simpa using e0
    rw [← e]
    exact hm
  · cases h

theorem dedupTy_mem (t : Ty) : ∀ l : List Ty, t ∈ dedupTy l ↔ t ∈ l
  | [] => Iff.rfl
  | a :: l => by
    rw [dedupTy]
    split
    · rename_i h
      rw [dedupTy_mem t l, List.mem_cons]
      constructor
      · exact Or.inr
      · rintro (e | e)
        · subst e; exact (dedupTy_mem _ l).mp (by simpa using h)
        · exact e
    · rw [List.mem_cons, List.mem_cons, dedupTy_mem t l]

section
variable (cfg : Cfg) (ms : List Meth)

theorem slotTypes_mem (s : Slot) (t : Ty) : t ∈ slotTypes cfg ms s ↔ ∃ m ∈ ms, m.tyAt s = some t := by
  unfold slotTypes
  rw [(List.mergeSort_perm _ _).mem_iff, List.mem_reverse, dedupTy_mem, List.mem_reverse, List.mem_filterMap]

theorem slotTypes_allCls (hst : staticTable ms = true) (s : Slot) : allCls (slotTypes cfg ms s) := by
  intro t ht
  obtain ⟨m, hm, hty⟩ := (slotTypes_mem cfg ms s t).mp ht
  have hp := tyAt_mem_params m s t hty
  unfold staticTable at hst
  have h1 := (List.all_eq_true.mp hst) m hm
  have h2 := (List.all_eq_true.mp h1) (s, t) hp
  cases t <;> simp [Ty.isCls] at h2
  exact ⟨_, rfl⟩

/-- the `{handler: level}` dict of a slot, given the levels of the registered types -/
def tmRes (s : Slot) (lv : List (Ty × Nat)) : List (Nat × Nat) :=
  lv.flatMap (fun (t, l) => (ms.filter (fun m => m.tyAt s == some t)).map (fun m => (m.id, l)))

theorem mem_tmRes (s : Slot) (lv : List (Ty × Nat)) (id l : Nat) :
    (id, l) ∈ tmRes ms s lv ↔ ∃ t, (t, l) ∈ lv ∧ ∃ m ∈ ms, m.tyAt s = some t ∧ m.id = id := by
  unfold tmRes
  rw [List.mem_flatMap]
  constructor
  · rintro ⟨⟨t, l'⟩, hl, hm⟩
    dsimp only at hm
    obtain ⟨m, hmf, e⟩ := List.mem_map.mp hm
    obtain ⟨hm', ht⟩ := List.mem_filter.mp hmf
    cases e
    exact ⟨t, hl, m, hm', eq_of_beq ht, rfl⟩
  · rintro ⟨t, hl, m, hm, ht, rfl⟩
    refine ⟨(t, l), hl, ?_⟩
    dsimp only
    exact List.mem_map.mpr ⟨m, List.mem_filter.mpr ⟨hm, by rw [ht]; exact beq_self_eq_true _⟩, rfl⟩

/-- levels of the registered types of the slot of a key entry (empty on `CycleError`) -/
def keyLv (e : Slot × Ty) : List (Ty × Nat) := (levels cfg.H e.2 (slotTypes cfg ms e.1)).getD []

theorem levels_fst_perm (H : Hier) (wf : H.WF) (anti : H.Antisym) (c : Nat) (avail : List Ty)
    (hs : allCls avail) (nd : avail.Nodup) (lv : List (Ty × Nat)) (h : levels H (.cls c) avail = some lv) :
    (lv.map (·.1)).Perm (applicableTys H (.cls c) avail) := by
  rw [levels_eq H wf anti c avail hs nd] at h
  cases h
  rw [lvOf_fst]
  exact batchesOf_perm H wf anti c avail hs nd

/-- what is needed about the levels in the slot of one key entry -/
structure SlotOK (e : Slot × Ty) : Prop where
  lv_eq : levels cfg.H e.2 (slotTypes cfg ms e.1) = some (keyLv cfg ms e)
  nodup : ((keyLv cfg ms e).map (·.1)).Nodup
  mem : ∀ t, t ∈ (keyLv cfg ms e).map (·.1) ↔
    (∃ m ∈ ms, m.tyAt e.1 = some t) ∧ subclasscheck cfg.H e.2 t = true
  cls : ∀ t ∈ (keyLv cfg ms e).map (·.1), ∃ d, t = .cls d
  mono : ∀ x y lx ly, (Ty.cls x, lx) ∈ keyLv cfg ms e → (Ty.cls y, ly) ∈ keyLv cfg ms e →
    cfg.H.sub x y = true → x ≠ y → lx > ly

theorem slotOK_of_cls (wf : cfg.H.WF) (anti : cfg.H.Antisym) (hst : staticTable ms = true)
    (e : Slot × Ty) (he : e.2.isCls = true) : SlotOK cfg ms e := by
  obtain ⟨s, t⟩ := e
  cases t <;> simp [Ty.isCls] at he
  rename_i c
  have hs := slotTypes_allCls cfg ms hst s
  have nd := slotTypes_nodup cfg ms s
  obtain ⟨lv, hlv⟩ := levels_defined cfg.H wf anti c _ hs nd
  have hk : keyLv cfg ms (s, .cls c) = lv := by
    unfold keyLv; dsimp only; rw [hlv]; rfl
  have hp := levels_fst_perm cfg.H wf anti c _ hs nd lv hlv
  have hmem : ∀ t, t ∈ lv.map (·.1) ↔
      (∃ m ∈ ms, m.tyAt s = some t) ∧ subclasscheck cfg.H (.cls c) t = true := by
    intro t
    rw [hp.mem_iff]
    unfold applicableTys
    rw [List.mem_filter, slotTypes_mem]
  refine ⟨by rw [hk]; exact hlv, ?_, ?_, ?_, ?_⟩
  · rw [hk]; exact (levels_mem cfg.H wf anti c _ hs nd lv hlv).1
  · rw [hk]; exact hmem
  · rw [hk]
    intro t ht
    rw [hp.mem_iff] at ht
    exact hs t (List.mem_filter.mp ht).1
  · rw [hk]
    intro x y lx ly hx hy hsub hne
    exact levels_mono cfg.H wf anti c _ hs nd lv hlv x y lx ly hx hy hsub hne

end

end Ovld
