import Ovldverif.Model.Cache
/-!
# Layer D (3/3): concurrent lookups on the shared caches of one `MultiTypeMap`

Several threads execute `lookupTop` / `lookupNext` of `Model/Cache.lean` on ONE shared state; a step of a
thread is ONE access to one of the three shared dicts (`cache`, `errors`, `all`), threads are interleaved by an
arbitrary schedule (a list of thread indices).  The program counter `PC` follows the sequential code path of
`lookupTop` / `lookupNext` exactly:

* `top0`  read `cache[(none, k)]`                          (`dict.__getitem__`; a hit returns)
* `top1`  `mro(k)`: either raises (`(plan k).fail`, nothing touched, result `.failed`) or records `all[k]`
* `top2`  one dict write of `ws plan k` per step, in the order they are applied (the entry `(none, k)` last);
          with no write left: `if (plan k).ranks.isEmpty` (local, no shared access) the result is `.noMethod`
* `top3`  read `errors[(none, k)]`
* `top4`  read `cache[(none, k)]`                          (a miss is `.keyError`)
* `next0` read `cache[(some c, k)]`; on a miss the lookup of `k` runs as a subroutine (`ret = some c`)
* `next1` (the lookup of `k` returned `.ok f`) read `all[k]`, test `c ∈ all[k]`
* `next2` read `errors[(some c, k)]`
* `next3` read `cache[(some c, k)]`                        (a miss is `.noMethod`)

No proofs here; `Lemmas/ConcCore.lean` has the invariants, `Props/C19Lookup.lean` the theorems.
-/
set_option autoImplicit false
namespace Ovld.ConcLookup
open Ovld

section
variable {K F E : Type}

/-- program counter of one thread; `ret = some c` in the `top*` states when the lookup of the ordinary key runs
    as the subroutine of the lookup of the continuation key `(some c, k)` -/
inductive PC (K F E : Type)
  | top0 (k : K) (ret : Option Code)
  | top1 (k : K) (ret : Option Code)
  | top2 (k : K) (ret : Option Code) (rest : List (W K F E))
  | top3 (k : K) (ret : Option Code)
  | top4 (k : K) (ret : Option Code)
  | next0 (c : Code) (k : K)
  | next1 (c : Code) (k : K) (f : F)
  | next2 (c : Code) (k : K)
  | next3 (c : Code) (k : K)
  | done (r : Res F E)

def startPC : CKey K → PC K F E
  | (none, k) => .top0 k none
  | (some c, k) => .next0 c k

/-- the result of a finished thread -/
def PC.result : PC K F E → Option (Res F E)
  | .done r => some r
  | _ => none

/-- how the lookup of the ordinary key hands its result back: to the caller of the thread, or to the branch
    `| (st', .ok f) => …` / `| (st', r) => (st', r)` of `lookupNext` -/
def retTop (ret : Option Code) (k : K) (r : Res F E) : PC K F E :=
  match ret with
  | none => .done r
  | some c =>
    match r with
    | .ok f => .next1 c k f
    | .amb e => .done (.amb e)
    | .noMethod => .done .noMethod
    | .failed => .done .failed
    | .keyError => .done .keyError

variable [DecidableEq K]

/-- one dict write, with the semantics of `applyW` -/
def applyW1 (st : St K F E) (w : W K F E) : St K F E := applyW st [w]

variable (plan : K → Plan F E)

/-- `mro(k)` records the candidate codes (the state `resolve` applies the writes to) -/
def recordAll (st : St K F E) (k : K) : St K F E :=
  { st with all := fun k' => if k' = k then some (plan k).allCodes else st.all k', allKeys := k :: st.allKeys }

/-- one atomic step of one thread on the shared state -/
def step (st : St K F E) : PC K F E → St K F E × PC K F E
  | .top0 k ret =>
    match st.cache (none, k) with
    | some f => (st, retTop ret k (.ok f))
    | none => (st, .top1 k ret)
  | .top1 k ret =>
    if (plan k).fail then (st, retTop ret k .failed)
    else (recordAll plan st k, .top2 k ret (ws plan k))
  | .top2 k ret (w :: rest) => (applyW1 st w, .top2 k ret rest)
  | .top2 k ret [] =>
    if (plan k).ranks.isEmpty then (st, retTop ret k .noMethod) else (st, .top3 k ret)
  | .top3 k ret =>
    match st.errors (none, k) with
    | some e => (st, retTop ret k (.amb e))
    | none => (st, .top4 k ret)
  | .top4 k ret =>
    match st.cache (none, k) with
    | some f => (st, retTop ret k (.ok f))
    | none => (st, retTop ret k .keyError)
  | .next0 c k =>
    match st.cache (some c, k) with
    | some f => (st, .done (.ok f))
    | none => (st, .top0 k (some c))
  | .next1 c k f =>
    match st.all k with
    | none => (st, .done .keyError)
    | some cs => if !cs.contains c then (st, .done (.ok f)) else (st, .next2 c k)
  | .next2 c k =>
    match st.errors (some c, k) with
    | some e => (st, .done (.amb e))
    | none => (st, .next3 c k)
  | .next3 c k =>
    match st.cache (some c, k) with
    | some f => (st, .done (.ok f))
    | none => (st, .done .noMethod)
  | .done r => (st, .done r)

/-- the shared caches and the program counters of the threads -/
structure Sys (K F E : Type) where
  st : St K F E
  pcs : List (PC K F E)

/-- thread `i` takes one step (a thread index out of range is a no-op) -/
def Sys.stepThread (s : Sys K F E) (i : Nat) : Sys K F E :=
  match s.pcs[i]? with
  | none => s
  | some pc => ⟨(step plan s.st pc).1, s.pcs.set i (step plan s.st pc).2⟩

/-- run a schedule: the list of the thread indices that take a step, in order -/
def Sys.run (s : Sys K F E) : List Nat → Sys K F E
  | [] => s
  | i :: sched => Sys.run (s.stepThread plan i) sched

/-- one thread per request, all at the start of their lookup, on the shared state `st0` -/
def Sys.init (st0 : St K F E) (reqs : List (CKey K)) : Sys K F E := ⟨st0, reqs.map startPC⟩

/-- `n` consecutive steps of one thread alone -/
def iter : Nat → St K F E × PC K F E → St K F E × PC K F E
  | 0, x => x
  | n + 1, x => iter n (step plan x.1 x.2)

end
end Ovld.ConcLookup
