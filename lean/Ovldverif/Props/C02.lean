import Ovldverif.Spec.Resolve
import Ovldverif.Spec.Runs
import Ovldverif.Lemmas.LevelsStatic
import Ovldverif.Lemmas.RankCore
import Ovldverif.Lemmas.FnInv
import Ovldverif.Lemmas.PlanOK
import Ovldverif.Lemmas.C02Core
/-!
# C02 — static resolution follows the documented priority-then-specificity rule

For tables whose declared types are plain classes (classes, ABCs, protocols) over a well-formed, antisymmetric
hierarchy, for EVERY hierarchy, method table, key, and every iteration order of the library's sets: the lookup
returns the unique applicable method that beats every other applicable one (`specResolve`), or the ambiguity /
no-method error — under the two hypotheses that delimit the known findings D1 (`candComparable`) and D21
(`sigTieOK`).
-/
set_option autoImplicit false
namespace Ovld

/-- the pure lookup agrees with the documented rule -/
theorem C02_partial (cfg : Cfg) (ms : List Meth) (wf : cfg.H.WF) (anti : cfg.H.Antisym)
    (hd : DistinctHandlers ms) (hst : staticTable ms = true) (htw : tableWF ms = true)
    (k : Key) (hk : keyWF k = true) (hne : k ≠ [])
    (hcc : candComparable cfg.H ms k = true) (htie : sigTieOK cfg.H ms k = true) :
    specAgrees (pureLookup (plan cfg ms) (none, k)) (specResolve cfg.H ms k) := by
  have _ := htw  -- `tableWF` is not needed by the proof (kept: it is part of the claim's scope)
  unfold keyWF at hk
  rw [Bool.and_eq_true] at hk
  exact pure_agrees cfg ms wf anti hd.ids hst k (List.all_eq_true.mp hk.2) hne hcc htie

/-- ... hence so does the real table after any history of lookups (with C04) -/
theorem C02_table (cfg : Cfg) (ms : List Meth) (wf : cfg.H.WF) (anti : cfg.H.Antisym)
    (hd : DistinctHandlers ms) (hst : staticTable ms = true) (htw : tableWF ms = true)
    (k : Key) (hk : keyWF k = true) (hne : k ≠ [])
    (hcc : candComparable cfg.H ms k = true) (htie : sigTieOK cfg.H ms k = true)
    (hist : List (CKey Key)) :
    specAgrees (((MMap.fresh ms).runLookups cfg hist).lookup cfg (none, k)).2 (specResolve cfg.H ms k) := by
  have ok := plan_ok cfg ms hd.ids hd.codes
  have h0 := MMap.fresh_inv cfg ms
  have h1 := (MMap.runLookups_inv cfg ms ok hist _ h0).1
  rw [(MMap.lookup_spec cfg ms ok _ h1 (none, k)).1]
  rw [MMap.pure_eq]
  exact C02_partial cfg ms wf anti hd hst htw _ hk hne hcc htie

/-! ## the call without arguments

Since the `fix:` for finding D9 the key `[]` is resolved like every other key (`Model/MultiMap.lean: zeroArgIds`):
the methods that require no argument compete on priority, then recency between identical signatures.  The
hypothesis `candComparable` is vacuous for `[]` (there is no slot to compare) and is not needed. -/

theorem candComparable_nil (H : Hier) (ms : List Meth) : candComparable H ms [] = true := by
  simp [candComparable]

/-- `C02_partial` for the call without arguments -/
theorem C02_partial_zero_args (cfg : Cfg) (ms : List Meth) (wf : cfg.H.WF) (anti : cfg.H.Antisym)
    (hd : DistinctHandlers ms) (hst : staticTable ms = true) (htw : tableWF ms = true)
    (htie : sigTieOK cfg.H ms [] = true) :
    specAgrees (pureLookup (plan cfg ms) (none, [])) (specResolve cfg.H ms []) := by
  have _ := htw
  exact pure_agrees_all cfg ms wf anti hd.ids hst [] (fun _ h => by cases h) (candComparable_nil cfg.H ms) htie

/-- `C02_table` for the call without arguments -/
theorem C02_table_zero_args (cfg : Cfg) (ms : List Meth) (wf : cfg.H.WF) (anti : cfg.H.Antisym)
    (hd : DistinctHandlers ms) (hst : staticTable ms = true) (htw : tableWF ms = true)
    (htie : sigTieOK cfg.H ms [] = true) (hist : List (CKey Key)) :
    specAgrees (((MMap.fresh ms).runLookups cfg hist).lookup cfg (none, [])).2 (specResolve cfg.H ms []) := by
  have ok := plan_ok cfg ms hd.ids hd.codes
  have h0 := MMap.fresh_inv cfg ms
  have h1 := (MMap.runLookups_inv cfg ms ok hist _ h0).1
  rw [(MMap.lookup_spec cfg ms ok _ h1 (none, [])).1, MMap.pure_eq]
  exact C02_partial_zero_args cfg ms wf anti hd hst htw htie

end Ovld
