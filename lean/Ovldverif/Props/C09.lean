import Ovldverif.Model.Rewrite
/-!
# C09 — source rewriting changes nothing except the recurse call sites (expression subset of Model/Rewrite.lean)

`C09_rewrite_preserves`: for every expression that does not mention the reserved temporaries, the rewritten
expression yields the same value or exception, the same sequence of side effects, and the same user variables —
each argument expression is evaluated exactly once, left to right, before the lookup.
-/
set_option autoImplicit false
namespace Ovld.Rw

def Agree (ρ ρ₂ : Env) : Prop := ∀ s, ρ₂ (.user s) = ρ (.user s)
/-- temporaries with an index outside [k, k') are untouched -/
def Frame (k k' : Nat) (ρ₂ ρ₂' : Env) : Prop := ∀ j s, (j < k ∨ j ≥ k') → ρ₂' (.tmp j s) = ρ₂ (.tmp j s)

theorem Frame.refl (k k' : Nat) (ρ : Env) : Frame k k' ρ ρ := fun _ _ _ => rfl
theorem Frame.trans {a b c : Nat} {ρ0 ρ1 ρ2 : Env} (h1 : Frame a b ρ0 ρ1) (h2 : Frame b c ρ1 ρ2) (hab : a ≤ b) (hbc : b ≤ c) :
    Frame a c ρ0 ρ2 := by
  intro j s hj
  rw [h2 j s (by omega), h1 j s (by omega)]
theorem Frame.widen {a b a' b' : Nat} {ρ0 ρ1 : Env} (h : Frame a b ρ0 ρ1) (ha : a' ≤ a) (hb : b ≤ b') : Frame a' b' ρ0 ρ1 := by
  intro j s hj; exact h j s (by omega)

theorem Agree.setUser {ρ ρ₂ : Env} (h : Agree ρ ρ₂) (x : String) (v : Val) : Agree (setVar ρ (.user x) v) (setVar ρ₂ (.user x) v) := by
  intro s; simp only [setVar]; by_cases e : Name.user s = Name.user x <;> simp [e, h s]
theorem Agree.setTmp {ρ ρ₂ : Env} (h : Agree ρ ρ₂) (k : Nat) (sl : Slot) (v : Val) : Agree ρ (setVar ρ₂ (.tmp k sl) v) := by
  intro s; simp [setVar, h s]

/-- the simulation relation between a run of the original and of the rewritten expression -/
structure Sim {α : Type} (k k' : Nat) (ρ₂ : Env) (o o₂ : Except Exn α × Env × Log) : Prop where
  res : o₂.1 = o.1
  log : o₂.2.2 = o.2.2
  agree : Agree o.2.1 o₂.2.1
  frame : Frame k k' ρ₂ o₂.2.1

structure WOK (W : World) : Prop where
  recurse : W.globals "recurse" = some (.g .dispatchObj)
  map : W.globals "MAP" = some (.g .mapObj)
  typ : W.globals "type" = some (.g .typeFn)

def PExpr (W : World) (e : Expr) : Prop :=
  ∀ (k : Nat) (ρ ρ₂ : Env) (l : Log), userOnly e = true → Agree ρ ρ₂ →
    k ≤ (rw e k).2 ∧ Sim k (rw e k).2 ρ₂ (eval W e ρ l) (eval W (rw e k).1 ρ₂ l)

def PList (W : World) (es : List Expr) : Prop :=
  ∀ (k : Nat) (ρ ρ₂ : Env) (l : Log), userOnlyL es = true → Agree ρ ρ₂ →
    k ≤ (rwList es k).2 ∧ Sim k (rwList es k).2 ρ₂ (evalList W es ρ l) (evalList W (rwList es k).1 ρ₂ l)

def PKws (W : World) (es : List (String × Expr)) : Prop :=
  ∀ (k : Nat) (ρ ρ₂ : Env) (l : Log), userOnlyK es = true → Agree ρ ρ₂ →
    k ≤ (rwKwList es k).2 ∧ Sim k (rwKwList es k).2 ρ₂ (evalKws W es ρ l) (evalKws W (rwKwList es k).1 ρ₂ l)

theorem pList_of (W : World) : ∀ (es : List Expr), (∀ e ∈ es, PExpr W e) → PList W es
  | [], _ => by
    intro k ρ ρ₂ l _ ha
    simp only [rwList, evalList]
    exact ⟨Nat.le_refl _, ⟨rfl, rfl, ha, Frame.refl _ _ _⟩⟩
  | e :: es, h => by
    intro k ρ ρ₂ l hu ha
    simp only [userOnlyL, Bool.and_eq_true] at hu
    have he := h e (List.mem_cons_self ..) k ρ ρ₂ l hu.1 ha
    have hes := pList_of W es (fun x hx => h x (List.mem_cons_of_mem _ hx))
    simp only [rwList, evalList]
    obtain ⟨hk, ⟨hr, hl, hag, hf⟩⟩ := he
    generalize hE : eval W e ρ l = o at hr hl hag
    generalize hE2 : eval W (rw e k).1 ρ₂ l = o2 at hr hl hag hf
    obtain ⟨r, ρ', l'⟩ := o
    obtain ⟨r2, ρ2', l2'⟩ := o2
    simp only at hr hl hag hf
    subst hr; subst hl
    cases r2 with
    | error ex => exact ⟨by have := (hes (rw e k).2 ρ' ρ2' l2' hu.2 hag).1; omega, ⟨rfl, rfl, hag, hf.widen (Nat.le_refl _) (hes (rw e k).2 ρ' ρ2' l2' hu.2 hag).1⟩⟩
    | ok v =>
      have h2 := hes (rw e k).2 ρ' ρ2' l2' hu.2 hag
      obtain ⟨hk2, ⟨hr2, hl2, hag2, hf2⟩⟩ := h2
      refine ⟨by omega, ?_⟩
      dsimp only
      generalize hF : evalList W es ρ' l2' = p at hr2 hl2 hag2
      generalize hF2 : evalList W (rwList es (rw e k).2).1 ρ2' l2' = p2 at hr2 hl2 hag2 hf2
      obtain ⟨q, ρq, lq⟩ := p
      obtain ⟨q2, ρq2, lq2⟩ := p2
      simp only at hr2 hl2 hag2 hf2
      subst hr2; subst hl2
      cases q2 with
      | error ex => exact ⟨rfl, rfl, hag2, hf.trans hf2 hk hk2⟩
      | ok vs => exact ⟨rfl, rfl, hag2, hf.trans hf2 hk hk2⟩


theorem pKws_of (W : World) : ∀ (es : List (String × Expr)), (∀ p ∈ es, PExpr W p.2) → PKws W es
  | [], _ => by
    intro k ρ ρ₂ l _ ha
    simp only [rwKwList, evalKws]
    exact ⟨Nat.le_refl _, ⟨rfl, rfl, ha, Frame.refl _ _ _⟩⟩
  | (n, e) :: es, h => by
    intro k ρ ρ₂ l hu ha
    simp only [userOnlyK, Bool.and_eq_true] at hu
    have he : PExpr W e := h (n, e) (List.mem_cons_self ..)
    have he := he k ρ ρ₂ l hu.1 ha
    have hes := pKws_of W es (fun x hx => h x (List.mem_cons_of_mem _ hx))
    simp only [rwKwList, evalKws]
    obtain ⟨hk, ⟨hr, hl, hag, hf⟩⟩ := he
    generalize hE : eval W e ρ l = o at hr hl hag
    generalize hE2 : eval W (rw e k).1 ρ₂ l = o2 at hr hl hag hf
    obtain ⟨r, ρ', l'⟩ := o
    obtain ⟨r2, ρ2', l2'⟩ := o2
    simp only at hr hl hag hf
    subst hr; subst hl
    cases r2 with
    | error ex => exact ⟨by have := (hes (rw e k).2 ρ' ρ2' l2' hu.2 hag).1; omega, ⟨rfl, rfl, hag, hf.widen (Nat.le_refl _) (hes (rw e k).2 ρ' ρ2' l2' hu.2 hag).1⟩⟩
    | ok v =>
      have h2 := hes (rw e k).2 ρ' ρ2' l2' hu.2 hag
      obtain ⟨hk2, ⟨hr2, hl2, hag2, hf2⟩⟩ := h2
      refine ⟨by omega, ?_⟩
      dsimp only
      generalize hF : evalKws W es ρ' l2' = p at hr2 hl2 hag2
      generalize hF2 : evalKws W (rwKwList es (rw e k).2).1 ρ2' l2' = p2 at hr2 hl2 hag2 hf2
      obtain ⟨q, ρq, lq⟩ := p
      obtain ⟨q2, ρq2, lq2⟩ := p2
      simp only at hr2 hl2 hag2 hf2
      subst hr2; subst hl2
      cases q2 with
      | error ex => exact ⟨rfl, rfl, hag2, hf.trans hf2 hk hk2⟩
      | ok vs => exact ⟨rfl, rfl, hag2, hf.trans hf2 hk hk2⟩

/-- evaluation of `type(__TMP := a')` -/
theorem eval_typeCall (W : World) (ok : WOK W) (x : Name) (a : Expr) (ρ : Env) (l : Log) :
    eval W (typeCall x a) ρ l =
      match eval W a ρ l with
      | (.ok v, ρ', l') => (.ok (.ty (W.classOf v)), setVar ρ' x v, l')
      | (.error e, ρ', l') => (.error e, ρ', l') := by
  simp only [typeCall, eval, ok.typ, evalList, evalKws]
  generalize eval W a ρ l = o
  obtain ⟨r, ρ', l'⟩ := o
  cases r with
  | error e => rfl
  | ok v => simp [applyVal]

/-- what evaluating the key parts `type(__TMPk_i := aᵢ')` achieves, relative to evaluating the original arguments -/
def PArgs (W : World) (as : List Expr) : Prop :=
  ∀ (k i c : Nat) (ρ ρ₂ : Env) (l : Log), userOnlyL as = true → Agree ρ ρ₂ → k < c →
    c ≤ (rwArgs as k i c).2 ∧
    (match evalList W as ρ l with
     | (.ok avs, ρ', l') =>
        ∃ ρ₂', evalList W (rwArgs as k i c).1 ρ₂ l = (.ok (avs.map (fun v => Val.ty (W.classOf v))), ρ₂', l')
          ∧ Agree ρ' ρ₂'
          ∧ (∀ j s, (j < k ∨ j ≥ (rwArgs as k i c).2) → ρ₂' (.tmp j s) = ρ₂ (.tmp j s))
          ∧ (∀ s, (∀ m, m < avs.length → s ≠ Slot.pos (i + m)) → ρ₂' (.tmp k s) = ρ₂ (.tmp k s))
          ∧ (∀ m (h : m < avs.length), ρ₂' (.tmp k (.pos (i + m))) = some avs[m])
          ∧ avs.length = as.length
     | (.error e, ρ', l') =>
        ∃ ρ₂', evalList W (rwArgs as k i c).1 ρ₂ l = (.error e, ρ₂', l') ∧ Agree ρ' ρ₂'
          ∧ (∀ j s, (j < k ∨ j ≥ (rwArgs as k i c).2) → ρ₂' (.tmp j s) = ρ₂ (.tmp j s)))

theorem pArgs_of (W : World) (ok : WOK W) : ∀ (as : List Expr), (∀ e ∈ as, PExpr W e) → PArgs W as
  | [], _ => by
    intro k i c ρ ρ₂ l _ ha _
    simp only [rwArgs, evalList]
    refine ⟨Nat.le_refl _, ρ₂, rfl, ha, fun _ _ _ => rfl, fun _ _ => rfl, ?_, rfl⟩
    intro m h; simp at h
  | a :: as, h => by
    intro k i c ρ ρ₂ l hu ha hkc
    simp only [userOnlyL, Bool.and_eq_true] at hu
    have he := h a (List.mem_cons_self ..) c ρ ρ₂ l hu.1 ha
    have hes := pArgs_of W ok as (fun x hx => h x (List.mem_cons_of_mem _ hx))
    obtain ⟨hk, ⟨hr, hl, hag, hf⟩⟩ := he
    simp only [rwArgs, evalList]
    rw [eval_typeCall W ok]
    generalize hE : eval W a ρ l = o at hr hl hag
    generalize hE2 : eval W (rw a c).1 ρ₂ l = o2 at hr hl hag hf
    obtain ⟨r, ρ', l'⟩ := o
    obtain ⟨r2, ρ2', l2'⟩ := o2
    simp only at hr hl hag hf
    subst hr; subst hl
    have hrest := hes k (i + 1) (rw a c).2 ρ' (setVar ρ2' (.tmp k (.pos i)) (match r2 with | .ok v => v | .error _ => .int 0)) l2' hu.2
    cases r2 with
    | error ex =>
      dsimp only
      have hc2 := (hes k (i+1) (rw a c).2 ρ' ρ2' l2' hu.2 hag (by omega)).1
      refine ⟨by omega, ρ2', rfl, hag, ?_⟩
      intro j s hj
      exact hf j s (by omega)
    | ok v =>
      dsimp only at hrest ⊢
      have hag' : Agree ρ' (setVar ρ2' (.tmp k (.pos i)) v) := hag.setTmp k (.pos i) v
      obtain ⟨hc2, hmatch⟩ := hrest hag' (by omega)
      refine ⟨by omega, ?_⟩
      generalize hF : evalList W as ρ' l2' = p at hmatch
      obtain ⟨q, ρq, lq⟩ := p
      cases q with
      | error ex =>
        dsimp only at hmatch ⊢
        obtain ⟨ρ₂', hev, hag2, hfr⟩ := hmatch
        refine ⟨ρ₂', by rw [hev], hag2, ?_⟩
        intro j s hj
        rw [hfr j s (by omega)]
        have : Name.tmp j s ≠ Name.tmp k (.pos i) := by
          intro e; injection e with e1 _; omega
        simp only [setVar, this, if_false]
        exact hf j s (by omega)
      | ok vs =>
        dsimp only at hmatch ⊢
        obtain ⟨ρ₂', hev, hag2, hfr, hother, hslots, hlen⟩ := hmatch
        refine ⟨ρ₂', by rw [hev]; rfl, hag2, ?_, ?_, ?_, by simp [hlen]⟩
        · intro j s hj
          rw [hfr j s (by omega)]
          have : Name.tmp j s ≠ Name.tmp k (.pos i) := by
            intro e; injection e with e1 _; omega
          simp only [setVar, this, if_false]
          exact hf j s (by omega)
        · intro s hs
          rw [hother s (by
            intro m hm e
            exact hs (m + 1) (by simp only [List.length_cons]; omega) (by rw [e]; congr 1; omega))]
          have : Name.tmp k s ≠ Name.tmp k (.pos i) := by
            intro e; injection e with _ e2
            exact hs 0 (by simp) (by simpa using e2)
          simp only [setVar, this, if_false]
          exact hf k s (by omega)
        · intro m hm
          cases m with
          | zero =>
            simp only [Nat.add_zero, List.getElem_cons_zero]
            rw [hother (.pos i) (by intro m _ e; injection e with e; omega)]
            simp [setVar]
          | succ m =>
            have := hslots m (by simpa using hm)
            simp only [List.getElem_cons_succ]
            have e : i + (m + 1) = i + 1 + m := by omega
            rw [e]; exact this

theorem evalList_tmpVars (W : World) (k : Nat) (ρ : Env) (l : Log) :
    ∀ (as : List Expr) (avs : List Val) (i : Nat), avs.length = as.length →
      (∀ m (h : m < avs.length), ρ (.tmp k (.pos (i + m))) = some avs[m]) →
      evalList W (tmpVars k i as) ρ l = (.ok avs, ρ, l)
  | [], [], _, _, _ => by simp [tmpVars, evalList]
  | [], _ :: _, _, h, _ => by simp at h
  | _ :: _, [], _, h, _ => by simp at h
  | a :: as, v :: vs, i, hlen, hs => by
    have h0 := hs 0 (by simp)
    simp only [Nat.add_zero, List.getElem_cons_zero] at h0
    have ih := evalList_tmpVars W k ρ l as vs (i + 1) (by simpa using hlen) (by
      intro m hm
      have := hs (m + 1) (by simp only [List.length_cons]; omega)
      simp only [List.getElem_cons_succ] at this
      have e : i + 1 + m = i + (m + 1) := by omega
      rw [e]; exact this)
    simp only [tmpVars, evalList, eval, h0, ih]

theorem mapM_toKeyElt (W : World) : ∀ (avs : List Val),
    (avs.map (fun v => Val.ty (W.classOf v))).mapM toKeyElt = some (keyOf W avs [])
  | [] => by simp [keyOf]
  | v :: vs => by
    have ih := mapM_toKeyElt W vs
    simp only [keyOf, List.map_nil, List.append_nil] at ih ⊢
    simp [List.mapM_cons, toKeyElt, ih]

theorem rw_call_recurse (args : List Expr) (k : Nat) :
    rw (.call (.glob "recurse") args []) k =
      ((.call (.subscript (.glob "MAP") (.tuple (rwArgs args k 0 (k + 1)).1)) (tmpVars k 0 args) []), (rwArgs args k 0 (k + 1)).2) := by
  simp only [rw]

theorem rw_call_general (f : Expr) (args : List Expr) (kws : List (String × Expr)) (k : Nat)
    (h : ¬ (f = .glob "recurse" ∧ kws = [])) :
    rw (.call f args kws) k =
      (.call (rw f k).1 (rwList args (rw f k).2).1 (rwKwList kws (rwList args (rw f k).2).2).1,
       (rwKwList kws (rwList args (rw f k).2).2).2) := by
  conv => lhs; simp only [rw]
  split
  · exact absurd ⟨rfl, rfl⟩ h
  · rfl

theorem sizeOf_mem_lt {es : List Expr} {e : Expr} (h : e ∈ es) : sizeOf e < sizeOf es := List.sizeOf_lt_of_mem h
theorem sizeOf_kw_mem_lt {es : List (String × Expr)} {p : String × Expr} (h : p ∈ es) : sizeOf p.2 < sizeOf es := by
  have := List.sizeOf_lt_of_mem h
  have h2 : sizeOf p.2 < sizeOf p := by cases p; simp; omega
  omega

/-- helper: sequencing two simulated steps -/
theorem Sim.seq_err {α β : Type} {k k1 k2 : Nat} {ρ₂ ρ ρ' : Env} {l : Log} {ex : Exn}
    (hf : Frame k k1 ρ₂ ρ') (hag : Agree ρ ρ') (h12 : k1 ≤ k2) :
    Sim (α := β) k k2 ρ₂ (.error ex, ρ, l) (.error ex, ρ', l) :=
  ⟨rfl, rfl, hag, hf.widen (Nat.le_refl _) h12⟩

theorem pExpr (W : World) (ok : WOK W) : ∀ (n : Nat) (e : Expr), sizeOf e < n → PExpr W e := by
  intro n
  induction n with
  | zero => intro e h; omega
  | succ n ih =>
    intro e hsz
    cases e with
    | lit m => intro k ρ ρ₂ l _ ha; simp only [rw, eval]; exact ⟨Nat.le_refl _, ⟨rfl, rfl, ha, Frame.refl _ _ _⟩⟩
    | glob x =>
      intro k ρ ρ₂ l _ ha; simp only [rw, eval]
      cases W.globals x <;> exact ⟨Nat.le_refl _, ⟨rfl, rfl, ha, Frame.refl _ _ _⟩⟩
    | var x =>
      intro k ρ ρ₂ l hu ha
      cases x with
      | tmp j s => simp [userOnly] at hu
      | user s =>
        simp only [rw, eval, ha s]
        cases ρ (.user s) <;> exact ⟨Nat.le_refl _, ⟨rfl, rfl, ha, Frame.refl _ _ _⟩⟩
    | named x e1 =>
      intro k ρ ρ₂ l hu ha
      cases x with
      | tmp j s => simp [userOnly] at hu
      | user s =>
        simp only [userOnly] at hu
        have h1 := ih e1 (by simp at hsz; omega) k ρ ρ₂ l hu ha
        obtain ⟨hk, ⟨hr, hl, hag, hf⟩⟩ := h1
        simp only [rw, eval]
        generalize eval W e1 ρ l = o at hr hl hag
        generalize eval W (rw e1 k).1 ρ₂ l = o2 at hr hl hag hf
        obtain ⟨r, ρ', l'⟩ := o
        obtain ⟨r2, ρ2', l2'⟩ := o2
        simp only at hr hl hag hf
        subst hr; subst hl
        refine ⟨hk, ?_⟩
        cases r2 with
        | error ex => exact ⟨rfl, rfl, hag, hf⟩
        | ok v =>
          refine ⟨rfl, rfl, hag.setUser s v, ?_⟩
          intro j sl hj
          simp only [setVar]
          have : Name.tmp j sl ≠ Name.user s := by intro e; cases e
          simp only [this, if_false]; exact hf j sl hj
    | tick t e1 =>
      intro k ρ ρ₂ l hu ha
      simp only [userOnly] at hu
      have h1 := ih e1 (by simp at hsz; omega) k ρ ρ₂ l hu ha
      obtain ⟨hk, ⟨hr, hl, hag, hf⟩⟩ := h1
      simp only [rw, eval]
      generalize eval W e1 ρ l = o at hr hl hag
      generalize eval W (rw e1 k).1 ρ₂ l = o2 at hr hl hag hf
      obtain ⟨r, ρ', l'⟩ := o
      obtain ⟨r2, ρ2', l2'⟩ := o2
      simp only at hr hl hag hf
      subst hr; subst hl
      refine ⟨hk, ?_⟩
      cases r2 with
      | error ex => exact ⟨rfl, rfl, hag, hf⟩
      | ok v => exact ⟨rfl, rfl, hag, hf⟩
    | pair nm e1 =>
      intro k ρ ρ₂ l hu ha
      simp only [userOnly] at hu
      have h1 := ih e1 (by simp at hsz; omega) k ρ ρ₂ l hu ha
      obtain ⟨hk, ⟨hr, hl, hag, hf⟩⟩ := h1
      simp only [rw, eval]
      generalize eval W e1 ρ l = o at hr hl hag
      generalize eval W (rw e1 k).1 ρ₂ l = o2 at hr hl hag hf
      obtain ⟨r, ρ', l'⟩ := o
      obtain ⟨r2, ρ2', l2'⟩ := o2
      simp only at hr hl hag hf
      subst hr; subst hl
      refine ⟨hk, ?_⟩
      cases r2 with
      | error ex => exact ⟨rfl, rfl, hag, hf⟩
      | ok v => cases v <;> exact ⟨rfl, rfl, hag, hf⟩
    | add a b =>
      intro k ρ ρ₂ l hu ha
      simp only [userOnly, Bool.and_eq_true] at hu
      have h1 := ih a (by simp at hsz; omega) k ρ ρ₂ l hu.1 ha
      obtain ⟨hk, ⟨hr, hl, hag, hf⟩⟩ := h1
      simp only [rw, eval]
      generalize eval W a ρ l = o at hr hl hag
      generalize eval W (rw a k).1 ρ₂ l = o2 at hr hl hag hf
      obtain ⟨r, ρ', l'⟩ := o
      obtain ⟨r2, ρ2', l2'⟩ := o2
      simp only at hr hl hag hf
      subst hr; subst hl
      have h2 := ih b (by simp at hsz; omega) (rw a k).2 ρ' ρ2' l2' hu.2 hag
      obtain ⟨hk2, ⟨hr2, hl2, hag2, hf2⟩⟩ := h2
      refine ⟨by omega, ?_⟩
      cases r2 with
      | error ex => exact ⟨rfl, rfl, hag, hf.widen (Nat.le_refl _) hk2⟩
      | ok v =>
        cases v with
        | int x =>
          dsimp only
          generalize eval W b ρ' l2' = p at hr2 hl2 hag2
          generalize eval W (rw b (rw a k).2).1 ρ2' l2' = p2 at hr2 hl2 hag2 hf2
          obtain ⟨q, ρq, lq⟩ := p
          obtain ⟨q2, ρq2, lq2⟩ := p2
          simp only at hr2 hl2 hag2 hf2
          subst hr2; subst hl2
          cases q2 with
          | error ex => exact ⟨rfl, rfl, hag2, hf.trans hf2 hk hk2⟩
          | ok w => cases w <;> exact ⟨rfl, rfl, hag2, hf.trans hf2 hk hk2⟩
        | _ => exact ⟨rfl, rfl, hag, hf.widen (Nat.le_refl _) hk2⟩
    | ite c a b =>
      intro k ρ ρ₂ l hu ha
      simp only [userOnly, Bool.and_eq_true] at hu
      have h1 := ih c (by simp at hsz; omega) k ρ ρ₂ l hu.1.1 ha
      obtain ⟨hk, ⟨hr, hl, hag, hf⟩⟩ := h1
      simp only [rw, eval]
      generalize eval W c ρ l = o at hr hl hag
      generalize eval W (rw c k).1 ρ₂ l = o2 at hr hl hag hf
      obtain ⟨r, ρ', l'⟩ := o
      obtain ⟨r2, ρ2', l2'⟩ := o2
      simp only at hr hl hag hf
      subst hr; subst hl
      have h2 := ih a (by simp at hsz; omega) (rw c k).2 ρ' ρ2' l2' hu.1.2 hag
      have hk2 := h2.1
      have h3k : (rw a (rw c k).2).2 ≤ (rw b (rw a (rw c k).2).2).2 := by
        have := (ih b (by simp at hsz; omega) (rw a (rw c k).2).2 ρ' ρ2' l2' hu.2 hag).1; exact this
      refine ⟨by omega, ?_⟩
      -- the untaken branch still advances the counter: its temporaries are simply never assigned
      have branchA : Sim k (rw b (rw a (rw c k).2).2).2 ρ₂ (eval W a ρ' l2') (eval W (rw a (rw c k).2).1 ρ2' l2') := by
        obtain ⟨_, ⟨hr2, hl2, hag2, hf2⟩⟩ := h2
        exact ⟨hr2, hl2, hag2, (hf.trans hf2 hk hk2).widen (Nat.le_refl _) h3k⟩
      have branchB : Sim k (rw b (rw a (rw c k).2).2).2 ρ₂ (eval W b ρ' l2') (eval W (rw b (rw a (rw c k).2).2).1 ρ2' l2') := by
        obtain ⟨_, ⟨hr3, hl3, hag3, hf3⟩⟩ := ih b (by simp at hsz; omega) (rw a (rw c k).2).2 ρ' ρ2' l2' hu.2 hag
        refine ⟨hr3, hl3, hag3, ?_⟩
        intro j s hj
        rw [hf3 j s (by omega)]
        exact hf j s (by omega)
      cases r2 with
      | error ex => exact ⟨rfl, rfl, hag, hf.widen (Nat.le_refl _) (by omega)⟩
      | ok v =>
        cases v with
        | int x =>
          by_cases hx : x = 0
          · subst hx; exact branchB
          · have key : ∀ (F G : Env → Log → Except Exn Val × Env × Log) (ρa : Env) (la : Log),
                (match ((Except.ok (Val.int x) : Except Exn Val), ρa, la) with
                  | (.ok (.int 0), ρ', l') => F ρ' l'
                  | (.ok _, ρ', l') => G ρ' l'
                  | r => r) = G ρa la := by
              intro F G ρa la
              split
              · rename_i h; injection h with h _; injection h with h; injection h with h; exact absurd h hx
              · rename_i h; injection h with h1 h2; injection h2 with h2 h3; subst h2; subst h3; rfl
              · rename_i h1 h2; exact absurd rfl (h2 _ _ _)
            rw [key (fun ρ' l' => eval W b ρ' l') (fun ρ' l' => eval W a ρ' l'),
                key (fun ρ' l' => eval W (rw b (rw a (rw c k).2).2).1 ρ' l') (fun ρ' l' => eval W (rw a (rw c k).2).1 ρ' l')]
            exact branchA
        | _ => exact branchA
    | subscript a b =>
      intro k ρ ρ₂ l hu ha
      simp only [userOnly, Bool.and_eq_true] at hu
      have h1 := ih a (by simp at hsz; omega) k ρ ρ₂ l hu.1 ha
      obtain ⟨hk, ⟨hr, hl, hag, hf⟩⟩ := h1
      simp only [rw, eval]
      generalize eval W a ρ l = o at hr hl hag
      generalize eval W (rw a k).1 ρ₂ l = o2 at hr hl hag hf
      obtain ⟨r, ρ', l'⟩ := o
      obtain ⟨r2, ρ2', l2'⟩ := o2
      simp only at hr hl hag hf
      subst hr; subst hl
      have h2 := ih b (by simp at hsz; omega) (rw a k).2 ρ' ρ2' l2' hu.2 hag
      obtain ⟨hk2, ⟨hr2, hl2, hag2, hf2⟩⟩ := h2
      refine ⟨by omega, ?_⟩
      cases r2 with
      | error ex => exact ⟨rfl, rfl, hag, hf.widen (Nat.le_refl _) hk2⟩
      | ok v =>
        dsimp only
        generalize eval W b ρ' l2' = p at hr2 hl2 hag2
        generalize eval W (rw b (rw a k).2).1 ρ2' l2' = p2 at hr2 hl2 hag2 hf2
        obtain ⟨q, ρq, lq⟩ := p
        obtain ⟨q2, ρq2, lq2⟩ := p2
        simp only at hr2 hl2 hag2 hf2
        subst hr2; subst hl2
        cases q2 with
        | error ex => exact ⟨rfl, rfl, hag2, hf.trans hf2 hk hk2⟩
        | ok w =>
          dsimp only
          split
          · split <;> exact ⟨rfl, rfl, hag2, hf.trans hf2 hk hk2⟩
          · exact ⟨rfl, rfl, hag2, hf.trans hf2 hk hk2⟩
    | tuple es =>
      intro k ρ ρ₂ l hu ha
      simp only [userOnly] at hu
      have hl := pList_of W es (fun e he => ih e (by have := sizeOf_mem_lt he; simp at hsz; omega))
      obtain ⟨hk, ⟨hr, hlg, hag, hf⟩⟩ := hl k ρ ρ₂ l hu ha
      simp only [rw, eval]
      generalize evalList W es ρ l = o at hr hlg hag
      generalize evalList W (rwList es k).1 ρ₂ l = o2 at hr hlg hag hf
      obtain ⟨r, ρ', l'⟩ := o
      obtain ⟨r2, ρ2', l2'⟩ := o2
      simp only at hr hlg hag hf
      subst hr; subst hlg
      refine ⟨hk, ?_⟩
      cases r2 with
      | error ex => exact ⟨rfl, rfl, hag, hf⟩
      | ok vs => dsimp only; cases vs.mapM toKeyElt <;> exact ⟨rfl, rfl, hag, hf⟩
    | call f args kws =>
      intro k ρ ρ₂ l hu ha
      simp only [userOnly, Bool.and_eq_true] at hu
      have ihA : ∀ e ∈ args, PExpr W e := fun e he => ih e (by have := sizeOf_mem_lt he; simp at hsz; omega)
      have ihK : ∀ p ∈ kws, PExpr W p.2 := fun p hp => ih p.2 (by have := sizeOf_kw_mem_lt hp; simp at hsz; omega)
      by_cases hspec : f = .glob "recurse" ∧ kws = []
      · -- the rewritten call:  MAP[(type(t0 := a0'), …)](t0, …)
        obtain ⟨hf', hk'⟩ := hspec
        subst hf'; subst hk'
        rw [rw_call_recurse]
        obtain ⟨hc, hm⟩ := pArgs_of W ok args ihA k 0 (k + 1) ρ ρ₂ l hu.1.2 ha (Nat.lt_succ_self k)
        refine ⟨by omega, ?_⟩
        -- original side: evaluate `recurse`, the arguments, then dispatch
        simp only [eval, ok.recurse, ok.map, evalKws]
        generalize hE : evalList W args ρ l = o at hm
        obtain ⟨r, ρ', l'⟩ := o
        cases r with
        | error ex =>
          dsimp only at hm ⊢
          obtain ⟨ρ₂', hev, hag, hfr⟩ := hm
          rw [hev]
          exact ⟨rfl, rfl, hag, hfr⟩
        | ok avs =>
          dsimp only at hm ⊢
          obtain ⟨ρ₂', hev, hag, hfr, _, hslots, hlen⟩ := hm
          rw [hev]
          dsimp only
          rw [mapM_toKeyElt]
          dsimp only
          have hread := evalList_tmpVars W k ρ₂' l' args avs 0 hlen (by intro m h; simpa using hslots m h)
          simp only [applyVal]
          cases hL : W.lookup (keyOf W avs []) with
          | error ex => exact ⟨rfl, rfl, hag, hfr⟩
          | ok h =>
            dsimp only
            rw [hread]
            exact ⟨rfl, rfl, hag, hfr⟩
      · rw [rw_call_general f args kws k hspec]
        have h1 := ih f (by simp at hsz; omega) k ρ ρ₂ l hu.1.1 ha
        obtain ⟨hk, ⟨hr, hl, hag, hf⟩⟩ := h1
        simp only [eval]
        generalize eval W f ρ l = o at hr hl hag
        generalize eval W (rw f k).1 ρ₂ l = o2 at hr hl hag hf
        obtain ⟨r, ρ1, l1⟩ := o
        obtain ⟨r2, ρ1', l1'⟩ := o2
        simp only at hr hl hag hf
        subst hr; subst hl
        obtain ⟨hk2, ⟨hr2, hl2, hag2, hf2⟩⟩ := pList_of W args ihA (rw f k).2 ρ1 ρ1' l1' hu.1.2 hag
        have hk3 := (pKws_of W kws ihK (rwList args (rw f k).2).2 ρ1 ρ1' l1' hu.2 hag).1
        refine ⟨by omega, ?_⟩
        cases r2 with
        | error ex => exact ⟨rfl, rfl, hag, hf.widen (Nat.le_refl _) (by omega)⟩
        | ok fv =>
          dsimp only
          generalize evalList W args ρ1 l1' = p at hr2 hl2 hag2
          generalize evalList W (rwList args (rw f k).2).1 ρ1' l1' = p2 at hr2 hl2 hag2 hf2
          obtain ⟨q, ρq, lq⟩ := p
          obtain ⟨q2, ρq2, lq2⟩ := p2
          simp only at hr2 hl2 hag2 hf2
          subst hr2; subst hl2
          obtain ⟨hk4, ⟨hr3, hl3, hag3, hf3⟩⟩ := pKws_of W kws ihK (rwList args (rw f k).2).2 ρq ρq2 lq2 hu.2 hag2
          cases q2 with
          | error ex => exact ⟨rfl, rfl, hag2, (hf.trans hf2 hk hk2).widen (Nat.le_refl _) hk4⟩
          | ok avs =>
            dsimp only
            generalize evalKws W kws ρq lq2 = p3 at hr3 hl3 hag3
            generalize evalKws W (rwKwList kws (rwList args (rw f k).2).2).1 ρq2 lq2 = p4 at hr3 hl3 hag3 hf3
            obtain ⟨q3, ρq3, lq3⟩ := p3
            obtain ⟨q4, ρq4, lq4⟩ := p4
            simp only at hr3 hl3 hag3 hf3
            subst hr3; subst hl3
            cases q4 with
            | error ex => exact ⟨rfl, rfl, hag3, (hf.trans hf2 hk hk2).trans hf3 (by omega) hk4⟩
            | ok kvs => exact ⟨rfl, rfl, hag3, (hf.trans hf2 hk hk2).trans hf3 (by omega) hk4⟩


/-- C09 (prototype form): for every expression written without the reserved temporaries, the rewritten expression
    evaluates to the same result / exception with the same sequence of side effects, and leaves the user's
    variables identical. -/
theorem C09_rewrite_preserves (W : World) (ok : WOK W) (e : Expr) (ρ : Env) (l : Log) (hu : userOnly e = true) :
    (eval W (rw e 0).1 ρ l).1 = (eval W e ρ l).1 ∧ (eval W (rw e 0).1 ρ l).2.2 = (eval W e ρ l).2.2
      ∧ Agree (eval W e ρ l).2.1 (eval W (rw e 0).1 ρ l).2.1 := by
  have h := (pExpr W ok (sizeOf e + 1) e (Nat.lt_succ_self _) 0 ρ ρ l hu (fun _ => rfl)).2
  exact ⟨h.res, h.log, h.agree⟩
#print axioms C09_rewrite_preserves

/-! A concrete run (not a proof of anything general): `recurse(tick a (x), recurse(tick b (1)))`. -/

end Ovld.Rw
