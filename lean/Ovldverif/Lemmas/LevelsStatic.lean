import Ovldverif.Model.SortTypes
import Ovldverif.Spec.Types
import Ovldverif.Lemmas.Basic
import Ovldverif.Lemmas.Batches
import Ovldverif.Props.C12
import Ovldverif.Props.C13
/-!
# Levels of plain classes: defined, exactly the applicable ones, strictly monotone

For a `TypeMap` whose registered types are plain classes (classes, ABCs, protocols) over a well-formed,
antisymmetric hierarchy: `sort_types` never hits a cycle, gives a level to exactly the registered superclasses
of the argument class, and a strict subclass always gets a strictly larger level than its superclass —
whatever the iteration order `avail` of the set of registered types and whatever else is registered.
-/
set_option autoImplicit false
namespace Ovld

variable (H : Hier)

def allCls (ts : List Ty) : Prop := ∀ t ∈ ts, ∃ c, t = .cls c

/-! ### the predecessor lists built by `allDeps` -/

theorem predFn_cons (a : Ty) (d : List Ty) (tl : List (Ty × List Ty)) (t : Ty) :
    predFn ((a, d) :: tl) t = if a = t then d else predFn tl t := by
  unfold predFn
  by_cases h : a = t
  · simp [h]
  · simp [h]

theorem predFn_allDepsGo_notin : ∀ (rest before : List Ty) (t : Ty), t ∉ rest →
    predFn (allDepsGo H before rest) t = []
  | [], _, _, _ => by simp [allDepsGo, predFn]
  | a :: rest, before, t, h => by
    have hne : a ≠ t := fun e => h (e ▸ List.mem_cons_self)
    have hr : t ∉ rest := fun e => h (List.mem_cons_of_mem _ e)
    rw [allDepsGo, predFn_cons, if_neg hne]
    exact predFn_allDepsGo_notin rest _ t hr

/-- the entry looked up for `t` is the one of its first occurrence: everything before it is compared as
    `typeorder u t`, everything after it as `typeorder t u` -/
theorem predFn_allDepsGo : ∀ (rest before : List Ty) (t : Ty), t ∈ rest →
    ∃ l1 l2, rest = l1 ++ t :: l2 ∧
      predFn (allDepsGo H before rest) t = depsOf H (before ++ l1) t l2
  | [], _, _, h => by cases h
  | a :: rest, before, t, h => by
    rw [allDepsGo, predFn_cons]
    by_cases hat : a = t
    · subst hat
      exact ⟨[], rest, rfl, by simp⟩
    · rw [if_neg hat]
      have hr : t ∈ rest := by
        rcases List.mem_cons.mp h with e | e
        · exact absurd e.symm hat
        · exact e
      obtain ⟨l1, l2, e1, e2⟩ := predFn_allDepsGo rest (before ++ [a]) t hr
      refine ⟨a :: l1, l2, by rw [e1]; rfl, ?_⟩
      rw [e2]; simp [List.append_assoc]

/-- soundness of the predecessor lists -/
theorem pred_sound (av : List Ty) (u t : Ty) (h : u ∈ predFn (allDeps H av) t) :
    u ∈ av ∧ t ∈ av ∧ (typeorder H u t = .less ∨ typeorder H t u = .more) := by
  by_cases ht : t ∈ av
  · obtain ⟨l1, l2, e1, e2⟩ := predFn_allDepsGo H av [] t ht
    unfold allDeps at h
    rw [e2] at h
    simp only [depsOf, List.nil_append, List.mem_append, List.mem_filter, beq_iff_eq] at h
    rcases h with ⟨h1, h2⟩ | ⟨h1, h2⟩
    · exact ⟨by rw [e1]; simp [h1], ht, Or.inl h2⟩
    · exact ⟨by rw [e1]; simp [h1], ht, Or.inr h2⟩
  · unfold allDeps at h
    rw [predFn_allDepsGo_notin H av [] t ht] at h
    cases h

/-- completeness of the predecessor lists -/
theorem pred_complete (av : List Ty) (u t : Ty) (hu : u ∈ av) (ht : t ∈ av) (hne : u ≠ t)
    (h1 : typeorder H u t = .less) (h2 : typeorder H t u = .more) :
    u ∈ predFn (allDeps H av) t := by
  obtain ⟨l1, l2, e1, e2⟩ := predFn_allDepsGo H av [] t ht
  unfold allDeps
  rw [e2]
  simp only [depsOf, List.nil_append, List.mem_append, List.mem_filter, beq_iff_eq]
  rw [e1] at hu
  rcases List.mem_append.mp hu with h | h
  · exact Or.inl ⟨h, h1⟩
  · rcases List.mem_cons.mp h with h | h
    · exact absurd h hne
    · exact Or.inr ⟨h, h2⟩

/-! ### the strict order on plain classes -/

theorem cls_less_iff (anti : H.Antisym) (x y : Nat) :
    typeorder H (.cls x) (.cls y) = .less ↔ x ≠ y ∧ H.sub x y = true := by
  rw [C12_cls]
  by_cases h : x = y
  · simp [h]
  · simp only [h, if_false]
    cases hxy : H.sub x y <;> cases hyx : H.sub y x <;> simp [ofSub, h]
    exact h (anti x y hxy hyx)

theorem cls_more_iff (x y : Nat) :
    typeorder H (.cls y) (.cls x) = .more ↔ typeorder H (.cls x) (.cls y) = .less := by
  rw [C12_cls_mirror H x y]
  cases typeorder H (.cls x) (.cls y) <;> simp [TOrd.opposite]

theorem countP_lt {α : Type} (p q : α → Bool) : ∀ (l : List α),
    (∀ a ∈ l, p a = true → q a = true) → (∃ a ∈ l, p a = false ∧ q a = true) →
    l.countP p < l.countP q
  | [], _, ⟨_, ha, _⟩ => by cases ha
  | b :: l, himp, ⟨a, ha, hpa, hqa⟩ => by
    have himp' : ∀ x ∈ l, p x = true → q x = true := fun x hx => himp x (List.mem_cons_of_mem _ hx)
    have hle : l.countP p ≤ l.countP q := List.countP_mono_left himp'
    rw [List.countP_cons, List.countP_cons]
    rcases List.mem_cons.mp ha with e | e
    · subst e
      simp only [hpa, hqa, if_true]
      simp
      omega
    · have ih := countP_lt p q l himp' ⟨a, e, hpa, hqa⟩
      have hb := himp b List.mem_cons_self
      cases hp : p b <;> cases hq : q b
      · simp; omega
      · simp; omega
      · rw [hp, hq] at hb; exact absurd (hb rfl) (by simp)
      · simp; omega

/-- rank witnessing acyclicity: the number of strictly more specific nodes -/
def rankOf (av : List Ty) (t : Ty) : Nat := av.countP (fun u => typeorder H u t == .less)

theorem rank_lt (wf : H.WF) (anti : H.Antisym) (av : List Ty) (hs : allCls av) (u t : Ty)
    (hu : u ∈ av) (ht : t ∈ av) (h : typeorder H u t = .less) :
    rankOf H av u < rankOf H av t := by
  obtain ⟨x, rfl⟩ := hs u hu
  obtain ⟨y, rfl⟩ := hs t ht
  unfold rankOf
  apply countP_lt
  · intro w hw hwu
    obtain ⟨z, rfl⟩ := hs w hw
    rw [beq_iff_eq] at hwu ⊢
    exact C12_cls_trans H wf anti z x y hwu h
  · refine ⟨.cls x, hu, ?_, ?_⟩
    · rw [C12_refl]; rfl
    · rw [h]; rfl

/-- on plain classes the batches are a permutation of the nodes -/
theorem sortTypes_perm (wf : H.WF) (anti : H.Antisym) (av : List Ty) (hs : allCls av) (nd : av.Nodup) :
    (batches (predFn (allDeps H av)) av.length av []).flatten.Perm av := by
  refine batches_perm _ av nd ?_ (rankOf H av) ?_
  · intro v _ u hu
    exact (pred_sound H av u v hu).1
  · intro v hv u hu
    obtain ⟨hua, _, hor⟩ := pred_sound H av u v hu
    obtain ⟨x, hx⟩ := hs u hua
    obtain ⟨y, hy⟩ := hs v hv
    have hlt : typeorder H u v = .less := by
      rcases hor with h | h
      · exact h
      · subst hx; subst hy; exact (cls_more_iff H x y).mp h
    exact rank_lt H wf anti av hs u v hua hv hlt

/-! ### unfolding `levels` -/

/-- the applicable registered types -/
def applicableTys (cls : Ty) (avail : List Ty) : List Ty := avail.filter (fun t => subclasscheck H cls t)

/-- the batches computed by `sortTypes` -/
def batchesOf (cls : Ty) (avail : List Ty) : List (List Ty) :=
  batches (predFn (allDeps H (applicableTys H cls avail))) (applicableTys H cls avail).length
    (applicableTys H cls avail) []

/-- numbering of the batches -/
def lvOf (bs : List (List Ty)) (n k : Nat) : List (Ty × Nat) :=
  (bs.zipIdx k).flatMap (fun (b, i) => b.map (fun t => (t, n - 1 - i)))

theorem lvOf_cons (b : List Ty) (bs : List (List Ty)) (n k : Nat) :
    lvOf (b :: bs) n k = b.map (fun t => (t, n - 1 - k)) ++ lvOf bs n (k + 1) := by
  simp [lvOf, List.zipIdx_cons, List.flatMap_cons]

theorem lvOf_fst (n : Nat) : ∀ (bs : List (List Ty)) (k : Nat),
    (lvOf bs n k).map (·.1) = bs.flatten
  | [], k => by simp [lvOf]
  | b :: bs, k => by
    rw [lvOf_cons, List.map_append, lvOf_fst n bs (k + 1), List.flatten_cons, List.map_map]
    congr 1
    simp [Function.comp_def]

/-- a level is `n - 1 - (batch index)` -/
theorem lvOf_batchIdx (n : Nat) (t : Ty) (l : Nat) : ∀ (bs : List (List Ty)) (k : Nat),
    bs.flatten.Nodup → (t, l) ∈ lvOf bs n k →
    ∃ i, batchIdx t bs k = some i ∧ i < k + bs.length ∧ l = n - 1 - i
  | [], k, _, h => by simp [lvOf] at h
  | b :: bs, k, nd, h => by
    rw [lvOf_cons, List.mem_append] at h
    rw [List.flatten_cons, List.nodup_append] at nd
    obtain ⟨_, nd2, hdis⟩ := nd
    rcases h with h | h
    · rw [List.mem_map] at h
      obtain ⟨t', ht', e⟩ := h
      cases e
      refine ⟨k, ?_, ?_, rfl⟩
      · simp only [batchIdx]; rw [if_pos ht']
      · simp
    · obtain ⟨i, hi, hlt, hl⟩ := lvOf_batchIdx n t l bs (k + 1) nd2 h
      have hfl : t ∈ bs.flatten := by
        rw [← batchIdx_isSome t bs (k + 1), hi]; rfl
      have hnb : t ∉ b := fun hb => hdis t hb t hfl rfl
      refine ⟨i, ?_, ?_, hl⟩
      · simp only [batchIdx]; rw [if_neg hnb]; exact hi
      · simp only [List.length_cons]; omega

theorem applicableTys_cls (c : Nat) (avail : List Ty) (hs : allCls avail) :
    allCls (applicableTys H (.cls c) avail) := by
  intro t ht
  exact hs t (List.mem_filter.mp ht).1

theorem applicableTys_nodup (c : Nat) (avail : List Ty) (nd : avail.Nodup) :
    (applicableTys H (.cls c) avail).Nodup :=
  List.Nodup.sublist List.filter_sublist nd

theorem batchesOf_perm (wf : H.WF) (anti : H.Antisym) (c : Nat) (avail : List Ty)
    (hs : allCls avail) (nd : avail.Nodup) :
    (batchesOf H (.cls c) avail).flatten.Perm (applicableTys H (.cls c) avail) :=
  sortTypes_perm H wf anti _ (applicableTys_cls H c avail hs) (applicableTys_nodup H c avail nd)

theorem sortTypes_eq (wf : H.WF) (anti : H.Antisym) (c : Nat) (avail : List Ty)
    (hs : allCls avail) (nd : avail.Nodup) :
    sortTypes H (.cls c) avail = some (batchesOf H (.cls c) avail) := by
  have hp := (batchesOf_perm H wf anti c avail hs nd).length_eq
  unfold sortTypes
  simp only []
  rw [if_pos]
  · rfl
  · rw [beq_iff_eq]; exact hp

theorem levels_eq (wf : H.WF) (anti : H.Antisym) (c : Nat) (avail : List Ty)
    (hs : allCls avail) (nd : avail.Nodup) :
    levels H (.cls c) avail =
      some (lvOf (batchesOf H (.cls c) avail) (batchesOf H (.cls c) avail).length 0) := by
  unfold levels
  rw [sortTypes_eq H wf anti c avail hs nd]
  rfl

/-- no `CycleError` on plain classes -/
theorem levels_defined (wf : H.WF) (anti : H.Antisym) (c : Nat) (avail : List Ty)
    (hs : allCls avail) (nd : avail.Nodup) :
    ∃ lv, levels H (.cls c) avail = some lv :=
  ⟨_, levels_eq H wf anti c avail hs nd⟩

/-- the types that get a level are exactly the registered superclasses of `c`, each once -/
theorem levels_mem (wf : H.WF) (anti : H.Antisym) (c : Nat) (avail : List Ty)
    (hs : allCls avail) (nd : avail.Nodup) (lv : List (Ty × Nat)) (h : levels H (.cls c) avail = some lv) :
    (lv.map (·.1)).Nodup ∧
    ∀ d : Nat, (∃ l, (Ty.cls d, l) ∈ lv) ↔ (Ty.cls d ∈ avail ∧ H.sub c d = true) := by
  rw [levels_eq H wf anti c avail hs nd] at h
  cases h
  have hp := batchesOf_perm H wf anti c avail hs nd
  have hfst := lvOf_fst (batchesOf H (.cls c) avail).length (batchesOf H (.cls c) avail) 0
  refine ⟨?_, ?_⟩
  · rw [hfst]
    exact hp.nodup_iff.mpr (applicableTys_nodup H c avail nd)
  · intro d
    have h1 : (∃ l, (Ty.cls d, l) ∈ lvOf (batchesOf H (.cls c) avail) (batchesOf H (.cls c) avail).length 0) ↔
        Ty.cls d ∈ (batchesOf H (.cls c) avail).flatten := by
      rw [← hfst, List.mem_map]
      constructor
      · rintro ⟨l, hl⟩; exact ⟨(Ty.cls d, l), hl, rfl⟩
      · rintro ⟨⟨t, l⟩, hl, e⟩
        simp only at e
        subst e
        exact ⟨l, hl⟩
    rw [h1, hp.mem_iff]
    unfold applicableTys
    rw [List.mem_filter, C13_cls H wf]

/-- strict monotonicity: a strict subclass sits at a strictly higher level -/
theorem levels_mono (wf : H.WF) (anti : H.Antisym) (c : Nat) (avail : List Ty)
    (hs : allCls avail) (nd : avail.Nodup) (lv : List (Ty × Nat)) (h : levels H (.cls c) avail = some lv)
    (x y : Nat) (lx ly : Nat) (hx : (Ty.cls x, lx) ∈ lv) (hy : (Ty.cls y, ly) ∈ lv)
    (hsub : H.sub x y = true) (hne : x ≠ y) :
    lx > ly := by
  rw [levels_eq H wf anti c avail hs nd] at h
  cases h
  have hp := batchesOf_perm H wf anti c avail hs nd
  have ndf : (batchesOf H (.cls c) avail).flatten.Nodup :=
    hp.nodup_iff.mpr (applicableTys_nodup H c avail nd)
  obtain ⟨ix, hix, hixlt, rfl⟩ := lvOf_batchIdx _ _ _ _ 0 ndf hx
  obtain ⟨iy, hiy, hiylt, rfl⟩ := lvOf_batchIdx _ _ _ _ 0 ndf hy
  have hxa : Ty.cls x ∈ applicableTys H (.cls c) avail := by
    rw [← hp.mem_iff, ← batchIdx_isSome _ _ 0, hix]; rfl
  have hya : Ty.cls y ∈ applicableTys H (.cls c) avail := by
    rw [← hp.mem_iff, ← batchIdx_isSome _ _ 0, hiy]; rfl
  have hlt : typeorder H (.cls x) (.cls y) = .less := (cls_less_iff H anti x y).mpr ⟨hne, hsub⟩
  have hpred : Ty.cls x ∈ predFn (allDeps H (applicableTys H (.cls c) avail)) (.cls y) :=
    pred_complete H _ _ _ hxa hya (by intro e; cases e; exact hne rfl) hlt
      ((cls_more_iff H x y).mpr hlt)
  obtain ⟨ju, hju, hjlt⟩ := pred_earlier _ _ _ _ _ iy hpred hiy
  have hjx : ju = ix := by
    have : batchIdx (Ty.cls x) (batchesOf H (.cls c) avail) 0 = some ju := hju
    rw [hix] at this
    cases this; rfl
  omega

/-- the level of a type is unique -/
theorem levels_fun (wf : H.WF) (anti : H.Antisym) (c : Nat) (avail : List Ty)
    (hs : allCls avail) (nd : avail.Nodup) (lv : List (Ty × Nat)) (h : levels H (.cls c) avail = some lv)
    (t : Ty) (l l' : Nat) (h1 : (t, l) ∈ lv) (h2 : (t, l') ∈ lv) : l = l' := by
  rw [levels_eq H wf anti c avail hs nd] at h
  cases h
  have hp := batchesOf_perm H wf anti c avail hs nd
  have ndf : (batchesOf H (.cls c) avail).flatten.Nodup :=
    hp.nodup_iff.mpr (applicableTys_nodup H c avail nd)
  obtain ⟨i, hi, _, rfl⟩ := lvOf_batchIdx _ _ _ _ 0 ndf h1
  obtain ⟨i', hi', _, rfl⟩ := lvOf_batchIdx _ _ _ _ 0 ndf h2
  rw [hi] at hi'
  cases hi'
  rfl

end Ovld
