"""Correspondence layer G: graphs of Ovld objects (copy / variant / add_mixins / linkback / register /
unregister / call) vs the Lean model (Model/Graph.lean), with the C16 / C08 oracle: every call on every node
behaves like a fresh function carrying the overlay of the node's ancestors' and own current definitions."""

import json
import random
import sys

from common import run_driver, use_repo
from corr_d import RANK, RankedSet
from fnlevel import DepthExceeded, FnWorld, kind_of_exc
from world import NBUILTIN, make_world

use_repo()


def gen_graph_scenario(rng: random.Random, nnodes=None, nuser=None, recurse_bias=0.2):
    w = make_world(rng, nuser=nuser or rng.randint(2, 5))
    classes = list(range(NBUILTIN, w.n))
    ndefs = rng.randint(3, 8)
    args = [{"vid": i, "kind": "inst", "c": c} for i, c in enumerate(classes)]
    defs = []
    for i in range(ndefs):
        c = rng.choice(classes + [0])
        body = ["ret"]
        r = rng.random()
        if r < 0.25 * (1 - recurse_bias):
            body = ["callNext", [["p", 0]]]
        elif r < 0.25 * (1 - recurse_bias) + recurse_bias:
            body = ["recurse", [["c", rng.randrange(len(args))]]]
        defs.append({"id": i, "code": 100 + i, "isMethod": False, "prio": rng.choice([0, 0, 0, 1]), "params": [{"name": 0, "kind": "pk", "req": True, "ty": ["cls", c]}], "body": body})
    ops = [["create", [], False]]
    nn = 1
    # functions that are derived from and changed but never called themselves: an intermediate that was never put
    # to use must still pass changes on to the functions built on top of it
    quiet = set()
    quiet_p = rng.choice([0.0, 0.3, 0.5])
    derives = {0: set()}  # node -> set of ancestors
    maxn = nnodes or rng.randint(2, 5)
    nsteps = rng.randint(6, 16)
    for _ in range(nsteps):
        r = rng.random()
        if r < 0.2 and nn < maxn:
            k = rng.choice([0, 1, 1, 2])
            ms = rng.sample(range(nn), min(k, nn))
            ops.append(["create", ms, rng.random() < (0.8 if quiet_p else 0.5)])
            derives[nn] = set(ms) | set().union(*[derives[m] for m in ms]) if ms else set()
            if rng.random() < quiet_p:
                quiet.add(nn)
            nn += 1
            # like `@f.variant def f(...)`: the child's first own method is the function that also named its parent
            # (related functions then share their short name)
            if ms and rng.random() < 0.4:
                firsts = [op[2] for op in ops if op[0] == "reg" and op[1] == ms[0]]
                if firsts:
                    ops.append(["reg", nn - 1, firsts[0]])
        elif r < 0.28 and nn >= 2:
            n = rng.randrange(nn)
            cands = [m for m in range(nn) if m != n and n not in derives[m] and m not in derives[n]]
            if cands:
                m = rng.choice(cands)
                ops.append(["addmix", n, [m]])
                new_anc = {m} | derives[m]
                for x in range(nn):
                    if x == n or n in derives[x]:
                        derives[x] |= new_anc
        elif r < 0.58:
            ops.append(["reg", rng.randrange(nn), rng.randrange(ndefs)])
        elif r < 0.65:
            ops.append(["unreg", rng.randrange(nn), rng.randrange(ndefs)])
        else:
            loud = [n for n in range(nn) if n not in quiet]
            if loud:
                ops.append(["call", rng.choice(loud), [rng.randrange(len(args))], []])
        # probes on every node after structural changes
        if ops[-1][0] != "call" and rng.random() < 0.5:
            a = rng.randrange(len(args))
            for n in range(nn):
                if n not in quiet and rng.random() < 0.7:
                    ops.append(["call", n, [a], []])
    if rng.random() < 0.3:
        # a linked variant that is put to use BEFORE its parent: the parent's own first call (its lazy build) is no
        # change of anybody's method set, so the variant's repeated calls must not resolve again afterwards
        a = rng.randrange(len(args))
        ops.append(["create", [], False])
        root = nn
        for d in rng.sample(range(ndefs), min(ndefs, rng.randint(1, 3))):
            ops.append(["reg", root, d])
        ops.append(["create", [root], True])
        child = nn + 1
        if rng.random() < 0.5:
            ops.append(["reg", child, rng.randrange(ndefs)])
        ops += [["call", child, [a], []], ["call", child, [a], []], ["call", root, [a], []], ["call", child, [a], []], ["call", root, [a], []]]
        nn += 2
    if rng.random() < 0.3:
        # a chain of derived functions none of which has been used yet: the root may still change (with or without
        # linkback), and every function below it — two and three levels down — must see the change at its first use
        root = nn
        ops.append(["create", [], False])
        picks = rng.sample(range(ndefs), min(ndefs, 4))
        for d in picks[:2]:
            ops.append(["reg", root, d])
        chain = [root]
        for depth in range(rng.choice([2, 2, 3])):
            ops.append(["create", [chain[-1]], rng.random() < 0.5])
            chain.append(nn + 1 + depth)
            if rng.random() < 0.7:
                ops.append(["reg", chain[-1], rng.choice(picks)])
        nn += len(chain)
        if len(picks) > 2 and rng.random() < 0.7:
            ops.append(["reg", root, picks[2]])
        else:
            ops.append(["unreg", root, picks[0]])
        if len(picks) > 3 and rng.random() < 0.5:
            ops.append(["reg", chain[1], picks[3]])
        for a in rng.sample(range(len(args)), min(len(args), 3)):
            for n in reversed(chain):
                ops.append(["call", n, [a], []])
    alltys = []
    for d in defs:
        for p in d["params"]:
            if p["ty"] not in alltys:
                alltys.append(p["ty"])
    hrank = list(range(ndefs))
    rng.shuffle(hrank)
    return w, {"defs": defs, "args": args, "ops": ops, "tyrank_desc": alltys, "hrank": hrank}


class GraphWorld(FnWorld):
    def _run(self, Ovld, call_next, recurse):
        sc = self.sc
        log, depth, fw = self.log, self.depth, self

        def ENTER(mid, pos, kw):
            log.append([mid, [fw.canon_val(mid, v) for v in pos], sorted([n, fw.canon_val(mid, v)] for n, v in kw.items())])

        def DOWN():
            if depth[0] + 1 >= 6:
                raise DepthExceeded()
            depth[0] += 1

        def UP():
            depth[0] -= 1

        glb = {"__name__": "verif_gmod", "ENTER": ENTER, "DOWN": DOWN, "UP": UP, "call_next": call_next, "recurse": recurse}
        for i, v in enumerate(self.vals):
            glb[f"C{i}"] = v
        self.glb = glb
        fns = {i: self.build_fn(d, glb) for i, d in enumerate(sc["defs"])}
        nodes = []
        out = []
        for op in sc["ops"]:
            del log[:]
            del self.accepts[:]
            depth[0] = 0
            self.nres[0] = 0
            try:
                if op[0] == "create":
                    # through the public API where there is one: `copy` (what `variant` uses) for a derived function
                    if op[1]:
                        nodes.append(nodes[op[1][0]].copy(mixins=[nodes[m] for m in op[1][1:]], linkback=op[2]))
                    else:
                        nodes.append(Ovld(mixins=[], linkback=op[2]))
                    out.append({"o": ["ok"]})
                elif op[0] == "addmix":
                    nodes[op[1]].add_mixins(*[nodes[m] for m in op[2]])
                    out.append({"o": ["ok"]})
                elif op[0] == "reg":
                    nodes[op[1]].register(fns[op[2]], priority=sc["defs"][op[2]]["prio"])
                    out.append({"o": ["ok"]})
                elif op[0] == "unreg":
                    nodes[op[1]].unregister(fns[op[2]])
                    out.append({"o": ["ok"]})
                else:
                    pos = [self.vals[i] for i in op[2]]
                    r = nodes[op[1]](*pos)
                    o = ["ran", r[1]] if isinstance(r, tuple) and r and r[0] == "ret" else ["returned", repr(r)[:80]]
                    out.append({"o": o, "t": self.canon_log(), "locked": [i for i, n in enumerate(nodes) if n._locked], "nres": self.nres[0]})
            except Exception as e:  # noqa
                k = kind_of_exc(e)
                if op[0] == "call":
                    out.append({"o": k, "t": self.canon_log(), "locked": [i for i, n in enumerate(nodes) if n._locked], "msg": str(e)[:120]})
                else:
                    out.append({"o": k})
        return out

    # the build_fn of FnWorld logs through ENTER with acceptance checks; keep that version
    def build_fn(self, d, glb):
        fn = FnWorld.build_fn(self, d, glb)
        return fn


def to_model(w, sc):
    t = lambda c: ["cls", c]  # noqa
    return {
        "layer": "G", "hier": w.tables(),
        "tyrank": [w.tyj(x) for x in sc["tyrank_desc"]], "hrank": sc["hrank"],
        "defs": [{**d, "params": [{**p, "ty": w.tyj(p["ty"])} for p in d["params"]]} for d in sc["defs"]],
        "args": [{"vid": a["vid"], "cls": t(a["c"]), "subtler": t(a["c"])} for a in sc["args"]],
        "ops": sc["ops"],
    }


def run(seed, n):
    rng = random.Random(seed)
    scs, impls, keep = [], [], []
    for _ in range(n):
        w, sc = gen_graph_scenario(rng)
        impls.append(GraphWorld(w, sc).run())
        scs.append(to_model(w, sc))
        keep.append((w, sc))
    res = run_driver(scs)
    diffs, nops, hist, stale = [], 0, {}, 0
    for i, (r, im) in enumerate(zip(res, impls)):
        if "error" in r:
            diffs.append((i, "driver-error", r["error"]))
            continue
        for j, (a, b) in enumerate(zip(r["ops"], im)):
            nops += 1
            hist[b["o"][0]] = hist.get(b["o"][0], 0) + 1
            ma = {k: v for k, v in a.items() if k in ("o", "t", "locked")}
            if ma.get("o", [None])[0] == "ambiguous":
                ma["o"] = ["ambiguous"]
            mb = {k: v for k, v in b.items() if k in ("o", "t", "locked")}
            if ma != mb:
                diffs.append((i, j, "model", ma, "impl", mb, b.get("msg"), keep[i][1]["ops"][: j + 1]))
                break
            if "exp" in a:
                e = a["exp"]
                if e["o"] and e["o"][0] == "ambiguous":
                    e["o"] = ["ambiguous"]
                if {"o": e["o"], "t": e["t"]} != {"o": mb["o"], "t": mb["t"]}:
                    stale += 1
    return nops, diffs, hist, stale, keep


if __name__ == "__main__":
    seed = int(sys.argv[1]) if len(sys.argv) > 1 else 0
    n = int(sys.argv[2]) if len(sys.argv) > 2 else 50
    nops, diffs, hist, stale, keep = run(seed, n)
    print("ops", nops, "diffs", len(diffs), "stale", stale, hist)
    for d in diffs[:4]:
        print(json.dumps(d, default=str)[:1500])
