import Ovldverif.Model.Entry
/-!
# C03 — the dispatcher passes arguments, defaults, results and errors through intact

`entry a c` is the generated entry point applied to a call; `methodBind d x` is CPython binding the forwarded
arguments to the selected method's own parameter list.
-/
set_option autoImplicit false
namespace Ovld

/-- the positions `0 .. m-1` as the entry point sees them filled: positionally, or by keyword -/
def suppliedAt (a : Analysis) (c : Call) (i : Nat) : Option Arg :=
  match c.pos[i]? with
  | some v => some v
  | none =>
    match a.nameOfPos i with
    | some n => if i ≥ a.posOnly then (c.kw.find? (fun e => e.1 == n)).map (·.2) else none
    | none => none

/-! ## An explicit form of `entry` (the `for` loops as folds) -/

abbrev KwSt := List (Nat × Arg) × List (Nat × Arg)

/-- the position that CPython fills with keyword `n`, if any -/
def fnd (a : Analysis) (n : Nat) : Option Nat :=
  (List.range a.npos).find? (fun i => decide (i ≥ a.posOnly) && a.nameOfPos i == some n)

def kwStep (a : Analysis) (c : Call) (st : KwSt) (e : Nat × Arg) : Except BindErr KwSt :=
  match fnd a e.1 with
  | some i =>
    if (decide (i < c.pos.length) || st.1.any (fun s => s.1 == i)) = true then .error .multipleValues
    else .ok (st.1 ++ [(i, e.2)], st.2)
  | none =>
    if (a.kwReq ++ a.kwOpt).contains e.1 = true then
      if (st.2.any (fun s => s.1 == e.1)) = true then .error .multipleValues
      else .ok (st.1, st.2 ++ [e])
    else .error .unexpectedKw

def foldE {α σ ε : Type} (g : σ → α → Except ε σ) : List α → σ → Except ε σ
  | [], s => .ok s
  | x :: xs, s => match g s x with
    | .ok s' => foldE g xs s'
    | .error e => .error e

theorem forIn_eq_foldE {α σ ε : Type} (g : σ → α → Except ε σ) (f : α → σ → Except ε (ForInStep σ))
    (hfg : ∀ x s, f x s = match g s x with | .ok s' => .ok (ForInStep.yield s') | .error e => .error e)
    (l : List α) (init : σ) : forIn l init f = foldE g l init := by
  induction l generalizing init with
  | nil => rfl
  | cons x xs ih =>
    rw [List.forIn_cons, hfg]
    unfold foldE
    cases g init x with
    | ok s' => exact ih s'
    | error e => rfl

theorem forIn_check {α ε : Type} (p : α → Bool) (err : ε) (f : α → PUnit → Except ε (ForInStep PUnit))
    (hf : ∀ x s, f x s = if p x = true then .error err else .ok (ForInStep.yield PUnit.unit))
    (l : List α) : forIn l PUnit.unit f = if l.any p = true then .error err else .ok PUnit.unit := by
  induction l with
  | nil => rfl
  | cons x xs ih =>
    rw [List.forIn_cons, hf, List.any_cons]
    cases hp : p x with
    | true => rfl
    | false => exact ih

theorem check_seq {α β ε δ : Type} (p1 : α → Bool) (p2 : β → Bool) (err : ε)
    (f1 : α → PUnit → Except ε (ForInStep PUnit)) (f2 : β → PUnit → Except ε (ForInStep PUnit))
    (hf1 : ∀ x s, f1 x s = if p1 x = true then .error err else .ok (ForInStep.yield PUnit.unit))
    (hf2 : ∀ x s, f2 x s = if p2 x = true then .error err else .ok (ForInStep.yield PUnit.unit))
    (l1 : List α) (l2 : List β) (d : δ) :
    (do forIn l1 PUnit.unit f1; forIn l2 PUnit.unit f2; pure d : Except ε δ) =
      if l1.any p1 = true then .error err else if l2.any p2 = true then .error err else .ok d := by
  rw [forIn_check p1 err f1 hf1, forIn_check p2 err f2 hf2]
  split
  · rfl
  · split <;> rfl

def valAtOf (c : Call) (slots : List (Nat × Arg)) (i : Nat) : Option Arg :=
  match c.pos[i]? with
  | some v => some v
  | none => (slots.find? (fun s => s.1 == i)).map (·.2)

def finish (a : Analysis) (c : Call) (slots kws : List (Nat × Arg)) : Dispatch :=
  let valAt := valAtOf c slots
  let firstMissing := (List.range a.npos).find? (fun i => decide (i ≥ a.nreq) && (valAt i).isNone)
  let kk := a.kwReq.filterMap (fun n => (kws.find? (fun s => s.1 == n))) ++
            a.kwOpt.filterMap (fun n => (kws.find? (fun s => s.1 == n)))
  let vals := match firstMissing with
    | some m => (List.range m).filterMap valAt
    | none => (List.range a.npos).filterMap valAt
  { key := vals.zipIdx.map (fun (v, i) => (Slot.pos i, keyTy (a.complexPos.contains i) v)) ++
                  kk.map (fun (n, v) => (Slot.kw n, keyTy (a.complexKw.contains n) v)),
           passPos := vals, passKw := kk }

def entry' (a : Analysis) (c : Call) : Except BindErr Dispatch :=
  if c.pos.length > a.npos then .error .tooManyPos else
  match foldE (kwStep a c) c.kw ([], []) with
  | .error e => .error e
  | .ok st =>
    if (List.range a.nreq).any (fun i => (valAtOf c st.1 i).isNone) = true then .error .missingRequired
    else if a.kwReq.any (fun n => !(st.2.any (fun s => s.1 == n))) = true then .error .missingRequired
    else .ok (finish a c st.1 st.2)

set_option linter.unusedSimpArgs false in
theorem entry_eq (a : Analysis) (c : Call) : entry a c = entry' a c := by
  unfold entry entry'
  by_cases h0 : c.pos.length > a.npos
  · simp only [h0, if_true]; rfl
  · simp only [h0, if_false]
    rw [forIn_eq_foldE (kwStep a c)]
    · cases foldE (kwStep a c) c.kw ([], []) with
      | error e => rfl
      | ok st =>
        exact check_seq (fun i => (valAtOf c st.1 i).isNone) (fun n => !(st.2.any (fun s => s.1 == n)))
          BindErr.missingRequired _ _ (fun _ _ => rfl) (fun _ _ => rfl) _ _ _
    · intro x s
      unfold kwStep fnd
      generalize List.find? _ _ = o
      cases o with
      | some i => dsimp only; split <;> (simp only [*, if_true, if_false]; rfl)
      | none =>
        dsimp only
        split
        · split <;> (simp only [*, if_true, if_false]; rfl)
        · rfl
/-! ## Small list facts -/

theorem find?_fst_of_pairwise {β : Type} (l : List (Nat × β))
    (hnd : l.Pairwise (fun x y => x.1 ≠ y.1)) (e : Nat × β) (k : Nat) (he : e ∈ l) (hk : e.1 = k) :
    l.find? (fun s => s.1 == k) = some e := by
  induction l with
  | nil => cases he
  | cons x xs ih =>
    rw [List.pairwise_cons] at hnd
    rcases List.mem_cons.1 he with rfl | hin
    · exact List.find?_cons_of_pos (by simp [hk])
    · have hne : x.1 ≠ e.1 := hnd.1 e hin
      rw [List.find?_cons_of_neg (by simpa [← hk] using hne)]
      exact ih hnd.2 hin

theorem find?_fst_some {β : Type} (l : List (Nat × β)) (k : Nat) (s : Nat × β)
    (h : l.find? (fun s => s.1 == k) = some s) : s ∈ l ∧ s.1 = k :=
  ⟨List.mem_of_find?_eq_some h, by simpa using List.find?_some h⟩

theorem map_eq_map_some_filterMap {α β : Type} (f : α → Option β) (l : List α)
    (h : ∀ x ∈ l, (f x).isSome = true) : l.map f = (l.filterMap f).map some := by
  induction l with
  | nil => rfl
  | cons x xs ih =>
    have hx := h x (List.mem_cons_self)
    cases hfx : f x with
    | none => rw [hfx] at hx; cases hx
    | some v =>
      rw [List.filterMap_cons_some hfx, List.map_cons, List.map_cons, hfx,
        ih (fun y hy => h y (List.mem_cons_of_mem _ hy))]

theorem getElem?_filterMap_range {β : Type} (f : Nat → Option β) (m : Nat)
    (h : ∀ i, i < m → (f i).isSome = true) (i : Nat) (v : β) :
    ((List.range m).filterMap f)[i]? = some v ↔ i < m ∧ f i = some v := by
  have hl := map_eq_map_some_filterMap f (List.range m) (fun x hx => h x (List.mem_range.1 hx))
  have h2 : ((List.range m).map f)[i]? = (((List.range m).filterMap f).map some)[i]? := by rw [hl]
  rw [List.getElem?_map, List.getElem?_map] at h2
  by_cases hi : i < m
  · rw [List.getElem?_range hi] at h2
    cases hL : ((List.range m).filterMap f)[i]? with
    | none => rw [hL] at h2; cases h2
    | some w =>
      rw [hL] at h2
      have h3 : f i = some w := Option.some.inj h2
      constructor
      · intro hv; cases hv; exact ⟨hi, h3⟩
      · intro hv; rw [h3] at hv; exact hv.2
  · rw [List.getElem?_eq_none (by rw [List.length_range]; omega)] at h2
    cases hL : ((List.range m).filterMap f)[i]? with
    | none => constructor
              · intro hv; cases hv
              · intro hv; exact absurd hv.1 hi
    | some w => rw [hL] at h2; cases h2

/-! ## The keyword loop: invariant -/

structure KwInv (a : Analysis) (c : Call) (done : List (Nat × Arg)) (st : KwSt) : Prop where
  slots_src : ∀ s ∈ st.1, ∃ n, (n, s.2) ∈ done ∧ fnd a n = some s.1 ∧ ¬ s.1 < c.pos.length
  kws_src : ∀ e ∈ st.2, e ∈ done
  done_dst : ∀ e ∈ done, (∃ i, fnd a e.1 = some i ∧ (i, e.2) ∈ st.1) ∨ (fnd a e.1 = none ∧ e ∈ st.2)
  slots_nd : st.1.Pairwise (fun x y => x.1 ≠ y.1)
  kws_nd : st.2.Pairwise (fun x y => x.1 ≠ y.1)
  done_nd : done.Pairwise (fun x y => x.1 ≠ y.1)

theorem KwInv.init (a : Analysis) (c : Call) : KwInv a c [] ([], []) :=
  ⟨fun _ h => (nomatch h), fun _ h => (nomatch h), fun _ h => (nomatch h), .nil, .nil, .nil⟩

theorem KwInv.step (a : Analysis) (c : Call) (done : List (Nat × Arg)) (st st' : KwSt) (x : Nat × Arg)
    (inv : KwInv a c done st) (h : kwStep a c st x = .ok st') : KwInv a c (done ++ [x]) st' := by
  unfold kwStep at h
  cases hf : fnd a x.1 with
  | some i =>
    rw [hf] at h
    dsimp only at h
    split at h
    · cases h
    · rename_i hc
      cases h
      have hc1 : ¬ i < c.pos.length := fun hlt => hc (by simp [hlt])
      have hc2 : ∀ s ∈ st.1, s.1 ≠ i := fun s hs he => hc (by
        rw [Bool.or_eq_true]; exact Or.inr (List.any_eq_true.2 ⟨s, hs, by simp [he]⟩))
      refine ⟨?_, ?_, ?_, ?_, inv.kws_nd, ?_⟩
      · intro s hs
        rcases List.mem_append.1 hs with hs | hs
        · obtain ⟨n, h1, h2, h3⟩ := inv.slots_src s hs
          exact ⟨n, List.mem_append_left _ h1, h2, h3⟩
        · cases List.mem_singleton.1 hs
          exact ⟨x.1, List.mem_append_right _ (List.mem_singleton.2 rfl), hf, hc1⟩
      · intro e he
        exact List.mem_append_left _ (inv.kws_src e he)
      · intro e he
        rcases List.mem_append.1 he with he | he
        · rcases inv.done_dst e he with ⟨j, h1, h2⟩ | ⟨h1, h2⟩
          · exact Or.inl ⟨j, h1, List.mem_append_left _ h2⟩
          · exact Or.inr ⟨h1, h2⟩
        · cases List.mem_singleton.1 he
          exact Or.inl ⟨i, hf, List.mem_append_right _ (List.mem_singleton.2 rfl)⟩
      · refine List.pairwise_append.2 ⟨inv.slots_nd, List.pairwise_singleton _ _, ?_⟩
        intro s hs t ht
        cases List.mem_singleton.1 ht
        exact hc2 s hs
      · refine List.pairwise_append.2 ⟨inv.done_nd, List.pairwise_singleton _ _, ?_⟩
        intro e he t ht hne
        cases List.mem_singleton.1 ht
        rcases inv.done_dst e he with ⟨j, h1, h2⟩ | ⟨h1, _⟩
        · rw [hne, hf] at h1
          cases h1
          exact hc2 _ h2 rfl
        · rw [hne, hf] at h1
          cases h1
  | none =>
    rw [hf] at h
    dsimp only at h
    split at h
    · split at h
      · cases h
      · rename_i hc
        cases h
        have hc2 : ∀ s ∈ st.2, s.1 ≠ x.1 := fun s hs he => hc (List.any_eq_true.2 ⟨s, hs, by simp [he]⟩)
        refine ⟨?_, ?_, ?_, inv.slots_nd, ?_, ?_⟩
        · intro s hs
          obtain ⟨n, h1, h2, h3⟩ := inv.slots_src s hs
          exact ⟨n, List.mem_append_left _ h1, h2, h3⟩
        · intro e he
          rcases List.mem_append.1 he with he | he
          · exact List.mem_append_left _ (inv.kws_src e he)
          · exact List.mem_append_right _ he
        · intro e he
          rcases List.mem_append.1 he with he | he
          · rcases inv.done_dst e he with ⟨j, h1, h2⟩ | ⟨h1, h2⟩
            · exact Or.inl ⟨j, h1, h2⟩
            · exact Or.inr ⟨h1, List.mem_append_left _ h2⟩
          · cases List.mem_singleton.1 he
            exact Or.inr ⟨hf, List.mem_append_right _ (List.mem_singleton.2 rfl)⟩
        · refine List.pairwise_append.2 ⟨inv.kws_nd, List.pairwise_singleton _ _, ?_⟩
          intro s hs t ht
          cases List.mem_singleton.1 ht
          exact hc2 s hs
        · refine List.pairwise_append.2 ⟨inv.done_nd, List.pairwise_singleton _ _, ?_⟩
          intro e he t ht hne
          cases List.mem_singleton.1 ht
          rcases inv.done_dst e he with ⟨j, h1, _⟩ | ⟨_, h2⟩
          · rw [hne, hf] at h1
            cases h1
          · exact hc2 e h2 hne
    · cases h

theorem KwInv.fold (a : Analysis) (c : Call) (l done : List (Nat × Arg)) (st st' : KwSt)
    (inv : KwInv a c done st) (h : foldE (kwStep a c) l st = .ok st') : KwInv a c (done ++ l) st' := by
  induction l generalizing done st with
  | nil => cases h; rw [List.append_nil]; exact inv
  | cons x xs ih =>
    unfold foldE at h
    cases hs : kwStep a c st x with
    | error e => rw [hs] at h; cases h
    | ok s1 =>
      rw [hs] at h
      have := ih (done ++ [x]) s1 (inv.step a c done st s1 x hs) h
      rwa [List.append_assoc] at this
/-! ## What a successful run of `entry` looks like -/

theorem entry_ok (a : Analysis) (c : Call) (x : Dispatch) (h : entry a c = .ok x) :
    ∃ st : KwSt, KwInv a c c.kw st ∧ (∀ i, i < a.nreq → (valAtOf c st.1 i).isSome = true) ∧
      x = finish a c st.1 st.2 := by
  rw [entry_eq] at h
  unfold entry' at h
  split at h
  · cases h
  · cases hst : foldE (kwStep a c) c.kw ([], []) with
    | error e => rw [hst] at h; cases h
    | ok st =>
      rw [hst] at h
      dsimp only at h
      split at h
      · cases h
      · rename_i hreq
        split at h
        · cases h
        · cases h
          refine ⟨st, ?_, ?_, rfl⟩
          · have := KwInv.fold a c c.kw [] ([], []) st (KwInv.init a c) hst
            rwa [List.nil_append] at this
          · intro i hi
            cases hv : valAtOf c st.1 i with
            | some v => rfl
            | none =>
              exact absurd (List.any_eq_true.2 ⟨i, List.mem_range.2 hi, by rw [hv]; rfl⟩) hreq

/-- the forwarded positionals are the values at the positions `0 .. m-1`, all of them filled, where `m` is the
    first omitted position (or `npos`) -/
theorem finish_passPos (a : Analysis) (c : Call) (slots kws : List (Nat × Arg))
    (hreq : ∀ i, i < a.nreq → (valAtOf c slots i).isSome = true) :
    ∃ m, m ≤ a.npos ∧ (∀ i, i < m → (valAtOf c slots i).isSome = true) ∧
      (m < a.npos → valAtOf c slots m = none) ∧
      (finish a c slots kws).passPos = (List.range m).filterMap (valAtOf c slots) := by
  unfold finish
  dsimp only
  cases hfm : (List.range a.npos).find? (fun i => decide (i ≥ a.nreq) && (valAtOf c slots i).isNone) with
  | none =>
    refine ⟨a.npos, Nat.le_refl _, ?_, fun h => absurd h (Nat.lt_irrefl _), rfl⟩
    intro i hi
    by_cases hr : i < a.nreq
    · exact hreq i hr
    · have := List.find?_range_eq_none.1 hfm i hi
      cases hv : valAtOf c slots i with
      | some v => rfl
      | none => rw [hv] at this; simp at this; omega
  | some m =>
    obtain ⟨hp, hmem, hbefore⟩ := List.find?_range_eq_some.1 hfm
    have hm : m < a.npos := List.mem_range.1 hmem
    refine ⟨m, Nat.le_of_lt hm, ?_, ?_, rfl⟩
    · intro i hi
      by_cases hr : i < a.nreq
      · exact hreq i hr
      · have := hbefore i hi
        cases hv : valAtOf c slots i with
        | some v => rfl
        | none => rw [hv] at this; simp at this; omega
    · intro _
      cases hv : valAtOf c slots m with
      | none => rfl
      | some v => rw [hv] at hp; simp at hp

theorem fnd_some (a : Analysis) (n i : Nat) (h : fnd a n = some i) :
    i < a.npos ∧ i ≥ a.posOnly ∧ a.nameOfPos i = some n := by
  unfold fnd at h
  have h1 := List.find?_some h
  have h2 := List.mem_range.1 (List.mem_of_find?_eq_some h)
  simp only [Bool.and_eq_true, decide_eq_true_eq, beq_iff_eq] at h1
  exact ⟨h2, h1.1, h1.2⟩

theorem valAt_mem (a : Analysis) (c : Call) (st : KwSt) (inv : KwInv a c c.kw st) (i : Nat) (v : Arg)
    (h : valAtOf c st.1 i = some v) : v ∈ c.pos ∨ ∃ n, (n, v) ∈ c.kw := by
  unfold valAtOf at h
  cases hp : c.pos[i]? with
  | some w =>
    rw [hp] at h
    cases h
    exact Or.inl (List.mem_of_getElem? hp)
  | none =>
    rw [hp] at h
    dsimp only at h
    cases hs : st.1.find? (fun s => s.1 == i) with
    | none => rw [hs] at h; cases h
    | some s =>
      rw [hs] at h
      cases h
      obtain ⟨n, h1, _, _⟩ := inv.slots_src s (find?_fst_some _ _ _ hs).1
      exact Or.inr ⟨n, h1⟩

/-- `valAt` of `entry` agrees with `suppliedAt` (one direction needs no assumption on the analysis) -/
theorem valAt_supplied (a : Analysis) (c : Call) (st : KwSt) (inv : KwInv a c c.kw st) (i : Nat) (v : Arg)
    (h : valAtOf c st.1 i = some v) : suppliedAt a c i = some v := by
  unfold valAtOf at h
  unfold suppliedAt
  cases hp : c.pos[i]? with
  | some w => rw [hp] at h; exact h
  | none =>
    rw [hp] at h
    dsimp only at h ⊢
    cases hs : st.1.find? (fun s => s.1 == i) with
    | none => rw [hs] at h; cases h
    | some s =>
      rw [hs] at h
      cases h
      obtain ⟨hs1, hs2⟩ := find?_fst_some _ _ _ hs
      obtain ⟨n, h1, h2, _⟩ := inv.slots_src s hs1
      obtain ⟨_, hge, hname⟩ := fnd_some a n s.1 h2
      rw [hs2] at hge hname
      rw [hname]
      dsimp only
      rw [if_pos hge, find?_fst_of_pairwise c.kw inv.done_nd (n, s.2) n h1 rfl]
      rfl

theorem nameOfPos_inj (a : Analysis) (hnd : a.names.Nodup) (i j n : Nat)
    (hi : a.nameOfPos i = some n) (hj : a.nameOfPos j = some n) : i = j := by
  unfold Analysis.nameOfPos at hi hj
  split at hi
  · cases hi
  · split at hj
    · cases hj
    · obtain ⟨hlt, _⟩ := List.getElem?_eq_some_iff.1 hi
      have := (List.getElem?_inj hlt hnd).1 (hi.trans hj.symm)
      omega

theorem supplied_valAt (a : Analysis) (hnd : a.names.Nodup) (c : Call) (st : KwSt)
    (inv : KwInv a c c.kw st) (i : Nat) (v : Arg) (hi : i < a.npos)
    (h : suppliedAt a c i = some v) : valAtOf c st.1 i = some v := by
  unfold suppliedAt at h
  unfold valAtOf
  cases hp : c.pos[i]? with
  | some w => rw [hp] at h; exact h
  | none =>
    rw [hp] at h
    dsimp only at h ⊢
    cases hn : a.nameOfPos i with
    | none => rw [hn] at h; cases h
    | some n =>
      rw [hn] at h
      dsimp only at h
      split at h
      · rename_i hge
        cases he : c.kw.find? (fun e => e.1 == n) with
        | none => rw [he] at h; cases h
        | some e =>
          rw [he] at h
          cases h
          obtain ⟨he1, he2⟩ := find?_fst_some _ _ _ he
          rcases inv.done_dst e he1 with ⟨j, h1, h2⟩ | ⟨h1, _⟩
          · obtain ⟨_, _, hname⟩ := fnd_some a e.1 j h1
            rw [he2] at hname
            cases nameOfPos_inj a hnd j i n hname hn
            rw [find?_fst_of_pairwise st.1 inv.slots_nd (i, e.2) i h2 rfl]
            rfl
          · unfold fnd at h1
            have := List.find?_range_eq_none.1 h1 i hi
            rw [he2, hn] at this
            simp at this
            omega
      · cases h

/-! ## The C03 theorems about the entry point -/

/-- everything forwarded was supplied by the caller: no placeholder, no other value -/
theorem C03_forwards_only_supplied (a : Analysis) (c : Call) (x : Dispatch) (h : entry a c = .ok x) :
    (∀ v ∈ x.passPos, v ∈ c.pos ∨ ∃ n, (n, v) ∈ c.kw) ∧ (∀ e ∈ x.passKw, e ∈ c.kw) := by
  obtain ⟨st, inv, hreq, rfl⟩ := entry_ok a c x h
  obtain ⟨m, _, _, _, hpp⟩ := finish_passPos a c st.1 st.2 hreq
  constructor
  · intro v hv
    rw [hpp] at hv
    obtain ⟨i, _, hi⟩ := List.mem_filterMap.1 hv
    exact valAt_mem a c st inv i v hi
  · intro e he
    have he' : e ∈ a.kwReq.filterMap (fun n => st.2.find? (fun s => s.1 == n)) ++
        a.kwOpt.filterMap (fun n => st.2.find? (fun s => s.1 == n)) := he
    rcases List.mem_append.1 he' with he' | he' <;>
    · obtain ⟨n, _, hn⟩ := List.mem_filterMap.1 he'
      exact inv.kws_src e (find?_fst_some _ _ _ hn).1

/-- positional arguments keep their positions -/
theorem C03_positions (a : Analysis) (c : Call) (x : Dispatch) (h : entry a c = .ok x) :
    ∀ i v, x.passPos[i]? = some v → suppliedAt a c i = some v := by
  obtain ⟨st, inv, hreq, rfl⟩ := entry_ok a c x h
  obtain ⟨m, _, hall, _, hpp⟩ := finish_passPos a c st.1 st.2 hreq
  intro i v hv
  rw [hpp] at hv
  exact valAt_supplied a c st inv i v ((getElem?_filterMap_range _ m hall i v).1 hv).2

/-- the lookup key is exactly the types of what is forwarded, slot by slot -/
theorem C03_key (a : Analysis) (c : Call) (x : Dispatch) (h : entry a c = .ok x) :
    x.key = (x.passPos.zipIdx.map (fun (v, i) => (Slot.pos i, keyTy (a.complexPos.contains i) v))) ++
            (x.passKw.map (fun (n, v) => (Slot.kw n, keyTy (a.complexKw.contains n) v))) := by
  obtain ⟨st, _, _, rfl⟩ := entry_ok a c x h
  rfl

/-- nothing is dropped: when every supplied positional slot lies before the first omitted one, each supplied
    argument is forwarded (positionally supplied ones in order; keyword-only ones under their names).

    Statement repaired: the hypothesis `hnames` (no name is declared at two positions — `analyze` guarantees it
    through its `nameConflict` check) was added.  Without it: `names := [5, 5]`, `npos := 2`, `nreq := 1`,
    `nstrict := 0`, call `f(**{5: v})`: CPython binds the keyword to position 0 only, `entry` forwards `[v]`,
    but `suppliedAt` reports `v` at positions 0 and 1. -/
theorem C03_nothing_dropped (a : Analysis) (c : Call) (x : Dispatch) (h : entry a c = .ok x)
    (hnames : a.names.Nodup)
    (hnogap : ∀ i, i < a.npos → (suppliedAt a c i).isSome → ∀ j, j < i → (suppliedAt a c j).isSome) :
    (∀ i v, suppliedAt a c i = some v → i < a.npos → x.passPos[i]? = some v) ∧
    (∀ e ∈ c.kw, (a.kwReq ++ a.kwOpt).contains e.1 = true →
        (∀ i, i < a.npos → i ≥ a.posOnly → a.nameOfPos i ≠ some e.1) → e ∈ x.passKw) := by
  obtain ⟨st, inv, hreq, rfl⟩ := entry_ok a c x h
  obtain ⟨m, _, hall, hmiss, hpp⟩ := finish_passPos a c st.1 st.2 hreq
  constructor
  · intro i v hs hi
    rw [hpp]
    refine (getElem?_filterMap_range _ m hall i v).2 ⟨?_, supplied_valAt a hnames c st inv i v hi hs⟩
    apply Nat.lt_of_not_le
    intro hmi
    have hm : m < a.npos := Nat.lt_of_le_of_lt hmi hi
    have hnone := hmiss hm
    rcases Nat.lt_or_eq_of_le hmi with hlt | heq
    · have hsm := hnogap i hi (by rw [hs]; rfl) m hlt
      cases hw : suppliedAt a c m with
      | none => rw [hw] at hsm; cases hsm
      | some w =>
        rw [supplied_valAt a hnames c st inv m w hm hw] at hnone
        cases hnone
    · subst heq
      rw [supplied_valAt a hnames c st inv m v hi hs] at hnone
      cases hnone
  · intro e he hcont hnopos
    rcases inv.done_dst e he with ⟨j, h1, _⟩ | ⟨_, h2⟩
    · obtain ⟨hj, hge, hname⟩ := fnd_some a e.1 j h1
      exact absurd hname (hnopos j hj hge)
    · have hfind := find?_fst_of_pairwise st.2 inv.kws_nd e e.1 h2 rfl
      have hmem : e.1 ∈ a.kwReq ++ a.kwOpt := List.contains_iff_mem.1 hcont
      show e ∈ a.kwReq.filterMap (fun n => st.2.find? (fun s => s.1 == n)) ++
        a.kwOpt.filterMap (fun n => st.2.find? (fun s => s.1 == n))
      rcases List.mem_append.1 hmem with hm | hm
      · exact List.mem_append_left _ (List.mem_filterMap.2 ⟨e.1, hm, hfind⟩)
      · exact List.mem_append_right _ (List.mem_filterMap.2 ⟨e.1, hm, hfind⟩)

/-! ## The method's own binding -/

/-- the `bound` list of `methodBind` -/
def boundOf (d : FnDef) (x : Dispatch) : List (Nat × Option Arg) :=
  (d.positional.zipIdx.map (fun (p, i) => (p.name, match x.passPos[i]? with
    | some v => some v
    | none => (x.passKw.find? (fun s => s.1 == p.name)).map (·.2)))) ++
  (d.kwOnly.map (fun p => (p.name, (x.passKw.find? (fun s => s.1 == p.name)).map (·.2))))

theorem methodBind_some (d : FnDef) (x : Dispatch) (b : List (Nat × Option Arg))
    (h : methodBind d x = some b) :
    b = boundOf d x ∧
    d.params.any (fun p => p.required && match (boundOf d x).find? (fun b => b.1 == p.name) with
      | some (_, some _) => false | _ => true) = false := by
  unfold methodBind at h
  dsimp only at h
  split at h
  · cases h
  · split at h
    · cases h
    · split at h
      · cases h
      · rename_i hm
        cases h
        exact ⟨rfl, Bool.eq_false_iff.2 hm⟩

theorem boundOf_names (d : FnDef) (x : Dispatch) :
    (boundOf d x).map (·.1) = (d.positional ++ d.kwOnly).map (·.name) := by
  unfold boundOf
  rw [List.map_append, List.map_append, List.map_map, List.map_map]
  congr 1
  conv => rhs; rw [← List.zipIdx_map_fst 0 d.positional, List.map_map]
  rfl

theorem boundOf_nodup (d : FnDef) (x : Dispatch) (hnd : (d.params.map (·.name)).Nodup) :
    (boundOf d x).Pairwise (fun e e' => e.1 ≠ e'.1) := by
  have hperm : List.Perm (d.positional ++ d.kwOnly) d.params := by
    have hk : d.kwOnly = d.params.filter (fun p => !(p.kind != .kwOnly)) := by
      unfold FnDef.kwOnly
      apply List.filter_congr
      intro p _
      simp [bne]
    rw [hk]
    exact List.filter_append_perm _ _
  have h1 : ((boundOf d x).map (·.1)).Nodup := by
    rw [boundOf_names]
    exact ((hperm.map _).nodup_iff).2 hnd
  exact List.pairwise_map.1 h1

/-- the selected method binds what was forwarded by its own parameter names; every other parameter is left to
    that method's own default (`none`) — never another method's default or a placeholder.

    Statement repaired: the hypothesis `hnd` (a Python `def` cannot declare two parameters of the same name —
    it is a SyntaxError) was added.  Without it: `params := [p, p]` with `p` required and named `1`,
    `passPos := [v]`, `passKw := []`: `methodBind` answers `[(1, some v), (1, none)]` (its requiredness check
    finds the first entry for both parameters), and no parameter named `1` is optional. -/
theorem C03_method_own_defaults (d : FnDef) (x : Dispatch) (b : List (Nat × Option Arg))
    (hnd : (d.params.map (·.name)).Nodup)
    (h : methodBind d x = some b) :
    ∀ e ∈ b, match e.2 with
      | some v => v ∈ x.passPos ∨ (e.1, v) ∈ x.passKw
      | none => ∃ p ∈ d.params, p.name = e.1 ∧ p.required = false := by
  obtain ⟨rfl, hmiss⟩ := methodBind_some d x b h
  have hpw := boundOf_nodup d x hnd
  -- a parameter bound to `none` is not required
  have hopt : ∀ p ∈ d.params, (p.name, (none : Option Arg)) ∈ boundOf d x → p.required = false := by
    intro p hp hmem
    have := List.any_eq_false.1 hmiss p hp
    rw [find?_fst_of_pairwise _ hpw (p.name, none) p.name hmem rfl] at this
    cases hr : p.required with
    | false => rfl
    | true => rw [hr] at this; exact absurd rfl this
  -- a value found among the forwarded keywords
  have hkw : ∀ (n : Nat) (v : Arg), (x.passKw.find? (fun s => s.1 == n)).map (·.2) = some v →
      (n, v) ∈ x.passKw := by
    intro n v hv
    cases hs : x.passKw.find? (fun s => s.1 == n) with
    | none => rw [hs] at hv; cases hv
    | some s =>
      rw [hs] at hv
      cases hv
      obtain ⟨h1, h2⟩ := find?_fst_some _ _ _ hs
      cases h2
      exact h1
  intro e he
  have he0 := he
  unfold boundOf at he
  rcases List.mem_append.1 he with he | he
  · obtain ⟨⟨p, i⟩, hpi, rfl⟩ := List.mem_map.1 he
    have hp : p ∈ d.params :=
      (List.mem_filter.1 (by
        have := List.mem_map_of_mem (f := Prod.fst) hpi
        rwa [List.zipIdx_map_fst] at this : p ∈ d.positional)).1
    dsimp only at he0 ⊢
    cases hpp : x.passPos[i]? with
    | some v => exact Or.inl (List.mem_of_getElem? hpp)
    | none =>
      rw [hpp] at he0
      dsimp only at he0 ⊢
      cases hf : (x.passKw.find? (fun s => s.1 == p.name)).map (·.2) with
      | some v => exact Or.inr (hkw p.name v hf)
      | none =>
        rw [hf] at he0
        exact ⟨p, hp, rfl, hopt p hp he0⟩
  · obtain ⟨p, hpk, rfl⟩ := List.mem_map.1 he
    have hp : p ∈ d.params := (List.mem_filter.1 hpk).1
    dsimp only at he0 ⊢
    cases hf : (x.passKw.find? (fun s => s.1 == p.name)).map (·.2) with
    | some v => exact Or.inr (hkw p.name v hf)
    | none =>
      rw [hf] at he0
      exact ⟨p, hp, rfl, hopt p hp he0⟩

end Ovld
