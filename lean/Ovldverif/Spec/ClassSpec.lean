import Ovldverif.Model.ClassBody
/-!
# Specification of C17: the documented effective method set of a class, as a function of the declarations only

No graph, no node numbers, no operations: per class, what it holds under the name (`Kind`), whether that object is
still marked `extend_super`, and the definitions it dispatches over — built from

* `regs ds`: the definitions obtained by registering `ds` in order on an empty function,
* `overlay`: a mixin's definitions overlaid by later ones, identical signatures replaced in place.

A class with one undecorated definition holds a plain function; with several, one overloaded method over them;
with `@extend_super`, the inherited methods of all its bases (in base order) overlaid by the decorated definition,
overlaid by the body's remaining definitions; without definitions it inherits the attribute along its MRO.
`__prepare__`: when a second or later base holds a method still marked `extend_super`, the body starts from the
first base's overloaded method with those mixed in, followed by the plain functions of the bases.
-/
set_option autoImplicit false
namespace Ovld.ClassBody
open Ovld

def regs (ds : List Def) (own : List (Def × Int)) : List (Def × Int) :=
  ds.foldl (fun own d => setDefn (own.length + 1) own d 0) own

def overlayAll (xs : List (List (Def × Int))) : List (Def × Int) := xs.foldl overlay []

/-- the definitions of a function whose mixins carry `mixinDefns` and on which `ownDs` were registered -/
def nodeDefns (mixinDefns : List (List (Def × Int))) (ownDs : List Def) : List (Def × Int) :=
  overlay (overlayAll mixinDefns) (regs ownDs [])

inductive Kind | none | plain | ovld
deriving DecidableEq, Repr

structure Eff where
  kind : Kind := .none
  flagged : Bool := false
  /-- the definitions dispatched over (for a plain function: as seen when it is mixed into a subclass) -/
  defns : List (Def × Int) := []
  /-- for a plain function: the function -/
  fn : Option Def := none
  hasF : Bool := false
deriving Inhabited

def effStep (acc : List Eff) (k : ClassDecl) : List Eff :=
  let own : List Def := if k.mixin then (match k.defs.getLast? with | some d => [d] | none => []) else k.defs
  let usesMC := !k.mixin
  let vals : List Eff := k.bases.map (fun b => acc[b]?.getD {})
  let ov := vals.filter (fun e => e.kind == .ovld)
  let mix := ov.tail.filter (·.flagged)
  if usesMC && !mix.isEmpty then
    let plainDs : List Def := vals.filterMap (fun e => if e.kind == .plain then e.fn else none)
    -- the first overloaded base, the later flagged ones, then the plain functions of the bases: all mixed in, in that
    -- order (a later one replaces an identical signature of an earlier one); the body's definitions come on top
    let ms := (ov.head?.toList ++ mix).map (·.defns) ++ plainDs.map (fun d => nodeDefns [] [d])
    match own, k.extend with
    | d :: rest, true =>
      acc ++ [{ kind := .ovld, defns := nodeDefns (ms ++ [nodeDefns [] [d]]) rest, hasF := true }]
    | _, _ => acc ++ [{ kind := .ovld, defns := nodeDefns ms own, hasF := true }]
  else match own, k.extend && usesMC with
    | d :: rest, true =>
      let inh := vals.filter (fun e => e.kind != .none)
      match inh with
      | [] => acc ++ [{ kind := .ovld, flagged := true, defns := nodeDefns [] (d :: rest), hasF := true }]
      | _ => acc ++ [{ kind := .ovld, defns := nodeDefns (inh.map (·.defns) ++ [nodeDefns [] [d]]) rest, hasF := true }]
    | [d], _ => acc ++ [{ kind := .plain, defns := nodeDefns [] [d], fn := some d, hasF := true }]
    | d :: d' :: rest, _ => acc ++ [{ kind := .ovld, defns := nodeDefns [] (d :: d' :: rest), hasF := true }]
    | [], _ =>
      match k.mro.find? (fun c => (acc[c]?.getD {}).hasF) with
      | some c => acc ++ [{ (acc[c]?.getD {}) with hasF := false }]
      | none => acc ++ [{}]

def effAll (ks : List ClassDecl) : List Eff := ks.foldl effStep []

end Ovld.ClassBody
