"""A cooperative scheduler for real threads running the real library: every executed source line of the library
(and of its generated code) is a scheduling point.  Exactly one thread runs at a time; which one is decided by a
schedule, so that an interleaving can be forced and replayed.

A schedule is a list of (thread, steps) segments: run `thread` for `steps` library lines (None = until it finishes),
then switch.  After the listed segments the remaining threads are run to completion in index order.  A thread that
does not reach its next scheduling point within `BLOCK_TIMEOUT` is considered blocked (it waits for a lock held by
another thread): the scheduler lets another thread run and comes back to it."""

import os
import sys
import threading

from common import REPO

SRC = os.path.join(REPO, "src", "ovld")
BLOCK_TIMEOUT = 0.1
LAST = {}


class Worker:
    def __init__(self, idx, fn, sched):
        self.idx, self.fn, self.sched = idx, fn, sched
        self.go = threading.Event()
        self.at_point = threading.Event()
        self.done = False
        self.running = False
        self.result = None
        self.steps = 0
        self.where = None
        self.wheres = []
        self.thread = threading.Thread(target=self.main, daemon=True)

    def glob(self, frame, event, arg):
        fn = frame.f_code.co_filename
        if fn.startswith(SRC) or fn.startswith("<ovld:"):
            return self.local
        return None

    def local(self, frame, event, arg):
        if event == "line":
            self.where = (frame.f_code.co_name, frame.f_lineno)
            # the first-call trampoline is renamed to the function's own name: recognise it by its closure
            self.wheres.append("first_entry" if frame.f_code.co_freevars == ("ov",) else frame.f_code.co_name)
            self.steps += 1
            # park: tell the scheduler we are at a point, wait for permission to execute this line
            self.go.clear()
            self.at_point.set()
            self.go.wait()
        return self.local

    def main(self):
        self.go.wait()
        sys.settrace(self.glob)
        try:
            try:
                self.result = ("ok", self.fn())
            except BaseException as e:  # noqa
                self.result = ("error", type(e).__name__, str(e)[:120])
        finally:
            sys.settrace(None)
            self.done = True
            self.at_point.set()


class Scheduler:
    def __init__(self, fns):
        self.workers = [Worker(i, f, self) for i, f in enumerate(fns)]
        for w in self.workers:
            w.thread.start()
        self.trace = []

    def step(self, w):
        """let worker w execute up to its next scheduling point; False when it is blocked"""
        if w.running:
            # it was found blocked earlier and has been running in the background since
            if not w.at_point.wait(BLOCK_TIMEOUT):
                return False
            w.running = False
            return True
        w.at_point.clear()
        w.go.set()
        if not w.at_point.wait(BLOCK_TIMEOUT):
            # blocked (on a lock another thread holds): it stays runnable in the background; when the lock is
            # released it will run to its next point and park there
            w.running = True
            return False
        return True

    def run(self, segments):
        ws = self.workers
        for tid, steps in segments:
            w = ws[tid]
            n = 0
            while not w.done and (steps is None or n < steps):
                if not self.step(w):
                    break
                n += 1
            self.trace.append((tid, n, w.where))
        # finish everything: run each unfinished thread as far as it goes; a thread that is blocked on a lock gets
        # its turn again after the others have moved
        idle = 0
        while not all(w.done for w in ws):
            progressed = False
            for w in ws:
                if w.done:
                    continue
                if w.running and not w.at_point.wait(BLOCK_TIMEOUT):
                    continue  # still blocked in the background
                while not w.done:
                    if not self.step(w):
                        break
                    progressed = True
            idle = 0 if progressed else idle + 1
            if idle > 100:
                return False  # deadlock
        return True

    def step_nowait(self, w):
        return w.at_point.wait(BLOCK_TIMEOUT)

    def results(self):
        return [w.result for w in self.workers]

    def lengths(self):
        return [w.steps for w in self.workers]


def run_schedule(fns, segments):
    s = Scheduler(fns)
    ok = s.run(segments)
    for w in s.workers:
        w.thread.join(2.0)
    s.wheres = [w.wheres for w in s.workers]
    LAST["wheres"] = s.wheres
    return ok, s.results(), s.lengths(), s.trace
