"""C12 / C13: type order and subtype test.  Correspondence layer A + property oracles on the real code."""

import json
import random
import time

from common import run_driver, use_repo
from corr_a import ORD_CODE, impl_matrix
from typegen import TypeGen
from world import NBUILTIN, make_world

use_repo()

OPP = {"L": "M", "M": "L", "S": "S", "N": "N", "E": "E"}


def relatives(d):
    k = d[0]
    if k == "gen":
        return [["cls", d[1]]] + list(d[2])
    if k in ("union", "inter"):
        return list(d[1])
    if k in ("exactly", "strict"):
        return [["cls", d[2]]]
    if k == "lit":
        return [d[2]]
    if k == "prod":
        return list(d[1]) + [d[2]]
    if k == "fdep":
        return [d[3]]
    return []


def build_types(w, rng, ntypes, depth):
    g = TypeGen(w, rng)
    tys = []
    for _ in range(ntypes):
        t = g.gen(rng.randint(1, depth))
        for x in [t] + relatives(t):
            if x not in tys:
                tys.append(x)
    # a perturbed copy of some compound types, so that comparable compound pairs occur
    for t in list(tys):
        if t[0] in ("union", "inter") and rng.random() < 0.5:
            u = [t[0], list(t[1])]
            u[1][rng.randrange(len(u[1]))] = g.cls()
            if u not in tys:
                tys.append(u)
        if t[0] == "gen" and rng.random() < 0.5:
            u = ["gen", t[1], [g.cls() if rng.random() < 0.5 else a for a in t[2]]]
            if u not in tys:
                tys.append(u)
        if t[0] == "gen" and len(t[2]) >= 2 and all(a[0] == "cls" for a in t[2]) and rng.random() < 0.7:
            # the same origin with an UNRELATED first argument and a related (sub- or superclass) later argument, and
            # the other way round: argument-wise comparison must not depend on where the unrelated pair sits
            def related(c):
                r = [x for x in range(w.n) if x != c and (issubclass(w.classes[x], w.classes[c]) or issubclass(w.classes[c], w.classes[x]))]
                return rng.choice(r) if r else c

            def unrelated(c):
                r = [x for x in range(w.n) if not issubclass(w.classes[x], w.classes[c]) and not issubclass(w.classes[c], w.classes[x])]
                return rng.choice(r) if r else c

            a0, a1 = t[2][0][1], t[2][1][1]
            for args2 in ([["cls", unrelated(a0)], ["cls", related(a1)]], [["cls", related(a0)], ["cls", unrelated(a1)]]):
                u = ["gen", t[1], args2 + list(t[2][2:])]
                if u not in tys:
                    tys.append(u)
        if t[0] == "fdep" and len(t[2]) >= 2:
            # the same check with the wildcard (Any) in other places: one wildcard against none, crossing wildcards
            a, b2 = (t[2][0] if t[2][0] is not None else 0), (t[2][1] if t[2][1] is not None else 1)
            for ps in ([a, None], [None, b2], [a, b2], [None, None]):
                u = ["fdep", t[1], ps + list(t[2][2:]), t[3]]
                if u not in tys and rng.random() < 0.7:
                    tys.append(u)
        if t[0] == "gen" and t[1] in g.generic_user:
            # an alias of a related origin (a generic class deriving from / derived by this one), with the same or
            # with perturbed arguments, and the bare related origin
            rel = [c for c in g.generic_user if c != t[1] and (issubclass(w.classes[c], w.classes[t[1]]) or issubclass(w.classes[t[1]], w.classes[c]))]
            if rel:
                o2 = rng.choice(rel)
                for u in (["gen", o2, [g.cls() if rng.random() < 0.6 else a for a in t[2]]], ["cls", o2], ["cls", t[1]]):
                    if u not in tys:
                        tys.append(u)
    for c in rng.sample(range(w.n), min(3, w.n)):
        if ["cls", c] not in tys:
            tys.append(["cls", c])
    return tys[:28]


def _first_nondown(t):
    """which constructor breaks down-closedness (the transitivity finding is keyed by it)"""
    k = t[0]
    if k in ("cls", "strict"):
        return ""
    if k in ("union", "inter"):
        for x in t[1]:
            r = _first_nondown(x)
            if r:
                return r
        return ""
    return k


def _kinds(t):
    out = {t[0]}
    for x in t[1:]:
        if isinstance(x, list):
            if x and isinstance(x[0], str):
                out |= _kinds(x)
            else:
                for y in x:
                    if isinstance(y, list) and y and isinstance(y[0], str):
                        out |= _kinds(y)
    return out


HOOKY = ("union", "inter", "exactly", "lit", "fdep")


def _facing(a, b):
    """the kinds of the two hooks that face each other (descending through generic arguments, tuple members
    and dependent bounds the way symFrag does)"""
    if a[0] == "gen" and b[0] == "gen":
        for x, y in zip(a[2], b[2]):
            r = _facing(x, y)
            if r:
                return r
        return None
    if a[0] == "prod" and b[0] == "prod":
        for x, y in zip(a[1], b[1]):
            r = _facing(x, y)
            if r:
                return r
        return _facing(a[2], b[2])
    if a[0] in ("lit", "fdep") and b[0] in ("lit", "fdep"):
        return _facing(a[-1], b[-1])
    if a[0] in HOOKY and b[0] in HOOKY:
        return (a[0], b[0])
    return None


def two_hook(a, b):
    hooky = ("union", "inter", "exactly", "lit", "fdep")
    return a[0] in hooky and b[0] in hooky


def worker(payload):
    seed, n, ntypes, depth, prop = payload
    rng = random.Random(seed)
    scs, keep = [], []
    for _ in range(n):
        # one world in four is rich in generic classes deriving from each other (aliases of related origins)
        w = make_world(rng, generics=0.45) if rng.random() < 0.25 else make_world(rng)
        tys = build_types(w, rng, ntypes, depth)
        ords, subs, objs = impl_matrix(w, tys)
        tables = w.tables()
        scs.append({"layer": "A", "n": w.n, "hier": tables, "types": [w.tyj(d) for d in tys]})
        keep.append((w, tys, ords, subs, objs, tables))
    res = run_driver(scs)
    out = {"pairs": 0, "nontrivial": 0, "corr": [], "viol": [], "hist": {}, "samples": [], "known": {}, "wf_bad": 0}
    hist = out["hist"]

    def bump(k, d=out["hist"]):
        d[k] = d.get(k, 0) + 1

    def note_known(k, witness):
        e = out["known"].setdefault(k, {"count": 0, "witness": witness})
        e["count"] += 1

    for i, r in enumerate(res):
        w, tys, ords, subs, objs, tables = keep[i]
        desc = {"world": w.desc, "types": tys}
        if "error" in r:
            out["corr"].append({"layer": "A", "kind": "driver-error", "detail": r["error"], "scenario": desc})
            continue
        wf = w.wf(tables)
        wf_ok = wf["refl"] and wf["trans"] and wf["top"]
        if not wf_ok:
            out["wf_bad"] += 1
        nt = len(tys)
        for a in range(nt):
            for b in range(nt):
                out["pairs"] += 1
                io, mo = ords[a][b], r["ord"][a][b]
                isb, msb = subs[a][b], r["sub"][a][b]
                if io != "N" and a != b:
                    out["nontrivial"] += 1
                bump(f"ord:{io}")
                if io != mo or isb != msb:
                    out["corr"].append({"layer": "A", "kind": "typeorder" if io != mo else "subclasscheck", "t1": tys[a], "t2": tys[b], "impl": io + isb, "model": mo + msb, "objs": [str(objs[a]), str(objs[b])], "scenario": desc})
        if prop == "C12":
            for a in range(nt):
                if ords[a][a] != "S":
                    out["viol"].append({"law": "reflexive", "t": tys[a], "impl": ords[a][a], "obj": str(objs[a]), "scenario": desc})
                for b in range(a + 1, nt):
                    x, y = ords[a][b], ords[b][a]
                    sym = y == OPP[x]
                    if r["frag"][a][b] != "1":
                        # two effective hooks of different design face each other, possibly inside generic
                        # arguments / tuple members / bounds: outside the proved fragment (findings D3 / D22)
                        bump("two-hook pairs")
                        if not sym:
                            ka, kb = _facing(tys[a], tys[b])
                            kk = "D3:" + "-".join(sorted([ka, kb]))
                            if ka == kb == "exactly":
                                kk = "D22:exactly-exactly"
                            note_known(kk, {"kind": "typeorder-pair", "world": w.desc, "t1": tys[a], "t2": tys[b], "impl": [x, y]})
                            if x != r["ord"][a][b] or y != r["ord"][b][a]:
                                out["viol"].append({"law": "asymmetry not predicted by the model", "t1": tys[a], "t2": tys[b], "impl": x + y, "scenario": desc})
                        continue
                    bump("fragment pairs")
                    if not sym:
                        out["viol"].append({"law": "mirror", "t1": tys[a], "t2": tys[b], "impl": [x, y], "objs": [str(objs[a]), str(objs[b])], "scenario": desc})
            # plain classes: coincide with subclassing
            for a in range(nt):
                for b in range(nt):
                    if tys[a][0] == "cls" and tys[b][0] == "cls" and a != b:
                        ca, cb = tys[a][1], tys[b][1]
                        sx, sy = tables["sub"][ca][cb], tables["sub"][cb][ca]
                        want = "S" if (sx and sy) else "L" if sx else "M" if sy else "N"
                        bump("class pairs")
                        if ords[a][b] != want:
                            out["viol"].append({"law": "classes: order = subclassing", "t1": tys[a], "t2": tys[b], "impl": ords[a][b], "want": want, "scenario": desc})
            # structural laws
            for a in range(nt):
                t = tys[a]
                for b in range(nt):
                    u = tys[b]
                    if t[0] == "gen" and u == ["cls", t[1]]:
                        bump("generic vs origin")
                        if ords[a][b] != "L":
                            out["viol"].append({"law": "generic more specific than origin", "t1": t, "t2": u, "impl": ords[a][b], "scenario": desc})
                    if t[0] == "union" and u in t[1]:
                        bump("union vs member")
                        if ords[a][b] != "M":
                            out["viol"].append({"law": "union more general than member", "t1": t, "t2": u, "impl": ords[a][b], "scenario": desc})
                    if t[0] == "inter" and u in t[1]:
                        bump("inter vs member")
                        if ords[a][b] != "L":
                            out["viol"].append({"law": "intersection more specific than member", "t1": t, "t2": u, "impl": ords[a][b], "scenario": desc})
                    if t[0] in ("lit", "fdep") and u == t[-1] and u[0] not in ("lit", "fdep", "prod"):
                        bump("dependent vs bound")
                        if ords[a][b] != "L":
                            out["viol"].append({"law": "dependent more specific than bound", "t1": t, "t2": u, "impl": ords[a][b], "scenario": desc})
            # transitivity on the class / generic fragment
            cg = [i for i in range(nt) if tys[i][0] == "cls" or (tys[i][0] == "gen" and all(x[0] == "cls" for x in tys[i][2]))]
            if wf_ok and wf["anti"]:
                for a in cg:
                    for b in cg:
                        if ords[a][b] != "L":
                            continue
                        for c in cg:
                            if ords[b][c] == "L":
                                bump("class/generic triples")
                                if ords[a][c] != "L":
                                    out["viol"].append({"law": "transitive on classes/generics", "ts": [tys[a], tys[b], tys[c]], "impl": ords[a][c], "scenario": desc})
        if prop == "C13":
            for a in range(nt):
                if subs[a][a] != "1":
                    out["viol"].append({"law": "reflexive", "t": tys[a], "impl": subs[a][a], "scenario": desc})
                for b in range(nt):
                    # the subtype test ANSWERS for every pair of documented kinds of types (a class passed as a value
                    # is looked up as type[C]: a generic alias is a legitimate left-hand side)
                    if subs[a][b] == "E":
                        out["viol"].append({"law": "the subtype test raised instead of answering", "t1": tys[a], "t2": tys[b], "scenario": desc})
            for c in range(w.n):
                row = r["mem"][c]
                cobj = w.classes[c]
                for b in range(nt):
                    if row[b] == "-":
                        continue
                    from ovld.mro import subclasscheck

                    try:
                        got = "1" if subclasscheck(cobj, objs[b]) else "0"
                    except Exception as e:  # noqa
                        got = "E"
                    out["pairs"] += 1
                    bump(f"mem:{got}")
                    if got == "1":
                        out["nontrivial"] += 1
                    if got != row[b] and wf_ok:
                        out["viol"].append({"law": "matching = documented meaning", "cls": c, "t": tys[b], "impl": got, "want": row[b], "obj": str(objs[b]), "scenario": desc})
            # classes: issubclass; generics: covariant
            for a in range(nt):
                for b in range(nt):
                    ta, tb = tys[a], tys[b]
                    if ta[0] == "cls" and tb[0] == "cls":
                        want = str(tables["sub"][ta[1]][tb[1]])
                        if subs[a][b] != want:
                            out["viol"].append({"law": "classes: subtype = issubclass", "t1": ta, "t2": tb, "impl": subs[a][b], "scenario": desc})
                    if ta[0] == "gen" and tb[0] == "gen" and len(ta[2]) == len(tb[2]) and ta != tb:
                        ia = [tys.index(x) for x in ta[2] if x in tys]
                        ib = [tys.index(x) for x in tb[2] if x in tys]
                        if len(ia) == len(ta[2]) and len(ib) == len(tb[2]):
                            want = tables["sub"][ta[1]][tb[1]] and all(subs[x][y] == "1" for x, y in zip(ia, ib))
                            bump("generic covariance")
                            if (subs[a][b] == "1") != bool(want):
                                out["viol"].append({"law": "generic covariant", "t1": ta, "t2": tb, "impl": subs[a][b], "scenario": desc})
            # transitivity through a class on the down-closed fragment
            if wf_ok and wf["anti"]:
                cl = [i for i in range(nt) if tys[i][0] == "cls"]
                for a in cl:
                    for b in cl:
                        if subs[a][b] != "1":
                            continue
                        for c in range(nt):
                            if subs[b][c] == "1":
                                if r["down"][c] == "1":
                                    bump("transitivity triples")
                                    if subs[a][c] != "1":
                                        out["viol"].append({"law": "transitive (down-closed)", "ts": [tys[a], tys[b], tys[c]], "scenario": desc})
                                elif subs[a][c] != "1":
                                    ks = _kinds(tys[c])
                                    if "pred" in ks:
                                        # a user class predicate need not be inherited by subclasses: outside C13's list of types
                                        bump("triples through a user predicate (skipped)")
                                    elif "exactly" in ks:
                                        note_known("D17:exactly", {"kind": "subclass-triple", "world": w.desc, "ts": [tys[a], tys[b], tys[c]]})
                                    elif "hasm" in ks:
                                        note_known("D17:hasm", {"kind": "subclass-triple", "world": w.desc, "ts": [tys[a], tys[b], tys[c]]})
                                    else:
                                        out["viol"].append({"law": "transitive", "ts": [tys[a], tys[b], tys[c]], "scenario": desc})
        if len(out["samples"]) < 2:
            a, b = 0, min(1, nt - 1)
            out["samples"].append({"t1": tys[a], "t2": tys[b], "typeorder": ords[a][b], "subclasscheck": subs[a][b], "model": r["ord"][a][b] + r["sub"][a][b]})
    return out
