import Ovldverif.Spec.Types
import Ovldverif.Lemmas.Basic
/-!
# Fuel adequacy

`tord` / `subc` are defined by recursion on a fuel argument; `typeorder` / `subclasscheck` supply
`size t1 + size t2 + 1`.  These lemmas show that this is always enough: any larger fuel gives the same
answer, so the fuel-0 default is never reached from the public definitions and the model is the least
fixed point of the equations read off the code.
-/
set_option autoImplicit false
namespace Ovld
variable (H : Hier)

/-! ### congruence of the branch bodies in their recursive-call parameters -/

theorem any_congr_mem {α : Type} (l : List α) (p q : α → Bool) (h : ∀ a ∈ l, p a = q a) :
    l.any p = l.any q := by
  induction l with
  | nil => rfl
  | cons a as ih =>
    simp only [List.any_cons]
    rw [h a (by simp), ih (fun b hb => h b (by simp [hb]))]

theorem all_congr_mem {α : Type} (l : List α) (p q : α → Bool) (h : ∀ a ∈ l, p a = q a) :
    l.all p = l.all q := by
  induction l with
  | nil => rfl
  | cons a as ih =>
    simp only [List.all_cons]
    rw [h a (by simp), ih (fun b hb => h b (by simp [hb]))]

theorem map_congr_mem {α β : Type} (l : List α) (p q : α → β) (h : ∀ a ∈ l, p a = q a) :
    l.map p = l.map q := by
  induction l with
  | nil => rfl
  | cons a as ih =>
    simp only [List.map_cons]
    rw [h a (by simp), ih (fun b hb => h b (by simp [hb]))]

theorem zipWithT_congr {α : Type} (f g : Ty → Ty → α) : ∀ (as bs : List Ty),
    (∀ a ∈ as, ∀ b ∈ bs, f a b = g a b) → zipWithT f as bs = zipWithT g as bs := by
  intro as
  induction as with
  | nil => intro bs _; simp [zipWithT]
  | cons a as ih =>
    intro bs h
    cases bs with
    | nil => simp [zipWithT]
    | cons b bs =>
      simp only [zipWithT]
      rw [h a (by simp) b (by simp),
        ih bs (fun x hx y hy => h x (by simp [hx]) y (by simp [hy]))]

section congr
variable (to to' : Ty → Ty → TOrd) (sc sc' : Ty → Ty → Bool)

theorem pyIssub_congr (t1 t2 : Ty)
    (hsc : ∀ a b : Ty, a.size + b.size < t1.size + t2.size → sc a b = sc' a b) :
    pyIssub H sc t1 t2 = pyIssub H sc' t1 t2 := by
  cases t2 with
  | union ts =>
    simp only [pyIssub]
    apply any_congr_mem
    intro t ht
    have := Ty.mem_sizeL ht
    exact hsc t1 t (by simp only [Ty.size]; omega)
  | inter ts =>
    simp only [pyIssub]
    apply all_congr_mem
    intro t ht
    have := Ty.mem_sizeL ht
    exact hsc t1 t (by simp only [Ty.size]; omega)
  | _ => simp only [pyIssub]

theorem subcNe_congr (t1 t2 : Ty)
    (hsc : ∀ a b : Ty, a.size + b.size < t1.size + t2.size → sc a b = sc' a b) :
    subcNe H sc t1 t2 = subcNe H sc' t1 t2 := by
  cases t2 with
  | union ts =>
    simp only [subcNe]
    apply any_congr_mem
    intro t ht
    have := Ty.mem_sizeL ht
    exact hsc t1 t (by simp only [Ty.size]; omega)
  | inter ts =>
    simp only [subcNe]
    apply all_congr_mem
    intro t ht
    have := Ty.mem_sizeL ht
    exact hsc t1 t (by simp only [Ty.size]; omega)
  | lit k b =>
    simp only [subcNe]
    rw [hsc t1 b (by simp only [Ty.size]; omega)]
  | prod ps b =>
    simp only [subcNe]
    rw [hsc t1 b (by simp only [Ty.size]; omega)]
  | fdep fn ps b =>
    simp only [subcNe]
    rw [hsc t1 b (by simp only [Ty.size]; omega)]
  | gen o2 a2 =>
    cases t1 with
    | gen o1 a1 =>
      simp only [subcNe]
      rw [zipWithT_congr sc sc' a1 a2 (fun a ha b hb => by
        have := Ty.mem_sizeL ha
        have := Ty.mem_sizeL hb
        exact hsc a b (by simp only [Ty.size]; omega))]
    | _ => simp only [subcNe]
  | cls c2 =>
    cases t1 <;> simp only [subcNe]
  | _ => simp only [subcNe]

theorem depHook_congr (self bound other : Ty)
    (hto : ∀ ob, other.bound? = some ob → to bound ob = to' bound ob)
    (hsc1 : sc other bound = sc' other bound) (hsc2 : sc bound other = sc' bound other) :
    depHook to sc self bound other = depHook to' sc' self bound other := by
  unfold depHook
  cases hb : other.bound? with
  | none => simp only [hsc1, hsc2]
  | some ob => simp only [hto ob hb]

theorem Ty.size_of_bound {t b : Ty} (h : t.bound? = some b) : b.size < t.size := by
  cases t <;> simp [Ty.bound?] at h <;> (subst h; simp only [Ty.size]; omega)

theorem hook_congr (t1 t2 : Ty)
    (hto : ∀ a b : Ty, a.size + b.size < t1.size + t2.size → to a b = to' a b)
    (hsc : ∀ a b : Ty, a.size + b.size < t1.size + t2.size → sc a b = sc' a b) :
    hook to sc t1 t2 = hook to' sc' t1 t2 := by
  cases t1 with
  | union ts =>
    simp only [hook]
    rw [map_congr_mem ts _ (fun t => to' t t2) (fun t ht => by
      have := Ty.mem_sizeL ht
      exact hto t t2 (by simp only [Ty.size]; omega))]
  | inter ts =>
    simp only [hook]
    rw [map_congr_mem ts _ (fun t => to' t t2) (fun t ht => by
      have := Ty.mem_sizeL ht
      exact hto t t2 (by simp only [Ty.size]; omega))]
  | exactly tg c =>
    simp only [hook]
    rw [hto (.cls c) t2 (by simp only [Ty.size]; omega)]
  | prod ps b =>
    cases t2 with
    | prod qs b2 =>
      simp only [hook]
      rw [zipWithT_congr to to' ps qs (fun a ha b hb => by
        have := Ty.mem_sizeL ha
        have := Ty.mem_sizeL hb
        exact hto a b (by simp only [Ty.size]; omega))]
    | _ => simp only [hook]
  | lit k b =>
    simp only [hook]
    rw [depHook_congr to to' sc sc' (.lit k b) b t2
      (fun ob hob => by
        have := Ty.size_of_bound hob
        exact hto b ob (by simp only [Ty.size]; omega))
      (hsc t2 b (by simp only [Ty.size]; omega))
      (hsc b t2 (by simp only [Ty.size]; omega))]
  | fdep fn ps b =>
    simp only [hook]
    rw [depHook_congr to to' sc sc' (.fdep fn ps b) b t2
      (fun ob hob => by
        have := Ty.size_of_bound hob
        exact hto b ob (by simp only [Ty.size]; omega))
      (hsc t2 b (by simp only [Ty.size]; omega))
      (hsc b t2 (by simp only [Ty.size]; omega))]
  | _ => simp only [hook]

theorem tstruct_congr (t1 t2 : Ty)
    (hto : ∀ a b : Ty, a.size + b.size < t1.size + t2.size → to a b = to' a b)
    (hsc : ∀ a b : Ty, a.size + b.size < t1.size + t2.size → sc a b = sc' a b) :
    tstruct H to sc t1 t2 = tstruct H to' sc' t1 t2 := by
  have hpy : ∀ x y : Ty, x.size + y.size = t1.size + t2.size →
      pyIssub H sc x y = pyIssub H sc' x y := fun x y e =>
    pyIssub_congr H sc sc' x y (fun a b h => hsc a b (by omega))
  cases t1 with
  | gen o1 a1 =>
    cases t2 with
    | gen o2 a2 =>
      simp only [tstruct]
      rw [hto (.cls o1) (.cls o2) (by simp only [Ty.size]; omega),
        zipWithT_congr to to' a1 a2 (fun a ha b hb => by
          have := Ty.mem_sizeL ha
          have := Ty.mem_sizeL hb
          exact hto a b (by simp only [Ty.size]; omega))]
    | _ =>
      simp only [tstruct]
      rw [hto (.cls o1) _ (by simp only [Ty.size]; omega)]
  | _ =>
    cases t2 with
    | gen o2 a2 =>
      simp only [tstruct]
      rw [hto (.cls o2) _ (by simp only [Ty.size]; omega)]
    | _ =>
      simp only [tstruct]
      rw [hpy _ _ rfl, hpy _ _ (Nat.add_comm _ _)]

end congr

/-- any two fuels above `size t1 + size t2` agree (both functions at once) -/
theorem fuel_irrelevant : ∀ (f g : Nat) (t1 t2 : Ty), t1.size + t2.size < f → t1.size + t2.size < g →
    tord H f t1 t2 = tord H g t1 t2 ∧ subc H f t1 t2 = subc H g t1 t2 := by
  intro f
  induction f with
  | zero => intro g t1 t2 h; omega
  | succ f ih =>
    intro g t1 t2 hf hg
    cases g with
    | zero => omega
    | succ g =>
      have hto : ∀ a b : Ty, a.size + b.size < t1.size + t2.size → tord H f a b = tord H g a b :=
        fun a b h => (ih g a b (by omega) (by omega)).1
      have hsc : ∀ a b : Ty, a.size + b.size < t1.size + t2.size → subc H f a b = subc H g a b :=
        fun a b h => (ih g a b (by omega) (by omega)).2
      have h1 := hook_congr (tord H f) (tord H g) (subc H f) (subc H g) t1 t2 hto hsc
      have h2 := hook_congr (tord H f) (tord H g) (subc H f) (subc H g) t2 t1
        (fun a b h => hto a b (by omega)) (fun a b h => hsc a b (by omega))
      have h3 := tstruct_congr H (tord H f) (tord H g) (subc H f) (subc H g) t1 t2 hto hsc
      have h4 := subcNe_congr H (subc H f) (subc H g) t1 t2 hsc
      constructor
      · rw [tord, tord, h1, h2, h3]
      · rw [subc, subc, h4]

theorem tord_fuel (f : Nat) (t1 t2 : Ty) (h : t1.size + t2.size < f) :
    tord H f t1 t2 = typeorder H t1 t2 :=
  (fuel_irrelevant H f _ t1 t2 h (by omega)).1

theorem subc_fuel (f : Nat) (t1 t2 : Ty) (h : t1.size + t2.size < f) :
    subc H f t1 t2 = subclasscheck H t1 t2 :=
  (fuel_irrelevant H f _ t1 t2 h (by omega)).2

end Ovld
