"""Correspondence layer T: a real Ovld with a linked variant (`Ovld(mixins=[p], linkback=True)`) under natural
failures and interrupts inside a rebuild, vs the Lean model `Model/BuildTree.lean`.

Operations: register / unregister on the function, register on the variant, calls of either through the object or
through the dispatch function.  An interrupt is an exception raised from a `sys.settrace` hook at a chosen executed
line *inside a `_compile` of the chosen object* (the model abstracts "somewhere inside this build" to one bit per
build); whether the line was reached is read back and handed to the model.  Compared after every operation, for the
function and for the variant: the definitions they are built from, the `_compiled` flag, whether the entry point in
service is the trampoline or generated code, the methods of the table in service, and the kind of outcome."""

import random
import sys

from check_build import SRC, Injected, Scenario, cfg_error, held_dispatch
from common import run_driver, use_repo
from corr_i import NATURAL, out_kind

use_repo()


def observe(ov, ident, defns=None):
    ds = [ident[f.__code__.co_filename] for f in (defns if defns is not None else ov.defns).values()]
    table = []
    gen = hasattr(ov, "dispatch") and held_dispatch(ov).__code__.co_filename.startswith("<ovld:")
    if hasattr(ov, "map"):
        table = [ident[h.__code__.co_filename] for h in ov.map.priorities]
    return {"defns": ds, "compiled": bool(ov._compiled), "entry": gen, "table": table}


class BuildTracer:
    """raise Injected at the n-th 'line' event inside a `_compile` frame of `target`; one shot per target"""

    def __init__(self, plan):
        self.plan = dict(plan)  # id(target) -> n
        self.count = {k: 0 for k in self.plan}
        self.fired = {k: False for k in self.plan}

    def owner(self, frame):
        f = frame
        while f is not None:
            if f.f_code.co_name == "_compile" and f.f_code.co_filename.startswith(SRC):
                return id(f.f_locals.get("self"))
            f = f.f_back
        return None

    def glob(self, frame, event, arg):
        fn = frame.f_code.co_filename
        if fn.startswith(SRC) or fn.startswith("<ovld:"):
            return self.local
        return None

    def local(self, frame, event, arg):
        if event == "line":
            o = self.owner(frame)
            if o in self.plan and not self.fired[o]:
                self.count[o] += 1
                if self.count[o] == self.plan[o]:
                    self.fired[o] = True
                    raise Injected()
        return self.local


def run_real(sc, rng, k, has_bad):
    from ovld import Ovld

    ident = {f.__code__.co_filename: i for i, f in enumerate(sc.fns)}
    if sc.bad is not None:
        ident[sc.bad.__code__.co_filename] = 99
    p = Ovld()
    # the first definition goes in before the variant is created (an Ovld gets its dispatch function then)
    p.register(sc.fns[0])
    c = Ovld(mixins=[p], linkback=True)
    held_dispatch(p), held_dispatch(c)
    probes = sc.probes()
    ops = [["regP", 0, False, False]]
    recs = [{"res": ("done",), "p": observe(p, ident), "c": observe(c, ident)}]
    ids = list(range(k)) + ([99] if has_bad else [])
    for _ in range(rng.randint(5, 12)):
        curp = recs[-1]["p"]["defns"]
        curc = recs[-1]["c"]["defns"]
        r = rng.random()
        ip = rng.randint(1, 160) if rng.random() < 0.3 else None
        ic = rng.randint(1, 160) if rng.random() < 0.3 else None
        # (a definition is registered on the function or on the variant, not on both: the same signature on both is
        # one entry of the variant's merged definitions, which the list model does not merge)
        if r < 0.3 and [i for i in ids if i not in curp and i not in curc]:
            op = ["regP", rng.choice([i for i in ids if i not in curp and i not in curc]), ip, ic]
        elif r < 0.42 and len([d for d in curp if d != 99]) > 1 or (r < 0.42 and 99 in curp):
            cand = [d for d in curp if d == 99 or len([x for x in curp if x != 99]) > 1]
            op = ["unregP", rng.choice(cand), ip, ic]
        elif r < 0.52 and [i for i in ids if i not in curc]:
            op = ["regC", rng.choice([i for i in ids if i not in curc]), ic]
        elif r < 0.76:
            op = ["callP", rng.choice(["obj", "fn"]), ip, rng.randrange(len(probes))]
        else:
            op = ["callC", rng.choice(["obj", "fn"]), ic, rng.randrange(len(probes))]
        plan = {}
        if op[0] in ("regP", "unregP"):
            if op[2]:
                plan[id(p)] = op[2]
            if op[3]:
                plan[id(c)] = op[3]
        elif op[0] == "regC" and op[2]:
            plan[id(c)] = op[2]
        elif op[0] == "callP" and op[2]:
            plan[id(p)] = op[2]
        elif op[0] == "callC" and op[2]:
            plan[id(c)] = op[2]
        tr = BuildTracer(plan)
        old = sys.gettrace()
        res = None
        if plan:
            sys.settrace(tr.glob)
        try:
            try:
                fn = sc.fn_of("bad" if op[1] == 99 else op[1]) if op[0] in ("regP", "unregP", "regC") else None
                if op[0] == "regP":
                    p.register(fn)
                    res = ("done",)
                elif op[0] == "unregP":
                    p.unregister(fn)
                    res = ("done",)
                elif op[0] == "regC":
                    c.register(fn)
                    res = ("done",)
                else:
                    ov = p if op[0] == "callP" else c
                    target = ov if op[1] == "obj" or not hasattr(ov, "dispatch") else held_dispatch(ov)
                    r_ = target(probes[op[3]])
                    res = ("ok", repr(r_)[:60])
            except Injected:
                res = ("injected",)
            except BaseException as e:  # noqa
                res = ("error", type(e).__name__, str(e)[:80])
        finally:
            if plan:
                sys.settrace(old)
        # what actually fired goes to the model
        fp, fc = tr.fired.get(id(p), False), tr.fired.get(id(c), False)
        if op[0] in ("regP", "unregP"):
            mop = [op[0], op[1], fp, fc]
        elif op[0] == "regC":
            mop = [op[0], op[1], fc]
        elif op[0] == "callP":
            mop = [op[0], op[1], fp]
        else:
            mop = [op[0], op[1], fc]
        ops.append(mop)
        recs.append({"res": res, "p": observe(p, ident), "c": observe(c, ident), "fired": [fp, fc]})
    return ops, recs


def model_state(ms):
    return {"defns": ms["defns"], "compiled": ms["compiled"], "entry": ms["entry"] is not None, "table": ms["table"]}


def in_service(s):
    return s["compiled"] or s["entry"]


def compare(ops, recs, model):
    for i, (op, r, m) in enumerate(zip(ops, recs, model)):
        for who in ("p", "c"):
            ms, rs = model_state(m[who]), dict(r[who])
            # the table of a function that is not in service is not compared (a failed build leaves any prefix)
            if not in_service(ms) and not in_service(rs):
                ms["table"] = rs["table"] = []
            if ms != rs:
                return {"layer": "T", "op": i, "what": f"state of the {'function' if who == 'p' else 'linked variant'} after the operation", "model": ms, "impl": rs, "opdesc": op, "res": r["res"]}
        mk = m["out"] if isinstance(m["out"], str) else m["out"][0]
        if mk != out_kind(r["res"]):
            return {"layer": "T", "op": i, "what": "outcome of the operation", "model": m["out"], "impl": r["res"], "opdesc": op}
    return None


def run(seed, n):
    rng = random.Random(seed)
    scs, keep = [], []
    stats = {"scenarios": 0, "ops": 0, "interrupts inside the function's build": 0, "interrupts inside the variant's build": 0, "natural": 0}
    for _ in range(n):
        k = rng.randint(2, 4)
        kind = rng.choice(NATURAL + [None])
        sc = Scenario(rng, k, kind, 0)
        ops, recs = run_real(sc, rng, k, kind is not None)
        scs.append({"layer": "T", "old": bool(__import__("os").environ.get("CORR_T_OLD")), "bad": [99] if kind in ("call_next", "nosource") else [], "conflict": [99] if kind in ("names", "positions") else [], "ops": ops})
        keep.append((kind, k, ops, recs))
        stats["scenarios"] += 1
        stats["ops"] += len(ops)
        stats["natural"] += kind is not None
        for r in recs:
            f = r.get("fired") or [False, False]
            stats["interrupts inside the function's build"] += bool(f[0])
            stats["interrupts inside the variant's build"] += bool(f[1])
    res = run_driver(scs)
    diffs, unsafe = [], []
    for (kind, k, ops, recs), m in zip(keep, res):
        if "error" in m:
            diffs.append({"layer": "T", "what": "driver-error", "detail": m["error"]})
            continue
        d = compare(ops, recs, m["ops"])
        if d:
            d["scenario"] = {"bad_kind": kind, "k": k, "ops": ops}
            diffs.append(d)
        for i, mo in enumerate(m["ops"]):
            if not mo["safe"]:
                unsafe.append({"scenario": {"bad_kind": kind, "k": k, "ops": ops[: i + 1]}})
    return stats, diffs, unsafe


if __name__ == "__main__":
    import json

    seed = int(sys.argv[1]) if len(sys.argv) > 1 else 0
    n = int(sys.argv[2]) if len(sys.argv) > 2 else 100
    stats, diffs, unsafe = run(seed, n)
    print(stats, "diffs", len(diffs), "model-unsafe states", len(unsafe))
    for d in diffs[:4]:
        print(json.dumps(d, default=str)[:1500])
