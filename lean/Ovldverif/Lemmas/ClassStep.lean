import Ovldverif.Lemmas.ClassCore
/-!
# One class statement: `classStep` against `effStep`, branch by branch
-/
set_option autoImplicit false
namespace Ovld
namespace ClassBody

/-! ## the two steps, cut into their branches -/

def ownOf (k : ClassDecl) : List Def :=
  if k.mixin then (match k.defs.getLast? with | some d => [d] | none => []) else k.defs

def valuesOf (st : TState) (k : ClassDecl) : List Attr := k.bases.map (fun b => st.attr[b]?.getD .none)

def push (st : TState) (x : Attr) (h : Bool) : TState := { st with attr := st.attr ++ [x], hasF := st.hasF ++ [h] }

def mixOf (values : List Attr) : List (Nat × Bool) := (values.filterMap nodeOf).tail.filter (·.2)

def prepMs (values : List Attr) : List Nat :=
  (((values.filterMap nodeOf).head?.map (·.1)).toList ++ (mixOf values).map (·.1))

/-- `__prepare__`: the plain functions of the bases as functions of their own, then the merged function -/
def prepSt (st : TState) (values : List Attr) : TState :=
  ((plainMk st values).1.create (prepMs values ++ (plainMk st values).2)).1

/-- the merged function of `__prepare__` -/
def preOf (st : TState) (values : List Attr) : Nat := (plainMk st values).1.nn

def stepA1 (st : TState) (values : List Attr) (d : Def) (rest : List Def) : TState :=
  let st2 := prepSt st values
  let st3 := (st2.create []).1
  let st4 := st3.emit (.register st2.nn d)
  let st5 := st4.emit (.addMixins (preOf st values) [st2.nn])
  push (regAll st5 (preOf st values) rest) (.node (preOf st values) false) true

def stepA2 (st : TState) (values : List Attr) (own : List Def) : TState :=
  push (regAll (prepSt st values) (preOf st values) own) (.node (preOf st values) false) true

def stepB0 (st : TState) (d : Def) : TState := (st.create []).1.emit (.register st.nn d)

def stepB (st : TState) (values : List Attr) (d : Def) (rest : List Def) : TState :=
  let st2 := stepB0 st d
  match values.filter Attr.isSome with
  | [] => push (regAll st2 st.nn rest) (.node st.nn true) true
  | m0 :: more =>
    let st3 := (st2.asNode m0).1
    let st4 := (st3.create [(st2.asNode m0).2]).1
    let st5 := mixAll st4 st3.nn more
    let st6 := st5.emit (.addMixins st3.nn [st.nn])
    push (regAll st6 st3.nn rest) (.node st3.nn false) true

def stepD (st : TState) (ds : List Def) : TState :=
  push (regAll (st.create []).1 st.nn ds) (.node st.nn false) true

def stepE (st : TState) (k : ClassDecl) : TState :=
  push st (match k.mro.find? (fun c => st.hasF[c]?.getD false) with
    | some c => st.attr[c]?.getD .none | Option.none => .none) false

def classStepO (st : TState) (k : ClassDecl) (own : List Def) : TState :=
  if !k.mixin && !(mixOf (valuesOf st k)).isEmpty then
    match own, k.extend with
    | d :: rest, true => stepA1 st (valuesOf st k) d rest
    | _, _ => stepA2 st (valuesOf st k) own
  else match own, k.extend && !k.mixin with
    | d :: rest, true => stepB st (valuesOf st k) d rest
    | [d], _ => push st (.plain d) true
    | d :: d' :: rest, _ => stepD st (d :: d' :: rest)
    | [], _ => stepE st k

theorem classStep_eq (st : TState) (k : ClassDecl) : classStep st k = classStepO st k (ownOf k) := by
  rfl

def valsOf (acc : List Eff) (k : ClassDecl) : List Eff := k.bases.map (fun b => acc[b]?.getD {})

def mixE (vals : List Eff) : List Eff := ((vals.filter (fun e => e.kind == .ovld)).tail).filter (·.flagged)

def prepE (vals : List Eff) : List (List (Def × Int)) :=
  (((vals.filter (fun e => e.kind == .ovld)).head?.toList ++ mixE vals).map (·.defns))

def plainDs (vals : List Eff) : List Def := vals.filterMap (fun e => if e.kind == .plain then e.fn else none)

/-- the plain functions of the bases, as mixed in by `__prepare__` -/
def plainE (vals : List Eff) : List (List (Def × Int)) := (plainDs vals).map (fun d => nodeDefns [] [d])

def effB (vals : List Eff) (d : Def) (rest : List Def) : Eff :=
  match vals.filter (fun e => e.kind != .none) with
  | [] => { kind := .ovld, flagged := true, defns := nodeDefns [] (d :: rest), hasF := true }
  | inh => { kind := .ovld, defns := nodeDefns (inh.map (·.defns) ++ [nodeDefns [] [d]]) rest, hasF := true }

def effE (acc : List Eff) (k : ClassDecl) : Eff :=
  match k.mro.find? (fun c => (acc[c]?.getD {}).hasF) with
  | some c => { (acc[c]?.getD {}) with hasF := false }
  | none => {}

def effO (acc : List Eff) (k : ClassDecl) (own : List Def) : Eff :=
  if !k.mixin && !(mixE (valsOf acc k)).isEmpty then
    match own, k.extend with
    | d :: rest, true =>
      { kind := .ovld, defns := nodeDefns (prepE (valsOf acc k) ++ plainE (valsOf acc k) ++ [nodeDefns [] [d]]) rest,
        hasF := true }
    | _, _ => { kind := .ovld, defns := nodeDefns (prepE (valsOf acc k) ++ plainE (valsOf acc k)) own, hasF := true }
  else match own, k.extend && !k.mixin with
    | d :: rest, true => effB (valsOf acc k) d rest
    | [d], _ => { kind := .plain, defns := nodeDefns [] [d], fn := some d, hasF := true }
    | d :: d' :: rest, _ => { kind := .ovld, defns := nodeDefns [] (d :: d' :: rest), hasF := true }
    | [], _ => effE acc k

def effStepO (acc : List Eff) (k : ClassDecl) (own : List Def) : List Eff :=
  let usesMC := !k.mixin
  let vals : List Eff := k.bases.map (fun b => acc[b]?.getD {})
  let ov := vals.filter (fun e => e.kind == .ovld)
  let mix := ov.tail.filter (·.flagged)
  if usesMC && !mix.isEmpty then
    let plainDs : List Def := vals.filterMap (fun e => if e.kind == .plain then e.fn else none)
    let ms := (ov.head?.toList ++ mix).map (·.defns) ++ plainDs.map (fun d => nodeDefns [] [d])
    match own, k.extend with
    | d :: rest, true =>
      acc ++ [{ kind := .ovld, defns := nodeDefns (ms ++ [nodeDefns [] [d]]) rest, hasF := true }]
    | _, _ => acc ++ [{ kind := .ovld, defns := nodeDefns ms own, hasF := true }]
  else match own, k.extend && usesMC with
    | d :: rest, true =>
      let inh := vals.filter (fun e => e.kind != .none)
      match inh with
      | [] => acc ++ [{ kind := .ovld, flagged := true, defns := nodeDefns [] (d :: rest), hasF := true }]
      | _ => acc ++ [{ kind := .ovld, defns := nodeDefns (inh.map (·.defns) ++ [nodeDefns [] [d]]) rest, hasF := true }]
    | [d], _ => acc ++ [{ kind := .plain, defns := nodeDefns [] [d], fn := some d, hasF := true }]
    | d :: d' :: rest, _ => acc ++ [{ kind := .ovld, defns := nodeDefns [] (d :: d' :: rest), hasF := true }]
    | [], _ =>
      match k.mro.find? (fun c => (acc[c]?.getD {}).hasF) with
      | some c => acc ++ [{ (acc[c]?.getD {}) with hasF := false }]
      | none => acc ++ [{}]

theorem effStepO_eq (acc : List Eff) (k : ClassDecl) (own : List Def) :
    effStepO acc k own = acc ++ [effO acc k own] := by
  unfold effStepO effO effB effE mixE prepE plainE plainDs valsOf
  dsimp only
  split
  · split <;> rfl
  · split
    · split <;> rfl
    · rfl
    · rfl
    · split <;> rfl

theorem effStep_eq (acc : List Eff) (k : ClassDecl) : effStep acc k = acc ++ [effO acc k (ownOf k)] := by
  rw [← effStepO_eq]; rfl

/-! ## the branches -/

/-- the conclusion about one class statement: the new state `st'` against the new effective method set `e` -/
def StepOK (st : TState) (a : AG) (D : Nat → List (Def × Int)) (st' : TState) (e : Eff) : Prop :=
  ∃ a' x, Snap st' a' ∧ a.len ≤ a'.len ∧ (∀ j, j < a.len → a'.mx j = a.mx j ∧ a'.ow j = a.ow j) ∧
    st'.attr = st.attr ++ [x] ∧ st'.hasF = st.hasF ++ [e.hasF] ∧
    ∀ D' : Nat → List (Def × Int),
      (∀ n, n < a'.len → D' n = overlay (overlayAll ((a'.mx n).map D')) (a'.ow n)) →
      (∀ m, m < a.len → D' m = D m) → RelAE a'.len D' x e

theorem Snap.push {st : TState} {a : AG} (h : Snap st a) (x : Attr) (b : Bool) : Snap (push st x b) a :=
  h.congr rfl rfl

theorem eval_node {a' : AG} {D' : Nat → List (Def × Int)}
    (hunf : ∀ n, n < a'.len → D' n = overlay (overlayAll ((a'.mx n).map D')) (a'.ow n))
    {n : Nat} (hn : n < a'.len) {L : List Nat} {ds : List Def} {mds : List (List (Def × Int))}
    (hmx : a'.mx n = L) (how : a'.ow n = regs ds []) (hL : L.map D' = mds) : D' n = nodeDefns mds ds := by
  rw [hunf n hn, hmx, how, hL]; rfl

theorem eval_leaf {a' : AG} {D' : Nat → List (Def × Int)}
    (hunf : ∀ n, n < a'.len → D' n = overlay (overlayAll ((a'.mx n).map D')) (a'.ow n))
    {n : Nat} (hn : n < a'.len) {d : Def} (hl : LeafAt a' n d) : D' n = nodeDefns [] [d] :=
  eval_node hunf hn hl.1 hl.2 rfl

theorem spec_plain (st : TState) (a : AG) (D : Nat → List (Def × Int)) (hs : Snap st a) (d : Def) :
    StepOK st a D (push st (.plain d) true)
      { kind := .plain, defns := nodeDefns [] [d], fn := some d, hasF := true } :=
  ⟨a, .plain d, hs.push _ _, Nat.le_refl _, fun _ _ => ⟨rfl, rfl⟩, rfl, rfl, fun _ _ _ => ⟨rfl, rfl, rfl⟩⟩

theorem spec_D (st : TState) (a : AG) (D : Nat → List (Def × Int)) (hs : Snap st a) (ds : List Def) :
    StepOK st a D (stepD st ds) { kind := .ovld, defns := nodeDefns [] ds, hasF := true } := by
  have hN := hs.len
  have s1 := hs.create [] (fun m hm => nomatch hm)
  have s2 := s1.regAll st.nn ds (by show st.nn < a.len + 1; omega)
  have hf := regAll_fields st.nn ds (st.create []).1
  refine ⟨_, .node st.nn false, s2.push _ _, Nat.le_succ _, fun j hj => ⟨?_, ?_⟩, ?_, ?_, fun D' hunf _ => ⟨rfl, rfl, ?_, ?_⟩⟩
  · show upd a.mx a.len [] j = _
    rw [upd_ne _ _ _ _ (by omega)]
  · show upd a.ow st.nn _ j = _
    rw [upd_ne _ _ _ _ (by omega)]
  · show (regAll _ _ _).attr ++ _ = _
    rw [hf.1]; rfl
  · show (regAll _ _ _).hasF ++ _ = _
    rw [hf.2.1]; rfl
  · show st.nn < a.len + 1
    omega
  · refine eval_node hunf (show st.nn < a.len + 1 by omega) (L := []) ?_ ?_ rfl
    · show upd a.mx a.len [] st.nn = []
      rw [← hN, upd_same]
    · show upd a.ow st.nn (regs ds (a.ow st.nn)) st.nn = _
      rw [upd_same, hs.closed.2 st.nn (by omega)]

theorem spec_E (st : TState) (a : AG) (acc : List Eff) (D : Nat → List (Def × Int)) (hs : Snap st a)
    (hag : All2 (RelAE a.len D) st.attr acc) (hf : st.hasF = acc.map (·.hasF)) (k : ClassDecl) :
    StepOK st a D (stepE st k) (effE acc k) := by
  have hfun : (fun (c : Nat) => st.hasF[c]?.getD false) = fun (c : Nat) => (acc[c]?.getD ({} : Eff)).hasF := by
    funext c
    rw [hf, List.getElem?_map]
    cases acc[c]? <;> rfl
  unfold stepE effE
  rw [hfun]
  have hrel : ∀ c, RelAE a.len D (st.attr[c]?.getD .none) (acc[c]?.getD ({} : Eff)) :=
    fun c => hag.getD (dx := Attr.none) (dy := ({} : Eff)) rfl c
  cases hfind : k.mro.find? (fun c => (acc[c]?.getD ({} : Eff)).hasF) with
  | none =>
    exact ⟨a, .none, hs.push _ _, Nat.le_refl _, fun _ _ => ⟨rfl, rfl⟩, rfl, rfl, fun _ _ _ => rfl⟩
  | some c =>
    refine ⟨a, st.attr[c]?.getD .none, hs.push _ _, Nat.le_refl _, fun _ _ => ⟨rfl, rfl⟩, rfl, rfl, fun D' _ hold => ?_⟩
    have h1 := (hrel c).mono (Nat.le_refl _) hold
    dsimp only
    generalize st.attr[c]?.getD .none = x at h1
    generalize acc[c]?.getD ({} : Eff) = e at h1
    cases x with
    | none => exact h1
    | plain d => exact h1
    | node n fl => exact h1

/-! ## the bases' values on both sides -/

theorem RelAE.ov {nn : Nat} {D : Nat → List (Def × Int)} {x : Attr} {e : Eff} (h : RelAE nn D x e)
    (hk : e.kind = .ovld) : (nd x).2 = e.flagged ∧ (nd x).1 < nn ∧ D (nd x).1 = e.defns := by
  cases x with
  | none => have : e.kind = .none := h; rw [hk] at this; cases this
  | plain d => have : e.kind = .plain := h.1; rw [hk] at this; cases this
  | node n fl => exact ⟨h.2.1.symm, h.2.2.1, h.2.2.2⟩

theorem prep_pairs {nn : Nat} {D : Nat → List (Def × Int)} (P : List (Attr × Eff))
    (hp : ∀ p ∈ P, RelAE nn D p.1 p.2) :
    (mixOf (P.map (·.1))).isEmpty = (mixE (P.map (·.2))).isEmpty ∧
    (∀ m ∈ prepMs (P.map (·.1)), m < nn) ∧
    (prepMs (P.map (·.1))).map D = prepE (P.map (·.2)) := by
  unfold prepMs prepE mixOf mixE
  rw [pairs_ovlds P hp, pairs_ov P]
  generalize hQ : P.filter (fun p => p.2.kind == .ovld) = Q
  have hq : ∀ q ∈ Q, (nd q.1).2 = q.2.flagged ∧ (nd q.1).1 < nn ∧ D (nd q.1).1 = q.2.defns := by
    intro q hq
    rw [← hQ, List.mem_filter] at hq
    exact (hp q hq.1).ov (by simpa using hq.2)
  have hM : (Q.map (fun p => nd p.1)).tail.filter (·.2) = (Q.tail.filter (fun q => q.2.flagged)).map (fun p => nd p.1) := by
    rw [← List.map_tail, List.filter_map]
    congr 1
    apply List.filter_congr
    intro q hqt
    exact (hq q (List.mem_of_mem_tail hqt)).1
  have hM' : (Q.map (·.2)).tail.filter (·.flagged) = (Q.tail.filter (fun q => q.2.flagged)).map (·.2) := by
    rw [← List.map_tail, List.filter_map]; rfl
  rw [hM, hM']
  generalize hMd : Q.tail.filter (fun q => q.2.flagged) = M
  have hm : ∀ q ∈ M, q ∈ Q := by
    intro q hq
    rw [← hMd, List.mem_filter] at hq
    exact List.mem_of_mem_tail hq.1
  have hH : ∀ q ∈ Q.head?.toList ++ M, q ∈ Q := by
    intro q hq
    rcases List.mem_append.mp hq with h | h
    · cases Q with
      | nil => simp at h
      | cons q0 Q' => simp at h; subst h; simp
    · exact hm q h
  have e1 : ((Q.map (fun p => nd p.1)).head?.map (·.1)).toList ++ (M.map (fun p => nd p.1)).map (·.1) =
      (Q.head?.toList ++ M).map (fun q => (nd q.1).1) := by
    cases Q <;> simp
  have e2 : ((Q.map (·.2)).head?.toList ++ M.map (·.2)).map (·.defns) =
      (Q.head?.toList ++ M).map (fun q => q.2.defns) := by
    cases Q <;> simp
  rw [e1, e2]
  refine ⟨by simp, ?_, ?_⟩
  · intro m hmm
    obtain ⟨q, hq1, rfl⟩ := List.mem_map.mp hmm
    exact (hq q (hH q hq1)).2.1
  · rw [List.map_map]
    apply List.map_congr_left
    intro q hq1
    exact (hq q (hH q hq1)).2.2

/-! ## evaluation of the abstract graph -/

@[simp] theorem regs_len (a : AG) (n : Nat) (ds : List Def) : (a.regs n ds).len = a.len := rfl
@[simp] theorem regs_mx (a : AG) (n : Nat) (ds : List Def) : (a.regs n ds).mx = a.mx := rfl
@[simp] theorem regs_ow (a : AG) (n : Nat) (ds : List Def) :
    (a.regs n ds).ow = upd a.ow n (regs ds (a.ow n)) := rfl
@[simp] theorem create_len (a : AG) (ms : List Nat) (lb : Bool) : (a.step (.create ms lb)).len = a.len + 1 := rfl
@[simp] theorem create_mx (a : AG) (ms : List Nat) (lb : Bool) :
    (a.step (.create ms lb)).mx = upd a.mx a.len ms := rfl
@[simp] theorem create_ow (a : AG) (ms : List Nat) (lb : Bool) : (a.step (.create ms lb)).ow = a.ow := rfl
@[simp] theorem register_len (a : AG) (n : Nat) (d : Def) : (a.step (.register n d)).len = a.len := rfl
@[simp] theorem register_mx (a : AG) (n : Nat) (d : Def) : (a.step (.register n d)).mx = a.mx := rfl
@[simp] theorem register_ow (a : AG) (n : Nat) (d : Def) :
    (a.step (.register n d)).ow = upd a.ow n (setDefn ((a.ow n).length + 1) (a.ow n) d 0) := rfl
@[simp] theorem addMixins_len (a : AG) (n : Nat) (ms : List Nat) : (a.step (.addMixins n ms)).len = a.len := rfl
@[simp] theorem addMixins_mx (a : AG) (n : Nat) (ms : List Nat) :
    (a.step (.addMixins n ms)).mx = upd a.mx n (a.mx n ++ ms) := rfl
@[simp] theorem addMixins_ow (a : AG) (n : Nat) (ms : List Nat) : (a.step (.addMixins n ms)).ow = a.ow := rfl

theorem not_anc_of_nil {mx : Nat → List Nat} {n m : Nat} (h : mx m = []) : ¬ Anc mx n m := by
  intro ha
  cases ha with
  | direct hm => rw [h] at hm; cases hm
  | step hm _ => rw [h] at hm; cases hm

/-- the functions made of the bases' plain functions evaluate to the single definition they hold -/
theorem leaves_eval {a1 a' : AG} {lo : Nat} {D' : Nat → List (Def × Int)}
    (hunf : ∀ n, n < a'.len → D' n = overlay (overlayAll ((a'.mx n).map D')) (a'.ow n))
    (hlen : a1.len ≤ a'.len) (hsame : ∀ k, k < a1.len → a'.mx k = a1.mx k ∧ a'.ow k = a1.ow k)
    {pds : List Def} {ns : List Nat} (h : All2 (LeafRel a1 lo) pds ns) :
    ns.map D' = pds.map (fun d => nodeDefns [] [d]) := by
  induction h with
  | nil => rfl
  | cons h1 _ ih =>
    obtain ⟨_, h2, h3, h4⟩ := h1
    obtain ⟨e1, e2⟩ := hsame _ h2
    simp only [List.map_cons]
    rw [ih, eval_leaf hunf (Nat.lt_of_lt_of_le h2 hlen) ⟨e1.trans h3, e2.trans h4⟩]

theorem spec_A2 (st : TState) (a : AG) (D : Nat → List (Def × Int)) (hs : Snap st a) (values : List Attr)
    (vals : List Eff) (own : List Def) (hms : ∀ m ∈ prepMs values, m < a.len)
    (hD : (prepMs values).map D = prepE vals) (hpl : values.filterMap plainOf = plainDs vals) :
    StepOK st a D (stepA2 st values own)
      { kind := .ovld, defns := nodeDefns (prepE vals ++ plainE vals) own, hasF := true } := by
  obtain ⟨a1, s1, hle1, hsame1, hleaf, hat1, hhf1⟩ := plainMk_spec st a values hs
  unfold stepA2 prepSt preOf
  generalize (plainMk st values).1 = st1 at *
  generalize (plainMk st values).2 = ns at *
  have hn : st1.nn = a1.len := s1.len.symm
  rw [hn]
  have hcl := s1.closed
  have hmsAll : ∀ m ∈ prepMs values ++ ns, m < a1.len := by
    intro m hm
    rcases List.mem_append.mp hm with h | h
    · exact Nat.lt_of_lt_of_le (hms m h) hle1
    · obtain ⟨_, _, hr⟩ := hleaf.right m h
      exact hr.2.1
  have s2 := s1.create _ hmsAll
  have s3 := s2.regAll a1.len own (by simp)
  have hf := regAll_fields a1.len own (st1.create (prepMs values ++ ns)).1
  refine ⟨_, .node a1.len false, s3.push _ _, by simp; omega, fun j hj => ?_, ?_, ?_,
    fun D' hunf hold => ⟨rfl, rfl, ?_, ?_⟩⟩
  · have h1 : j ≠ a1.len := by omega
    obtain ⟨e1, e2⟩ := hsame1 j hj
    simp [upd, h1, e1, e2]
  · show (regAll _ _ _).attr ++ _ = _
    rw [hf.1]; simp [hat1]
  · show (regAll _ _ _).hasF ++ _ = _
    rw [hf.2.1]; simp [hhf1]
  · simp
  · refine eval_node hunf (by simp) (L := prepMs values ++ ns) (ds := own) ?_ ?_ ?_
    · simp [upd]
    · simp [upd, hcl.2 a1.len (Nat.le_refl _)]
    · rw [List.map_append, ← hD]
      unfold plainE
      rw [← hpl]
      congr 1
      · apply List.map_congr_left
        intro m hm
        exact hold m (hms m hm)
      · refine leaves_eval hunf (by simp) (fun k hk => ?_) hleaf
        have h1 : k ≠ a1.len := by omega
        simp [upd, h1]

theorem spec_A1 (st : TState) (a : AG) (D : Nat → List (Def × Int)) (hs : Snap st a) (values : List Attr)
    (vals : List Eff) (d : Def) (rest : List Def) (hms : ∀ m ∈ prepMs values, m < a.len)
    (hD : (prepMs values).map D = prepE vals) (hpl : values.filterMap plainOf = plainDs vals) :
    StepOK st a D (stepA1 st values d rest)
      { kind := .ovld, defns := nodeDefns (prepE vals ++ plainE vals ++ [nodeDefns [] [d]]) rest, hasF := true } := by
  obtain ⟨a1, s1, hle1, hsame1, hleaf, hat1, hhf1⟩ := plainMk_spec st a values hs
  unfold stepA1 prepSt preOf
  dsimp only
  generalize (plainMk st values).1 = st1 at *
  generalize (plainMk st values).2 = ns at *
  have hn : st1.nn = a1.len := s1.len.symm
  simp only [create_nn, hn]
  have hcl := s1.closed
  have hmsAll : ∀ m ∈ prepMs values ++ ns, m < a1.len := by
    intro m hm
    rcases List.mem_append.mp hm with h | h
    · exact Nat.lt_of_lt_of_le (hms m h) hle1
    · obtain ⟨_, _, hr⟩ := hleaf.right m h
      exact hr.2.1
  have s2 := s1.create _ hmsAll
  have s3 := s2.create [] (fun m hm => nomatch hm)
  have s4 := s3.register (a1.len + 1) d (by simp)
  have s5 := s4.addMixins a1.len [a1.len + 1] (by
    refine ⟨by simp; omega, fun m hm => ?_⟩
    rw [List.mem_singleton] at hm; subst hm
    refine ⟨by simp, by omega, not_anc_of_nil ?_⟩
    simp [upd])
  have s6 := s5.regAll a1.len rest (by simp; omega)
  have hf := regAll_fields a1.len rest
    (((((st1.create (prepMs values ++ ns)).1).create []).1.emit (.register (a1.len + 1) d)).emit
      (.addMixins a1.len [a1.len + 1]))
  refine ⟨_, .node a1.len false, s6.push _ _, by simp; omega, fun j hj => ?_, ?_, ?_,
    fun D' hunf hold => ⟨rfl, rfl, ?_, ?_⟩⟩
  · have h1 : j ≠ a1.len := by omega
    have h2 : j ≠ a1.len + 1 := by omega
    obtain ⟨e1, e2⟩ := hsame1 j hj
    simp [upd, h1, h2, e1, e2]
  · show (regAll _ _ _).attr ++ _ = _
    rw [hf.1]; simp [hat1]
  · show (regAll _ _ _).hasF ++ _ = _
    rw [hf.2.1]; simp [hhf1]
  · simp; omega
  · have hleaf1 : D' (a1.len + 1) = nodeDefns [] [d] := by
      refine eval_node hunf (by simp) (L := []) ?_ ?_ rfl
      · simp [upd]
      · simp [upd, hcl.2 (a1.len + 1) (by omega)]
        rfl
    refine eval_node hunf (by simp; omega) (L := prepMs values ++ ns ++ [a1.len + 1]) (ds := rest) ?_ ?_ ?_
    · simp [upd]
    · simp [upd, hcl.2 a1.len (Nat.le_refl _)]
    · rw [List.map_append, List.map_append, ← hD]
      unfold plainE
      rw [← hpl]
      congr 1
      · congr 1
        · apply List.map_congr_left
          intro m hm
          exact hold m (hms m hm)
        · refine leaves_eval hunf (by simp; omega) (fun k hk => ?_) hleaf
          have h1 : k ≠ a1.len := by omega
          have h2 : k ≠ a1.len + 1 := by omega
          simp [upd, h1, h2]
      · simp [hleaf1]

theorem mix_eval1 {a' : AG} {N lo : Nat} {D D' : Nat → List (Def × Int)}
    (hunf : ∀ n, n < a'.len → D' n = overlay (overlayAll ((a'.mx n).map D')) (a'.ow n))
    (hold : ∀ m, m < N → D' m = D m) {x : Attr} {e : Eff} {m : Nat} (hm : MixRel a' lo x m)
    (hr : RelAE N D x e) : D' m = e.defns := by
  cases x with
  | none => exact hm.elim
  | plain d => rw [hr.2.2]; exact eval_leaf hunf hm.2.1 hm.2.2
  | node m' fl =>
    have : m = m' := hm
    subst this
    rw [hold m hr.2.2.1]; exact hr.2.2.2

theorem mix_eval {a' : AG} {N lo : Nat} {D D' : Nat → List (Def × Int)}
    (hunf : ∀ n, n < a'.len → D' n = overlay (overlayAll ((a'.mx n).map D')) (a'.ow n))
    (hold : ∀ m, m < N → D' m = D m) : ∀ (S : List (Attr × Eff)) (ms : List Nat),
    All2 (MixRel a' lo) (S.map (·.1)) ms → (∀ s ∈ S, RelAE N D s.1 s.2) → ms.map D' = S.map (·.2.defns) := by
  intro S
  induction S with
  | nil => intro ms h _; cases h; rfl
  | cons s S ih =>
    intro ms h hS
    cases h with
    | cons h1 h2 =>
      simp only [List.map_cons]
      rw [mix_eval1 hunf hold h1 (hS s (by simp)), ih _ h2 (fun t ht => hS t (by simp [ht]))]

theorem MixRel.transport {a a' : AG} {lo : Nat} (hlen : a.len ≤ a'.len)
    (hsame : ∀ k, lo ≤ k → k < a.len → a'.mx k = a.mx k ∧ a'.ow k = a.ow k) {x : Attr} {m : Nat}
    (h : MixRel a lo x m) : MixRel a' lo x m := by
  cases x with
  | none => exact h
  | node m' fl => exact h
  | plain d =>
    obtain ⟨h1, h2, h3, h4⟩ := h
    obtain ⟨e1, e2⟩ := hsame m h1 h2
    exact ⟨h1, Nat.lt_of_lt_of_le h2 hlen, e1.trans h3, e2.trans h4⟩

theorem regs_cons_nil (d : Def) (rest : List Def) : regs rest (regs [d] []) = regs (d :: rest) [] := rfl

theorem spec_B (st : TState) (a : AG) (D : Nat → List (Def × Int)) (hs : Snap st a) (values : List Attr)
    (vals : List Eff) (d : Def) (rest : List Def) (S : List (Attr × Eff))
    (hS : ∀ s ∈ S, RelAE a.len D s.1 s.2 ∧ s.1.isSome = true)
    (hv : values.filter Attr.isSome = S.map (·.1)) (he : vals.filter (fun e => e.kind != .none) = S.map (·.2)) :
    StepOK st a D (stepB st values d rest) (effB vals d rest) := by
  have hN := hs.len
  have hcl := hs.closed
  unfold stepB effB stepB0
  dsimp only
  rw [hv, he]
  have s1 := hs.create [] (fun m hm => nomatch hm)
  have s2 := s1.register st.nn d (by simp; omega)
  -- the decorated definition sits alone in the function `st.nn`
  have hleaf2 : LeafAt ((a.step (.create [] false)).step (.register st.nn d)) st.nn d := by
    constructor
    · simp [upd, ← hN]
    · simp [upd, ← hN, hcl.2 a.len (Nat.le_refl _)]; rfl
  cases S with
  | nil =>
    have s3 := s2.regAll st.nn rest (by simp; omega)
    have hf := regAll_fields st.nn rest ((st.create []).1.emit (.register st.nn d))
    refine ⟨_, .node st.nn true, s3.push _ _, by simp, fun j hj => ⟨?_, ?_⟩, ?_, ?_,
      fun D' hunf hold => ⟨rfl, rfl, ?_, ?_⟩⟩
    · have h1 : j ≠ a.len := by omega
      simp [upd, ← hN, h1]
    · have h1 : j ≠ a.len := by omega
      simp [upd, ← hN, h1]
    · show (regAll _ _ _).attr ++ _ = _
      rw [hf.1]; rfl
    · show (regAll _ _ _).hasF ++ _ = _
      rw [hf.2.1]; rfl
    · simp; omega
    · refine eval_node hunf (by simp; omega) (L := []) (ds := d :: rest) ?_ ?_ rfl
      · simp [upd, ← hN]
      · simp [upd, ← hN, hcl.2 a.len (Nat.le_refl _)]; rfl
  | cons s0 S' =>
    simp only [List.map_cons]
    generalize hst2 : (st.create []).1.emit (.register st.nn d) = st2 at s2 ⊢
    generalize ha2 : (a.step (.create [] false)).step (.register st.nn d) = a2 at s2 hleaf2
    have hl2 : a2.len = a.len + 1 := by rw [← ha2]; rfl
    have hsame2 : ∀ k, k < a.len → a2.mx k = a.mx k ∧ a2.ow k = a.ow k := by
      intro k hk
      have h1 : k ≠ a.len := by omega
      rw [← ha2]; simp [upd, ← hN, h1]
    have hst2f : st2.attr = st.attr ∧ st2.hasF = st.hasF := by rw [← hst2]; exact ⟨rfl, rfl⟩
    have hargs : ∀ s ∈ s0 :: S', ∀ len n, a.len < len → a.len < n → ArgOK len n s.1 := by
      intro s hs' len n h1 h2
      obtain ⟨r1, r2⟩ := hS s hs'
      generalize s.1 = x at r1 r2
      cases x with
      | none => cases r2
      | plain d => trivial
      | node m fl => exact ⟨Nat.lt_trans r1.2.2.1 h1, by have := r1.2.2.1; omega⟩
    -- the first inherited function
    obtain ⟨a3, s3, hle3, hsame3, hrel3, hfirst, hat3, hhf3⟩ :=
      asNode_spec st2 a2 s0.1 s2 (hargs s0 (by simp) _ _ (by omega) (by omega))
    generalize hst3 : (st2.asNode s0.1).1 = st3 at s3 hat3 hhf3 ⊢
    generalize hfst : (st2.asNode s0.1).2 = first at hrel3 hfirst ⊢
    have hn := s3.len
    generalize st3.nn = n at hn ⊢
    subst hn
    have hcl3 := s3.closed
    -- the new function, starting from the first one
    have s4 := s3.create [first] (fun m hm => by rw [List.mem_singleton] at hm; subst hm; exact hfirst)
    have hnd4 : ∀ k, a3.len ∉ (a3.step (.create [first] false)).mx k := by
      intro k hk
      simp only [create_mx] at hk
      unfold upd at hk
      split at hk
      · rw [List.mem_singleton] at hk; omega
      · exact absurd (hcl3.1 k _ hk) (Nat.lt_irrefl _)
    obtain ⟨a5, ms, s5, hle5, hsame5, how5, hmx5, hnd5, hrel5, hat5, hhf5⟩ :=
      mixAll_spec a3.len (S'.map (·.1)) _ _ s4 (by simp) hnd4 (by
        intro x hx
        obtain ⟨s, hs1, rfl⟩ := List.mem_map.mp hx
        exact hargs s (by simp [hs1]) _ _ (by simp; omega) (by omega))
    simp only [create_len] at hle5 hsame5 hrel5
    have s6 := s5.addMixins a3.len [st.nn] (by
      refine ⟨by omega, fun m hm => ?_⟩
      rw [List.mem_singleton] at hm; subst hm
      exact ⟨by omega, by omega, not_anc_of_nodesc hnd5⟩)
    have s7 := s6.regAll a3.len rest (by simp; omega)
    have hf := regAll_fields a3.len rest ((mixAll (st3.create [first]).1 a3.len (S'.map (·.1))).emit
      (.addMixins a3.len [st.nn]))
    -- everything below the new function is as it was after the first step
    have hsame7 : ∀ k, k < a3.len → ((a5.step (.addMixins a3.len [st.nn])).regs a3.len rest).mx k = a3.mx k ∧
        ((a5.step (.addMixins a3.len [st.nn])).regs a3.len rest).ow k = a3.ow k := by
      intro k hk
      have h1 : k ≠ a3.len := by omega
      obtain ⟨e1, e2⟩ := hsame5 k (by omega) h1
      simp only [create_mx, create_ow] at e1 e2
      rw [upd_ne _ _ _ _ h1] at e1
      simp [upd, h1, e1, e2]
    refine ⟨_, .node a3.len false, s7.push _ _, by simp; omega, fun j hj => ?_, ?_, ?_,
      fun D' hunf hold => ⟨rfl, rfl, ?_, ?_⟩⟩
    · obtain ⟨e1, e2⟩ := hsame7 j (by omega)
      obtain ⟨e3, e4⟩ := hsame3 j (by omega)
      obtain ⟨e5, e6⟩ := hsame2 j hj
      exact ⟨e1.trans (e3.trans e5), e2.trans (e4.trans e6)⟩
    · show (regAll _ _ _).attr ++ _ = _
      rw [hf.1]; simp [hat5, hat3, hst2f.1]
    · show (regAll _ _ _).hasF ++ _ = _
      rw [hf.2.1]; simp [hhf5, hhf3, hst2f.2]
    · simp; omega
    · -- the three kinds of mixins of the new function
      have hD1 : D' first = s0.2.defns := by
        refine mix_eval1 hunf hold (lo := a2.len) (MixRel.transport (by simp; omega) ?_ hrel3) (hS s0 (by simp)).1
        intro k _ hk
        exact hsame7 k hk
      have hD2 : ms.map D' = S'.map (·.2.defns) := by
        refine mix_eval hunf hold S' ms (hrel5.imp (fun x m hr => MixRel.transport (a := a5) (by simp) ?_ hr))
          (fun s hs' => (hS s (by simp [hs'])).1)
        intro k hk1 hk2
        have h1 : k ≠ a3.len := by omega
        simp [upd, h1]
      have hD3 : D' st.nn = nodeDefns [] [d] := by
        refine eval_leaf hunf (by simp; omega) ?_
        obtain ⟨e1, e2⟩ := hsame7 st.nn (by omega)
        obtain ⟨e3, e4⟩ := hsame3 st.nn (by omega)
        exact ⟨e1.trans (e3.trans hleaf2.1), e2.trans (e4.trans hleaf2.2)⟩
      refine eval_node hunf (by simp; omega) (L := first :: ms ++ [st.nn]) (ds := rest) ?_ ?_ ?_
      · simp [upd, hmx5]
      · simp [upd, how5, hcl3.2 a3.len (Nat.le_refl _)]
      · simp [hD1, hD2, hD3]

/-! ## one class statement -/

theorem classStep_spec (st : TState) (a : AG) (acc : List Eff) (k : ClassDecl) (D : Nat → List (Def × Int))
    (hs : Snap st a) (hag : All2 (RelAE a.len D) st.attr acc) (hf : st.hasF = acc.map (·.hasF)) :
    StepOK st a D (classStep st k) (effO acc k (ownOf k)) := by
  rw [classStep_eq]
  generalize ownOf k = own
  -- the bases' values, side by side
  let P : List (Attr × Eff) := k.bases.map (fun b => (st.attr[b]?.getD .none, acc[b]?.getD {}))
  have hvalues : valuesOf st k = P.map (·.1) := by simp [valuesOf, P, List.map_map, Function.comp_def]
  have hvals : valsOf acc k = P.map (·.2) := by simp [valsOf, P, List.map_map, Function.comp_def]
  have hp : ∀ p ∈ P, RelAE a.len D p.1 p.2 := by
    intro p hpm
    obtain ⟨b, _, rfl⟩ := List.mem_map.mp hpm
    exact hag.getD (dx := Attr.none) (dy := ({} : Eff)) rfl b
  obtain ⟨hemp, hms, hD⟩ := prep_pairs P hp
  have hpl := pairs_plain P hp
  rw [← hvalues, ← hvals] at hemp hD
  rw [← hvalues] at hms
  rw [← hvalues, ← hvals] at hpl
  unfold classStepO effO
  rw [hemp]
  by_cases hc : (!k.mixin && !(mixE (valsOf acc k)).isEmpty) = true
  · rw [if_pos hc, if_pos hc]
    cases own with
    | nil => exact spec_A2 st a D hs _ _ [] hms hD hpl
    | cons d rest =>
      cases hext : k.extend with
      | false => exact spec_A2 st a D hs _ _ (d :: rest) hms hD hpl
      | true => exact spec_A1 st a D hs _ _ d rest hms hD hpl
  · rw [if_neg hc, if_neg hc]
    cases own with
    | nil => exact spec_E st a acc D hs hag hf k
    | cons d rest =>
      cases hext : (k.extend && !k.mixin) with
      | true =>
        refine spec_B st a D hs _ _ d rest (P.filter (fun p => p.2.kind != .none)) ?_ ?_ ?_
        · intro s hsm
          rw [List.mem_filter] at hsm
          refine ⟨hp s hsm.1, ?_⟩
          rw [(hp s hsm.1).isSome]; exact hsm.2
        · rw [hvalues]; exact pairs_some P hp
        · rw [hvals]; exact pairs_inh P
      | false =>
        cases rest with
        | nil => exact spec_plain st a D hs d
        | cons d' rest => exact spec_D st a D hs (d :: d' :: rest)

/-! ## all class statements -/

theorem translate_snoc (ks : List ClassDecl) (k : ClassDecl) : translate (ks ++ [k]) = classStep (translate ks) k := by
  simp [translate, List.foldl_append]

theorem effAll_snoc (ks : List ClassDecl) (k : ClassDecl) : effAll (ks ++ [k]) = effStep (effAll ks) k := by
  simp [effAll, List.foldl_append]

theorem rev_ind {α : Type} {P : List α → Prop} (h0 : P []) (h1 : ∀ l x, P l → P (l ++ [x])) : ∀ l, P l := by
  intro l
  suffices h : ∀ r : List α, P r.reverse by simpa using h l.reverse
  intro r
  induction r with
  | nil => exact h0
  | cons x r ih => rw [List.reverse_cons]; exact h1 _ _ ih

/-- the graph behind a translation state -/
theorem snap_graph (cfg : Cfg) {st : TState} {a : AG} (hs : Snap st a) :
    Simple (Graph.runOps cfg {} st.ops) ∧ (Graph.runOps cfg {} st.ops).abs = a ∧
    Graph.opsOK cfg {} st.ops = true ∧ Inv (Graph.runOps cfg {} st.ops) := by
  obtain ⟨h1, h2, h3⟩ := Simple.runOps cfg st.ops {} Simple.empty (by rw [Graph.abs_empty]; exact hs.oks)
  rw [Graph.abs_empty, hs.run] at h2
  exact ⟨h1, h2, h3, Graph.inv_runOps cfg st.ops {} Inv.empty h3⟩

/-- the invariant of the translation, class statement by class statement -/
def MainInv (cfg : Cfg) (ks : List ClassDecl) : Prop :=
  ∃ a, Snap (translate ks) a ∧
    All2 (RelAE a.len (DD (Graph.runOps cfg {} (translate ks).ops))) (translate ks).attr (effAll ks) ∧
    (translate ks).hasF = (effAll ks).map (·.hasF) ∧ (translate ks).attr.length = ks.length

theorem MainInv.nil (cfg : Cfg) : MainInv cfg [] :=
  ⟨{}, Snap.empty, All2.nil, rfl, rfl⟩

theorem MainInv.step (cfg : Cfg) (ks : List ClassDecl) (k : ClassDecl) (h : MainInv cfg ks) :
    MainInv cfg (ks ++ [k]) ∧
    (translate (ks ++ [k])).attr.take ks.length = (translate ks).attr ∧
    ∀ m, m < (translate ks).nn →
      DD (Graph.runOps cfg {} (translate (ks ++ [k])).ops) m = DD (Graph.runOps cfg {} (translate ks).ops) m := by
  obtain ⟨a, hs, hag, hf, hlen⟩ := h
  obtain ⟨a', x, hs', hle, hsame, hat, hhf, hrel⟩ := classStep_spec _ a _ k _ hs hag hf
  unfold MainInv
  rw [translate_snoc, effAll_snoc, effStep_eq]
  obtain ⟨_, g2, _, gi⟩ := snap_graph cfg hs
  obtain ⟨_, g2', _, gi'⟩ := snap_graph cfg hs'
  generalize Graph.runOps cfg {} (translate ks).ops = G at *
  generalize Graph.runOps cfg {} (classStep (translate ks) k).ops = G' at *
  have hmx : G.mx = a.mx := congrArg AG.mx g2
  have how : G.ow = a.ow := congrArg AG.ow g2
  have hl : G.len = a.len := congrArg AG.len g2
  have hmx' : G'.mx = a'.mx := congrArg AG.mx g2'
  have how' : G'.ow = a'.ow := congrArg AG.ow g2'
  have hl' : G'.len = a'.len := congrArg AG.len g2'
  have hold : ∀ m, m < a.len → DD G' m = DD G m := by
    intro m hm
    refine DD_old gi ?_ ?_ (by omega) m (by omega)
    · rw [hmx, hl]; exact hs.closed.1
    · intro j hj
      rw [hmx, how, hmx', how']
      exact hsame j (by omega)
  have hunf : ∀ n, n < a'.len → DD G' n = overlay (overlayAll ((a'.mx n).map (DD G'))) (a'.ow n) := by
    intro n _
    rw [← hmx', ← how']
    exact DD_unfold gi' n
  refine ⟨⟨a', hs', ?_, ?_, ?_⟩, ?_, ?_⟩
  · rw [hat]
    exact (hag.imp (fun y e hr => RelAE.mono hle hold hr)).append (All2.cons (hrel _ hunf hold) All2.nil)
  · rw [hhf, hf]; simp
  · rw [hat]; simp [hlen]
  · rw [hat, ← hlen]; simp
  · intro m hm
    exact hold m (by rw [hs.len]; exact hm)

theorem mainInv (cfg : Cfg) : ∀ ks, MainInv cfg ks :=
  rev_ind (MainInv.nil cfg) (fun ks k h => (MainInv.step cfg ks k h).1)

end ClassBody
end Ovld
