import Ovldverif.Model.Graph
/-!
# Layer J: class bodies under `OvldMC` / `OvldBase` as operations on the graph of overloaded functions

core.py: `ovld_cls_dict.__setitem__`, `OvldMC.__prepare__`, `extend_super`, `to_ovld`.

One attribute name (`f`) is followed through a list of class declarations, each of which may only name earlier
classes as bases.  What a class ends up holding under that name is an `Attr`: nothing, a plain function (a single
undecorated definition is left alone by the class dict), or an overloaded function = a node of the graph of
`Model/Graph.lean` (`flagged`: the object still carries `_extend_super`, which `__prepare__` of a later class looks
at).  The class dict's behaviour is expressed as the graph operations it performs:

* a repeated name registers on / mixes into what the body already holds (`prev = to_ovld(self[attr])`),
* a first definition decorated with `@extend_super` starts from a copy of the first base's function with the
  other bases' functions mixed in, and is itself mixed in,
* `__prepare__` pre-populates the body when a second or later base holds a flagged function.

`mro` is the linearisation of the class's strict ancestors as computed by CPython (an input, like the `issubclass`
tables of `Hier`), used only for ordinary attribute inheritance by a class that defines nothing itself.
-/
set_option autoImplicit false
namespace Ovld.ClassBody
open Ovld

structure ClassDecl where
  bases : List Nat
  /-- a plain class that does not use the metaclass (has no bases) -/
  mixin : Bool := false
  /-- the `def f` of the body, in order -/
  defs : List Def := []
  /-- the first definition is decorated with `@extend_super` -/
  extend : Bool := false
  mro : List Nat := []

inductive Attr
  | none
  | plain (d : Def)
  | node (n : Nat) (flagged : Bool)
deriving Inhabited

def Attr.isNode : Attr → Bool
  | .node _ _ => true
  | _ => false

def Attr.isSome : Attr → Bool
  | .none => false
  | _ => true

structure TState where
  /-- operations performed so far, in order -/
  ops : List GOp := []
  /-- number of graph nodes created so far -/
  nn : Nat := 0
  /-- per class: what it holds under the name -/
  attr : List Attr := []
  /-- per class: is the name in the class's own `__dict__` -/
  hasF : List Bool := []

def TState.emit (st : TState) (op : GOp) : TState := { st with ops := st.ops ++ [op] }

def TState.create (st : TState) (mixins : List Nat) : TState × Nat :=
  ({ st with ops := st.ops ++ [.create mixins false], nn := st.nn + 1 }, st.nn)

/-- `to_ovld`: a plain function becomes a fresh overloaded function holding it -/
def TState.asNode (st : TState) : Attr → TState × Nat
  | .node n _ => (st, n)
  | .plain d =>
    let (st, n) := st.create []
    (st.emit (.register n d), n)
  | .none => (st, 0)

def regAll (st : TState) (n : Nat) (ds : List Def) : TState :=
  ds.foldl (fun st d => st.emit (.register n d)) st

def mixAll (st : TState) (n : Nat) : List Attr → TState
  | [] => st
  | a :: rest =>
    let (st, m) := st.asNode a
    mixAll (st.emit (.addMixins n [m])) n rest

def nodeOf : Attr → Option (Nat × Bool)
  | .node n f => some (n, f)
  | _ => Option.none

/-- the body of one class -/
def classStep (st : TState) (k : ClassDecl) : TState :=
  let own : List Def := if k.mixin then (match k.defs.getLast? with | some d => [d] | Option.none => []) else k.defs
  let usesMC := !k.mixin
  let values : List Attr := k.bases.map (fun b => st.attr[b]?.getD .none)
  let ovlds : List (Nat × Bool) := values.filterMap nodeOf
  let mix : List (Nat × Bool) := ovlds.tail.filter (·.2)
  let push (st : TState) (a : Attr) (h : Bool) : TState := { st with attr := st.attr ++ [a], hasF := st.hasF ++ [h] }
  if usesMC && !mix.isEmpty then
    -- `__prepare__`: copy of the first base's function with the flagged ones mixed in, then the plain functions of
    -- the bases, each as a fresh function of its own (since the `fix:` for finding D42 they are mixed in like the
    -- overloaded ones; they used to be registered on the merged function itself)
    let (st, plainNodes) := values.foldl (fun (acc : TState × List Nat) v => match v with
      | .plain d =>
        let (st', n) := acc.1.create []
        (st'.emit (.register n d), acc.2 ++ [n])
      | _ => acc) (st, [])
    let (st, pre) := st.create ((ovlds.head?.map (·.1)).toList ++ mix.map (·.1) ++ plainNodes)
    match own, k.extend with
    | d :: rest, true =>
      let (st, v) := st.create []
      let st := st.emit (.register v d)
      let st := st.emit (.addMixins pre [v])
      push (regAll st pre rest) (.node pre false) true
    | _, _ => push (regAll st pre own) (.node pre false) true
  else match own, k.extend && usesMC with
    | d :: rest, true =>
      let ms := values.filter Attr.isSome
      let (st, v) := st.create []
      let st := st.emit (.register v d)
      match ms with
      | [] => push (regAll st v rest) (.node v true) true
      | m0 :: more =>
        let (st, first) := st.asNode m0
        let (st, n) := st.create [first]
        let st := mixAll st n more
        let st := st.emit (.addMixins n [v])
        push (regAll st n rest) (.node n false) true
    | [d], _ => push st (.plain d) true
    | d :: d' :: rest, _ =>
      let (st, n) := st.create []
      push (regAll st n (d :: d' :: rest)) (.node n false) true
    | [], _ =>
      -- ordinary attribute inheritance
      let src := k.mro.find? (fun c => st.hasF[c]?.getD false)
      push st (match src with | some c => st.attr[c]?.getD .none | Option.none => .none) false

def translate (ks : List ClassDecl) : TState := ks.foldl classStep {}

end Ovld.ClassBody
