"""C17: classes using OvldMC / OvldBase.  Real classes are built from generated class bodies (same-named
definitions, @extend_super, multiple bases, plain mixin classes); every call on an instance of every class is
compared with the Lean function-level model run on the *documented* effective method set of that class:
same-named definitions of one body form one overloaded method; with @extend_super, the inherited methods of all
direct bases plus the class's own; otherwise ordinary attribute inheritance."""

import json
import linecache
import random
import sys

from common import run_driver, use_repo
from corr_d import RANK, RankedSet
from fnlevel import DEPTH_LIMIT, DepthExceeded, Val, kind_of_exc
from world import NBUILTIN, make_world

use_repo()
_uid = [0]


def gen_scenario(rng):
    w = make_world(rng, nuser=rng.randint(2, 5))
    classes = list(range(NBUILTIN, w.n))
    args = [{"vid": i, "kind": "inst", "c": c} for i, c in enumerate(classes)]
    ncls = rng.randint(2, 6)
    ndefs = 0
    K = []
    defs = []
    skel = []  # plain classes with the same bases: Python's own verdict on the base lists
    for i in range(ncls):
        bases = []
        if i > 0:
            k = rng.choice([1, 1, 1, 2, 2, 3, 3])
            bases = sorted(rng.sample(range(i), min(k, i)))
            # a consistent MRO: put more derived classes first ...
            bases.sort(reverse=True)
            # ... and keep only base lists Python itself can linearise (C3): the same statement over plain classes
            while True:
                try:
                    type("S", tuple(skel[b] for b in bases), {})
                    break
                except TypeError:
                    bases = bases[:-1]
        plain = i > 0 and not bases and False
        mixin = rng.random() < 0.2  # a plain class without the metaclass
        nd = rng.choice([0, 1, 1, 2, 2, 3])
        own = []
        used = set()
        for _ in range(nd):
            c = rng.choice(classes + [0])
            if c in used:
                # same-named definitions of one body have different signatures
                continue
            used.add(c)
            r = rng.random()
            body = ["ret"] if r < 0.6 else (["recurse", [["c", rng.randrange(len(args))]]] if r < 0.8 else ["callNext", [["p", 0]]])
            defs.append({"id": ndefs, "code": 100 + ndefs, "isMethod": True, "prio": 0, "params": [{"name": 0, "kind": "pk", "req": True, "ty": ["cls", c]}], "body": body})
            own.append(ndefs)
            ndefs += 1
        is_mixin = mixin and not bases
        # (@extend_super on a class without overloaded bases is legal: the decorated function stays the attribute, flag
        # included, and a later class listing it as a second or third base merges it)
        skel.append(type(f"S{i}", tuple(skel[b] for b in bases), {}))
        K.append({"bases": bases, "mixin": is_mixin, "defs": own, "extend": bool(own) and not is_mixin and rng.random() < (0.6 if bases else 0.35),
                  # @extend_super written on a later same-named definition of the body as well / instead
                  # (a marker on a later same-named definition changes nothing: that definition is mixed in on top of
                  # everything the body has accumulated, which is where a registration would put it as well)
                  "extend_later": [j for j in range(1, len(own)) if bases and rng.random() < 0.35]})
    calls = []
    for _ in range(rng.randint(4, 14)):
        calls.append([rng.randrange(ncls), rng.randrange(len(args))])
    return w, {"classes": K, "defs": defs, "args": args, "calls": calls}


class ClassWorld:
    def __init__(self, w, sc):
        self.w, self.sc = w, sc
        self.log = []
        self.depth = [0]
        self.vals = []
        self.vid_of = {}
        for a in sc["args"]:
            v = object.__new__(w.classes[a["c"]])
            self.vals.append(v)
            self.vid_of[id(v)] = a["vid"]

    def build(self):
        from ovld import OvldBase, OvldMC, call_next, extend_super, recurse

        sc = self.sc
        log, depth = self.log, self.depth
        vid_of = self.vid_of

        def ENTER(mid, x):
            log.append([mid, [vid_of.get(id(x), -2)], []])

        def DOWN():
            if depth[0] + 1 >= DEPTH_LIMIT:
                raise DepthExceeded()
            depth[0] += 1

        def UP():
            depth[0] -= 1

        glb = {"__name__": "verif_c17", "ENTER": ENTER, "DOWN": DOWN, "UP": UP, "OvldBase": OvldBase, "OvldMC": OvldMC,
               "extend_super": extend_super, "recurse": recurse, "call_next": call_next}
        for i, v in enumerate(self.vals):
            glb[f"C{i}"] = v
        lines = []
        for i, k in enumerate(sc["classes"]):
            bases = [f"K{b}" for b in k["bases"]]
            has_mc = any(not sc["classes"][b]["mixin"] for b in k["bases"])
            if k["mixin"]:
                hdr = f"class K{i}:"
            elif not bases:
                hdr = f"class K{i}(OvldBase):"
            elif has_mc:
                hdr = f"class K{i}({', '.join(bases)}):"
            else:
                hdr = f"class K{i}({', '.join(bases)}, metaclass=OvldMC):"
            lines.append(hdr)
            if not k["defs"]:
                lines.append("    pass")
            for j, di in enumerate(k["defs"]):
                d = sc["defs"][di]
                glb[f"T_{di}"] = self.w.ty(d["params"][0]["ty"])
                if (j == 0 and k["extend"]) or j in k.get("extend_later", []):  # a marker on a later same-named definition changes nothing
                    lines.append("    @extend_super")
                lines.append(f"    def f(self, n0: T_{di}):")
                lines.append(f"        ENTER({di}, n0)")
                b = d["body"]
                if b[0] == "ret":
                    lines.append(f"        return ('ret', {di})")
                else:
                    arg = "n0" if b[1][0][0] == "p" else f"C{b[1][0][1]}"
                    call = "call_next" if b[0] == "callNext" else "recurse"
                    lines += ["        DOWN()", "        try:", f"            return {call}({arg})", "        finally:", "            UP()"]
            lines.append("")
        src = "\n".join(lines) + "\n"
        _uid[0] += 1
        fname = f"<verif-c17-{_uid[0]}>"
        linecache.cache[fname] = (len(src), None, src.splitlines(True), fname)
        exec(compile(src, fname, "exec"), glb)
        self.glb = glb
        self.src = src
        return [glb[f"K{i}"] for i in range(len(sc["classes"]))]

    def run(self):
        import ovld.typemap as tmod

        tmod.set = RankedSet
        RANK["fn"] = lambda x: (0, 0)
        try:
            try:
                Ks = self.build()
            except Exception as e:  # noqa
                return {"build_error": f"{type(e).__name__}: {e}"[:300], "calls": []}
            out = []
            insts = {}
            for ci, ai in self.sc["calls"]:
                del self.log[:]
                self.depth[0] = 0
                try:
                    inst = insts.setdefault(ci, Ks[ci]())
                    f = getattr(inst, "f", None)
                    if f is None:
                        out.append({"o": ["noattr"], "t": []})
                        continue
                    r = f(self.vals[ai])
                    o = ["ran", r[1]] if isinstance(r, tuple) and r and r[0] == "ret" else ["returned", repr(r)[:60]]
                    out.append({"o": o, "t": [list(e) for e in self.log]})
                except Exception as e:  # noqa
                    out.append({"o": kind_of_exc(e), "t": [list(e2) for e2 in self.log], "msg": str(e)[:100]})
            return {"calls": out, "Ks": Ks}
        finally:
            RANK["fn"] = None


def translate(sc, Ks):
    """class bodies -> operations on the graph of overloaded functions, following what the class dict of the
    metaclass is documented to do: same-named definitions of one body are registered on one function; with
    @extend_super that function is a copy of the first base's method with the other bases' methods and the
    decorated definition mixed in.  Returns (ops, attr) with attr[i] = ("none",) | ("plain", def) | ("node", n)
    | ("automerge",)"""
    K = sc["classes"]
    ops = []
    nn = [0]

    def create(mixins):
        ops.append(["create", list(mixins), False])
        nn[0] += 1
        return nn[0] - 1

    def as_node(a):
        if a[0] == "node":
            return a[1]
        n = create([])  # to_ovld(plain function): a fresh function holding it
        ops.append(["reg", n, a[1]])
        return n

    attr = []
    for i, k in enumerate(K):
        own = list(k["defs"])
        if k["mixin"] and own:
            own = own[-1:]  # a class without the metaclass: ordinary Python, the last `def f` wins
        uses_mc = not k["mixin"]
        # OvldMC.__prepare__: when a second or later base contributes an extend_super-flagged method, the
        # class dict starts with a copy of the first base's method with those mixed in
        pre = None
        if uses_mc and k["bases"]:
            values = [attr[b] for b in k["bases"]]
            ovlds = [v for v in values if v[0] == "node"]
            mix = [v for v in ovlds[1:] if v[2]]
            if mix:
                # the plain functions of the bases are mixed in as fresh functions of their own, after the flagged ones
                # (since the `fix:` for finding D42; they used to be registered on the merged function)
                plain_nodes = []
                for v in values:
                    if v[0] == "plain":
                        n = create([])
                        ops.append(["reg", n, v[1]])
                        plain_nodes.append(n)
                pre = create([ovlds[0][1]] + [m[1] for m in mix] + plain_nodes)
        if pre is not None:
            if own and k["extend"]:
                v = create([])
                ops.append(["reg", v, own[0]])
                ops.append(["addmix", pre, [v]])
                rest = own[1:]
            else:
                rest = own
            for d in rest:
                ops.append(["reg", pre, d])
            attr.append(("node", pre, False))
        elif own and k["extend"] and uses_mc:
            ms = [attr[b] for b in k["bases"] if attr[b][0] in ("plain", "node")]
            v = create([])
            ops.append(["reg", v, own[0]])
            flagged = False
            if ms:
                first = as_node(ms[0])
                n = create([first])
                for m in ms[1:]:
                    ops.append(["addmix", n, [as_node(m)]])
                ops.append(["addmix", n, [v]])
            else:
                n = v
                flagged = True  # the decorated function itself stays the attribute, flag included
            for d in own[1:]:
                ops.append(["reg", n, d])
            attr.append(("node", n, flagged))
        elif own:
            if len(own) == 1:
                attr.append(("plain", own[0]))
            else:
                n = create([])
                for d in own:
                    ops.append(["reg", n, d])
                attr.append(("node", n, False))
        else:
            r = ("none",)
            for c in Ks[i].__mro__[1:]:
                if "f" in c.__dict__ and c in Ks:
                    r = attr[Ks.index(c)]
                    break
            attr.append(r)
    return ops, attr


def to_model(w, sc, ops):
    t = lambda c: ["cls", c]  # noqa
    defs = [{**d, "params": [{**p, "ty": w.tyj(p["ty"])} for p in d["params"]]} for d in sc["defs"]]
    return {
        "layer": "G", "hier": w.tables(), "tyrank": [], "hrank": [],
        "defs": defs, "args": [{"vid": a["vid"], "cls": t(a["c"]), "subtler": t(a["c"])} for a in sc["args"]],
        "ops": ops,
    }


def run(seed, n):
    rng = random.Random(seed)
    results = {"calls": 0, "checked": 0, "diffs": [], "stale": [], "hist": {}, "skipped": {}}
    batch, meta = [], []
    for _ in range(n):
        w, sc = gen_scenario(rng)
        cw = ClassWorld(w, sc)
        im = cw.run()
        if "build_error" in im:
            results["skipped"]["build:" + im["build_error"][:40]] = results["skipped"].get("build:" + im["build_error"][:40], 0) + 1
            continue
        ops, attr = translate(sc, im["Ks"])
        idx = []
        for (ci, ai), b in zip(sc["calls"], im["calls"]):
            results["calls"] += 1
            a = attr[ci]
            results["hist"][a[0]] = results["hist"].get(a[0], 0) + 1
            if a[0] != "node":
                continue
            ops.append(["call", a[1], [ai], []])
            idx.append((len(ops) - 1, ci, ai, b))
        batch.append(to_model(w, sc, ops))
        meta.append((w, sc, idx, cw.src, ops))
    res = run_driver(batch)
    for r, (w, sc, idx, src, ops) in zip(res, meta):
        if "error" in r:
            results["diffs"].append(("driver-error", r["error"]))
            continue
        for (oi, ci, ai, b) in idx:
            results["checked"] += 1
            m = r["ops"][oi]
            mo = m["o"]
            if mo and mo[0] == "ambiguous":
                mo = ["ambiguous"]
            if {"o": mo, "t": m["t"]} != {"o": b["o"], "t": b["t"]}:
                results["diffs"].append({"class": ci, "arg": ai, "model": {"o": mo, "t": m["t"]}, "impl": b, "classes": sc["classes"], "ops": ops[: oi + 1], "src": src})
                break
            e = m["exp"]
            if e["o"] and e["o"][0] == "ambiguous":
                e["o"] = ["ambiguous"]
            if {"o": e["o"], "t": e["t"]} != {"o": b["o"], "t": b["t"]}:
                results["stale"].append({"class": ci, "arg": ai, "expected": e, "impl": b})
    return results


if __name__ == "__main__":
    seed = int(sys.argv[1]) if len(sys.argv) > 1 else 0
    n = int(sys.argv[2]) if len(sys.argv) > 2 else 50
    r = run(seed, n)
    print({k: v for k, v in r.items() if k not in ("diffs", "stale")}, "diffs", len(r["diffs"]), "stale", len(r["stale"]))
    for d in r["diffs"][:3]:
        print(json.dumps(d, default=str)[:2500])
