import Ovldverif.Spec.ClassSpec
import Ovldverif.Props.C08
/-!
# Class bodies: the graph operations of `translate` on an abstract graph (`AG`: nodes, mixins, own definitions)

Part 1: graphs on which nothing was ever compiled, locked or linked back (`Simple`): every well-formed
`create` / `addMixins` / `register` is accepted and acts on the projections `len` / `mx` / `ow` only (`AG.step`).
-/
set_option autoImplicit false
namespace Ovld

/-! ## simple graphs -/

/-- nothing compiled, nothing locked, no linked-back edges -/
def Simple (g : Graph) : Prop :=
  ∀ k, (g.get k).compiled = false ∧ (g.get k).locked = false ∧ (g.get k).children = [] ∧ (g.get k).linkback = false

theorem Graph.get_empty (k : Nat) : (({} : Graph)).get k = default := by
  simp [Graph.get]

theorem Simple.empty : Simple {} := by
  intro k; rw [Graph.get_empty]; exact ⟨rfl, rfl, rfl, rfl⟩

theorem Simple.set {g : Graph} (hs : Simple g) (n : Nat) (x : Node)
    (hx : x.compiled = false ∧ x.locked = false ∧ x.children = [] ∧ x.linkback = false) : Simple (g.set n x) := by
  intro k
  rw [Graph.get_set]
  split
  · exact hx
  · exact hs k

theorem Simple.update {g : Graph} (hs : Simple g) (n : Nat) : Graph.update g.depth g n = (g, none) :=
  Graph.update_leaf _ g n (hs n).1 (hs n).2.2.1

/-- abstract graph: what `defns` depends on -/
structure AG where
  len : Nat := 0
  mx : Nat → List Nat := fun _ => []
  ow : Nat → List (Def × Int) := fun _ => []

def upd {α : Type} (f : Nat → α) (n : Nat) (v : α) : Nat → α := fun k => if k = n then v else f k

theorem upd_same {α : Type} (f : Nat → α) (n : Nat) (v : α) : upd f n v n = v := by simp [upd]
theorem upd_ne {α : Type} (f : Nat → α) (n : Nat) (v : α) (k : Nat) (h : k ≠ n) : upd f n v k = f k := by
  simp [upd, h]
theorem upd_self {α : Type} (f : Nat → α) (n : Nat) : upd f n (f n) = f := by
  funext k; unfold upd; split
  · next h => rw [h]
  · rfl
theorem upd_upd {α : Type} (f : Nat → α) (n : Nat) (v w : α) : upd (upd f n v) n w = upd f n w := by
  funext k; unfold upd; split <;> rfl

def Graph.abs (g : Graph) : AG := ⟨g.len, g.mx, g.ow⟩

def AG.step (a : AG) : GOp → AG
  | .create ms _ => { a with len := a.len + 1, mx := upd a.mx a.len ms }
  | .addMixins n ms => { a with mx := upd a.mx n (a.mx n ++ ms) }
  | .register n d => { a with ow := upd a.ow n (setDefn ((a.ow n).length + 1) (a.ow n) d 0) }
  | _ => a

def AG.ok (a : AG) : GOp → Prop
  | .create ms lb => lb = false ∧ ∀ m ∈ ms, m < a.len
  | .addMixins n ms => n < a.len ∧ ∀ m ∈ ms, m < a.len ∧ m ≠ n ∧ ¬ Anc a.mx n m
  | .register n _ => n < a.len
  | _ => False

theorem AG.ext {a b : AG} (h1 : a.len = b.len) (h2 : a.mx = b.mx) (h3 : a.ow = b.ow) : a = b := by
  cases a; cases b; simp at h1 h2 h3; simp [h1, h2, h3]

theorem filter_ne_of_forall (n : Nat) (ms : List Nat) (h : ∀ m ∈ ms, m ≠ n) : ms.filter (fun m => m != n) = ms := by
  apply List.filter_eq_self.mpr
  intro m hm; simpa using h m hm

theorem Graph.abs_empty : (({} : Graph)).abs = {} := by
  apply AG.ext
  · rfl
  · funext k; show (Graph.get {} k).mixins = []; rw [Graph.get_empty]; rfl
  · funext k; show (Graph.get {} k).own = []; rw [Graph.get_empty]; rfl

/-- `register` on a simple graph -/
theorem Simple.register {g : Graph} (hs : Simple g) (n : Nat) (d : Def) (hn : n < g.len) :
    Simple (g.register n d).1 ∧ (g.register n d).1.abs = g.abs.step (.register n d) ∧ (g.register n d).2 = none := by
  rw [Graph.register_eq g n d (hs n).2.1]
  dsimp only
  have hs1 : Simple (g.setOwn n (setDefn ((g.get n).own.length + 1) (g.get n).own d 0)) :=
    hs.set n _ (hs n)
  rw [hs1.update n]
  refine ⟨hs1, ?_, rfl⟩
  apply AG.ext
  · exact Graph.setOwn_len _ _ _
  · exact Graph.setOwn_mx _ _ _
  · funext k
    show (g.setOwn n _).ow k = upd g.ow n _ k
    by_cases hk : k = n
    · subst hk
      rw [upd_same]
      show ((g.set k _).get k).own = _
      rw [Graph.get_set, if_pos ⟨rfl, hn⟩]; rfl
    · rw [upd_ne _ _ _ _ hk, Graph.setOwn_ow_ne _ _ _ _ hk]

/-- `add_mixins` on a simple graph -/
theorem Simple.addMixins {g : Graph} (hs : Simple g) (n : Nat) (ms : List Nat) (hn : n < g.len)
    (hms : ∀ m ∈ ms, m ≠ n) :
    Simple (g.addMixins n ms).1 ∧ (g.addMixins n ms).1.abs = g.abs.step (.addMixins n ms) ∧
      (g.addMixins n ms).2 = none := by
  unfold Graph.addMixins
  dsimp only
  rw [if_neg (by rw [(hs n).2.1]; simp), if_neg (by rw [(hs n).2.2.2]; simp), filter_ne_of_forall n ms hms]
  have hs1 : Simple (g.set n { g.get n with mixins := (g.get n).mixins ++ ms }) := hs.set n _ (hs n)
  rw [hs1.update n]
  refine ⟨hs1, ?_, rfl⟩
  apply AG.ext
  · exact Graph.len_set _ _ _
  · funext k
    show ((g.set n _).get k).mixins = upd g.mx n _ k
    rw [Graph.get_set]
    by_cases hk : k = n
    · subst hk; rw [if_pos ⟨rfl, hn⟩, upd_same]; rfl
    · rw [if_neg (fun hh => hk hh.1), upd_ne _ _ _ _ hk]; rfl
  · exact Graph.proj_set Node.own g n _ rfl

/-- `create` (without linkback) on a simple graph -/
theorem Simple.create {g : Graph} (hs : Simple g) (ms : List Nat) (hms : ∀ m ∈ ms, m < g.len) :
    Simple (g.create ms false) ∧ (g.create ms false).abs = g.abs.step (.create ms false) := by
  have hget := Graph.get_append g { linkback := false }
  generalize hg0 : Graph.mk (g.nodes ++ [{ linkback := false }]) = g0 at hget
  have hlen0 : g0.len = g.len + 1 := by subst hg0; simp [Graph.len]
  have hs0 : Simple g0 := by
    intro k; rw [hget k]; split
    · exact ⟨rfl, rfl, rfl, rfl⟩
    · exact hs k
  have hcreate : g.create ms false = (g0.addMixins g.nodes.length ms).1 := by subst hg0; rfl
  rw [hcreate]
  obtain ⟨h1, h2, _⟩ := hs0.addMixins g.nodes.length ms (by rw [hlen0]; exact Nat.lt_succ_self _)
    (fun m hm => Nat.ne_of_lt (hms m hm))
  refine ⟨h1, ?_⟩
  rw [h2]
  have hdef : g.get g.nodes.length = default := Graph.get_of_ge g _ (Nat.le_refl _)
  apply AG.ext
  · exact hlen0
  · funext k
    show upd g0.mx g.nodes.length (g0.mx g.nodes.length ++ ms) k = upd g.mx g.len ms k
    have h0 : g0.mx g.nodes.length = [] := by
      show (g0.get g.nodes.length).mixins = []
      rw [hget, if_pos rfl]
    rw [h0]
    by_cases hk : k = g.nodes.length
    · subst hk; rw [upd_same]; show _ = upd g.mx g.nodes.length ms g.nodes.length; rw [upd_same]; rfl
    · rw [upd_ne _ _ _ _ hk, upd_ne _ _ _ _ (by exact hk)]
      show (g0.get k).mixins = (g.get k).mixins
      rw [hget, if_neg hk]
  · funext k
    show (g0.get k).own = (g.get k).own
    rw [hget]; split
    · next hk => rw [hk, hdef]; rfl
    · rfl

/-! ## sequences of operations -/

def AG.run (a : AG) (ops : List GOp) : AG := ops.foldl AG.step a

def AG.oks : AG → List GOp → Prop
  | _, [] => True
  | a, op :: rest => a.ok op ∧ AG.oks (a.step op) rest

theorem AG.run_append (a : AG) (l1 l2 : List GOp) : a.run (l1 ++ l2) = (a.run l1).run l2 := by
  simp [AG.run, List.foldl_append]

theorem AG.oks_append (l1 l2 : List GOp) : ∀ (a : AG), a.oks (l1 ++ l2) ↔ a.oks l1 ∧ (a.run l1).oks l2 := by
  induction l1 with
  | nil => intro a; simp [AG.oks, AG.run]
  | cons op l1 ih =>
    intro a
    simp only [List.cons_append, AG.oks, ih, AG.run, List.foldl_cons, and_assoc]

/-- mixin lists only mention existing nodes; nodes that do not exist yet have no definitions -/
def AG.closed (a : AG) : Prop := (∀ k, ∀ m ∈ a.mx k, m < a.len) ∧ ∀ k, a.len ≤ k → a.ow k = []

theorem AG.closed_step {a : AG} (hc : a.closed) (op : GOp) (hok : a.ok op) : (a.step op).closed := by
  cases op with
  | create ms lb =>
    refine ⟨?_, fun k hk => hc.2 k (Nat.le_of_succ_le hk)⟩
    intro k m hm
    show m < a.len + 1
    have hm' : m ∈ upd a.mx a.len ms k := hm
    unfold upd at hm'
    split at hm'
    · exact Nat.lt_succ_of_lt (hok.2 m hm')
    · exact Nat.lt_succ_of_lt (hc.1 k m hm')
  | addMixins n ms =>
    refine ⟨?_, hc.2⟩
    intro k m hm
    show m < a.len
    have hm' : m ∈ upd a.mx n (a.mx n ++ ms) k := hm
    unfold upd at hm'
    split at hm'
    · rcases List.mem_append.mp hm' with h | h
      · exact hc.1 n m h
      · exact (hok.2 m h).1
    · exact hc.1 k m hm'
  | register n d =>
    refine ⟨hc.1, fun k hk => ?_⟩
    show upd a.ow n _ k = []
    have hn : n < a.len := hok
    have hk' : a.len ≤ k := hk
    rw [upd_ne _ _ _ _ (by omega)]
    exact hc.2 k hk
  | unregister n id => exact hc
  | call n c => exact hc

theorem AG.closed_run (ops : List GOp) : ∀ (a : AG), a.closed → a.oks ops → (a.run ops).closed := by
  induction ops with
  | nil => intro a h _; exact h
  | cons op rest ih => intro a h hok; exact ih _ (AG.closed_step h op hok.1) hok.2

theorem AG.closed_empty : AG.closed {} := ⟨fun _ _ hm => (nomatch hm), fun _ _ => rfl⟩

theorem Simple.step (cfg : Cfg) {g : Graph} (hs : Simple g) (op : GOp) (hok : g.abs.ok op) :
    Simple (g.step cfg op).1 ∧ (g.step cfg op).1.abs = g.abs.step op ∧ g.opOK op = true ∧
      (g.step cfg op).2 = none := by
  cases op with
  | create ms lb =>
    obtain ⟨rfl, hms⟩ := hok
    obtain ⟨h1, h2⟩ := hs.create ms hms
    refine ⟨h1, h2, ?_, rfl⟩
    simp only [Graph.opOK, List.all_eq_true, decide_eq_true_eq]
    exact hms
  | addMixins n ms =>
    obtain ⟨hn, hms⟩ := hok
    obtain ⟨h1, h2, h3⟩ := hs.addMixins n ms hn (fun m hm => (hms m hm).2.1)
    refine ⟨h1, h2, ?_, h3⟩
    simp only [Graph.opOK, Bool.and_eq_true, List.all_eq_true, decide_eq_true_eq, bne_iff_ne, ne_eq,
      Bool.not_eq_true']
    refine ⟨hn, fun m hm => ⟨⟨(hms m hm).1, (hms m hm).2.1⟩, ?_⟩⟩
    cases hanc : g.isAnc n m
    · rfl
    · exfalso
      unfold Graph.isAnc at hanc
      rw [Graph.derives_eq] at hanc
      exact (hms m hm).2.2 (ancB_sound _ _ _ _ hanc)
  | register n d =>
    obtain ⟨h1, h2, h3⟩ := hs.register n d hok
    refine ⟨h1, h2, ?_, h3⟩
    simp only [Graph.opOK, decide_eq_true_eq]
    exact hok
  | unregister n id => exact hok.elim
  | call n c => exact hok.elim

theorem Simple.runOps (cfg : Cfg) (ops : List GOp) : ∀ (g : Graph), Simple g → g.abs.oks ops →
    Simple (Graph.runOps cfg g ops) ∧ (Graph.runOps cfg g ops).abs = g.abs.run ops ∧
      Graph.opsOK cfg g ops = true := by
  induction ops with
  | nil => intro g hs _; exact ⟨hs, rfl, rfl⟩
  | cons op rest ih =>
    intro g hs hok
    obtain ⟨h1, h2, h3, h4⟩ := hs.step cfg op hok.1
    obtain ⟨i1, i2, i3⟩ := ih (g.step cfg op).1 h1 (by rw [h2]; exact hok.2)
    refine ⟨i1, ?_, ?_⟩
    · show (Graph.runOps cfg (g.step cfg op).1 rest).abs = _
      rw [i2, h2]; rfl
    · simp only [Graph.opsOK, Bool.and_eq_true]
      refine ⟨⟨h3, ?_⟩, i3⟩
      rw [h4]; rfl

/-! ## `defns` at the model's fuel, on graphs satisfying the invariant of C16 -/

def DD (g : Graph) (n : Nat) : List (Def × Int) := g.defns g.depth n

theorem foldl_overlay_map {α : Type} (F : α → List (Def × Int)) (xs : List α) (init : List (Def × Int)) :
    xs.foldl (fun acc m => overlay acc (F m)) init = (xs.map F).foldl overlay init := by
  rw [List.foldl_map]

theorem DD_unfold {g : Graph} (hi : Inv g) (n : Nat) :
    DD g n = overlay (ClassBody.overlayAll ((g.mx n).map (DD g))) (g.ow n) := by
  obtain ⟨ord, ht⟩ := hi.topo
  have hr := ht.ranked
  unfold DD ClassBody.overlayAll
  rw [Graph.depth_eq, Graph.defns_succ, ← foldl_overlay_map]
  congr 1
  refine foldl_congr_mem _ _ _ (fun acc m hm => ?_) _
  have hm' := (hr.2 n m hm).2.1
  have : List.idxOf m ord < g.len := hr.1 m hm'
  rw [Graph.defns_fuel g hr g.len (g.len + 1) m this (by omega)]

theorem DD_old {g g' : Graph} (hi : Inv g) (hc : ∀ k, ∀ m ∈ g.mx k, m < g.len)
    (hsame : ∀ k, k < g.len → g'.mx k = g.mx k ∧ g'.ow k = g.ow k) (hle : g.len ≤ g'.len) (m : Nat)
    (hm : m < g.len) : DD g' m = DD g m := by
  obtain ⟨ord, ht⟩ := hi.topo
  have hr := ht.ranked
  unfold DD
  rw [Graph.defns_local g g' _ m]
  · have : List.idxOf m ord < g.len := hr.1 m hm
    rw [Graph.depth_eq, Graph.depth_eq]
    exact Graph.defns_fuel g hr _ _ m (by omega) (by omega)
  · intro x hx
    have hx' : x < g.len := by
      rcases hx with rfl | hx
      · exact hm
      · obtain ⟨b, hb, _⟩ := hx.top_cases
        exact hc b x hb
    exact ⟨(hsame x hx').2, (hsame x hx').1⟩

/-- pointwise relation between two lists -/
inductive All2 {α β : Type} (R : α → β → Prop) : List α → List β → Prop
  | nil : All2 R [] []
  | cons {x : α} {y : β} {xs : List α} {ys : List β} : R x y → All2 R xs ys → All2 R (x :: xs) (y :: ys)

theorem All2.imp {α β : Type} {R S : α → β → Prop} (h : ∀ x y, R x y → S x y) {xs : List α} {ys : List β}
    (hr : All2 R xs ys) : All2 S xs ys := by
  induction hr with
  | nil => exact All2.nil
  | cons h1 _ ih => exact All2.cons (h _ _ h1) ih

theorem All2.append {α β : Type} {R : α → β → Prop} {xs xs' : List α} {ys ys' : List β}
    (h1 : All2 R xs ys) (h2 : All2 R xs' ys') : All2 R (xs ++ xs') (ys ++ ys') := by
  induction h1 with
  | nil => exact h2
  | cons h _ ih => exact All2.cons h ih

theorem All2.getD {α β : Type} {R : α → β → Prop} {xs : List α} {ys : List β} (h : All2 R xs ys)
    {dx : α} {dy : β} (hd : R dx dy) (i : Nat) : R (xs[i]?.getD dx) (ys[i]?.getD dy) := by
  induction h generalizing i with
  | nil => simpa using hd
  | cons h1 _ ih =>
    cases i with
    | zero => simpa using h1
    | succ i => simpa using ih i

theorem All2.get {α β : Type} {R : α → β → Prop} {xs : List α} {ys : List β} (h : All2 R xs ys)
    (i : Nat) (x : α) (hx : xs[i]? = some x) : ∃ y, ys[i]? = some y ∧ R x y := by
  induction h generalizing i with
  | nil => simp at hx
  | cons h1 _ ih =>
    cases i with
    | zero => simp at hx; subst hx; exact ⟨_, by simp, h1⟩
    | succ i => simp at hx; simpa using ih i hx

theorem All2.right {α β : Type} {R : α → β → Prop} {xs : List α} {ys : List β} (h : All2 R xs ys) :
    ∀ y ∈ ys, ∃ x, x ∈ xs ∧ R x y := by
  induction h with
  | nil => intro y hy; cases hy
  | cons h1 _ ih =>
    intro y hy
    rcases List.mem_cons.mp hy with rfl | hy
    · exact ⟨_, by simp, h1⟩
    · obtain ⟨x, hx, hr⟩ := ih y hy
      exact ⟨x, by simp [hx], hr⟩

theorem All2.length_eq {α β : Type} {R : α → β → Prop} {xs : List α} {ys : List β} (h : All2 R xs ys) :
    xs.length = ys.length := by
  induction h with
  | nil => rfl
  | cons _ _ ih => simp [ih]

namespace ClassBody

/-! ## the translation state and its abstract graph -/

/-- `st` performed well-formed operations only, and `a` is the abstract graph they produce -/
structure Snap (st : TState) (a : AG) : Prop where
  oks : AG.oks {} st.ops
  run : AG.run {} st.ops = a
  len : a.len = st.nn

theorem Snap.closed {st : TState} {a : AG} (h : Snap st a) : a.closed := by
  rw [← h.run]; exact AG.closed_run _ _ AG.closed_empty h.oks

theorem Snap.empty : Snap {} {} := ⟨trivial, rfl, rfl⟩

theorem Snap.congr {st st' : TState} {a : AG} (h : Snap st a) (ho : st'.ops = st.ops) (hn : st'.nn = st.nn) :
    Snap st' a := ⟨by rw [ho]; exact h.oks, by rw [ho]; exact h.run, by rw [hn]; exact h.len⟩

theorem Snap.emit {st : TState} {a : AG} (h : Snap st a) (op : GOp) (hok : a.ok op)
    (hlen : (a.step op).len = a.len) : Snap (st.emit op) (a.step op) := by
  refine ⟨?_, ?_, ?_⟩
  · show AG.oks {} (st.ops ++ [op])
    rw [AG.oks_append, h.run]
    exact ⟨h.oks, hok, trivial⟩
  · show AG.run {} (st.ops ++ [op]) = _
    rw [AG.run_append, h.run]; rfl
  · rw [hlen]; exact h.len

theorem Snap.register {st : TState} {a : AG} (h : Snap st a) (n : Nat) (d : Def) (hn : n < a.len) :
    Snap (st.emit (.register n d)) (a.step (.register n d)) := h.emit _ hn rfl

theorem Snap.addMixins {st : TState} {a : AG} (h : Snap st a) (n : Nat) (ms : List Nat)
    (hok : a.ok (.addMixins n ms)) : Snap (st.emit (.addMixins n ms)) (a.step (.addMixins n ms)) :=
  h.emit _ hok rfl

theorem Snap.create {st : TState} {a : AG} (h : Snap st a) (ms : List Nat) (hms : ∀ m ∈ ms, m < a.len) :
    Snap (st.create ms).1 (a.step (.create ms false)) := by
  refine ⟨?_, ?_, ?_⟩
  · show AG.oks {} (st.ops ++ [.create ms false])
    rw [AG.oks_append, h.run]
    exact ⟨h.oks, ⟨rfl, hms⟩, trivial⟩
  · show AG.run {} (st.ops ++ [.create ms false]) = _
    rw [AG.run_append, h.run]; rfl
  · show a.len + 1 = st.nn + 1
    rw [h.len]

@[simp] theorem create_snd (st : TState) (ms : List Nat) : (st.create ms).2 = st.nn := rfl
@[simp] theorem create_attr (st : TState) (ms : List Nat) : (st.create ms).1.attr = st.attr := rfl
@[simp] theorem create_hasF (st : TState) (ms : List Nat) : (st.create ms).1.hasF = st.hasF := rfl
@[simp] theorem create_nn (st : TState) (ms : List Nat) : (st.create ms).1.nn = st.nn + 1 := rfl
@[simp] theorem emit_attr (st : TState) (op : GOp) : (st.emit op).attr = st.attr := rfl
@[simp] theorem emit_hasF (st : TState) (op : GOp) : (st.emit op).hasF = st.hasF := rfl
@[simp] theorem emit_nn (st : TState) (op : GOp) : (st.emit op).nn = st.nn := rfl

/-- `regs` on the abstract graph -/
def _root_.Ovld.AG.regs (a : AG) (n : Nat) (ds : List Def) : AG := { a with ow := upd a.ow n (ClassBody.regs ds (a.ow n)) }

theorem regAll_fields (n : Nat) (ds : List Def) : ∀ (st : TState),
    (regAll st n ds).attr = st.attr ∧ (regAll st n ds).hasF = st.hasF ∧ (regAll st n ds).nn = st.nn := by
  induction ds with
  | nil => intro st; exact ⟨rfl, rfl, rfl⟩
  | cons d ds ih => intro st; exact ih (st.emit (.register n d))

theorem Snap.regAll (n : Nat) (ds : List Def) : ∀ {st : TState} {a : AG}, Snap st a → n < a.len →
    Snap (regAll st n ds) (a.regs n ds) := by
  induction ds with
  | nil =>
    intro st a h _
    have : a.regs n [] = a := by
      unfold AG.regs regs
      simp only [List.foldl_nil, upd_self]
    rw [this]; exact h
  | cons d ds ih =>
    intro st a h hn
    have h1 := ih (h.register n d hn) hn
    have : (a.step (.register n d)).regs n ds = a.regs n (d :: ds) := by
      unfold AG.regs AG.step regs
      simp only [upd_same, upd_upd, List.foldl_cons]
    rw [← this]; exact h1

theorem regs_append (ds1 ds2 : List Def) (o : List (Def × Int)) : regs (ds1 ++ ds2) o = regs ds2 (regs ds1 o) := by
  simp [regs, List.foldl_append]

end ClassBody

namespace ClassBody

/-! ## `asNode` / `mixAll` -/

theorem not_anc_of_nodesc {mx : Nat → List Nat} {n m : Nat} (h : ∀ k, n ∉ mx k) : ¬ Anc mx n m := by
  intro ha
  obtain ⟨b, hb, _⟩ := ha.top_cases
  exact h b hb

/-- a function holding exactly the definition `d` (a plain function turned into an overloaded one) -/
def LeafAt (a : AG) (m : Nat) (d : Def) : Prop := a.mx m = [] ∧ a.ow m = regs [d] []

/-- what `asNode` returns for an attribute -/
def MixRel (a' : AG) (lo : Nat) : Attr → Nat → Prop
  | .node m' _, m => m = m'
  | .plain d, m => lo ≤ m ∧ m < a'.len ∧ LeafAt a' m d
  | .none, _ => False

theorem MixRel.mono {a' : AG} {lo lo' : Nat} (h : lo' ≤ lo) {x : Attr} {m : Nat} (hr : MixRel a' lo x m) :
    MixRel a' lo' x m := by
  cases x with
  | none => exact hr
  | plain d => exact ⟨Nat.le_trans h hr.1, hr.2⟩
  | node m' fl => exact hr

/-- admissible arguments of `asNode`: existing functions other than `n`, or plain functions -/
def ArgOK (len n : Nat) : Attr → Prop
  | .node m _ => m < len ∧ m ≠ n
  | .plain _ => True
  | .none => False

theorem ArgOK.mono {len len' n : Nat} (h : len ≤ len') {x : Attr} (hx : ArgOK len n x) : ArgOK len' n x := by
  cases x with
  | none => exact hx
  | plain d => trivial
  | node m fl => exact ⟨Nat.lt_of_lt_of_le hx.1 h, hx.2⟩

theorem regs_single (d : Def) : regs [d] [] = setDefn 1 [] d 0 := rfl

theorem mixAll_spec (n : Nat) : ∀ (attrs : List Attr) (st : TState) (a : AG), Snap st a → n < a.len →
    (∀ k, n ∉ a.mx k) → (∀ x ∈ attrs, ArgOK a.len n x) →
    ∃ a' ms, Snap (mixAll st n attrs) a' ∧ a.len ≤ a'.len ∧
      (∀ k, k < a.len → k ≠ n → a'.mx k = a.mx k ∧ a'.ow k = a.ow k) ∧
      a'.ow n = a.ow n ∧ a'.mx n = a.mx n ++ ms ∧ (∀ k, n ∉ a'.mx k) ∧
      All2 (MixRel a' a.len) attrs ms ∧
      (mixAll st n attrs).attr = st.attr ∧ (mixAll st n attrs).hasF = st.hasF := by
  intro attrs
  induction attrs with
  | nil =>
    intro st a h _ hnd _
    exact ⟨a, [], h, Nat.le_refl _, fun _ _ _ => ⟨rfl, rfl⟩, rfl, by simp, hnd, All2.nil, rfl, rfl⟩
  | cons x rest ih =>
    intro st a h hn hnd hargs
    have hx := hargs x (by simp)
    cases x with
    | none => exact hx.elim
    | node m' fl =>
      obtain ⟨hm', hne⟩ := hx
      have hok : a.ok (.addMixins n [m']) := by
        refine ⟨hn, fun m hm => ?_⟩
        rw [List.mem_singleton] at hm; subst hm
        exact ⟨hm', hne, not_anc_of_nodesc hnd⟩
      have h2 := h.addMixins n [m'] hok
      have hnd2 : ∀ k, n ∉ (a.step (.addMixins n [m'])).mx k := by
        intro k hk
        have hk' : n ∈ upd a.mx n (a.mx n ++ [m']) k := hk
        unfold upd at hk'
        split at hk'
        · rcases List.mem_append.mp hk' with h1 | h1
          · exact hnd n h1
          · rw [List.mem_singleton] at h1; exact hne h1.symm
        · exact hnd k hk'
      obtain ⟨a', ms, s1, s2, s3, s4, s5, s6, s7, s8, s9⟩ := ih (st.emit (.addMixins n [m'])) _ h2 hn hnd2
        (fun y hy => hargs y (by simp [hy]))
      refine ⟨a', m' :: ms, s1, s2, ?_, s4, ?_, s6, All2.cons rfl s7, s8, s9⟩
      · intro k hk hkn
        obtain ⟨t1, t2⟩ := s3 k hk hkn
        refine ⟨t1.trans ?_, t2⟩
        exact upd_ne _ _ _ _ hkn
      · rw [s5]
        show upd a.mx n (a.mx n ++ [m']) n ++ ms = _
        rw [upd_same]; simp
    | plain d =>
      have hlen := h.len
      have h1 := (h.create [] (fun m hm => nomatch hm)).register a.len d (Nat.lt_succ_self _)
      have hnd1 : ∀ k, n ∉ ((a.step (.create [] false)).step (.register a.len d)).mx k := by
        intro k hk
        have hk' : n ∈ upd a.mx a.len [] k := hk
        unfold upd at hk'
        split at hk'
        · cases hk'
        · exact hnd k hk'
      have hmxl : ((a.step (.create [] false)).step (.register a.len d)).mx a.len = [] := upd_same _ _ _
      have hok : ((a.step (.create [] false)).step (.register a.len d)).ok (.addMixins n [a.len]) := by
        refine ⟨Nat.lt_succ_of_lt hn, fun m hm => ?_⟩
        rw [List.mem_singleton] at hm; subst hm
        exact ⟨Nat.lt_succ_self _, by omega, not_anc_of_nodesc hnd1⟩
      have h2 := h1.addMixins n [a.len] hok
      have hnd2 : ∀ k, n ∉ (((a.step (.create [] false)).step (.register a.len d)).step (.addMixins n [a.len])).mx k := by
        intro k hk
        have hk' : n ∈ upd (upd a.mx a.len []) n (upd a.mx a.len [] n ++ [a.len]) k := hk
        unfold upd at hk'
        split at hk'
        · rw [if_neg (by omega)] at hk'
          rcases List.mem_append.mp hk' with h1 | h1
          · exact hnd n h1
          · rw [List.mem_singleton] at h1; omega
        · split at hk'
          · cases hk'
          · exact hnd k hk'
      have hst : mixAll st n (.plain d :: rest) =
          mixAll (((st.create []).1.emit (.register a.len d)).emit (.addMixins n [a.len])) n rest := by
        rw [hlen]; rfl
      rw [hst]
      obtain ⟨a', ms, s1, s2, s3, s4, s5, s6, s7, s8, s9⟩ := ih _ _ h2 (Nat.lt_succ_of_lt hn) hnd2
        (fun y hy => (hargs y (by simp [hy])).mono (Nat.le_succ _))
      have hl2 : (((a.step (.create [] false)).step (.register a.len d)).step (.addMixins n [a.len])).len = a.len + 1 := rfl
      rw [hl2] at s2 s3 s7
      have hne : a.len ≠ n := by omega
      refine ⟨a', a.len :: ms, s1, by omega, ?_, ?_, ?_, s6, All2.cons ⟨Nat.le_refl _, by omega, ?_, ?_⟩
        (s7.imp (fun _ _ hr => MixRel.mono (Nat.le_succ _) hr)), s8, s9⟩
      · intro k hk hkn
        obtain ⟨t1, t2⟩ := s3 k (by omega) hkn
        refine ⟨t1.trans ?_, t2.trans ?_⟩
        · show upd (upd a.mx a.len []) n _ k = _
          rw [upd_ne _ _ _ _ hkn, upd_ne _ _ _ _ (by omega)]
        · show upd a.ow a.len _ k = _
          rw [upd_ne _ _ _ _ (by omega)]
      · rw [s4]
        show upd a.ow a.len _ n = _
        rw [upd_ne _ _ _ _ (by omega)]
      · rw [s5]
        show upd (upd a.mx a.len []) n (upd a.mx a.len [] n ++ [a.len]) n ++ ms = _
        rw [upd_same, upd_ne _ _ _ _ (by omega)]; simp
      · rw [(s3 a.len (by omega) hne).1]
        show upd (upd a.mx a.len []) n _ a.len = _
        rw [upd_ne _ _ _ _ hne, upd_same]
      · rw [(s3 a.len (by omega) hne).2]
        show upd a.ow a.len (setDefn ((a.ow a.len).length + 1) (a.ow a.len) d 0) a.len = _
        rw [upd_same, h.closed.2 a.len (Nat.le_refl _)]; rfl

end ClassBody

namespace ClassBody

theorem asNode_spec (st : TState) (a : AG) (x : Attr) (h : Snap st a) (hx : ArgOK a.len a.len x) :
    ∃ a', Snap (st.asNode x).1 a' ∧ a.len ≤ a'.len ∧
      (∀ k, k < a.len → a'.mx k = a.mx k ∧ a'.ow k = a.ow k) ∧
      MixRel a' a.len x (st.asNode x).2 ∧ (st.asNode x).2 < a'.len ∧
      (st.asNode x).1.attr = st.attr ∧ (st.asNode x).1.hasF = st.hasF := by
  cases x with
  | none => exact hx.elim
  | node m fl => exact ⟨a, h, Nat.le_refl _, fun _ _ => ⟨rfl, rfl⟩, rfl, hx.1, rfl, rfl⟩
  | plain d =>
    have hlen := h.len
    have h1 := (h.create [] (fun m hm => nomatch hm)).register a.len d (Nat.lt_succ_self _)
    have hst : st.asNode (.plain d) = ((st.create []).1.emit (.register a.len d), a.len) := by
      rw [hlen]; rfl
    rw [hst]
    refine ⟨_, h1, Nat.le_succ _, fun k hk => ⟨?_, ?_⟩, ⟨Nat.le_refl _, Nat.lt_succ_self _, ?_, ?_⟩,
      Nat.lt_succ_self _, rfl, rfl⟩
    · show upd a.mx a.len [] k = _
      rw [upd_ne _ _ _ _ (by omega)]
    · show upd a.ow a.len _ k = _
      rw [upd_ne _ _ _ _ (by omega)]
    · show upd a.mx a.len [] a.len = _
      rw [upd_same]
    · show upd a.ow a.len (setDefn ((a.ow a.len).length + 1) (a.ow a.len) d 0) a.len = _
      rw [upd_same, h.closed.2 a.len (Nat.le_refl _)]; rfl

/-! ## attributes and effective method sets -/

/-- what a class holds (model) against the documented effective method set (specification) -/
def RelAE (nn : Nat) (D : Nat → List (Def × Int)) : Attr → Eff → Prop
  | .none, e => e.kind = .none
  | .plain d, e => e.kind = .plain ∧ e.fn = some d ∧ e.defns = nodeDefns [] [d]
  | .node n fl, e => e.kind = .ovld ∧ e.flagged = fl ∧ n < nn ∧ D n = e.defns

theorem RelAE.mono {nn nn' : Nat} {D D' : Nat → List (Def × Int)} (hle : nn ≤ nn')
    (hD : ∀ m, m < nn → D' m = D m) {x : Attr} {e : Eff} (h : RelAE nn D x e) : RelAE nn' D' x e := by
  cases x with
  | none => exact h
  | plain d => exact h
  | node n fl => exact ⟨h.1, h.2.1, Nat.lt_of_lt_of_le h.2.2.1 hle, (hD n h.2.2.1).trans h.2.2.2⟩

def nd : Attr → Nat × Bool
  | .node n f => (n, f)
  | _ => (0, false)

def plainOf : Attr → Option Def
  | .plain d => some d
  | _ => none

theorem filterMap_congr_mem {α β : Type} (f g : α → Option β) (l : List α) (h : ∀ x ∈ l, f x = g x) :
    l.filterMap f = l.filterMap g := by
  induction l with
  | nil => rfl
  | cons x l ih =>
    rw [List.filterMap_cons, List.filterMap_cons, h x (by simp), ih (fun y hy => h y (by simp [hy]))]

theorem filterMap_ite {α β : Type} (c : α → Bool) (f : α → β) (l : List α) :
    l.filterMap (fun x => if c x then some (f x) else none) = (l.filter c).map f := by
  induction l with
  | nil => rfl
  | cons x l ih =>
    by_cases hc : c x = true
    · simp [hc, ih]
    · simp [hc, ih]

theorem RelAE.nodeOf {nn : Nat} {D : Nat → List (Def × Int)} {x : Attr} {e : Eff} (h : RelAE nn D x e) :
    nodeOf x = if e.kind == .ovld then some (nd x) else none := by
  cases x with
  | none => have : e.kind = .none := h; simp [ClassBody.nodeOf, this]
  | plain d => have : e.kind = .plain := h.1; simp [ClassBody.nodeOf, this]
  | node n fl => have : e.kind = .ovld := h.1; simp [ClassBody.nodeOf, this, nd]

theorem RelAE.isSome {nn : Nat} {D : Nat → List (Def × Int)} {x : Attr} {e : Eff} (h : RelAE nn D x e) :
    x.isSome = (e.kind != .none) := by
  cases x with
  | none => have : e.kind = .none := h; simp [Attr.isSome, this]
  | plain d => have : e.kind = .plain := h.1; simp [Attr.isSome, this]
  | node n fl => have : e.kind = .ovld := h.1; simp [Attr.isSome, this]

theorem RelAE.plainOf {nn : Nat} {D : Nat → List (Def × Int)} {x : Attr} {e : Eff} (h : RelAE nn D x e) :
    plainOf x = if e.kind == .plain then e.fn else none := by
  cases x with
  | none => have : e.kind = .none := h; simp [ClassBody.plainOf, this]
  | plain d => have : e.kind = .plain := h.1; simp [ClassBody.plainOf, this, h.2.1]
  | node n fl => have : e.kind = .ovld := h.1; simp [ClassBody.plainOf, this]

section pairs
variable {nn : Nat} {D : Nat → List (Def × Int)} (P : List (Attr × Eff)) (hp : ∀ p ∈ P, RelAE nn D p.1 p.2)
include hp

theorem pairs_ovlds : (P.map (·.1)).filterMap nodeOf =
    (P.filter (fun p => p.2.kind == .ovld)).map (fun p => nd p.1) := by
  rw [List.filterMap_map, ← filterMap_ite]
  apply filterMap_congr_mem
  intro p hpm
  exact (hp p hpm).nodeOf

theorem pairs_some : (P.map (·.1)).filter Attr.isSome = (P.filter (fun p => p.2.kind != .none)).map (·.1) := by
  rw [List.filter_map]
  congr 1
  apply List.filter_congr
  intro p hpm
  exact (hp p hpm).isSome

theorem pairs_plain : (P.map (·.1)).filterMap plainOf =
    (P.map (·.2)).filterMap (fun e => if e.kind == .plain then e.fn else none) := by
  rw [List.filterMap_map, List.filterMap_map]
  apply filterMap_congr_mem
  intro p hpm
  exact (hp p hpm).plainOf

end pairs

theorem pairs_ov (P : List (Attr × Eff)) : (P.map (·.2)).filter (fun e => e.kind == .ovld) =
    (P.filter (fun p => p.2.kind == .ovld)).map (·.2) := by
  rw [List.filter_map]; rfl

theorem pairs_inh (P : List (Attr × Eff)) : (P.map (·.2)).filter (fun e => e.kind != .none) =
    (P.filter (fun p => p.2.kind != .none)).map (·.2) := by
  rw [List.filter_map]; rfl

/-! ## the `__prepare__` loop over the bases' values: every plain function becomes a fresh function of its own -/

/-- one value of the loop: the state and the functions created so far -/
def plainStep (acc : TState × List Nat) (v : Attr) : TState × List Nat :=
  match v with
  | .plain d => ((acc.1.create []).1.emit (.register acc.1.nn d), acc.2 ++ [acc.1.nn])
  | _ => acc

def plainMk (st : TState) (values : List Attr) : TState × List Nat := values.foldl plainStep (st, [])

/-- `m` is a function created at or after `lo` that holds exactly the definition `d` -/
def LeafRel (a' : AG) (lo : Nat) (d : Def) (m : Nat) : Prop := lo ≤ m ∧ m < a'.len ∧ LeafAt a' m d

theorem plainLoop_spec : ∀ (vs : List Attr) (st : TState) (a : AG) (acc : List Nat), Snap st a →
    ∃ a' ns, Snap (vs.foldl plainStep (st, acc)).1 a' ∧ (vs.foldl plainStep (st, acc)).2 = acc ++ ns ∧
      a.len ≤ a'.len ∧ (∀ k, k < a.len → a'.mx k = a.mx k ∧ a'.ow k = a.ow k) ∧
      All2 (LeafRel a' a.len) (vs.filterMap plainOf) ns ∧
      (vs.foldl plainStep (st, acc)).1.attr = st.attr ∧ (vs.foldl plainStep (st, acc)).1.hasF = st.hasF := by
  intro vs
  induction vs with
  | nil =>
    intro st a acc h
    exact ⟨a, [], h, by simp, Nat.le_refl _, fun _ _ => ⟨rfl, rfl⟩, All2.nil, rfl, rfl⟩
  | cons v vs ih =>
    intro st a acc h
    cases v with
    | none => exact ih st a acc h
    | node m fl => exact ih st a acc h
    | plain d =>
      have hlen := h.len
      have h1 := (h.create [] (fun m hm => nomatch hm)).register a.len d (Nat.lt_succ_self _)
      have hst : (Attr.plain d :: vs).foldl plainStep (st, acc) =
          vs.foldl plainStep ((st.create []).1.emit (.register a.len d), acc ++ [a.len]) := by
        rw [hlen]; rfl
      rw [hst]
      obtain ⟨a', ns, s1, s2, s3, s4, s5, s6, s7⟩ := ih _ _ (acc ++ [a.len]) h1
      have hl2 : ((a.step (.create [] false)).step (.register a.len d)).len = a.len + 1 := rfl
      rw [hl2] at s3 s4 s5
      refine ⟨a', a.len :: ns, s1, by rw [s2]; simp, by omega, fun k hk => ?_,
        All2.cons ⟨Nat.le_refl _, by omega, ?_, ?_⟩ (s5.imp (fun _ _ hr => ⟨by have := hr.1; omega, hr.2⟩)), s6, s7⟩
      · obtain ⟨t1, t2⟩ := s4 k (by omega)
        refine ⟨t1.trans ?_, t2.trans ?_⟩
        · show upd a.mx a.len [] k = _
          rw [upd_ne _ _ _ _ (by omega)]
        · show upd a.ow a.len _ k = _
          rw [upd_ne _ _ _ _ (by omega)]
      · rw [(s4 a.len (by omega)).1]
        show upd a.mx a.len [] a.len = _
        rw [upd_same]
      · rw [(s4 a.len (by omega)).2]
        show upd a.ow a.len (setDefn ((a.ow a.len).length + 1) (a.ow a.len) d 0) a.len = _
        rw [upd_same, h.closed.2 a.len (Nat.le_refl _)]; rfl

theorem plainMk_spec (st : TState) (a : AG) (values : List Attr) (h : Snap st a) :
    ∃ a', Snap (plainMk st values).1 a' ∧ a.len ≤ a'.len ∧
      (∀ k, k < a.len → a'.mx k = a.mx k ∧ a'.ow k = a.ow k) ∧
      All2 (LeafRel a' a.len) (values.filterMap plainOf) (plainMk st values).2 ∧
      (plainMk st values).1.attr = st.attr ∧ (plainMk st values).1.hasF = st.hasF := by
  obtain ⟨a', ns, s1, s2, s3, s4, s5, s6, s7⟩ := plainLoop_spec values st a [] h
  refine ⟨a', s1, s3, s4, ?_, s6, s7⟩
  show All2 _ _ (values.foldl plainStep (st, [])).2
  rw [s2]; exact s5

end ClassBody

end Ovld
