"""Graph stream: correspondence G + the C16 / C08 oracle (every node behaves like the overlay of its ancestors'
and its own current definitions; `recurse` re-enters the node that was called)."""
import json
import random

from common import run_driver, use_repo

use_repo()
from corr_g import GraphWorld, gen_graph_scenario, to_model  # noqa: E402


def worker(payload):
    seed, n, opts = payload
    rng = random.Random(seed)
    scs, impls, keep = [], [], []
    for _ in range(n):
        w, sc = gen_graph_scenario(rng, **opts)
        impls.append(GraphWorld(w, sc).run())
        scs.append(to_model(w, sc))
        keep.append((w, sc))
    res = run_driver(scs)
    # specification run, independent of the model's locking / propagation logic: keep exactly the operations the
    # real code accepted, let no lock refuse them, and ask for the overlay semantics of every call
    spec_scs, spec_idx = [], []
    for (w, sc), im, m in zip(keep, impls, scs):
        ops2, idx = [], []
        for j, (op, b) in enumerate(zip(sc["ops"], im)):
            if op[0] == "call" or b["o"] == ["ok"]:
                idx.append(j)
                ops2.append(op)
        spec_scs.append({**m, "ops": ops2, "ignoreLocks": True})
        spec_idx.append(idx)
    spec_res = run_driver(spec_scs)
    out = {"ops": 0, "corr": [], "hist": {}, "samples": [], "oracles": {}}

    def orc(name):
        return out["oracles"].setdefault(name, {"n": 0, "nontrivial": 0, "viol": [], "known": {}})

    def known(o, key, witness):
        e = o["known"].setdefault(key, {"count": 0, "witness": witness})
        e["count"] += 1

    for i, (r, im) in enumerate(zip(res, impls)):
        w, sc = keep[i]
        desc = {"world": w.desc, "scenario": sc}
        if "error" in r or "error" in spec_res[i]:
            out["corr"].append({"layer": "G", "kind": "driver-error", "detail": r.get("error") or spec_res[i].get("error"), "scenario": desc})
            continue
        exp_of = {}
        for pos, j in enumerate(spec_idx[i]):
            e = spec_res[i]["ops"][pos].get("exp")
            if e is not None:
                exp_of[j] = e
        corr_ok = True
        used = set()
        addmix_after_use = False
        warm20 = set()
        for j, (a, b) in enumerate(zip(r["ops"], im)):
            out["ops"] += 1
            op = sc["ops"][j]
            out["hist"]["op:" + op[0]] = out["hist"].get("op:" + op[0], 0) + 1
            ma = {k: v for k, v in a.items() if k in ("o", "t", "locked")}
            if ma.get("o", [None])[0] == "ambiguous":
                ma["o"] = ["ambiguous"]
            mb = {k: v for k, v in b.items() if k in ("o", "t", "locked")}
            if corr_ok and ma != mb:
                out["corr"].append({"layer": "G", "op_index": j, "op": op, "model": ma, "impl": mb, "scenario": desc})
                corr_ok = False  # keep evaluating the oracle, which does not depend on the model's state
            if op[0] == "addmix" and used:
                addmix_after_use = True
            if op[0] in ("reg", "unreg", "addmix"):
                warm20 = set()
            if op[0] != "call":
                continue
            # C20 across derived functions: a call that already succeeded on this function resolves nothing when it
            # is repeated while no method set has changed (calls of OTHER functions, e.g. the first call of a parent,
            # are not changes)
            k20 = json.dumps([op[1], op[2]])
            if "nres" in b:
                o20 = orc("C20")
                if k20 in warm20:
                    o20["n"] += 1
                    o20["nontrivial"] += 1
                    if b["nres"] > 0:
                        o20["viol"].append({"law": "a repeated successful call resolved again although no method set had changed", "nres": b["nres"], "kind": "graph", "world": w.desc, "scenario": {**sc, "ops": sc["ops"][: j + 1]}, "op_index": j})
                if b["o"] and b["o"][0] == "ran":
                    warm20.add(k20)
            e = exp_of.get(j, a.get("exp"))
            if e["o"] and e["o"][0] == "ambiguous":
                e["o"] = ["ambiguous"]
            o16 = orc("C16")
            o16["n"] += 1
            if op[1] in used and len(used) > 1:
                o16["nontrivial"] += 1
            bodies = {d["id"]: d["body"][0] for d in sc["defs"]}
            if any(bodies.get(t[0]) == "callNext" for t in mb["t"]):
                o7 = orc("C07")
                o7["n"] += 1
                if len(mb["t"]) > 1:
                    o7["nontrivial"] += 1
            if any(bodies.get(t[0]) == "recurse" for t in mb["t"]):
                o8 = orc("C08")
                o8["n"] += 1
                if len(mb["t"]) > 1:
                    o8["nontrivial"] += 1
            # C05 on derived functions: a function that was already in use answers like a brand-new function over
            # the method set that results from every change made since (to itself or to a linked ancestor)
            o5 = orc("C05")
            if op[1] in used:
                o5["n"] += 1
                o5["nontrivial"] += 1
            if {"o": e["o"], "t": e["t"]} != {"o": mb["o"], "t": mb["t"]}:
                wit = {"kind": "graph", "world": w.desc, "scenario": {**sc, "ops": sc["ops"][: j + 1]}, "op_index": j, "impl": {"o": mb["o"], "t": mb["t"]}, "expected": {"o": e["o"], "t": e["t"]}}
                if op[1] in used:
                    o5["viol"].append({"law": "a function already in use does not answer like a brand-new function over the method set resulting from the changes made since", **wit})
                o16["viol"].append({"law": "a function in use does not behave like the overlay of its ancestors' and its own current definitions", **wit})
                if any(bodies.get(t[0]) == "callNext" for t in e["t"] + mb["t"]):
                    orc("C07")["viol"].append({"law": "a call_next chain in a derived function differs from the chain of a fresh function over its current definitions", **wit})
                if any(bodies.get(t[0]) == "recurse" for t in e["t"] + mb["t"]):
                    orc("C08")["viol"].append({"law": "recurse did not re-enter the function that was called (behaviour differs from a fresh function over the overlay)", **wit})
            used.add(op[1])
        if len(out["samples"]) < 1 and im:
            out["samples"].append({"ops": sc["ops"][:6], "last": {k: v for k, v in im[-1].items() if k in ("o", "t")}})
    return out


# ---------------------------------------------------------------------------------------------------------------
# C08, behavioural: methods that recurse by NAMING a function (`N2(x)` instead of `recurse(x)`), in derivation
# graphs.  No model here: the oracle is the property itself, evaluated on the real code alone —
#   within a call dispatched through node n, after a method whose body delegates by `recurse(a)` (resp. by naming
#   node h) has been entered, everything that follows is exactly what calling node n (resp. node h) with `a` does.
# (Naming the function one is a method of is the same as `recurse` for that function; in a function that merely
# inherits the method, the name still means the named function.)


class SelfGraphWorld(GraphWorld):
    def _run(self, Ovld, call_next, recurse):
        from fnlevel import DepthExceeded, kind_of_exc

        sc = self.sc
        log, depth, fw = self.log, self.depth, self

        def ENTER(mid, pos, kw):
            log.append([mid, [fw.canon_val(mid, v) for v in pos]])

        def DOWN():
            if depth[0] + 1 >= 6:
                raise DepthExceeded()
            depth[0] += 1

        def UP():
            depth[0] -= 1

        glb = {"__name__": "verif_gmod", "ENTER": ENTER, "DOWN": DOWN, "UP": UP, "call_next": call_next, "recurse": recurse}
        for i, v in enumerate(self.vals):
            glb[f"C{i}"] = v
        self.glb = glb
        fns = {i: self.build_fn(d, glb) for i, d in enumerate(sc["defs"])}
        nodes = []
        out = []

        def direct(n, a):
            del log[:]
            depth[0] = 0
            try:
                r = nodes[n](self.vals[a])
                o = ["ran", r[1]] if isinstance(r, tuple) and r and r[0] == "ret" else ["returned", repr(r)[:80]]
            except Exception as e:  # noqa
                o = kind_of_exc(e)
            return o, [list(x) for x in log]

        for op in sc["ops"]:
            try:
                if op[0] == "create":
                    if op[1]:
                        nodes.append(nodes[op[1][0]].copy(mixins=[nodes[m] for m in op[1][1:]], linkback=op[2]))
                    else:
                        nodes.append(Ovld(mixins=[], linkback=op[2]))
                    glb[f"N{len(nodes) - 1}"] = nodes[-1]
                    out.append({"o": ["ok"]})
                elif op[0] == "addmix":
                    nodes[op[1]].add_mixins(*[nodes[m] for m in op[2]])
                    out.append({"o": ["ok"]})
                elif op[0] == "reg":
                    nodes[op[1]].register(fns[op[2]], priority=sc["defs"][op[2]]["prio"])
                    out.append({"o": ["ok"]})
                elif op[0] == "unreg":
                    nodes[op[1]].unregister(fns[op[2]])
                    out.append({"o": ["ok"]})
                else:
                    o, t = direct(op[1], op[2][0])
                    rec = {"o": o, "t": t, "checks": []}
                    if True:
                        cur = op[1]  # the function through which the call at this depth was dispatched
                        for i, e in enumerate(t):
                            body = sc["defs"][e[0]]["body"]
                            if body[0] not in ("recurse", "selfname"):
                                continue
                            via = cur
                            target = cur if body[0] == "recurse" else body[2]
                            cur = target
                            o2, t2 = direct(target, body[1][0][1])
                            rec["checks"].append({"at": i, "method": e[0], "how": body[0], "target": target, "via": via, "arg": body[1][0][1], "rest": t[i + 1:], "direct": t2, "o_direct": o2})
                    out.append(rec)
            except Exception as e:  # noqa
                out.append({"o": kind_of_exc(e), "msg": str(e)[:100]})
        return out


def gen_self_scenario(rng):
    w, sc = gen_graph_scenario(rng, nnodes=rng.randint(3, 6), recurse_bias=0.55)
    home = {}
    for op in sc["ops"]:
        if op[0] == "reg":
            home.setdefault(op[2], op[1])
    # the parent is put to use before the functions derived from it, and afterwards, in both orders
    for d in sc["defs"]:
        if d["body"][0] == "recurse" and d["id"] in home and rng.random() < 0.6:
            d["body"] = ["selfname", d["body"][1], home[d["id"]]]
    return w, sc


def worker_self(payload):
    seed, n, opts = payload
    rng = random.Random(seed)
    out = {"ops": 0, "corr": [], "hist": {}, "samples": [], "oracles": {}}
    o8 = out["oracles"].setdefault("C08", {"n": 0, "nontrivial": 0, "viol": [], "known": {}})

    def bump(k, v=1):
        out["hist"][k] = out["hist"].get(k, 0) + v

    for _ in range(n):
        w, sc = gen_self_scenario(rng)
        desc = {"world": w.desc, "scenario": sc}
        im = SelfGraphWorld(w, sc).run()
        for j, (op, b) in enumerate(zip(sc["ops"], im)):
            out["ops"] += 1
            if op[0] != "call":
                if b["o"] not in (["ok"], ["locked"], ["config"]):
                    o8["viol"].append({"law": "an operation on a graph of functions with self-naming methods failed", "kind": "graph_self", "op_index": j, "got": b, **desc})
                continue
            for c in b.get("checks", []):
                o8["n"] += 1
                inherited = c["how"] == "selfname" and c["target"] != c["via"]
                bump("delegation by " + ("naming the function, from a function that inherits the method" if inherited else "naming the function itself" if c["how"] == "selfname" else "recurse"))
                if len(c["direct"]) > 1 or inherited:
                    o8["nontrivial"] += 1
                outer_o = b["o"]
                if outer_o == ["depth"]:
                    # the nesting limit of the harness cut the outer call short: what it did see is how the direct call begins
                    bad = c["direct"][:len(c["rest"])] != c["rest"]
                else:
                    bad = c["rest"] != c["direct"] or (outer_o != c["o_direct"] and outer_o[0] in ("ran", "nomethod", "ambiguous"))
                if bad:
                    if len(o8["viol"]) < 8:
                        o8["viol"].append({"law": "after a method delegated by recurse / by naming a function, what followed is not what calling that function does", "kind": "graph_self", "op_index": j, "check": c, "outcome": outer_o, **desc})
    return out
