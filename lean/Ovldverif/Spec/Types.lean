import Ovldverif.Model.TypeOrder
import Ovldverif.Model.TyEq
/-!
# Specifications for the type layer (C12, C13)

* `Hier.WF`: what the theorems assume about CPython's `issubclass` on the classes of a scenario
  (checked on the live classes of every generated hierarchy by the correspondence harness).
* `mem H c T`: the *documented meaning* of a non-value-dependent annotation `T` for a value whose
  class is `c`.
-/
set_option autoImplicit false
namespace Ovld

structure Hier.WF (H : Hier) : Prop where
  refl : ∀ a, H.sub a a = true
  trans : ∀ a b c, H.sub a b = true → H.sub b c = true → H.sub a c = true
  top : ∀ a, H.sub a 0 = true

/-- needed only where two distinct classes that are subclasses of each other would make a difference
    (structurally identical protocols are the one way to build them) -/
def Hier.Antisym (H : Hier) : Prop := ∀ a b, H.sub a b = true → H.sub b a = true → a = b

mutual
/-- documented meaning of `T` for a value of class `c` (docs/types.md): member of some union arm, of all
    intersection arms, exactly the class, a proper subclass, has the method, satisfies the predicate -/
def mem (H : Hier) (c : Nat) : Ty → Bool
  | .cls d => H.sub c d
  | .gen _ _ => false
  | .union ts => memAny H c ts
  | .inter ts => memAll H c ts
  | .exactly _ d => c == d
  | .strict _ d => H.sub c d && c != d
  | .hasm _ m => H.hasAttr c m
  | .pred _ k => H.pred k c
  | .lit .. => false
  | .prod .. => false
  | .fdep .. => false
def memAny (H : Hier) (c : Nat) : List Ty → Bool
  | [] => false
  | t :: ts => mem H c t || memAny H c ts
def memAll (H : Hier) (c : Nat) : List Ty → Bool
  | [] => true
  | t :: ts => mem H c t && memAll H c ts
end

mutual
/-- no value-dependent type and no parametrised generic anywhere inside -/
def Ty.plain : Ty → Bool
  | .cls _ => true
  | .gen .. => false
  | .union ts => Ty.plainL ts
  | .inter ts => Ty.plainL ts
  | .exactly .. => true
  | .strict .. => true
  | .hasm .. => true
  | .pred .. => true
  | .lit .. => false
  | .prod .. => false
  | .fdep .. => false
def Ty.plainL : List Ty → Bool
  | [] => true
  | t :: ts => Ty.plain t && Ty.plainL ts
end

mutual
/-- membership is inherited by subclasses: classes, unions, intersections, StrictSubclass -/
def Ty.downClosed : Ty → Bool
  | .cls _ => true
  | .union ts => Ty.downClosedL ts
  | .inter ts => Ty.downClosedL ts
  | .strict .. => true
  | _ => false
def Ty.downClosedL : List Ty → Bool
  | [] => true
  | t :: ts => Ty.downClosed t && Ty.downClosedL ts
end

/-- `__type_order__` exists on the object and does not return `NotImplemented` against `other` -/
def Ty.effHook (self other : Ty) : Bool :=
  match self with
  | .union _ | .inter _ | .exactly .. | .lit .. | .fdep .. => true
  | .prod .. => (match other with | .prod .. => true | _ => false)
  | _ => false

/-! `symFrag`: the operand pairs on which `typeorder` is proved mirror-symmetric: never two *different
    designs* of effective `__type_order__` hook facing each other (Union / Intersection / Exactly against each
    other or against a value-dependent type), recursively through generic arguments, `tuple[...]` members and
    dependent bounds -/
mutual
def symFrag : Ty → Ty → Bool
  | .gen _ a1, .gen _ a2 => !a1.isEmpty && !a2.isEmpty && symFragL a1 a2
  | .prod ps b1, .prod qs b2 => !ps.isEmpty && !qs.isEmpty && symFragL ps qs && symFrag b1 b2
  | .lit _ b1, .lit _ b2 => symFrag b1 b2
  | .lit _ b1, .fdep _ _ b2 => symFrag b1 b2
  | .fdep _ _ b1, .lit _ b2 => symFrag b1 b2
  | .fdep _ _ b1, .fdep _ _ b2 => symFrag b1 b2
  | t1, t2 => !(t1.effHook t2 && t2.effHook t1)
def symFragL : List Ty → List Ty → Bool
  | a :: as, b :: bs => symFrag a b && symFragL as bs
  | _, _ => true
end

end Ovld
