import random, sys, collections, linecache
from ovld import Ovld, recurse
# random derivation graphs (copy / variant / mixins), recursive list-walking method placed at random nodes,
# leaf methods on int/str at random nodes; oracle: result of node(x) with recurse == python reference walking with node's own defns
TYPES = {"int": int, "str": str, "list": list, "tuple": tuple, "object": object}
cnt = [0]
def mkmethod(kind, tname, tag):
    cnt[0] += 1
    name = f"m{cnt[0]}"
    if kind == "rec":
        src = f"def {name}(x: T):\n    return ['{tag}'] + [recurse(a) for a in x]\n"
    else:
        src = f"def {name}(x: T):\n    return '{tag}'\n"
    fn = f"<c08_{cnt[0]}>"; linecache.cache[fn] = (len(src), None, src.splitlines(True), fn)
    g = {"T": TYPES[tname], "recurse": recurse}
    exec(compile(src, fn, "exec"), g)
    return g[name]
def ref_eval(defns, x):
    # defns: dict (tname) -> (kind, tag) for the node (effective); dispatch by most specific of the registered types (all are leaf builtins + object)
    t = type(x).__name__
    if t in defns: kind, tag = defns[t]
    elif "object" in defns: kind, tag = defns["object"]
    else: return "NOMETHOD"
    if kind == "rec":
        try:
            sub = [ref_eval(defns, a) for a in x]
        except TypeError: return "TYPEERR"
        if "NOMETHOD" in sub or any(isinstance(s, str) and s in ("NOMETHOD","TYPEERR") for s in sub): 
            for s in sub:
                if s in ("NOMETHOD", "TYPEERR"): return s
        return [tag] + sub
    return tag
bad = 0; tot = 0
for seed in range(int(sys.argv[1]), int(sys.argv[2])):
    rnd = random.Random(seed)
    nodes = []   # (ovld, effective defns dict, own)
    for i in range(rnd.randint(2, 6)):
        if not nodes or rnd.random() < 0.2:
            parents = []
        else:
            parents = rnd.sample(range(len(nodes)), rnd.choice([1, 1, 1, 2]) if len(nodes) > 1 else 1)
        ov = Ovld(name=f"n{seed}_{i}", mixins=[nodes[p][0] for p in parents])
        eff = {}
        for p in parents: eff.update(nodes[p][1])
        for _ in range(rnd.randint(1, 3)):
            tname = rnd.choice(list(TYPES)); kind = "rec" if tname in ("list", "tuple") and rnd.random() < 0.8 else "leaf"
            tag = f"n{i}:{tname}"
            try: ov.register(mkmethod(kind, tname, tag))
            except Exception as e: continue
            eff[tname] = (kind, tag)
        nodes.append((ov, eff))
    inputs = [1, "a", [1, "a"], (1, [2, ("b",)]), [[], ()], 2.5, [2.5]]
    order = list(range(len(nodes))); rnd.shuffle(order)
    for idx in order + order:
        ov, eff = nodes[idx]
        for x in inputs:
            tot += 1
            try: got = ov(x)
            except TypeError as e: got = "NOMETHOD" if "No method" in str(e) else ("TYPEERR" if "not iterable" in str(e) else "TE:" + str(e)[:50])
            except Exception as e: got = "EXC:" + type(e).__name__ + str(e)[:40]
            exp = ref_eval(eff, x)
            if got != exp:
                bad += 1
                if bad < 6: print("MISMATCH seed", seed, "node", idx, repr(x), "got", got, "exp", exp)
print("total", tot, "bad", bad)
