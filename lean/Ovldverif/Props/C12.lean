import Ovldverif.Spec.Types
import Ovldverif.Lemmas.Basic
/-!
# C12 — the specificity order on types is mirror-symmetric and matches subclassing

Theorems about `Ovld.typeorder` (the model of `mro.typeorder` with the hooks of `types.py` and
`dependent.py` inlined), for every hierarchy table and all types, no bound on nesting.
-/
set_option autoImplicit false
namespace Ovld
open TOrd

variable (H : Hier)

/-- every type is the same as itself -/
theorem C12_refl (t : Ty) : typeorder H t t = .same := by
  unfold typeorder
  rw [tord]; simp [Ty.beq_refl]

/-- on plain classes the order coincides with subclassing -/
theorem C12_cls (a b : Nat) :
    typeorder H (.cls a) (.cls b) = if a = b then .same else ofSub (H.sub a b) (H.sub b a) := by
  unfold typeorder
  by_cases h : a = b
  · subst h; rw [tord]; simp [Ty.beq]
  · rw [tord]; simp [Ty.beq, h, hook, tstruct, pyIssub, issubCls]

/-- hence it is transitive there -/
theorem C12_cls_trans (wf : H.WF) (anti : H.Antisym) (a b c : Nat)
    (h1 : typeorder H (.cls a) (.cls b) = .less) (h2 : typeorder H (.cls b) (.cls c) = .less) :
    typeorder H (.cls a) (.cls c) = .less := by
  rw [C12_cls] at *
  by_cases ab : a = b
  · simp [ab] at h1
  by_cases bc : b = c
  · simp [bc] at h2
  simp only [ab, bc, if_false] at h1 h2
  have sab : H.sub a b = true ∧ H.sub b a = false := by
    revert h1; unfold ofSub; cases H.sub a b <;> cases H.sub b a <;> simp
  have sbc : H.sub b c = true ∧ H.sub c b = false := by
    revert h2; unfold ofSub; cases H.sub b c <;> cases H.sub c b <;> simp
  have sac := wf.trans a b c sab.1 sbc.1
  have ac : a ≠ c := by
    intro e; subst e
    have := anti a b sab.1 sbc.1
    exact ab this
  have sca : H.sub c a = false := by
    cases e : H.sub c a
    · rfl
    · have := wf.trans c a b e sab.1
      rw [sbc.2] at this; cases this
  simp [ac, ofSub, sac, sca]

/-- mirror symmetry on plain classes -/
theorem C12_cls_mirror (a b : Nat) :
    typeorder H (.cls b) (.cls a) = (typeorder H (.cls a) (.cls b)).opposite := by
  rw [C12_cls, C12_cls]
  by_cases h : a = b
  · subst h; simp [opposite]
  · have h' : b ≠ a := fun e => h e.symm
    simp only [h, h', if_false]; exact ofSub_comm _ _

/-- a parametrised generic is more specific than its origin -/
theorem C12_generic_origin (wf : H.WF) (o : Nat) (args : List Ty) :
    typeorder H (.gen o args) (.cls o) = .less := by
  unfold typeorder
  rw [tord]; simp only [Ty.beq, hook, tstruct, Ty.size]
  have e : tord H (2 + Ty.sizeL args + 1) (Ty.cls o) (Ty.cls o) = .same := tord_self H _ _
  simp [e]

theorem hook_none_of_not_eff (to : Ty → Ty → TOrd) (sc : Ty → Ty → Bool) (t1 t2 : Ty) (h : t1.effHook t2 = false) : hook to sc t1 t2 = Option.none := by
  cases t1 <;> simp [Ty.effHook] at h <;> try (simp [hook])
  cases t2 <;> simp at h <;> simp [hook]

theorem hook_some_of_eff (to : Ty → Ty → TOrd) (sc : Ty → Ty → Bool) (t1 t2 : Ty) (h : t1.effHook t2 = true) : ∃ r, hook to sc t1 t2 = some r := by
  cases t1 <;> simp [Ty.effHook] at h <;> try (simp [hook])
  cases t2 <;> simp at h
  simp [hook]

/-- a type with an effective hook against a type without one: mirror images by construction
    (`Union`, `Intersection`, `Exactly`, `Literal`, `Dependent` against classes, generic aliases,
    `StrictSubclass`, `HasMethod`, `class_check` types and `tuple[...]`) -/
theorem C12_mirror_one_hook (t1 t2 : Ty) (h1 : t1.effHook t2 = true) (h2 : t2.effHook t1 = false) :
    typeorder H t2 t1 = (typeorder H t1 t2).opposite := by
  unfold typeorder
  rw [Nat.add_comm t2.size t1.size]
  rw [tord, tord, Ty.beq_comm t2 t1]
  by_cases e : Ty.beq t1 t2 = true
  · simp [e, opposite]
  · simp only [e]
    rw [hook_none_of_not_eff _ _ t2 t1 h2]
    obtain ⟨r, hr⟩ := hook_some_of_eff (tord H (t1.size + t2.size)) (subc H (t1.size + t2.size)) t1 t2 h1
    simp [hr]

/-- a union is more general than each of its members -/
theorem C12_union_member (ts : List Ty) (t : Ty) (ht : t ∈ ts) :
    typeorder H (.union ts) t = .more := by
  have hs : t.size < (Ty.union ts).size := by
    have := Ty.mem_sizeL ht; simp [Ty.size]; omega
  have hne : Ty.beq (.union ts) t = false := Ty.beq_false_of_ne (Ty.ne_of_size_lt hs).symm
  unfold typeorder
  rw [tord]; simp only [hne, hook]
  have hp := Ty.size_pos t
  obtain ⟨g, hg⟩ : ∃ g, (Ty.union ts).size + t.size = g + 1 := ⟨(Ty.union ts).size + t.size - 1, by omega⟩
  rw [hg]
  have hmem : TOrd.same ∈ ts.map (fun u => tord H (g + 1) u t) :=
    List.mem_map.mpr ⟨t, ht, tord_self H g t⟩
  simp only [unionOrd]
  have h1 : TOrd.same ∈ (ts.map (fun u => tord H (g + 1) u t)).filter (fun x => !x.isNone) :=
    List.mem_filter.mpr ⟨hmem, by simp [TOrd.isNone]⟩
  have h2 : ((ts.map (fun u => tord H (g + 1) u t)).filter (fun x => !x.isNone)).isEmpty = false := by
    cases e : (ts.map (fun u => tord H (g + 1) u t)).filter (fun x => !x.isNone) with
    | nil => rw [e] at h1; cases h1
    | cons _ _ => rfl
  have h3 : ((ts.map (fun u => tord H (g + 1) u t)).filter (fun x => !x.isNone)).any TOrd.isMS = true :=
    List.any_eq_true.mpr ⟨_, h1, rfl⟩
  simp [h2, h3]

/-- ... and each member without a hook of its own is more specific than the union -/
theorem C12_member_union (ts : List Ty) (t : Ty) (ht : t ∈ ts) (hh : t.effHook (.union ts) = false) :
    typeorder H t (.union ts) = .less := by
  rw [C12_mirror_one_hook H (.union ts) t (by simp [Ty.effHook]) hh, C12_union_member H ts t ht]; rfl

/-- an intersection is more specific than each of its members -/
theorem C12_inter_member (ts : List Ty) (t : Ty) (ht : t ∈ ts) :
    typeorder H (.inter ts) t = .less := by
  have hs : t.size < (Ty.inter ts).size := by
    have := Ty.mem_sizeL ht; simp [Ty.size]; omega
  have hne : Ty.beq (.inter ts) t = false := Ty.beq_false_of_ne (Ty.ne_of_size_lt hs).symm
  unfold typeorder
  rw [tord]; simp only [hne, hook]
  have hp := Ty.size_pos t
  obtain ⟨g, hg⟩ : ∃ g, (Ty.inter ts).size + t.size = g + 1 := ⟨(Ty.inter ts).size + t.size - 1, by omega⟩
  rw [hg]
  have hmem : TOrd.same ∈ ts.map (fun u => tord H (g + 1) u t) :=
    List.mem_map.mpr ⟨t, ht, tord_self H g t⟩
  simp only [interOrd]
  have h1 : TOrd.same ∈ (ts.map (fun u => tord H (g + 1) u t)).filter (fun x => !x.isNone) :=
    List.mem_filter.mpr ⟨hmem, by simp [TOrd.isNone]⟩
  have h2 : ((ts.map (fun u => tord H (g + 1) u t)).filter (fun x => !x.isNone)).isEmpty = false := by
    cases e : (ts.map (fun u => tord H (g + 1) u t)).filter (fun x => !x.isNone) with
    | nil => rw [e] at h1; cases h1
    | cons _ _ => rfl
  have h3 : ((ts.map (fun u => tord H (g + 1) u t)).filter (fun x => !x.isNone)).any TOrd.isLS = true :=
    List.any_eq_true.mpr ⟨_, h1, rfl⟩
  simp [h2, h3]

theorem C12_member_inter (ts : List Ty) (t : Ty) (ht : t ∈ ts) (hh : t.effHook (.inter ts) = false) :
    typeorder H t (.inter ts) = .more := by
  rw [C12_mirror_one_hook H (.inter ts) t (by simp [Ty.effHook]) hh, C12_inter_member H ts t ht]; rfl

/-- a `Literal[...]` is more specific than its bound (when the bound is not itself value-dependent) -/
theorem C12_lit_bound (ks : List Nat) (b : Ty) (hb : b.bound? = Option.none) :
    typeorder H (.lit ks b) b = .less := by
  have hne : Ty.beq (.lit ks b) b = false :=
    Ty.beq_false_of_ne (Ty.ne_of_size_lt (by simp [Ty.size])).symm
  unfold typeorder
  rw [tord]; simp only [hne, hook]
  rw [depHook]; simp only [hb]
  have hp := Ty.size_pos b
  obtain ⟨g, hg⟩ : ∃ g, (Ty.lit ks b).size + b.size = g + 1 := ⟨(Ty.lit ks b).size + b.size - 1, by omega⟩
  rw [hg, subc_self]; simp

/-- a `Dependent[bound, ...]` / built-in value type is more specific than its bound -/
theorem C12_dep_bound (fn : Nat) (ps : List (Option Nat)) (b : Ty) (hb : b.bound? = Option.none) :
    typeorder H (.fdep fn ps b) b = .less := by
  have hne : Ty.beq (.fdep fn ps b) b = false :=
    Ty.beq_false_of_ne (Ty.ne_of_size_lt (by simp [Ty.size])).symm
  unfold typeorder
  rw [tord]; simp only [hne, hook]
  rw [depHook]; simp only [hb]
  have hp := Ty.size_pos b
  obtain ⟨g, hg⟩ : ∃ g, (Ty.fdep fn ps b).size + b.size = g + 1 := ⟨(Ty.fdep fn ps b).size + b.size - 1, by omega⟩
  rw [hg, subc_self]; simp

end Ovld
