"""Correspondence layer U: a real Ovld with SEVERAL linked variants (`Ovld(mixins=[p], linkback=True)`, one to three
of them, created at any time) under natural failures and interrupts inside a rebuild, vs the Lean model
`Model/BuildForest.lean`.  One of the natural failures is pairwise: a variant's own method that cannot live next to
some of the function's methods (a name keyword-only here, positional there) — the function itself and the other
variants can be rebuilt, this variant cannot.

Operations: register / unregister on the function, register on the variant, calls of either through the object or
through the dispatch function.  An interrupt is an exception raised from a `sys.settrace` hook at a chosen executed
line *inside a `_compile` of the chosen object* (the model abstracts "somewhere inside this build" to one bit per
build); whether the line was reached is read back and handed to the model.  Compared after every operation, for the
function and for the variant: the definitions they are built from, the `_compiled` flag, whether the entry point in
service is the trampoline or generated code, the methods of the table in service, and the kind of outcome."""

import random
import sys

from check_build import SRC, Injected, Scenario, cfg_error, held_dispatch
from common import run_driver, use_repo
from corr_i import NATURAL, out_kind

use_repo()


def observe(ov, ident, defns=None):
    ds = [ident[f.__code__.co_filename] for f in (defns if defns is not None else ov.defns).values()]
    table = []
    gen = hasattr(ov, "dispatch") and held_dispatch(ov).__code__.co_filename.startswith("<ovld:")
    if hasattr(ov, "map"):
        table = [ident[h.__code__.co_filename] for h in ov.map.priorities]
    return {"defns": ds, "compiled": bool(ov._compiled), "entry": gen, "table": table}


class BuildTracer:
    """raise Injected at the n-th 'line' event inside a `_compile` frame of `target`; one shot per target"""

    def __init__(self, plan):
        self.plan = dict(plan)  # id(target) -> n
        self.count = {k: 0 for k in self.plan}
        self.fired = {k: False for k in self.plan}

    def owner(self, frame):
        f = frame
        while f is not None:
            if f.f_code.co_name == "_compile" and f.f_code.co_filename.startswith(SRC):
                return id(f.f_locals.get("self"))
            f = f.f_back
        return None

    def glob(self, frame, event, arg):
        fn = frame.f_code.co_filename
        if fn.startswith(SRC) or fn.startswith("<ovld:"):
            return self.local
        return None

    def local(self, frame, event, arg):
        if event == "line":
            o = self.owner(frame)
            if o in self.plan and not self.fired[o]:
                self.count[o] += 1
                if self.count[o] == self.plan[o]:
                    self.fired[o] = True
                    raise Injected()
        return self.local


def run_real(sc, rng, k, has_bad, pair):
    from ovld import Ovld

    ident = {f.__code__.co_filename: i for i, f in enumerate(sc.fns)}
    if sc.bad is not None:
        ident[sc.bad.__code__.co_filename] = 99
    if pair is not None:
        ident[pair.__code__.co_filename] = 98
    p = Ovld()
    # the first definition goes in before a variant is created (an Ovld gets its dispatch function then)
    p.register(sc.fns[0])
    held_dispatch(p)
    cs = []
    probes = sc.probes()
    ops = [["regP", 0, False, []]]
    recs = [{"res": ("done",), "p": observe(p, ident), "cs": []}]
    ids = list(range(k)) + ([99] if has_bad else [])
    nvar = rng.randint(1, 3)

    def fn_of(d):
        return pair if d == 98 else sc.fn_of("bad" if d == 99 else d)

    for step in range(rng.randint(6, 14)):
        curp = recs[-1]["p"]["defns"]
        curc = [c["defns"] for c in recs[-1]["cs"]]
        r = rng.random()
        inj = lambda: rng.randint(1, 160) if rng.random() < 0.3 else None  # noqa: E731
        ip = inj()
        ics = [inj() for _ in cs]
        everywhere = set(curp).union(*[set(x) for x in curc]) if curc else set(curp)
        if len(cs) < nvar and (step < nvar or r < 0.08):
            op = ["newC"]
        elif r < 0.3 and [i for i in ids if i not in everywhere]:
            op = ["regP", rng.choice([i for i in ids if i not in everywhere]), ip, ics]
        elif r < 0.4 and (len([d for d in curp if d != 99]) > 1 or 99 in curp):
            cand = [d for d in curp if d == 99 or len([x for x in curp if x != 99]) > 1]
            op = ["unregP", rng.choice(cand), ip, ics]
        elif r < 0.55 and cs:
            i = rng.randrange(len(cs))
            free = [d for d in ids + ([98] if pair is not None else []) if d not in everywhere]
            if not free:
                continue
            # the variant's pairwise-incompatible method goes in early, while it still can be built
            d = 98 if 98 in free and rng.random() < 0.6 else rng.choice(free)
            op = ["regC", i, d, ics[i]]
        elif r < 0.75 or not cs:
            op = ["callP", rng.choice(["obj", "fn"]), ip, rng.randrange(len(probes))]
        else:
            i = rng.randrange(len(cs))
            op = ["callC", i, rng.choice(["obj", "fn"]), ics[i], rng.randrange(len(probes))]
        plan = {}
        if op[0] in ("regP", "unregP"):
            if op[2]:
                plan[id(p)] = op[2]
            for c, n in zip(cs, op[3]):
                if n:
                    plan[id(c)] = n
        elif op[0] == "regC" and op[3]:
            plan[id(cs[op[1]])] = op[3]
        elif op[0] == "callP" and op[2]:
            plan[id(p)] = op[2]
        elif op[0] == "callC" and op[3]:
            plan[id(cs[op[1]])] = op[3]
        tr = BuildTracer(plan)
        old = sys.gettrace()
        res = None
        if plan:
            sys.settrace(tr.glob)
        try:
            try:
                if op[0] == "newC":
                    cs.append(Ovld(mixins=[p], linkback=True))
                    held_dispatch(cs[-1])
                    res = ("done",)
                elif op[0] == "regP":
                    p.register(fn_of(op[1]))
                    res = ("done",)
                elif op[0] == "unregP":
                    p.unregister(fn_of(op[1]))
                    res = ("done",)
                elif op[0] == "regC":
                    cs[op[1]].register(fn_of(op[2]))
                    res = ("done",)
                else:
                    ov = p if op[0] == "callP" else cs[op[1]]
                    route = op[1] if op[0] == "callP" else op[2]
                    target = ov if route == "obj" or not hasattr(ov, "dispatch") else held_dispatch(ov)
                    r_ = target(probes[op[-1]])
                    res = ("ok", repr(r_)[:60])
            except Injected:
                res = ("injected",)
            except BaseException as e:  # noqa
                res = ("error", type(e).__name__, str(e)[:80])
        finally:
            if plan:
                sys.settrace(old)
        # what actually fired goes to the model
        fp = tr.fired.get(id(p), False)
        fcs = [tr.fired.get(id(c), False) for c in cs]
        if op[0] in ("regP", "unregP"):
            mop = [op[0], op[1], fp, fcs]
        elif op[0] == "newC":
            mop = ["newC"]
        elif op[0] == "regC":
            mop = ["regC", op[1], op[2], fcs[op[1]]]
        elif op[0] == "callP":
            mop = ["callP", op[1], fp]
        else:
            mop = ["callC", op[1], op[2], fcs[op[1]]]
        ops.append(mop)
        recs.append({"res": res, "p": observe(p, ident), "cs": [observe(c, ident) for c in cs], "fired": [fp, fcs]})
    return ops, recs


def model_state(ms):
    return {"defns": ms["defns"], "compiled": ms["compiled"], "entry": ms["entry"] is not None, "table": ms["table"]}


def in_service(s):
    return s["compiled"] or s["entry"]


def compare(ops, recs, model):
    for i, (op, r, m) in enumerate(zip(ops, recs, model)):
        pairs = [("the function", m["p"], r["p"])] + [(f"linked variant {q}", mc, rc) for q, (mc, rc) in enumerate(zip(m["cs"], r["cs"]))]
        if len(m["cs"]) != len(r["cs"]):
            return {"layer": "U", "op": i, "what": "number of variants", "model": len(m["cs"]), "impl": len(r["cs"]), "opdesc": op}
        for who, mm, rr in pairs:
            ms, rs = model_state(mm), dict(rr)
            # definitions are compared as sets per owner order: the variant's view lists the function's first
            if not in_service(ms) and not in_service(rs):
                ms["table"] = rs["table"] = []
            if ms != rs:
                return {"layer": "U", "op": i, "what": f"state of {who} after the operation", "model": ms, "impl": rs, "opdesc": op, "res": r["res"]}
        mk = m["out"] if isinstance(m["out"], str) else m["out"][0]
        if mk != out_kind(r["res"]):
            return {"layer": "U", "op": i, "what": "outcome of the operation", "model": m["out"], "impl": r["res"], "opdesc": op}
    return None


def run(seed, n):
    from check_build import mk_fn

    rng = random.Random(seed)
    scs, keep, viols = [], [], []
    stats = {"scenarios": 0, "ops": 0, "variants": 0, "interrupts inside the function's build": 0, "interrupts inside a variant's build": 0, "natural": 0,
             "a variant's own method that is incompatible with some of the function's": 0}
    for _ in range(n):
        k = rng.randint(2, 4)
        kind = rng.choice(NATURAL + [None, None])
        sc = Scenario(rng, k, kind, 0)
        # pairwise failure: `y` keyword-only here, an optional positional in the methods that were given one
        pair = None
        pairs = []
        if sc.shapes and any(ex == "y" for ex in sc.extra) and kind not in ("names", "positions") and rng.random() < 0.8:
            pair = mk_fn("kwy", "return ('kwy',)", f"x: B{k}, *, y: object = 5", sc.glb)
            pairs = [[98, i] for i, ex in enumerate(sc.extra) if ex == "y"]
            stats["a variant's own method that is incompatible with some of the function's"] += 1
        ops, recs = run_real(sc, rng, k, kind is not None, pair)
        scs.append({"layer": "U", "old": bool(__import__("os").environ.get("CORR_U_OLD")), "bad": [99] if kind in ("call_next", "nosource") else [],
                    "conflict": [99] if kind in ("names", "positions") else [], "pairs": pairs, "ops": ops})
        keep.append((kind, k, ops, recs))
        # the property itself, on the real objects alone: whoever is in service serves its current definitions
        for q, r in enumerate(recs):
            for who, st in [("the function", r["p"])] + [(f"linked variant {x}", c) for x, c in enumerate(r["cs"])]:
                if in_service(st) and sorted(st["table"]) != sorted(st["defns"]) and len(viols) < 6:
                    viols.append({"law": "a function in service dispatches over a table that was not built from its current definitions",
                                  "who": who, "state": st, "after": ops[q], "result": r["res"], "scenario": {"bad_kind": kind, "k": k, "ops": ops[: q + 1]}})
        stats["scenarios"] += 1
        stats["ops"] += len(ops)
        stats["natural"] += kind is not None
        stats["variants"] += len(recs[-1]["cs"])
        for r in recs:
            f = r.get("fired") or [False, []]
            stats["interrupts inside the function's build"] += bool(f[0])
            stats["interrupts inside a variant's build"] += sum(bool(x) for x in f[1])
    res = run_driver(scs)
    diffs, unsafe = [], []
    for (kind, k, ops, recs), m in zip(keep, res):
        if "error" in m:
            diffs.append({"layer": "U", "what": "driver-error", "detail": m["error"]})
            continue
        d = compare(ops, recs, m["ops"])
        if d:
            d["scenario"] = {"bad_kind": kind, "k": k, "ops": ops}
            diffs.append(d)
        for i, mo in enumerate(m["ops"]):
            if not mo["safe"]:
                unsafe.append({"scenario": {"bad_kind": kind, "k": k, "ops": ops[: i + 1]}})
    return stats, diffs, unsafe, viols


if __name__ == "__main__":
    import json

    seed = int(sys.argv[1]) if len(sys.argv) > 1 else 0
    n = int(sys.argv[2]) if len(sys.argv) > 2 else 100
    stats, diffs, unsafe, viols = run(seed, n)
    print(stats, "diffs", len(diffs), "model-unsafe states", len(unsafe), "violations on the real objects", len(viols))
    for v in viols[:2]:
        print("V", json.dumps(v, default=str)[:900])
    for d in diffs[:4]:
        print(json.dumps(d, default=str)[:1500])
