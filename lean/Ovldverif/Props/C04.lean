import Ovldverif.Spec.Runs
import Ovldverif.Lemmas.CacheInv
import Ovldverif.Lemmas.PlanOK
import Ovldverif.Lemmas.FnInv
/-!
# C04 — caching is invisible: a call's outcome never depends on earlier calls
-/
set_option autoImplicit false
namespace Ovld

/-- table level: after ANY history of lookups (ordinary keys and `call_next` continuation keys, succeeding,
    ambiguous or unmatched) a lookup on the public multi-type table returns what it returns on a table on
    which nothing was ever looked up -/
theorem C04_table (cfg : Cfg) (ms : List Meth) (hd : DistinctHandlers ms)
    (hist : List (CKey Key)) (ck : CKey Key) :
    (((MMap.fresh ms).runLookups cfg hist).lookup cfg ck).2 = ((MMap.fresh ms).lookup cfg ck).2 := by
  have ok := plan_ok cfg ms hd.ids hd.codes
  have h0 := MMap.fresh_inv cfg ms
  have h1 := (MMap.runLookups_inv cfg ms ok hist _ h0).1
  rw [(MMap.lookup_spec cfg ms ok _ h1 ck).1, (MMap.lookup_spec cfg ms ok _ h0 ck).1]

/-- function level: for a fixed set of registered methods, the outcome of a call and the sequence of method
    bodies it enters (with the argument objects each receives) are the same whether it is the first call ever
    made or made after any sequence of other calls — including calls that failed and calls whose methods
    delegate through `recurse`, `call_next` or `f.next` with the same or other arguments -/
theorem C04_fn (cfg : Cfg) (ds : List (Def × Int)) (hd : DistinctHandlers (Fn.methsOf ds))
    (hist : List Call) (c : Call) :
    Fn.outcome (((Fn.fresh ds).runCalls cfg hist).call cfg c) = Fn.outcome ((Fn.fresh ds).call cfg c) ∧
    Fn.trace (((Fn.fresh ds).runCalls cfg hist).call cfg c) = Fn.trace ((Fn.fresh ds).call cfg c) := by
  have ok := plan_ok (Fn.cfgOf cfg ds) (Fn.methsOf ds) hd.ids hd.codes
  cases ha : analyze (ds.map (·.1.d)) with
  | error err => rw [Fn.runCalls_fresh_err cfg ds err ha hist]; exact ⟨rfl, rfl⟩
  | ok ana =>
    obtain ⟨fnH, hH, hcall⟩ := Fn.runCalls_fresh_ok cfg ds ana ok ha hist
    rw [hcall c, Fn.call_fresh_ok cfg ds ana ha c]
    have r := call_rel cfg ds ana ok fnH (Fn.built ds ana) hH (Fn.built_inv cfg ds ana) c
    exact ⟨r.outcome, r.trace⟩

end Ovld
