import Ovldverif.Props.C12
import Ovldverif.Lemmas.Fuel
/-!
# C10 (order-level half) — where a value-dependent type sits in the specificity order

"A value-dependent method, when its condition holds, is preferred over methods declared on the bound
or its subclasses; two otherwise unordered dependent methods are ambiguous."

The run-time half (the condition is evaluated, the guard is correct) is `Props/C10.lean`.  This file is
the *order* half: what `typeorder` (the model of `mro.typeorder` with `DependentType.__type_order__`
inlined as `depHook`) answers for `Dependent[c, ...]` (`.fdep fn ps (.cls c)`) and `Literal[...]`
(`.lit keys (.cls c)`) against plain classes and against each other.  Together with the ranking
theorems of C02 (a `.less` candidate wins, two `.none` candidates that both accept are an ambiguity)
this gives the documented behaviour.

All statements hold for every hierarchy table; the only place where a property of `H` is needed is
`C10_unrelated_class` (`d ≠ c`, which follows from reflexivity of `issubclass`) and the corollary
`C10_bounds_decide_antisym` (antisymmetry, to exclude two distinct classes that are subclasses of each
other).
-/
set_option autoImplicit false
namespace Ovld
open TOrd

variable (H : Hier)

/-! ### one-step unfoldings on plain classes -/

theorem subc_cls_cls (g d c : Nat) :
    subc H (g + 1) (.cls d) (.cls c) = (d == c || H.sub d c) := by
  rw [subc]
  by_cases h : d = c
  · subst h; simp [Ty.beq]
  · simp [Ty.beq, h, subcNe, issubCls]

/-- `d` is the bound `c`, a subclass of it, or a superclass of it
    (`subclasscheck(d, c) or subclasscheck(c, d)`, dependent.py L112) -/
def relatedCls (c d : Nat) : Bool := d == c || H.sub d c || H.sub c d

/-- the `else` branch of `DependentType.__type_order__` against a plain class -/
theorem depHook_cls (to : Ty → Ty → TOrd) (g : Nat) (self : Ty) (c d : Nat) :
    depHook to (subc H (g + 1)) self (.cls c) (.cls d)
      = if relatedCls H c d then .less else .none := by
  unfold depHook relatedCls
  simp only [Ty.bound?, subc_cls_cls]
  by_cases h : d = c
  · subst h; simp
  · have h' : c ≠ d := fun e => h e.symm
    simp [h, h']

/-- the `then` branch: the other operand is value-dependent too, bounds are plain classes -/
theorem depHook_dep (g : Nat) (self other : Ty) (c1 c2 : Nat) (hb : other.bound? = some (.cls c2)) :
    depHook (tord H (g + 3)) (subc H (g + 3)) self (.cls c1) other
      = if typeorder H (.cls c1) (.cls c2) = .same then
          (if Ty.depLt self other then .less else if Ty.depLt other self then .more else .none)
        else typeorder H (.cls c1) (.cls c2) := by
  unfold depHook
  simp only [hb]
  rw [tord_fuel H (g + 3) (.cls c1) (.cls c2) (by simp only [Ty.size]; omega)]
  generalize typeorder H (.cls c1) (.cls c2) = o
  cases o <;> simp

/-- a `Literal` / `Dependent` type: the two kinds of value-dependent type whose `__type_order__` is
    `DependentType.__type_order__` against every operand (`ProductType` overrides it) -/
def Ty.isCond : Ty → Bool
  | .lit .. => true | .fdep .. => true | _ => false

theorem hook_cond (to : Ty → Ty → TOrd) (sc : Ty → Ty → Bool) (t b other : Ty)
    (hc : t.isCond = true) (hb : t.bound? = some b) :
    hook to sc t other = some (depHook to sc t b other) := by
  cases t <;> simp [Ty.isCond] at hc <;> simp [Ty.bound?] at hb <;> subst hb <;> simp [hook]

theorem size_cond_cls (t : Ty) (c : Nat) (hc : t.isCond = true) (hb : t.bound? = some (.cls c)) :
    t.size = 3 := by
  cases t <;> simp [Ty.isCond] at hc <;> simp [Ty.bound?] at hb <;> subst hb <;> simp [Ty.size]

/-! ### general forms (any `Literal` / `Dependent` type over a class bound) -/

/-- dependent type against a plain class, both directions, exact -/
theorem cond_vs_cls (t : Ty) (c d : Nat) (hc : t.isCond = true) (hb : t.bound? = some (.cls c)) :
    typeorder H t (.cls d) = (if relatedCls H c d then .less else .none) ∧
    typeorder H (.cls d) t = (if relatedCls H c d then .more else .none) := by
  have hne : Ty.beq t (.cls d) = false := by cases t <;> simp [Ty.isCond] at hc <;> simp [Ty.beq]
  have hne' : Ty.beq (.cls d) t = false := by rw [Ty.beq_comm]; exact hne
  have hs := size_cond_cls t c hc hb
  unfold typeorder
  simp only [hs, Ty.size]
  have hk : ∀ to sc o, hook to sc t o = some (depHook to sc t (.cls c) o) :=
    fun to sc o => hook_cond to sc t (.cls c) o hc hb
  constructor
  · rw [tord]; simp only [hne, hk, Bool.false_eq_true, if_false]
    exact depHook_cls H _ 3 t c d
  · rw [tord]; simp only [hne', Bool.false_eq_true, if_false]
    rw [hook_none_of_not_eff _ _ (.cls d) t rfl]
    simp only [hk]
    rw [depHook_cls H _ 3 t c d]
    cases relatedCls H c d <;> rfl

/-- two dependent types over class bounds, exact -/
theorem cond_vs_cond (t1 t2 : Ty) (c1 c2 : Nat) (hc : t1.isCond = true)
    (hb1 : t1.bound? = some (.cls c1)) (hb2 : t2.bound? = some (.cls c2)) :
    typeorder H t1 t2 =
      if t1 = t2 then .same
      else if typeorder H (.cls c1) (.cls c2) = .same then
        (if Ty.depLt t1 t2 then .less else if Ty.depLt t2 t1 then .more else .none)
      else typeorder H (.cls c1) (.cls c2) := by
  by_cases e : t1 = t2
  · subst e; simp [C12_refl]
  · simp only [e, if_false]
    have hne := Ty.beq_false_of_ne e
    have hs := size_cond_cls t1 c1 hc hb1
    have hp : 2 ≤ t2.size := by cases t2 <;> simp [Ty.bound?] at hb2 <;> simp [Ty.size] <;> omega
    unfold typeorder
    obtain ⟨g, hg⟩ : ∃ g, t1.size + t2.size + 1 = (g + 3) + 1 := ⟨t1.size + t2.size - 3, by omega⟩
    rw [hg, tord]; simp only [hne, fun to sc o => hook_cond to sc t1 (.cls c1) o hc hb1, Bool.false_eq_true, if_false]
    exact depHook_dep H g t1 t2 c1 c2 hb2

/-! ### 1. preferred over the bound, its subclasses and its superclasses -/

/-- `Dependent[c, ...]` and `Literal[...]` over `c` are LESS (more specific) than the plain class `d`
    whenever `d` is `c`, a subclass of `c` (`H.sub d c`) or a superclass of `c` (`H.sub c d`), and the
    mirror comparison answers MORE.  No hypothesis on `H`. -/
theorem C10_prefers_over_related_class (fn : Nat) (ps : List (Option Nat)) (keys : List Nat) (c d : Nat)
    (h : d = c ∨ H.sub d c = true ∨ H.sub c d = true) :
    typeorder H (.fdep fn ps (.cls c)) (.cls d) = .less ∧
    typeorder H (.cls d) (.fdep fn ps (.cls c)) = .more ∧
    typeorder H (.lit keys (.cls c)) (.cls d) = .less ∧
    typeorder H (.cls d) (.lit keys (.cls c)) = .more := by
  have hr : relatedCls H c d = true := by
    unfold relatedCls; rcases h with h | h | h <;> simp [h]
  have a := cond_vs_cls H (.fdep fn ps (.cls c)) c d rfl rfl
  have b := cond_vs_cls H (.lit keys (.cls c)) c d rfl rfl
  simp only [hr, if_true] at a b
  exact ⟨a.1, a.2, b.1, b.2⟩

/-! ### 2. unrelated classes -/

/-- against a class that is neither a subclass nor a superclass of the bound: unordered, both ways.
    `d ≠ c` is needed because the code tests `t1 == t2` before `issubclass`; it follows from the two
    other hypotheses as soon as `issubclass` is reflexive (`C10_unrelated_class_refl`). -/
theorem C10_unrelated_class (fn : Nat) (ps : List (Option Nat)) (keys : List Nat) (c d : Nat)
    (hne : d ≠ c) (h1 : H.sub d c = false) (h2 : H.sub c d = false) :
    typeorder H (.fdep fn ps (.cls c)) (.cls d) = .none ∧
    typeorder H (.cls d) (.fdep fn ps (.cls c)) = .none ∧
    typeorder H (.lit keys (.cls c)) (.cls d) = .none ∧
    typeorder H (.cls d) (.lit keys (.cls c)) = .none := by
  have hr : relatedCls H c d = false := by unfold relatedCls; simp [hne, h1, h2]
  have a := cond_vs_cls H (.fdep fn ps (.cls c)) c d rfl rfl
  have b := cond_vs_cls H (.lit keys (.cls c)) c d rfl rfl
  simp only [hr] at a b
  exact ⟨a.1, a.2, b.1, b.2⟩

theorem C10_unrelated_class_refl (fn : Nat) (ps : List (Option Nat)) (keys : List Nat) (c d : Nat)
    (hrefl : H.sub c c = true) (h1 : H.sub d c = false) (h2 : H.sub c d = false) :
    typeorder H (.fdep fn ps (.cls c)) (.cls d) = .none ∧
    typeorder H (.cls d) (.fdep fn ps (.cls c)) = .none ∧
    typeorder H (.lit keys (.cls c)) (.cls d) = .none ∧
    typeorder H (.cls d) (.lit keys (.cls c)) = .none :=
  C10_unrelated_class H fn ps keys c d (fun e => by subst e; rw [hrefl] at h1; cases h1) h1 h2

/-- 1 and 2 together: the comparison is exactly the relatedness test (so LESS / NONE are the only
    answers, and `.none` iff `d ≠ c` and the two `issubclass` tests fail) -/
theorem C10_class_exact (fn : Nat) (ps : List (Option Nat)) (c d : Nat) :
    typeorder H (.fdep fn ps (.cls c)) (.cls d) = (if relatedCls H c d then .less else .none) ∧
    typeorder H (.cls d) (.fdep fn ps (.cls c)) = (if relatedCls H c d then .more else .none) :=
  cond_vs_cls H _ c d rfl rfl

/-! ### 3. two conditions on the same bound -/

/-- exact: SAME iff the two types are equal (same `FuncDependentType` class and equal parameters),
    otherwise `FuncDependentType.__lt__` (`Ty.depLt`) decides, and when it is false both ways: NONE -/
theorem C10_two_conditions_same_bound (f1 f2 : Nat) (ps1 ps2 : List (Option Nat)) (c : Nat) :
    typeorder H (.fdep f1 ps1 (.cls c)) (.fdep f2 ps2 (.cls c)) =
      if f1 = f2 ∧ ps1 = ps2 then .same
      else if Ty.depLt (.fdep f1 ps1 (.cls c)) (.fdep f2 ps2 (.cls c)) then .less
      else if Ty.depLt (.fdep f2 ps2 (.cls c)) (.fdep f1 ps1 (.cls c)) then .more
      else .none := by
  rw [cond_vs_cond H _ _ c c rfl rfl rfl]
  simp [C12_refl]

/-- `depLt self other` needs a parameter of `other` that is `Any` -/
theorem countAnyNot_pos {m2 m1 : List Bool} (h : 0 < Ty.countAnyNot m2 m1) : true ∈ m2 := by
  induction m2 generalizing m1 with
  | nil => simp [Ty.countAnyNot] at h
  | cons a as ih =>
    cases m1 with
    | nil => simp [Ty.countAnyNot] at h
    | cons b bs =>
      simp only [Ty.countAnyNot] at h
      cases a
      · simp at h; exact List.mem_cons_of_mem _ (ih h)
      · simp

theorem depLt_false_of_noAny (s : Ty) (f : Nat) (ps : List (Option Nat)) (b : Ty)
    (h : ps.all Option.isSome = true) : Ty.depLt s (.fdep f ps b) = false := by
  cases hd : Ty.depLt s (.fdep f ps b)
  · rfl
  · exfalso
    cases s <;> simp [Ty.depLt] at hd
    have hm := countAnyNot_pos hd.1.2
    simp only [Ty.anyMask, List.mem_map] at hm
    obtain ⟨p, hp, hn⟩ := hm
    have := List.all_eq_true.mp h p hp
    cases p <;> simp at hn this

theorem depLt_lit_right (s : Ty) (ks : List Nat) (b : Ty) : Ty.depLt s (.lit ks b) = false := by
  cases hd : Ty.depLt s (.lit ks b)
  · rfl
  · exfalso
    cases s <;> simp [Ty.depLt] at hd
    have hm := countAnyNot_pos hd.1.2
    simp [Ty.anyMask] at hm

theorem countAnyNot_self (m : List Bool) : Ty.countAnyNot m m = 0 := by
  induction m with
  | nil => rfl
  | cons a as ih => cases a <;> simp [Ty.countAnyNot, ih]

/-- the common case: two different user conditions, no `Any` parameter on either side: unordered both
    ways.  By C02 (ranking) two such methods that both accept the arguments, with nothing else to
    separate them, are reported as an ambiguity. -/
theorem C10_two_conditions_ambiguous (f1 f2 : Nat) (ps1 ps2 : List (Option Nat)) (c : Nat)
    (hne : f1 ≠ f2 ∨ ps1 ≠ ps2)
    (h1 : ps1.all Option.isSome = true) (h2 : ps2.all Option.isSome = true) :
    typeorder H (.fdep f1 ps1 (.cls c)) (.fdep f2 ps2 (.cls c)) = .none ∧
    typeorder H (.fdep f2 ps2 (.cls c)) (.fdep f1 ps1 (.cls c)) = .none := by
  have e1 : ¬(f1 = f2 ∧ ps1 = ps2) := by
    intro ⟨a, b⟩; rcases hne with h | h
    · exact h a
    · exact h b
  have e2 : ¬(f2 = f1 ∧ ps2 = ps1) := fun ⟨a, b⟩ => e1 ⟨a.symm, b.symm⟩
  rw [C10_two_conditions_same_bound, C10_two_conditions_same_bound]
  simp [e1, e2, depLt_false_of_noAny _ _ _ _ h1, depLt_false_of_noAny _ _ _ _ h2]

/-- more generally: the same positions are `Any` on both sides (e.g. two different `Regexp[...]`,
    or the same condition class with different concrete parameters) -/
theorem C10_two_conditions_same_mask (f1 f2 : Nat) (ps1 ps2 : List (Option Nat)) (c : Nat)
    (hne : f1 ≠ f2 ∨ ps1 ≠ ps2)
    (hm : ps1.map Option.isNone = ps2.map Option.isNone) :
    typeorder H (.fdep f1 ps1 (.cls c)) (.fdep f2 ps2 (.cls c)) = .none ∧
    typeorder H (.fdep f2 ps2 (.cls c)) (.fdep f1 ps1 (.cls c)) = .none := by
  have e1 : ¬(f1 = f2 ∧ ps1 = ps2) := by
    intro ⟨a, b⟩; rcases hne with h | h
    · exact h a
    · exact h b
  have e2 : ¬(f2 = f1 ∧ ps2 = ps1) := fun ⟨a, b⟩ => e1 ⟨a.symm, b.symm⟩
  have d1 : Ty.depLt (.fdep f1 ps1 (.cls c)) (.fdep f2 ps2 (.cls c)) = false := by
    simp [Ty.depLt, Ty.anyMask, hm, countAnyNot_self]
  have d2 : Ty.depLt (.fdep f2 ps2 (.cls c)) (.fdep f1 ps1 (.cls c)) = false := by
    simp [Ty.depLt, Ty.anyMask, hm, countAnyNot_self]
  rw [C10_two_conditions_same_bound, C10_two_conditions_same_bound]
  simp [e1, e2, d1, d2]

/-- two `Literal[...]` over the same bound: SAME iff the value sets are equal, else unordered
    (`DependentType.__lt__` is constantly `False`; overlapping literals are *not* ordered by
    inclusion) -/
theorem C10_two_literals_same_bound (k1 k2 : List Nat) (c : Nat) :
    typeorder H (.lit k1 (.cls c)) (.lit k2 (.cls c)) = if k1 = k2 then .same else .none := by
  rw [cond_vs_cond H _ _ c c rfl rfl rfl]
  simp [C12_refl, Ty.depLt]

/-- a `Literal[...]` and a `Dependent[c, ...]` over the same bound are unordered both ways -/
theorem C10_literal_vs_condition (ks : List Nat) (fn : Nat) (ps : List (Option Nat)) (c : Nat) :
    typeorder H (.lit ks (.cls c)) (.fdep fn ps (.cls c)) = .none ∧
    typeorder H (.fdep fn ps (.cls c)) (.lit ks (.cls c)) = .none := by
  rw [cond_vs_cond H (.lit ks (.cls c)) (.fdep fn ps (.cls c)) c c rfl rfl rfl,
    cond_vs_cond H (.fdep fn ps (.cls c)) (.lit ks (.cls c)) c c rfl rfl rfl]
  have d := depLt_lit_right (.fdep fn ps (.cls c)) ks (.cls c)
  simp [C12_refl, d]
  simp [Ty.depLt]

/-! ### 4. different bounds: the bounds decide -/

/-- general form: `t1`, `t2` each a `Literal` or a `Dependent` over class bounds `c1`, `c2`; when the
    bounds are not SAME the answer is the order of the bounds (LESS, MORE or NONE).
    The hypothesis implies `c1 ≠ c2`. -/
theorem C10_bounds_decide_gen (t1 t2 : Ty) (c1 c2 : Nat) (hc : t1.isCond = true)
    (hb1 : t1.bound? = some (.cls c1)) (hb2 : t2.bound? = some (.cls c2))
    (hs : typeorder H (.cls c1) (.cls c2) ≠ .same) :
    typeorder H t1 t2 = typeorder H (.cls c1) (.cls c2) := by
  have e : t1 ≠ t2 := by
    intro e; subst e
    rw [hb1] at hb2; injection hb2 with h; injection h with h; subst h
    exact hs (C12_refl H _)
  rw [cond_vs_cond H t1 t2 c1 c2 hc hb1 hb2]
  simp [e, hs]

theorem C10_bounds_decide (f1 f2 : Nat) (ps1 ps2 : List (Option Nat)) (k1 k2 : List Nat) (c1 c2 : Nat)
    (hs : typeorder H (.cls c1) (.cls c2) ≠ .same) :
    typeorder H (.fdep f1 ps1 (.cls c1)) (.fdep f2 ps2 (.cls c2)) = typeorder H (.cls c1) (.cls c2) ∧
    typeorder H (.lit k1 (.cls c1)) (.lit k2 (.cls c2)) = typeorder H (.cls c1) (.cls c2) ∧
    typeorder H (.fdep f1 ps1 (.cls c1)) (.lit k2 (.cls c2)) = typeorder H (.cls c1) (.cls c2) ∧
    typeorder H (.lit k1 (.cls c1)) (.fdep f2 ps2 (.cls c2)) = typeorder H (.cls c1) (.cls c2) :=
  ⟨C10_bounds_decide_gen H (.fdep f1 ps1 (.cls c1)) (.fdep f2 ps2 (.cls c2)) c1 c2 rfl rfl rfl hs,
   C10_bounds_decide_gen H (.lit k1 (.cls c1)) (.lit k2 (.cls c2)) c1 c2 rfl rfl rfl hs,
   C10_bounds_decide_gen H (.fdep f1 ps1 (.cls c1)) (.lit k2 (.cls c2)) c1 c2 rfl rfl rfl hs,
   C10_bounds_decide_gen H (.lit k1 (.cls c1)) (.fdep f2 ps2 (.cls c2)) c1 c2 rfl rfl rfl hs⟩

/-- with antisymmetric `issubclass`, `c1 ≠ c2` is enough, and the answer is read off the table -/
theorem C10_bounds_decide_antisym (anti : H.Antisym) (f1 f2 : Nat) (ps1 ps2 : List (Option Nat))
    (c1 c2 : Nat) (hne : c1 ≠ c2) :
    typeorder H (.fdep f1 ps1 (.cls c1)) (.fdep f2 ps2 (.cls c2)) = ofSub (H.sub c1 c2) (H.sub c2 c1) := by
  have hc : typeorder H (.cls c1) (.cls c2) = ofSub (H.sub c1 c2) (H.sub c2 c1) := by
    rw [C12_cls]; simp [hne]
  have hs : typeorder H (.cls c1) (.cls c2) ≠ .same := by
    rw [hc]; intro h
    have : H.sub c1 c2 = true ∧ H.sub c2 c1 = true := by
      revert h; unfold ofSub; cases H.sub c1 c2 <;> cases H.sub c2 c1 <;> simp
    exact hne (anti c1 c2 this.1 this.2)
  rw [(C10_bounds_decide H f1 f2 ps1 ps2 [] [] c1 c2 hs).1, hc]

/-- what happens when the hypothesis of `C10_bounds_decide` fails with `c1 ≠ c2` (two distinct classes
    that are subclasses of each other): the bounds count as the same and the conditions decide, as in 3 -/
theorem C10_bounds_same (f1 f2 : Nat) (ps1 ps2 : List (Option Nat)) (c1 c2 : Nat) (hne : c1 ≠ c2)
    (hs : typeorder H (.cls c1) (.cls c2) = .same) :
    typeorder H (.fdep f1 ps1 (.cls c1)) (.fdep f2 ps2 (.cls c2)) =
      if Ty.depLt (.fdep f1 ps1 (.cls c1)) (.fdep f2 ps2 (.cls c2)) then .less
      else if Ty.depLt (.fdep f2 ps2 (.cls c2)) (.fdep f1 ps1 (.cls c1)) then .more
      else .none := by
  rw [cond_vs_cond H _ _ c1 c2 rfl rfl rfl]
  have e : Ty.fdep f1 ps1 (.cls c1) ≠ Ty.fdep f2 ps2 (.cls c2) := by
    intro e; injection e with _ _ e; injection e with e; exact hne e
  simp [e, hs]

/-! ### concrete instances

Classes: 0 `object`, 1 `A`, 2 `B(A)`, 3 `C` (unrelated to `A`), 4/5 two distinct classes that are
subclasses of each other (structurally identical protocols). -/

def c10H : Hier where
  sub a b := a == b || b == 0 || (a == 2 && b == 1) || (a == 4 && b == 5) || (a == 5 && b == 4)
  hasAttr _ _ := false
  pred _ _ := false

-- 1: `Dependent[A, f(x)]` against `A`, its subclass `B`, its superclass `object`
example : typeorder c10H (.fdep 7 [some 1] (.cls 1)) (.cls 1) = .less :=
  (C10_prefers_over_related_class c10H 7 [some 1] [] 1 1 (Or.inl rfl)).1
example : typeorder c10H (.fdep 7 [some 1] (.cls 1)) (.cls 2) = .less ∧
    typeorder c10H (.cls 2) (.fdep 7 [some 1] (.cls 1)) = .more ∧
    typeorder c10H (.lit [10, 11] (.cls 1)) (.cls 2) = .less ∧
    typeorder c10H (.cls 2) (.lit [10, 11] (.cls 1)) = .more :=
  C10_prefers_over_related_class c10H 7 [some 1] [10, 11] 1 2 (Or.inr (Or.inl (by decide)))
example : typeorder c10H (.cls 0) (.fdep 7 [some 1] (.cls 1)) = .more :=
  (C10_prefers_over_related_class c10H 7 [some 1] [] 1 0 (Or.inr (Or.inr (by decide)))).2.1
-- the model itself, evaluated
example : typeorder c10H (.fdep 7 [some 1] (.cls 1)) (.cls 2) = .less := by decide
example : typeorder c10H (.cls 2) (.lit [10, 11] (.cls 1)) = .more := by decide

-- 2: against the unrelated `C`
example : typeorder c10H (.fdep 7 [some 1] (.cls 1)) (.cls 3) = .none ∧
    typeorder c10H (.cls 3) (.fdep 7 [some 1] (.cls 1)) = .none ∧
    typeorder c10H (.lit [10] (.cls 1)) (.cls 3) = .none ∧
    typeorder c10H (.cls 3) (.lit [10] (.cls 1)) = .none :=
  C10_unrelated_class_refl c10H 7 [some 1] [10] 1 3 (by decide) (by decide) (by decide)
example : typeorder c10H (.cls 3) (.fdep 7 [some 1] (.cls 1)) = .none := by decide

/-- why `C10_unrelated_class` needs `d ≠ c` (or reflexivity): on a table where `issubclass(c, c)` is
    false the two `issubclass` hypotheses hold for `d = c`, yet the answer is LESS, because
    `subclasscheck` tests `t1 == t2` first -/
def c10Irrefl : Hier := ⟨fun _ _ => false, fun _ _ => false, fun _ _ => false⟩
example : c10Irrefl.sub 1 1 = false ∧ typeorder c10Irrefl (.fdep 7 [] (.cls 1)) (.cls 1) = .less := by decide

-- 3: two conditions on `A`
example : typeorder c10H (.fdep 7 [some 1] (.cls 1)) (.fdep 8 [some 1] (.cls 1)) = .none ∧
    typeorder c10H (.fdep 8 [some 1] (.cls 1)) (.fdep 7 [some 1] (.cls 1)) = .none :=
  C10_two_conditions_ambiguous c10H 7 8 [some 1] [some 1] 1 (Or.inl (by decide)) (by decide) (by decide)
example : typeorder c10H (.fdep 7 [some 1] (.cls 1)) (.fdep 7 [some 2] (.cls 1)) = .none ∧
    typeorder c10H (.fdep 7 [some 2] (.cls 1)) (.fdep 7 [some 1] (.cls 1)) = .none :=
  C10_two_conditions_same_mask c10H 7 7 [some 1] [some 2] 1 (Or.inr (by decide)) (by decide)
example : typeorder c10H (.fdep 7 [some 1] (.cls 1)) (.fdep 7 [some 1] (.cls 1)) = .same := by
  rw [C10_two_conditions_same_bound]; decide
-- a concrete parameter is LESS than `Any` at the same position
example : typeorder c10H (.fdep 7 [some 1, none] (.cls 1)) (.fdep 7 [none, none] (.cls 1)) = .less := by
  rw [C10_two_conditions_same_bound]; decide
example : typeorder c10H (.fdep 7 [none, none] (.cls 1)) (.fdep 7 [some 1, none] (.cls 1)) = .more := by
  rw [C10_two_conditions_same_bound]; decide
-- `Any` at different positions: unordered
example : typeorder c10H (.fdep 7 [some 1, none] (.cls 1)) (.fdep 7 [none, some 1] (.cls 1)) = .none := by
  rw [C10_two_conditions_same_bound]; decide
example : typeorder c10H (.fdep 7 [some 1, none] (.cls 1)) (.fdep 7 [none, none] (.cls 1)) = .less := by decide
example : typeorder c10H (.lit [10, 11] (.cls 1)) (.lit [10] (.cls 1)) = .none := by
  rw [C10_two_literals_same_bound]; decide
example : typeorder c10H (.lit [10] (.cls 1)) (.lit [10, 11] (.cls 1)) = .none := by decide
example : typeorder c10H (.lit [10] (.cls 1)) (.fdep 7 [some 1] (.cls 1)) = .none :=
  (C10_literal_vs_condition c10H [10] 7 [some 1] 1).1

-- 4: bounds `B` < `A`; `A` and `C` unrelated
example : typeorder c10H (.fdep 7 [some 1] (.cls 2)) (.fdep 8 [none] (.cls 1)) = .less := by
  rw [(C10_bounds_decide c10H 7 8 [some 1] [none] [] [] 2 1 (by decide)).1]; decide
example : typeorder c10H (.fdep 8 [none] (.cls 1)) (.lit [10] (.cls 2)) = .more := by
  rw [(C10_bounds_decide c10H 8 7 [none] [] [] [10] 1 2 (by decide)).2.2.1]; decide
example : typeorder c10H (.fdep 7 [some 1] (.cls 1)) (.fdep 7 [some 1] (.cls 3)) = .none := by
  rw [(C10_bounds_decide c10H 7 7 [some 1] [some 1] [] [] 1 3 (by decide)).1]; decide
example : typeorder c10H (.fdep 7 [some 1] (.cls 2)) (.fdep 8 [none] (.cls 1)) = .less := by decide
/-- the hypothesis `≠ .same` of `C10_bounds_decide` cannot be weakened to `c1 ≠ c2`: for the mutually
    sub-classing 4 / 5 the bounds are SAME but the dependent types are not (conditions decide) -/
example : typeorder c10H (.cls 4) (.cls 5) = .same ∧
    typeorder c10H (.fdep 7 [some 1] (.cls 4)) (.fdep 8 [some 1] (.cls 5)) = .none ∧
    typeorder c10H (.fdep 7 [some 1] (.cls 4)) (.fdep 8 [none] (.cls 5)) = .less := by decide

end Ovld
