import Ovldverif.Model.ConcBuild
import Ovldverif.Props.C18
/-!
# C19 (lazy build) — concurrent first calls behave like sequential calls

For every method set, every number of threads, every choice of routes and EVERY schedule (list of thread indices of
any length): a thread that has finished was either answered by the entry point of the complete method set over the
complete table, or got an error — and an error only if the method set really contains an offending method; the
function is left `Safe` (Props/C18.lean) once no thread holds the lock.
-/
set_option autoImplicit false
namespace Ovld.ConcBuild
open Ovld.Build

/-- the program counters at which the thread holds `_compile_lock` -/
def Held : PC → Prop
  | .chk2 | .bNew | .bNames | .bFill _ | .bSwap | .bFlag | .bFail | .rel => True
  | _ => False

/-- what the shared state (and the lock) must look like for thread `i` to be at this program counter; `D` = the
    definitions the function had when the threads started -/
def PcOK (cfg : Cfg) (D : List Nat) (s : S) (lock : Option Nat) (i : Nat) : PC → Prop
  | .chk1 | .acq | .disp => True
  | .chk2 | .rel => lock = some i ∧ Safe s
  | .bNew => lock = some i ∧ s.entry = none ∧ s.compiled = false
  | .bNames => lock = some i ∧ s.entry = none ∧ s.compiled = false ∧ s.table = []
  | .bFill rest => lock = some i ∧ s.entry = none ∧ s.compiled = false ∧ s.table ++ rest = D ∧
      cfg.namesOK D = true ∧ ∀ d ∈ s.table, cfg.bad d = false
  | .bSwap => lock = some i ∧ s.entry = none ∧ s.compiled = false ∧ s.table = D ∧ AllGood cfg D
  | .bFlag => lock = some i ∧ s.entry = some D ∧ s.table = D ∧ s.compiled = false
  | .bFail => lock = some i ∧ s.entry = none ∧ s.compiled = false ∧ ¬ AllGood cfg D
  | .look e => e = D ∧ s.entry = some D
  | .done o => o = .served D D ∨ (o = .error ∧ ¬ AllGood cfg D)

/-- the invariant of all reachable systems -/
structure Inv (cfg : Cfg) (D : List Nat) (sys : Sys) : Prop where
  defns : sys.s.defns = D
  entry : ∀ e, sys.s.entry = some e → e = D ∧ sys.s.table = D
  free : sys.lock = none → Safe sys.s
  holder : ∀ k, sys.lock = some k → ∃ t, sys.threads[k]? = some t ∧ Held t.pc
  pcs : ∀ j t, sys.threads[j]? = some t → PcOK cfg D sys.s sys.lock j t.pc

theorem PcOK_held {cfg : Cfg} {D : List Nat} {s : S} {lock : Option Nat} {i : Nat} {pc : PC}
    (h : PcOK cfg D s lock i pc) (hh : Held pc) : lock = some i := by
  cases pc <;> simp [Held] at hh <;> exact h.1

theorem PcOK_free {cfg : Cfg} {D : List Nat} {s : S} {lock : Option Nat} {i : Nat} {pc : PC}
    (s' : S) (lock' : Option Nat) (i' : Nat) (hm : s.entry = some D → s'.entry = some D)
    (h : PcOK cfg D s lock i pc) (hh : ¬ Held pc) : PcOK cfg D s' lock' i' pc := by
  cases pc <;> simp [Held] at hh <;> first | exact h | exact ⟨h.1, hm h.2⟩

theorem Inv.stepFree {cfg : Cfg} {D : List Nat} {sys : Sys} (h : Inv cfg D sys) {i : Nat} {t : Thread}
    (ht : sys.threads[i]? = some t) (hnh : ¬ Held t.pc) (pc' : PC)
    (hok : PcOK cfg D sys.s sys.lock i pc') :
    Inv cfg D { s := sys.s, lock := sys.lock, threads := sys.threads.set i { t with pc := pc' } } := by
  have hlt : i < sys.threads.length := by
    rcases List.getElem?_eq_some_iff.1 ht with ⟨hlt, _⟩; exact hlt
  refine ⟨h.defns, h.entry, h.free, ?_, ?_⟩
  · intro k hk
    obtain ⟨tk, htk, hheld⟩ := h.holder k hk
    have hne : i ≠ k := by
      intro hik; subst hik; rw [ht] at htk; cases htk; exact hnh hheld
    refine ⟨tk, ?_, hheld⟩
    show (sys.threads.set i _)[k]? = some tk
    rw [List.getElem?_set_ne hne]; exact htk
  · intro j tj htj
    change (sys.threads.set i _)[j]? = some tj at htj
    by_cases hij : i = j
    · subst hij
      rw [List.getElem?_set_self hlt] at htj
      cases htj; exact hok
    · rw [List.getElem?_set_ne hij] at htj
      exact h.pcs j tj htj

theorem Inv.stepLock {cfg : Cfg} {D : List Nat} {sys : Sys} (h : Inv cfg D sys) {i : Nat} {t : Thread}
    (ht : sys.threads[i]? = some t) (hl : sys.lock = none ∨ sys.lock = some i)
    (s' : S) (lock' : Option Nat) (pc' : PC) (hd : s'.defns = D)
    (he : ∀ e, s'.entry = some e → e = D ∧ s'.table = D)
    (hm : sys.s.entry = some D → s'.entry = some D)
    (hlk : (lock' = none ∧ Safe s' ∧ ¬ Held pc') ∨ (lock' = some i ∧ Held pc'))
    (hok : PcOK cfg D s' lock' i pc') :
    Inv cfg D { s := s', lock := lock', threads := sys.threads.set i { t with pc := pc' } } := by
  have hlt : i < sys.threads.length := by
    rcases List.getElem?_eq_some_iff.1 ht with ⟨hlt, _⟩; exact hlt
  refine ⟨hd, he, ?_, ?_, ?_⟩
  · intro hn
    rcases hlk with ⟨_, hs, _⟩ | ⟨hs, _⟩
    · exact hs
    · change lock' = none at hn; rw [hn] at hs; cases hs
  · intro k hk
    change lock' = some k at hk
    rcases hlk with ⟨hs, _, _⟩ | ⟨hs, hheld⟩
    · rw [hk] at hs; cases hs
    · rw [hk] at hs; cases hs
      refine ⟨{ t with pc := pc' }, ?_, hheld⟩
      show (sys.threads.set i _)[i]? = _
      rw [List.getElem?_set_self hlt]
  · intro j tj htj
    change (sys.threads.set i _)[j]? = some tj at htj
    by_cases hij : i = j
    · subst hij
      rw [List.getElem?_set_self hlt] at htj
      cases htj; exact hok
    · rw [List.getElem?_set_ne hij] at htj
      have hp := h.pcs j tj htj
      have hnh : ¬ Held tj.pc := by
        intro hheld
        have := PcOK_held hp hheld
        rcases hl with hl | hl
        · rw [hl] at this; cases this
        · rw [hl] at this; cases this; exact hij rfl
      exact PcOK_free _ _ _ hm hp hnh

theorem Inv.step {cfg : Cfg} {D : List Nat} {sys : Sys} (h : Inv cfg D sys) (i : Nat) :
    Inv cfg D (stepThread cfg sys i) := by
  unfold stepThread
  cases ht : sys.threads[i]? with
  | none => exact h
  | some t =>
    have hpc := h.pcs i t ht
    have hD := h.defns
    rcases t with ⟨r, pc⟩
    cases pc with
    | chk1 =>
      dsimp only
      split
      · exact h.stepFree ht (by simp [Held]) .disp trivial
      · exact h.stepFree ht (by simp [Held]) .acq trivial
    | acq =>
      dsimp only
      split
      · rename_i hl
        exact h.stepLock ht (Or.inl hl) _ _ .chk2 hD h.entry id (Or.inr ⟨rfl, trivial⟩) ⟨rfl, h.free hl⟩
      · rename_i j hl
        split
        · rename_i hji
          subst hji
          obtain ⟨tk, htk, hheld⟩ := h.holder _ hl
          rw [ht] at htk; cases htk
          simp [Held] at hheld
        · exact h
    | chk2 =>
      dsimp only
      obtain ⟨hl, hs⟩ := hpc
      split
      · exact h.stepLock ht (Or.inr hl) _ _ .rel hD h.entry id (Or.inr ⟨hl, trivial⟩) ⟨hl, hs⟩
      · rename_i hc
        refine h.stepLock ht (Or.inr hl) _ _ .bNew hD h.entry id (Or.inr ⟨hl, trivial⟩) ⟨hl, ?_⟩
        rcases hs with hs | hs
        · exact hs
        · exact absurd hs.1 hc
    | bNew =>
      dsimp only
      obtain ⟨hl, h1, h2⟩ := hpc
      refine h.stepLock ht (Or.inr hl) _ _ .bNames hD ?_ id (Or.inr ⟨hl, trivial⟩) ⟨hl, h1, h2, rfl⟩
      intro e he
      change sys.s.entry = some e at he
      rw [h1] at he; cases he
    | bNames =>
      dsimp only
      obtain ⟨hl, h1, h2, h3⟩ := hpc
      split
      · rename_i hn
        refine h.stepLock ht (Or.inr hl) _ _ (.bFill _) hD h.entry id (Or.inr ⟨hl, trivial⟩)
          ⟨hl, h1, h2, ?_, hD ▸ hn, ?_⟩
        · rw [h3, hD]; rfl
        · rw [h3]; intro d hd; cases hd
      · rename_i hn
        refine h.stepLock ht (Or.inr hl) _ _ .bFail hD h.entry id (Or.inr ⟨hl, trivial⟩) ⟨hl, h1, h2, ?_⟩
        intro hg
        rw [hD] at hn
        exact hn hg.1
    | bFill rest =>
      obtain ⟨hl, h1, h2, h3, h4, h5⟩ := hpc
      cases rest with
      | nil =>
        dsimp only
        refine h.stepLock ht (Or.inr hl) _ _ .bSwap hD h.entry id (Or.inr ⟨hl, trivial⟩)
          ⟨hl, h1, h2, by simpa using h3, h4, ?_⟩
        have : sys.s.table = D := by simpa using h3
        rw [← this]; exact h5
      | cons d rest =>
        dsimp only
        split
        · rename_i hb
          refine h.stepLock ht (Or.inr hl) _ _ .bFail hD h.entry id (Or.inr ⟨hl, trivial⟩) ⟨hl, h1, h2, ?_⟩
          intro hg
          have := hg.2 d (by rw [← h3]; simp)
          rw [this] at hb; cases hb
        · rename_i hb
          refine h.stepLock ht (Or.inr hl) _ _ (.bFill rest) hD ?_ id (Or.inr ⟨hl, trivial⟩)
            ⟨hl, h1, h2, ?_, h4, ?_⟩
          · intro e he
            change sys.s.entry = some e at he
            rw [h1] at he; cases he
          · show (sys.s.table ++ [d]) ++ rest = D
            simpa using h3
          · intro x hx
            change x ∈ sys.s.table ++ [d] at hx
            rcases List.mem_append.1 hx with hx | hx
            · exact h5 x hx
            · simp at hx; subst hx; simpa using hb
    | bSwap =>
      dsimp only
      obtain ⟨hl, h1, h2, h3, h4⟩ := hpc
      refine h.stepLock ht (Or.inr hl) _ _ .bFlag hD ?_ ?_ (Or.inr ⟨hl, trivial⟩) ⟨hl, ?_, h3, h2⟩
      · intro e he
        change some sys.s.defns = some e at he
        cases he
        exact ⟨hD, h3⟩
      · intro _
        show some sys.s.defns = some D
        rw [hD]
      · show some sys.s.defns = some D
        rw [hD]
    | bFlag =>
      dsimp only
      obtain ⟨hl, h1, h2, h3⟩ := hpc
      refine h.stepLock ht (Or.inr hl) _ _ .rel hD h.entry id (Or.inr ⟨hl, trivial⟩) ⟨hl, ?_⟩
      right
      refine ⟨rfl, ?_, ?_⟩
      · show sys.s.entry = some sys.s.defns
        rw [h1, hD]
      · show sys.s.table = sys.s.defns
        rw [h2, hD]
    | bFail =>
      dsimp only
      obtain ⟨hl, h0, _, h1⟩ := hpc
      have hsafe : Safe (handler sys.s) := Or.inl ⟨rfl, rfl⟩
      refine h.stepLock ht (Or.inr hl) _ _ (.done .error) hD ?_ ?_ (Or.inl ⟨rfl, hsafe, by simp [Held]⟩)
        (Or.inr ⟨rfl, h1⟩)
      · intro e he
        cases he
      · intro he
        rw [h0] at he; cases he
    | rel =>
      dsimp only
      obtain ⟨hl, h1⟩ := hpc
      exact h.stepLock ht (Or.inr hl) _ _ .disp hD h.entry id (Or.inl ⟨rfl, h1, by simp [Held]⟩) trivial
    | disp =>
      dsimp only
      split
      · rename_i e he
        exact h.stepFree ht (by simp [Held]) (.look e)
          ⟨(h.entry e he).1, (h.entry e he).1 ▸ he⟩
      · exact h.stepFree ht (by simp [Held]) .chk1 trivial
    | look e =>
      dsimp only
      obtain ⟨he, hen⟩ := hpc
      subst he
      rw [(h.entry e hen).2]
      exact h.stepFree ht (by simp [Held]) (.done (.served e e)) (Or.inl rfl)
    | done o => exact h

theorem Inv.run {cfg : Cfg} {D : List Nat} (sched : List Nat) : ∀ {sys : Sys}, Inv cfg D sys →
    Inv cfg D (run cfg sys sched) := by
  induction sched with
  | nil => intro sys h; exact h
  | cons i sched ih => intro sys h; exact ih (h.step i)

theorem Inv.init (cfg : Cfg) (s : S) (hs : Safe s) (routes : List Route) : Inv cfg s.defns (init s routes) := by
  refine ⟨rfl, ?_, fun _ => hs, ?_, ?_⟩
  · intro e he
    change s.entry = some e at he
    rcases hs with hs | hs
    · rw [hs.1] at he; cases he
    · rw [hs.2.1] at he; cases he; exact ⟨rfl, hs.2.2⟩
  · intro k hk; cases hk
  · intro j t ht
    change (routes.map _)[j]? = some t at ht
    rw [List.getElem?_map] at ht
    cases hr : routes[j]? with
    | none => rw [hr] at ht; cases ht
    | some r =>
      rw [hr] at ht; cases ht
      cases r <;> exact trivial

theorem Inv.reach (cfg : Cfg) (s : S) (hs : Safe s) (routes : List Route) (sched : List Nat) :
    Inv cfg s.defns (ConcBuild.run cfg (ConcBuild.init s routes) sched) :=
  (Inv.init cfg s hs routes).run sched

/-- **each call returns what it would have returned alone**: no spurious missing-method / ambiguity from a
    partially or doubly filled table -/
theorem C19_first_calls (cfg : Cfg) (s : S) (hs : Safe s) (routes : List Route) (sched : List Nat)
    (i : Nat) (r : Route) (o : Out)
    (hd : (run cfg (init s routes) sched).threads[i]? = some { route := r, pc := .done o }) :
    (o = .served s.defns s.defns) ∨ (o = .error ∧ ¬ AllGood cfg s.defns) :=
  (Inv.reach cfg s hs routes sched).pcs i _ hd

/-- **the function is left in a correct state**: whenever the lock is free the shared state is `Safe`, with the
    definitions unchanged -/
theorem C19_state_safe (cfg : Cfg) (s : S) (hs : Safe s) (routes : List Route) (sched : List Nat)
    (hl : (run cfg (init s routes) sched).lock = none) :
    Safe (run cfg (init s routes) sched).s ∧ (run cfg (init s routes) sched).s.defns = s.defns :=
  ⟨(Inv.reach cfg s hs routes sched).free hl, (Inv.reach cfg s hs routes sched).defns⟩

/-- a thread that is not finished and is not waiting for a lock held by somebody else moves -/
theorem stepThread_moves (cfg : Cfg) (sys : Sys) (j : Nat) (t : Thread) (ht : sys.threads[j]? = some t)
    (hnd : ∀ o, t.pc ≠ .done o) (hacq : t.pc = .acq → sys.lock = none ∨ sys.lock = some j) :
    stepThread cfg sys j ≠ sys := by
  intro heq
  have hlt : j < sys.threads.length := by
    rcases List.getElem?_eq_some_iff.1 ht with ⟨hlt, _⟩; exact hlt
  have hpc : ((stepThread cfg sys j).threads[j]?).map (·.pc) = some t.pc := by rw [heq, ht]; rfl
  unfold stepThread at hpc
  rw [ht] at hpc
  rcases t with ⟨r, pc⟩
  cases pc with
  | chk1 => dsimp only at hpc; split at hpc <;> simp [List.getElem?_set_self hlt] at hpc
  | acq =>
    dsimp only at hpc
    rcases hacq rfl with hl | hl <;> rw [hl] at hpc <;> simp [List.getElem?_set_self hlt] at hpc
  | chk2 => dsimp only at hpc; split at hpc <;> simp [List.getElem?_set_self hlt] at hpc
  | bNew => simp [List.getElem?_set_self hlt] at hpc
  | bNames => dsimp only at hpc; split at hpc <;> simp [List.getElem?_set_self hlt] at hpc
  | bFill rest =>
    cases rest with
    | nil => simp [List.getElem?_set_self hlt] at hpc
    | cons d rest => dsimp only at hpc; split at hpc <;> simp [List.getElem?_set_self hlt] at hpc
  | bSwap => simp [List.getElem?_set_self hlt] at hpc
  | bFlag => simp [List.getElem?_set_self hlt] at hpc
  | bFail => simp [List.getElem?_set_self hlt] at hpc
  | rel => simp [List.getElem?_set_self hlt] at hpc
  | disp => dsimp only at hpc; split at hpc <;> simp [List.getElem?_set_self hlt] at hpc
  | look e => simp [List.getElem?_set_self hlt] at hpc
  | done o => exact hnd o rfl

/-- no deadlock: as long as some thread has not finished, some thread can move.
    (The binder types `(i : Nat) (t : Thread)` are spelled out: with `∃ i t, …` as first written the statement did not
    elaborate — `t.pc` before the type of `t` is known; the meaning is unchanged.) -/
theorem C19_progress (cfg : Cfg) (s : S) (hs : Safe s) (routes : List Route) (sched : List Nat)
    (hnd : ∃ (i : Nat) (t : Thread), (run cfg (init s routes) sched).threads[i]? = some t ∧ ∀ o, t.pc ≠ .done o) :
    ∃ j, stepThread cfg (run cfg (init s routes) sched) j ≠ run cfg (init s routes) sched := by
  have hinv := Inv.reach cfg s hs routes sched
  generalize run cfg (init s routes) sched = sys at hnd hinv
  obtain ⟨i, t, ht, hnd⟩ := hnd
  cases hl : sys.lock with
  | none => exact ⟨i, stepThread_moves cfg sys i t ht hnd (fun _ => Or.inl hl)⟩
  | some k =>
    obtain ⟨tk, htk, hheld⟩ := hinv.holder k hl
    refine ⟨k, stepThread_moves cfg sys k tk htk ?_ ?_⟩
    · intro o ho; rw [ho] at hheld; simp [Held] at hheld
    · intro ho; rw [ho] at hheld; simp [Held] at hheld

/-- non-vacuity: two threads racing the first call of a two-method function, pre-empted in the middle of the fill -/
example :
    let cfg : Cfg := ⟨fun _ => false, fun _ => true⟩
    let s : S := { defns := [1, 2] }
    let sys := run cfg (init s [.obj, .fn]) [0, 0, 0, 0, 0, 0, 1, 1, 1, 1, 1, 0, 0, 0, 0, 0, 0, 0, 1, 1, 1, 1, 1, 1, 1]
    sys.threads.map (·.pc) = [.done (.served [1, 2] [1, 2]), .done (.served [1, 2] [1, 2])] := by
  decide

end Ovld.ConcBuild
