/-!
# Layer A (1/3): `ovld.mro.Order`

Mirrors `src/ovld/mro.py` L9-33: the four-valued result of `typeorder`, `opposite`,
and `merge` (which works on the *set* of its inputs; the empty set yields `LESS`,
exactly as the code does because `set() - {LESS, SAME}` is empty).
-/
set_option autoImplicit false

namespace Ovld

inductive TOrd | less | more | same | none
deriving DecidableEq, Repr, Inhabited

namespace TOrd

def opposite : TOrd → TOrd
  | less => more | more => less | o => o

@[simp] theorem opp_opp (o : TOrd) : o.opposite.opposite = o := by cases o <;> rfl

def isSame : TOrd → Bool | same => true | _ => false
def isLS : TOrd → Bool | less => true | same => true | _ => false
def isMS : TOrd → Bool | more => true | same => true | _ => false
def isNone : TOrd → Bool | none => true | _ => false

/-- `Order.merge` (mro.py L23-33). -/
def merge (os : List TOrd) : TOrd :=
  if !os.isEmpty && os.all isSame then same
  else if os.all isLS then less
  else if os.all isMS then more
  else none

def code : TOrd → String
  | less => "L" | more => "M" | same => "S" | none => "N"

end TOrd

/-- result of evaluating a user condition or a generated check: true, false, or an exception -/
inductive Tri | yes | no | raises
deriving DecidableEq, Repr, Inhabited

def Tri.ofBool (b : Bool) : Tri := if b then .yes else .no

/-- result of the two `issubclass` tests at the end of `typeorder` (mro.py L96-106) -/
def ofSub (sx sy : Bool) : TOrd :=
  if sx && sy then .same else if sx then .less else if sy then .more else .none

theorem ofSub_comm (x y : Bool) : ofSub y x = (ofSub x y).opposite := by
  cases x <;> cases y <;> rfl

end Ovld
