import Ovldverif.Spec.Resolve
import Ovldverif.Spec.Types
import Ovldverif.Props.C13
import Ovldverif.Lemmas.Fuel
import Ovldverif.Props.C06
/-!
# C02 — the documented rule read up to mutual subclassing is the documented rule

`Spec/Resolve.lean` states the rule twice: with "the same type" read as equality (`specResolve`, the form
`C02_partial` / `C06` / `C07` are proved for, under `Hier.Antisym`) and read as "each a subclass of the other"
(`specResolveE`, which the harness also applies to hierarchies with structurally identical protocols).  Under the
hypotheses of `C02_partial` — a well-formed antisymmetric hierarchy, declared types plain classes — the two are the
same function, for every method set and every key.
-/
set_option autoImplicit false
namespace Ovld

variable (H : Hier)

theorem tyAt_isCls {ms : List Meth} (hst : staticTable ms = true) {m : Meth} (hm : m ∈ ms) {s : Slot} {t : Ty}
    (h : m.tyAt s = some t) : t.isCls = true := by
  unfold Meth.tyAt at h
  split at h
  · rename_i p hp
    injection h with h
    have hmem := List.mem_of_find?_eq_some hp
    unfold staticTable at hst
    have := List.all_eq_true.mp (List.all_eq_true.mp hst m hm) p hmem
    rw [← h]; exact this
  · cases h

theorem eqvTy_cls (wf : H.WF) (anti : H.Antisym) (a b : Nat) :
    eqvTy H (.cls a) (.cls b) = (Ty.cls a == Ty.cls b) := by
  unfold eqvTy leTy
  by_cases e : a = b
  · subst e; simp
  · have h1 : (Ty.cls a == Ty.cls b) = false := by
      apply beq_eq_false_iff_ne.2; intro h; injection h with h; exact e h
    have h2 : (Ty.cls b == Ty.cls a) = false := by
      apply beq_eq_false_iff_ne.2; intro h; injection h with h; exact e h.symm
    rw [h1, h2, C13_cls H wf, C13_cls H wf]
    cases hab : H.sub a b <;> cases hba : H.sub b a <;> simp
    exact e (anti a b hab hba)

theorem sameTypesAtE_eq (wf : H.WF) (anti : H.Antisym) {ms : List Meth} (hst : staticTable ms = true)
    (k : Key) {m m' : Meth} (hm : m ∈ ms) (hm' : m' ∈ ms) :
    sameTypesAtE H k m m' = sameTypesAt k m m' := by
  unfold sameTypesAtE sameTypesAt
  apply all_congr_mem
  intro e _
  cases h1 : m.tyAt e.1 with
  | none => cases h2 : m'.tyAt e.1 <;> simp
  | some t =>
    cases h2 : m'.tyAt e.1 with
    | none => simp
    | some t' =>
      have c1 := tyAt_isCls hst hm h1
      have c2 := tyAt_isCls hst hm' h2
      cases t <;> simp [Ty.isCls] at c1
      cases t' <;> simp [Ty.isCls] at c2
      rename_i a b
      simp only [eqvTy_cls H wf anti]
      by_cases e : a = b
      · subst e; simp
      · have : (Ty.cls a == Ty.cls b) = false := by
          apply beq_eq_false_iff_ne.2; intro h; injection h with h; exact e h
        simp [this]

theorem mem_of_applicable {ms : List Meth} {k : Key} {m : Meth} (h : m ∈ applicable H ms k) : m ∈ ms :=
  (List.mem_filter.1 h).1

theorem beatsE_eq (wf : H.WF) (anti : H.Antisym) {ms : List Meth} (hst : staticTable ms = true)
    (k : Key) {m m' : Meth} (hm : m ∈ ms) (hm' : m' ∈ ms) : beatsE H k m m' = beats H k m m' := by
  unfold beatsE beats
  rw [sameTypesAtE_eq H wf anti hst k hm hm']

theorem winnersE_eq (wf : H.WF) (anti : H.Antisym) {ms : List Meth} (hst : staticTable ms = true) (k : Key) :
    winnersE H ms k = winners H ms k := by
  unfold winnersE winners
  apply List.filter_congr
  intro m hm
  apply all_congr_mem
  intro m' hm'
  rw [beatsE_eq H wf anti hst k (mem_of_applicable H hm) (mem_of_applicable H hm')]

/-- **on the hierarchies of `C02_partial` the two readings of the rule coincide** -/
theorem C02_specE_eq (wf : H.WF) (anti : H.Antisym) (ms : List Meth) (hst : staticTable ms = true) (k : Key) :
    specResolveE H ms k = specResolve H ms k := by
  unfold specResolveE specResolve
  rw [winnersE_eq H wf anti hst k]

theorem C02_tieE_eq (wf : H.WF) (anti : H.Antisym) (ms : List Meth) (hst : staticTable ms = true) (k : Key) :
    sigTieOKE H ms k = sigTieOK H ms k := by
  unfold sigTieOKE sigTieOK
  apply all_congr_mem
  intro m hm
  apply all_congr_mem
  intro m' hm'
  rw [sameTypesAtE_eq H wf anti hst k (mem_of_applicable H hm) (mem_of_applicable H hm')]

theorem staticTable_filter {ms : List Meth} (hst : staticTable ms = true) (p : Meth → Bool) :
    staticTable (ms.filter p) = true := by
  unfold staticTable at *
  rw [List.all_eq_true] at *
  intro m hm
  exact hst m (List.mem_filter.1 hm).1

/-- … and so do the two readings of what `call_next` must do (C07) -/
theorem C07_nextSpecE_eq (wf : H.WF) (anti : H.Antisym) (ms : List Meth) (hst : staticTable ms = true)
    (code : Nat) (k : Key) : nextSpecE H ms code k = nextSpec H ms code k := by
  unfold nextSpecE nextSpec
  split
  · exact C02_specE_eq H wf anti ms hst k
  · rename_i cur hcur
    have hc : cur ∈ ms := mem_of_applicable H (List.mem_of_find?_eq_some hcur)
    have hf : ms.filter (fun m => !(m.id == cur.id || (applicableTo H k m && beatsE H k m cur))) =
        ms.filter (fun m => !(m.id == cur.id || (applicableTo H k m && beats H k m cur))) := by
      apply List.filter_congr
      intro m hm
      rw [beatsE_eq H wf anti hst k hm hc]
    rw [hf]
    exact C02_specE_eq H wf anti _ (staticTable_filter hst _) k

/-! ### the rule read up to mutual subclassing is, like the other reading, a function of the applicable entries

so it does not depend on the order of registration and ignores entries that are not applicable — on EVERY hierarchy
(no antisymmetry, no well-formedness needed): the oracle the harness applies to twin-protocol worlds is itself
order-independent. -/

theorem winnersE_perm_of_applicable (ms ms' : List Meth) (k : Key)
    (hap : (applicable H ms' k).Perm (applicable H ms k)) :
    (winnersE H ms' k).Perm (winnersE H ms k) := by
  unfold winnersE
  have hf : (fun m : Meth => (applicable H ms' k).all (fun m' => m'.id == m.id || beatsE H k m m')) =
      (fun m : Meth => (applicable H ms k).all (fun m' => m'.id == m.id || beatsE H k m m')) := by
    funext m
    exact hap.all_eq
  show (List.filter _ (applicable H ms' k)).Perm (List.filter _ (applicable H ms k))
  rw [hf]
  exact hap.filter _

theorem specResolveE_of_applicable_perm (ms ms' : List Meth) (k : Key)
    (hap : (applicable H ms' k).Perm (applicable H ms k)) :
    specResolveE H ms' k = specResolveE H ms k := by
  have hw := winnersE_perm_of_applicable H ms ms' k hap
  have he := hap.isEmpty_eq
  unfold specResolveE
  rw [he]
  generalize winnersE H ms' k = l' at hw
  generalize winnersE H ms k = l at hw
  match l, hw with
  | [], hw =>
    have : l' = [] := List.Perm.eq_nil hw
    subst this
    rfl
  | [w], hw =>
    have : l' = [w] := List.perm_singleton.mp hw
    subst this
    rfl
  | a :: b :: r, hw =>
    have hl := hw.length_eq
    match l', hl with
    | a' :: b' :: r', _ => rfl

/-- the rule read up to mutual subclassing does not depend on the order of registration, on any hierarchy -/
theorem C06_specE_perm (ms ms' : List Meth) (hp : ms'.Perm ms) (k : Key) :
    specResolveE H ms' k = specResolveE H ms k :=
  specResolveE_of_applicable_perm H ms ms' k (applicable_perm H ms ms' hp k)

/-- … and ignores entries that are not applicable to the call -/
theorem C06_specE_irrelevant (ms extra : List Meth) (k : Key)
    (hx : ∀ m ∈ extra, applicableTo H k m = false) :
    specResolveE H (ms ++ extra) k = specResolveE H ms k := by
  apply specResolveE_of_applicable_perm
  rw [applicable_append_irrelevant H ms extra k hx]

/-- outside antisymmetry the readings differ — twin protocols 1 and 2 (each a subclass of the other), methods on
    `(1, 2)` and `(2, 1)`: read with equality each beats the other and both "win"; read up to mutual subclassing
    neither beats the other.  Both readings say ambiguous here; with a third method on `(1, 2)` whose signature
    differs from the first (an optional parameter) the equality reading names the `(2, 1)` method the winner. -/
theorem C02_twin_readings_differ :
    let Hx : Hier := { sub := fun a b => a == b || b == 0 || (a == 1 && b == 2) || (a == 2 && b == 1) || (a == 3 && (b == 1 || b == 2)),
                       hasAttr := fun _ _ => false, pred := fun _ _ => false }
    let m1 : Meth := { id := 1, code := 1, params := [(.pos 0, .cls 1), (.pos 1, .cls 2)], reqPos := 2, maxPos := 2, reqNames := [], prio := 0, tb := 0 }
    let m2 : Meth := { id := 2, code := 2, params := [(.pos 0, .cls 2), (.pos 1, .cls 1)], reqPos := 2, maxPos := 2, reqNames := [], prio := 0, tb := 0 }
    let m3 : Meth := { id := 3, code := 3, params := [(.pos 0, .cls 1), (.pos 1, .cls 2)], reqPos := 1, maxPos := 2, reqNames := [], prio := 0, tb := 0 }
    let k : Key := [(.pos 0, .cls 3), (.pos 1, .cls 3)]
    specResolve Hx [m1, m2, m3] k = .ran 2 ∧ specResolveE Hx [m1, m2, m3] k = .ambiguous := by
  decide

end Ovld
