import Ovldverif.Props.C11
import Ovldverif.Lemmas.C11Core
/-!
# C11 — `tuple[...]` element types and `|` / `&` combinations: generated code agrees with `isinstance`
-/
set_option autoImplicit false
namespace Ovld

/-! ## 1. product types -/

theorem C11_prod (W : DWorld) (ps : List Ty) (b : Ty) (v : DVal)
    (hb : isinstanceOf W b v = .yes) (hseq : v.kind = .seq) :
    genCheck W (.prod ps b) v = isinstanceOf W (.prod ps b) v := by
  rw [genCheck_prod, isinstanceOf_prod, hb]
  simp only [evalAtom, hseq]
  by_cases hl : v.elems.length = ps.length
  · have := zipIdx_elems (fun p o => match o with | some e => isinstanceOf W p e | none => Tri.raises)
      ps v.elems [] hl.symm
    simp only [List.length_nil, List.nil_append] at this
    have e : (VKind.seq == VKind.plain) = false := rfl
    simp only [hl, bne_self_eq_false, Bool.false_eq_true, if_false, beq_self_eq_true, Tri.ofBool, if_true, e]
    show instOf.allTri (List.map _ ps.zipIdx) = _
    exact congrArg instOf.allTri this
  · simp [hl, Tri.ofBool, instOf.allTri]

/-- exactly which values inside the bound the generated check of `tuple[...]` gets right -/
theorem C11_prod_iff (W : DWorld) (ps : List Ty) (b : Ty) (v : DVal) (hb : isinstanceOf W b v = .yes) :
    genCheck W (.prod ps b) v = isinstanceOf W (.prod ps b) v ↔
      (v.kind = .seq ∨ (v.kind = .sized ∧ v.elems.length ≠ ps.length)) := by
  constructor
  · intro h
    rw [genCheck_prod, isinstanceOf_prod, hb] at h
    cases hk : v.kind with
    | seq => exact Or.inl rfl
    | plain => simp [evalAtom, hk, instOf.allTri] at h
    | sized =>
      refine Or.inr ⟨rfl, fun hl => ?_⟩
      cases ps with
      | nil => simp [evalAtom, hk, hl, instOf.allTri, Tri.ofBool] at h
      | cons p ps => simp [evalAtom, hk, hl, instOf.allTri, Tri.ofBool, List.zipIdx_cons] at h
  · rintro (hk | ⟨hk, hl⟩)
    · exact C11_prod W ps b v hb hk
    · rw [genCheck_prod, isinstanceOf_prod, hb]
      simp [evalAtom, hk, hl, instOf.allTri, Tri.ofBool]

/-! ## 4. guardable types: the guarded, parenthesised member code is `isinstance` -/

/-- for every guardable type (see `Guardable`: classes and other types without `codegen`, `Literal` /
    `FuncDependentType` / `tuple[...]` over a guardable bound that is not itself value-dependent, and all unions
    and intersections of guardable types, nested to any depth) the code emitted for it as a member of a
    Union / Intersection is exactly `isinstance`: same answer, same exceptions, same short-circuit.

    `htop` (every class is a subclass of `object`): no guard is emitted for the bound `object`. -/
theorem C11_guardable (W : DWorld) (v : DVal) (htop : W.H.sub v.cls 0 = true) (t : Ty)
    (g : Guardable W v t) :
    memberCheck W (t.size + 1) t v = isinstanceOf W t v :=
  memberCheck_guardable_aux W v htop t.size t g (Nat.le_refl _)

/-- the fuel of `memberCheck` is immaterial once it exceeds the size of the type -/
theorem C11_guardable_fuel (W : DWorld) (v : DVal) (htop : W.H.sub v.cls 0 = true) (t : Ty)
    (g : Guardable W v t) (f : Nat) (hf : t.size < f) :
    memberCheck W f t v = isinstanceOf W t v := by
  cases f with
  | zero => omega
  | succ n => exact memberCheck_guardable_aux W v htop n t g (by omega)

/-- `ms ≠ []`: the code of an empty Union is the empty string; the model evaluates the empty expression to
    `yes` while `isinstance(v, Union[()])` is `no` (see the example below) -/
theorem C11_union_guardable (W : DWorld) (v : DVal) (htop : W.H.sub v.cls 0 = true) (ms : List Ty)
    (hne : ms ≠ []) (hm : ∀ m ∈ ms, Guardable W v m) :
    genCheck W (.union ms) v = isinstanceOf W (.union ms) v := by
  cases ms with
  | nil => exact absurd rfl hne
  | cons m ms =>
    rw [genCheck_union, isinstanceOf_union]
    congr 1
    apply List.map_congr_left
    intro m' hm'
    exact C11_guardable W v htop m' (hm m' hm')

theorem C11_inter_guardable (W : DWorld) (v : DVal) (htop : W.H.sub v.cls 0 = true) (ms : List Ty)
    (hm : ∀ m ∈ ms, Guardable W v m) :
    genCheck W (.inter ms) v = isinstanceOf W (.inter ms) v := by
  rw [genCheck_inter, isinstanceOf_inter]
  congr 1
  apply List.map_congr_left
  intro m' hm'
  exact C11_guardable W v htop m' (hm m' hm')

/-- the generated *top-level* check of any guardable type, for a value inside the type's bound (the bound of
    a top-level value-dependent type is tested by the type-level stage of dispatch, not by the generated code) -/
theorem C11_genCheck_guardable (W : DWorld) (v : DVal) (htop : W.H.sub v.cls 0 = true) (t : Ty)
    (g : Guardable W v t) (hne : t ≠ .union [])
    (hb : ∀ b, t.bound? = some b → isinstanceOf W b v = .yes) :
    genCheck W t v = isinstanceOf W t v := by
  cases g with
  | cls c => exact genCheck_single W _ (.inst _) v (by simp only [toks])
  | exactly tag c => exact genCheck_single W _ (.inst _) v (by simp only [toks])
  | strict tag c => exact genCheck_single W _ (.inst _) v (by simp only [toks])
  | hasm tag m => exact genCheck_single W _ (.inst _) v (by simp only [toks])
  | pred tag k => exact genCheck_single W _ (.inst _) v (by simp only [toks])
  | lit keys b gb hnd => exact (C11_literal W keys b v (hb b rfl)).1
  | fdep fn ps b gb hnd => exact C11_fdep W fn ps b v (hb b rfl)
  | prod ps b gb hnd hq => exact C11_prod W ps b v (hb b rfl) (hq (hb b rfl))
  | union ms gm => exact C11_union_guardable W v htop ms (fun e => hne (by rw [e])) gm
  | inter ms gm => exact C11_inter_guardable W v htop ms gm

/-! ## 2. / 3. unions and intersections of classes and class-bounded value-dependent types -/

/-- a plain class, or a `Literal` / `FuncDependentType` whose bound is a class -/
def ClassBounded (t : Ty) : Prop :=
  (∃ c, t = .cls c) ∨ (∃ keys c, t = .lit keys (.cls c)) ∨ (∃ fn ps c, t = .fdep fn ps (.cls c))

theorem ClassBounded.guardable (W : DWorld) (v : DVal) {t : Ty} (h : ClassBounded t) : Guardable W v t := by
  rcases h with ⟨c, rfl⟩ | ⟨keys, c, rfl⟩ | ⟨fn, ps, c, rfl⟩
  · exact .cls c
  · exact .lit keys _ (.cls c) rfl
  · exact .fdep fn ps _ (.cls c) rfl

theorem C11_union (W : DWorld) (v : DVal) (htop : W.H.sub v.cls 0 = true) (ms : List Ty)
    (hne : ms ≠ []) (hm : ∀ m ∈ ms, ClassBounded m) :
    genCheck W (.union ms) v = isinstanceOf W (.union ms) v :=
  C11_union_guardable W v htop ms hne (fun m h => (hm m h).guardable W v)

theorem C11_inter (W : DWorld) (v : DVal) (htop : W.H.sub v.cls 0 = true) (ms : List Ty)
    (hm : ∀ m ∈ ms, ClassBounded m) :
    genCheck W (.inter ms) v = isinstanceOf W (.inter ms) v :=
  C11_inter_guardable W v htop ms (fun m h => (hm m h).guardable W v)

/-- one level of nesting: a union of class-bounded members and intersections of such -/
theorem C11_nested_union (W : DWorld) (v : DVal) (htop : W.H.sub v.cls 0 = true) (ms : List Ty)
    (hne : ms ≠ [])
    (hm : ∀ m ∈ ms, ClassBounded m ∨ ∃ ns, m = .inter ns ∧ ∀ n ∈ ns, ClassBounded n) :
    genCheck W (.union ms) v = isinstanceOf W (.union ms) v := by
  apply C11_union_guardable W v htop ms hne
  intro m h
  rcases hm m h with hc | ⟨ns, rfl, hn⟩
  · exact hc.guardable W v
  · exact .inter ns (fun n h' => (hn n h').guardable W v)

/-- one level of nesting: an intersection of class-bounded members and unions of such -/
theorem C11_nested_inter (W : DWorld) (v : DVal) (htop : W.H.sub v.cls 0 = true) (ms : List Ty)
    (hm : ∀ m ∈ ms, ClassBounded m ∨ ∃ ns, m = .union ns ∧ ∀ n ∈ ns, ClassBounded n) :
    genCheck W (.inter ms) v = isinstanceOf W (.inter ms) v := by
  apply C11_inter_guardable W v htop ms
  intro m h
  rcases hm m h with hc | ⟨ns, rfl, hn⟩
  · exact hc.guardable W v
  · exact .union ns (fun n h' => (hn n h').guardable W v)

/-! ## the hypotheses are satisfiable; the excluded corners are real -/

/-- classes `0` (`object`), `1`, `2`, `5` (`tuple`), every class below `object`; user condition `3` holds for
    the value of identity `1` only, condition `4` raises -/
def exW : DWorld :=
  { H := { sub := fun a b => a == b || b == 0, hasAttr := fun _ _ => false, pred := fun _ _ => false },
    metaOf := fun _ => 0,
    chk := fun fn _ vid => if fn == 4 then .raises else if vid == 1 then .yes else .no }

/-- the tuple `(x, y)`: `x` of class 1 and equality class 7, `y` of class 2 -/
def exTuple : DVal := .mk 1 5 70 .seq [.mk 2 1 7 .plain [], .mk 3 2 8 .plain []]
/-- a sized non-sequence (a `set`, a `dict`) -/
def exSized : DVal := .mk 4 5 71 .sized []
def exPlain : DVal := .mk 5 1 7 .plain []

-- C11_prod: hypotheses hold, both sides answer `yes`; an element test that fails / a wrong length: `no`
example : isinstanceOf exW (.cls 5) exTuple = .yes ∧ exTuple.kind = .seq ∧
    genCheck exW (.prod [.lit [7] (.cls 1), .cls 2] (.cls 5)) exTuple = .yes ∧
    isinstanceOf exW (.prod [.lit [7] (.cls 1), .cls 2] (.cls 5)) exTuple = .yes ∧
    genCheck exW (.prod [.cls 2, .cls 2] (.cls 5)) exTuple = .no ∧
    genCheck exW (.prod [.cls 1] (.cls 5)) exTuple = .no := by decide

-- an element test that raises (condition 4) propagates on both sides, after the tests to its left
example : genCheck exW (.prod [.cls 1, .fdep 4 [] (.cls 2)] (.cls 5)) exTuple = .raises ∧
    isinstanceOf exW (.prod [.cls 1, .fdep 4 [] (.cls 2)] (.cls 5)) exTuple = .raises ∧
    genCheck exW (.prod [.cls 2, .fdep 4 [] (.cls 2)] (.cls 5)) exTuple = .no := by decide

-- C11_prod needs `v.kind = .seq`: a sized non-sequence of the right length inside the bound
example : isinstanceOf exW (.cls 5) exSized = .yes ∧
    genCheck exW (.prod [] (.cls 5)) exSized = .yes ∧ isinstanceOf exW (.prod [] (.cls 5)) exSized = .no := by
  decide

-- ... and a value without `len()` inside the bound `object`
example : isinstanceOf exW (.cls 0) exPlain = .yes ∧
    genCheck exW (.prod [.cls 1] (.cls 0)) exPlain = .raises ∧
    isinstanceOf exW (.prod [.cls 1] (.cls 0)) exPlain = .no := by decide

-- C11_prod needs the bound: outside it the top-level code still looks at the elements
example : isinstanceOf exW (.cls 1) exTuple = .no ∧
    genCheck exW (.prod [.cls 1, .cls 2] (.cls 1)) exTuple = .yes ∧
    isinstanceOf exW (.prod [.cls 1, .cls 2] (.cls 1)) exTuple = .no := by decide

-- `htop` holds in `exW`
example : exW.H.sub exPlain.cls 0 = true ∧ exW.H.sub exTuple.cls 0 = true := by decide

-- a guardable type with two levels of nesting and a guarded `tuple[...]` member
example : Guardable exW exPlain
    (.union [.cls 2, .inter [.lit [7] (.cls 1), .union [.fdep 3 [] (.cls 2), .fdep 4 [] (.cls 1)]],
             .prod [.cls 1] (.cls 5)]) := by
  refine .union _ fun m hm => ?_
  simp only [List.mem_cons, List.not_mem_nil, or_false] at hm
  rcases hm with rfl | rfl | rfl
  · exact .cls 2
  · refine .inter _ fun m hm => ?_
    simp only [List.mem_cons, List.not_mem_nil, or_false] at hm
    rcases hm with rfl | rfl
    · exact .lit _ _ (.cls 1) rfl
    · refine .union _ fun m hm => ?_
      simp only [List.mem_cons, List.not_mem_nil, or_false] at hm
      rcases hm with rfl | rfl
      · exact .fdep _ _ _ (.cls 2) rfl
      · exact .fdep _ _ _ (.cls 1) rfl
  · exact .prod _ _ (.cls 5) rfl (by decide)

-- ... on which the member code and `isinstance` both raise (condition 4 is reached inside its bound)
example : genCheck exW
    (.union [.cls 2, .inter [.lit [7] (.cls 1), .union [.fdep 3 [] (.cls 2), .fdep 4 [] (.cls 1)]],
             .prod [.cls 1] (.cls 5)]) exPlain = .raises := by decide

-- `ClassBounded` members
example : ∀ m ∈ [Ty.cls 2, .lit [7] (.cls 1), .fdep 3 [] (.cls 0)], ClassBounded m := by
  intro m hm
  simp only [List.mem_cons, List.not_mem_nil, or_false] at hm
  rcases hm with rfl | rfl | rfl
  · exact Or.inl ⟨_, rfl⟩
  · exact Or.inr (Or.inl ⟨_, _, rfl⟩)
  · exact Or.inr (Or.inr ⟨_, _, _, rfl⟩)

-- C11_union needs `ms ≠ []`
example : genCheck exW (.union []) exPlain = .yes ∧ isinstanceOf exW (.union []) exPlain = .no := by decide

-- `Guardable` needs a bound that is not value-dependent itself: the code of the bound is emitted without the
-- bound's own guard (`Literal[7]` of class 2 as the bound; the value is `7` of class 1)
example : memberCheck exW ((Ty.lit [7] (.lit [7] (.cls 2))).size + 1) (.lit [7] (.lit [7] (.cls 2))) exPlain = .yes ∧
    isinstanceOf exW (.lit [7] (.lit [7] (.cls 2))) exPlain = .no := by decide

-- `Guardable` excludes parameterized generics: `isinstance(v, list[int])` raises, the member code does not
example : memberCheck exW ((Ty.gen 1 [.cls 2]).size + 1) (.gen 1 [.cls 2]) exPlain ≠ .raises ∧
    isinstanceOf exW (.gen 1 [.cls 2]) exPlain = .raises := by decide

-- a guarded `tuple[...]` member needs a bound that accepts sequences only
example : isinstanceOf exW (.cls 5) exSized = .yes ∧ exSized.kind ≠ .seq ∧
    memberCheck exW ((Ty.prod [] (.cls 5)).size + 1) (.prod [] (.cls 5)) exSized = .yes ∧
    isinstanceOf exW (.prod [] (.cls 5)) exSized = .no := by decide

end Ovld
