import Ovldverif.Model.Graph
/-!
# Graph of functions: projections, `get`/`set`, frame lemmas (unconditional), `defns` congruence

Everything here holds for arbitrary graphs (no well-formedness needed).
-/
set_option autoImplicit false
namespace Ovld

/-! ## projections of a graph -/

def Graph.len (g : Graph) : Nat := g.nodes.length
def Graph.mx (g : Graph) : Nat → List Nat := fun k => (g.get k).mixins
def Graph.ch (g : Graph) : Nat → List Nat := fun k => (g.get k).children
def Graph.lk (g : Graph) : Nat → Bool := fun k => (g.get k).locked
def Graph.cp (g : Graph) : Nat → Bool := fun k => (g.get k).compiled
def Graph.bt (g : Graph) : Nat → List (Def × Int) := fun k => (g.get k).built
def Graph.ow (g : Graph) : Nat → List (Def × Int) := fun k => (g.get k).own

/-! ## `get` / `set` -/

theorem Graph.len_set (g : Graph) (n : Nat) (x : Node) : (g.set n x).len = g.len := by
  simp [Graph.set, Graph.len]

theorem Graph.get_of_ge (g : Graph) (k : Nat) (h : g.nodes.length ≤ k) : g.get k = default := by
  simp [Graph.get, List.getElem?_eq_none h]

theorem Graph.get_set (g : Graph) (n : Nat) (x : Node) (k : Nat) :
    (g.set n x).get k = if k = n ∧ n < g.nodes.length then x else g.get k := by
  unfold Graph.get Graph.set
  simp only [List.getElem?_map, List.getElem?_zipIdx]
  cases hk : g.nodes[k]? with
  | none =>
    have : g.nodes.length ≤ k := by simpa using hk
    have h2 : ¬ (k = n ∧ n < g.nodes.length) := by omega
    simp [h2]
  | some y =>
    have : k < g.nodes.length := by
      rcases List.getElem?_eq_some_iff.mp hk with ⟨h, _⟩; exact h
    by_cases hkn : k = n
    · subst hkn; simp [this]
    · simp [hkn]

theorem Graph.proj_set {α : Type} (p : Node → α) (g : Graph) (n : Nat) (x : Node) (h : p x = p (g.get n)) :
    (fun k => p ((g.set n x).get k)) = fun k => p (g.get k) := by
  funext k
  rw [Graph.get_set]
  split
  · next hk => rw [hk.1]; exact h
  · rfl

theorem Graph.proj_set_at {α : Type} (p : Node → α) (g : Graph) (n : Nat) (x : Node) (k : Nat) :
    p ((g.set n x).get k) = if k = n ∧ n < g.nodes.length then p x else p (g.get k) := by
  rw [Graph.get_set]; split <;> rfl

/-! ## relations between graphs -/

/-- same static structure: nodes, own definitions, edges -/
structure Shape (g g' : Graph) : Prop where
  len : g'.len = g.len
  mx : g'.mx = g.mx
  ch : g'.ch = g.ch
  ow : g'.ow = g.ow

theorem Shape.refl (g : Graph) : Shape g g := ⟨rfl, rfl, rfl, rfl⟩
theorem Shape.trans {a b c : Graph} (h1 : Shape a b) (h2 : Shape b c) : Shape a c :=
  ⟨h2.len.trans h1.len, h2.mx.trans h1.mx, h2.ch.trans h1.ch, h2.ow.trans h1.ow⟩

/-- only `locked` flags changed, and only upwards -/
structure Frame (g g' : Graph) : Prop where
  shape : Shape g g'
  cp : g'.cp = g.cp
  bt : g'.bt = g.bt
  mono : ∀ k, g.lk k = true → g'.lk k = true

theorem Frame.refl (g : Graph) : Frame g g := ⟨Shape.refl g, rfl, rfl, fun _ h => h⟩
theorem Frame.trans {a b c : Graph} (h1 : Frame a b) (h2 : Frame b c) : Frame a c :=
  ⟨h1.shape.trans h2.shape, h2.cp.trans h1.cp, h2.bt.trans h1.bt, fun k h => h2.mono k (h1.mono k h)⟩

theorem foldl_rel {α β : Type} (R : α → α → Prop) (hr : ∀ a, R a a) (ht : ∀ a b c, R a b → R b c → R a c)
    (step : α → β → α) (l : List β) (hs : ∀ a, ∀ b ∈ l, R a (step a b)) : ∀ a, R a (l.foldl step a) := by
  induction l with
  | nil => intro a; exact hr a
  | cons b l ih =>
    intro a
    simp only [List.foldl_cons]
    exact ht _ _ _ (hs a b (by simp)) (ih (fun a b hb => hs a b (by simp [hb])) _)

/-- setting the `locked` flag of a node -/
theorem Graph.set_locked_frame (g : Graph) (n : Nat) :
    Frame g (g.set n { g.get n with locked := true }) := by
  refine ⟨⟨Graph.len_set _ _ _, ?_, ?_, ?_⟩, ?_, ?_, ?_⟩
  · exact Graph.proj_set Node.mixins g n _ rfl
  · exact Graph.proj_set Node.children g n _ rfl
  · exact Graph.proj_set Node.own g n _ rfl
  · exact Graph.proj_set Node.compiled g n _ rfl
  · exact Graph.proj_set Node.built g n _ rfl
  · intro k hk
    show ((g.set n _).get k).locked = true
    rw [Graph.get_set]; split
    · rfl
    · exact hk

theorem Graph.lock_frame : ∀ (f : Nat) (g : Graph) (n : Nat), Frame g (Graph.lock f g n)
  | 0, g, _ => Frame.refl g
  | f + 1, g, n => by
    unfold Graph.lock
    exact (Graph.set_locked_frame g n).trans
      (foldl_rel Frame Frame.refl (fun _ _ _ => Frame.trans) _ _ (fun a b _ => Graph.lock_frame f a b) _)

theorem Graph.lockUnlinked_frame : ∀ (f : Nat) (g : Graph) (n : Nat), Frame g (Graph.lockUnlinked f g n)
  | 0, g, _ => Frame.refl g
  | f + 1, g, n => by
    unfold Graph.lockUnlinked
    refine foldl_rel Frame Frame.refl (fun _ _ _ => Frame.trans) _ _ (fun a b _ => ?_) _
    split
    · exact Graph.lockUnlinked_frame f a b
    · exact Graph.lock_frame f a b

/-- `compile` keeps the static structure -/
theorem Graph.compile_shape (g : Graph) (n : Nat) : Shape g (g.compile n).1 := by
  unfold Graph.compile
  have hf := (Graph.lockUnlinked_frame (g.nodes.length + 1) g n).shape
  dsimp only
  split
  · exact hf
  · refine hf.trans ⟨Graph.len_set _ _ _, ?_, ?_, ?_⟩
    · exact Graph.proj_set Node.mixins _ n _ rfl
    · exact Graph.proj_set Node.children _ n _ rfl
    · exact Graph.proj_set Node.own _ n _ rfl

theorem Graph.update_shape : ∀ (f : Nat) (g : Graph) (n : Nat), Shape g (Graph.update f g n).1
  | 0, g, _ => Shape.refl g
  | f + 1, g, n => by
    unfold Graph.update
    have h1 : Shape g (if (g.get n).compiled then g.compile n else (g, none)).1 := by
      split
      · exact Graph.compile_shape g n
      · exact Shape.refl g
    generalize (if (g.get n).compiled then g.compile n else (g, none)) = r1 at h1
    obtain ⟨g1, e1⟩ := r1
    dsimp only at h1 ⊢
    have : ∀ (l : List Nat) (ga : Graph) (ea : Option CfgErr),
        Shape ga (l.foldl (fun (acc : Graph × Option CfgErr) c =>
          ((Graph.update f acc.1 c).1, match acc.2 with | some e => some e | none => (Graph.update f acc.1 c).2)) (ga, ea)).1 := by
      intro l
      induction l with
      | nil => intro ga ea; exact Shape.refl _
      | cons c l ih =>
        intro ga ea
        simp only [List.foldl_cons]
        exact (Graph.update_shape f ga c).trans (ih _ _)
    exact h1.trans (this _ g1 e1)

/-! ## `defns` depends on `own` and `mixins` only -/

theorem foldl_congr_mem {α β : Type} (s1 s2 : α → β → α) (l : List β) (h : ∀ a, ∀ b ∈ l, s1 a b = s2 a b) :
    ∀ a, l.foldl s1 a = l.foldl s2 a := by
  induction l with
  | nil => intro a; rfl
  | cons b l ih =>
    intro a
    simp only [List.foldl_cons]
    rw [h a b (by simp)]
    exact ih (fun a b hb => h a b (by simp [hb])) _

theorem Graph.defns_succ (g : Graph) (f n : Nat) :
    g.defns (f + 1) n = overlay ((g.mx n).foldl (fun acc m => overlay acc (g.defns f m)) []) (g.ow n) := rfl

theorem Graph.defns_congr (g g' : Graph) (hmx : g'.mx = g.mx) (how : g'.ow = g.ow) :
    ∀ (f n : Nat), g'.defns f n = g.defns f n
  | 0, _ => rfl
  | f + 1, n => by
    rw [Graph.defns_succ, Graph.defns_succ, hmx, how]
    congr 1
    exact foldl_congr_mem _ _ _ (fun a m _ => by rw [Graph.defns_congr g g' hmx how f m]) _

/-- fuel-indexed ancestor test on the mixin relation (the same recursion as `Graph.derives`) -/
def ancB (mx : Nat → List Nat) : Nat → Nat → Nat → Bool
  | 0, _, _ => false
  | f + 1, a, n => (mx n).any (fun m => m == a || ancB mx f a m)

/-- isolation at the level of `defns`: changing `own` of `n` only is invisible from every node that does not
    derive from `n` (within the fuel) -/
theorem Graph.defns_isolated (g g' : Graph) (n : Nat) (hmx : g'.mx = g.mx)
    (how : ∀ k, k ≠ n → g'.ow k = g.ow k) :
    ∀ (f m : Nat), m ≠ n → ancB g.mx f n m = false → g'.defns f m = g.defns f m
  | 0, _, _, _ => rfl
  | f + 1, m, hm, h => by
    rw [Graph.defns_succ, Graph.defns_succ, hmx, how m hm]
    congr 1
    refine foldl_congr_mem _ _ _ (fun a p hp => ?_) _
    simp only [ancB, List.any_eq_false, Bool.or_eq_true, beq_iff_eq, not_or] at h
    have := h p hp
    rw [Graph.defns_isolated g g' n hmx how f p this.1 (by simpa using this.2)]

/-! ## the modifying operations, unfolded -/

def Graph.setOwn (g : Graph) (n : Nat) (o : List (Def × Int)) : Graph := g.set n { g.get n with own := o }

theorem Graph.setOwn_len (g : Graph) (n : Nat) (o : List (Def × Int)) : (g.setOwn n o).len = g.len :=
  Graph.len_set _ _ _
theorem Graph.setOwn_mx (g : Graph) (n : Nat) (o : List (Def × Int)) : (g.setOwn n o).mx = g.mx :=
  Graph.proj_set Node.mixins g n _ rfl
theorem Graph.setOwn_ch (g : Graph) (n : Nat) (o : List (Def × Int)) : (g.setOwn n o).ch = g.ch :=
  Graph.proj_set Node.children g n _ rfl
theorem Graph.setOwn_lk (g : Graph) (n : Nat) (o : List (Def × Int)) : (g.setOwn n o).lk = g.lk :=
  Graph.proj_set Node.locked g n _ rfl
theorem Graph.setOwn_cp (g : Graph) (n : Nat) (o : List (Def × Int)) : (g.setOwn n o).cp = g.cp :=
  Graph.proj_set Node.compiled g n _ rfl
theorem Graph.setOwn_bt (g : Graph) (n : Nat) (o : List (Def × Int)) : (g.setOwn n o).bt = g.bt :=
  Graph.proj_set Node.built g n _ rfl
theorem Graph.setOwn_ow_ne (g : Graph) (n : Nat) (o : List (Def × Int)) (k : Nat) (h : k ≠ n) :
    (g.setOwn n o).ow k = g.ow k := by
  show ((g.set n _).get k).own = _
  rw [Graph.get_set, if_neg (fun hh => h hh.1)]; rfl

theorem Graph.register_eq (g : Graph) (n : Nat) (d : Def) (h : (g.get n).locked = false) :
    g.register n d =
      let g1 := g.setOwn n (setDefn ((g.get n).own.length + 1) (g.get n).own d 0)
      ((Graph.update g1.depth g1 n).1, (Graph.update g1.depth g1 n).2.map (fun _ => Outcome.configError)) := by
  unfold Graph.register
  dsimp only
  split
  · next hh => rw [h] at hh; cases hh
  · rfl

theorem Graph.unregister_eq (g : Graph) (n : Nat) (id : Nat) (h : (g.get n).locked = false) :
    g.unregister n id =
      let g1 := g.setOwn n ((g.get n).own.filter (fun e => e.1.d.id != id))
      ((Graph.update g1.depth g1 n).1, (Graph.update g1.depth g1 n).2.map (fun _ => Outcome.configError)) := by
  unfold Graph.unregister
  dsimp only
  split
  · next hh => rw [h] at hh; cases hh
  · rfl

theorem Graph.depth_eq (g : Graph) : g.depth = g.len + 1 := rfl

/-- isolation for any change of `own` at `n` followed by `_update()` -/
theorem Graph.isolation_setOwn (g : Graph) (n : Nat) (o : List (Def × Int)) (m : Nat) (f : Nat)
    (hm : m ≠ n) (hnot : ancB g.mx g.depth n m = false) :
    (Graph.update f (g.setOwn n o) n).1.defns (Graph.update f (g.setOwn n o) n).1.depth m = g.defns g.depth m := by
  have hs := Graph.update_shape f (g.setOwn n o) n
  rw [Graph.defns_congr _ _ hs.mx hs.ow, Graph.depth_eq, hs.len, Graph.setOwn_len, ← Graph.depth_eq]
  exact Graph.defns_isolated g _ n (Graph.setOwn_mx g n o) (fun k hk => Graph.setOwn_ow_ne g n o k hk) _ m hm hnot

end Ovld
