"""Correspondence layer H (structural): the real recode.NameConverter applied to generated expressions of the
modelled subset vs the Lean model `Ovld.Rw.rw` (Model/Rewrite.lean) on the same tree.  A translator maps the
Python AST of the rewritten body back into the model's expression language; trees outside the subset are
counted, not compared."""

import ast
import json
import random
import re
import sys

from common import run_driver, use_repo

use_repo()

GLOBS = ["g0", "g1", "recurse", "call_next"]
USER = ["x", "y", "z"]


def gen(rng, depth):
    if depth <= 0:
        r = rng.random()
        if r < 0.4:
            return ["lit", rng.randint(0, 9)]
        if r < 0.8:
            return ["var", ["user", rng.choice(USER)]]
        return ["glob", rng.choice(["g0", "g1"])]
    r = rng.random()
    sub = lambda: gen(rng, depth - 1)  # noqa
    if r < 0.35:
        f = rng.choice(["recurse", "recurse", "call_next", "g0"])
        nargs = rng.choice([0, 1, 1, 2, 3]) if f != "call_next" else rng.choice([1, 1, 2])
        args = [sub() for _ in range(nargs)]
        kws = []
        if rng.random() < 0.35:
            names = rng.sample(["k", "tag", "w"], rng.choice([1, 1, 2]))
            kws = [[n, sub()] for n in names]
        return ["call", ["glob", f], args, kws]
    if r < 0.45:
        return ["named", ["user", rng.choice(USER)], sub()]
    if r < 0.6:
        return ["tick", f"t{rng.randint(0, 99)}", sub()]
    if r < 0.7:
        return ["add", sub(), sub()]
    if r < 0.8:
        return ["ite", sub(), sub(), sub()]
    if r < 0.9:
        return ["tuple", [sub() for _ in range(rng.choice([1, 2, 3]))]]
    return ["subscript", sub(), sub()]


def to_src(e):
    k = e[0]
    if k == "lit":
        return str(e[1])
    if k == "var":
        return e[1][1]
    if k == "glob":
        return e[1]
    if k == "named":
        return f"({e[1][1]} := {to_src(e[2])})"
    if k == "tick":
        return f"TICK({e[1]!r}, {to_src(e[2])})"
    if k == "add":
        return f"({to_src(e[1])} + {to_src(e[2])})"
    if k == "ite":
        return f"({to_src(e[2])} if {to_src(e[1])} else {to_src(e[3])})"
    if k == "call":
        parts = [to_src(a) for a in e[2]] + [f"{n}={to_src(v)}" for n, v in e[3]]
        return f"{to_src(e[1])}({', '.join(parts)})"
    if k == "tuple":
        return "(" + ", ".join(to_src(a) for a in e[1]) + ",)"
    if k == "subscript":
        return f"{to_src(e[1])}[{to_src(e[2])}]"
    raise ValueError(e)


TMP = re.compile(r"^__TMP(\d+)_(.+)$")


class Outside(Exception):
    pass


def name_of(id_):
    m = TMP.match(id_)
    if m:
        s = m.group(2)
        return ["tmp", int(m.group(1)), ["pos", int(s)] if s.isdigit() else ["kw", s]]
    return ["user", id_]


def from_ast(n):
    """Python AST -> model expression (raises Outside for anything the model's language does not have)"""
    if isinstance(n, ast.Constant) and isinstance(n.value, int) and not isinstance(n.value, bool):
        return ["lit", n.value]
    if isinstance(n, ast.Name):
        if n.id == "__TYPE":
            # the rewritten call sites reach the built-in `type` through an injected global of that name (since the
            # `fix:` for finding D45: the bare name may be shadowed by a parameter of the user's function); the model's
            # global `type` stands for that function
            return ["glob", "type"]
        if n.id in ("g0", "g1", "recurse", "call_next", "type", "MAP", "CODE", "OVLD"):
            return ["glob", n.id]
        return ["var", name_of(n.id)]
    if isinstance(n, ast.NamedExpr):
        return ["named", name_of(n.target.id), from_ast(n.value)]
    if isinstance(n, ast.BinOp) and isinstance(n.op, ast.Add):
        return ["add", from_ast(n.left), from_ast(n.right)]
    if isinstance(n, ast.IfExp):
        return ["ite", from_ast(n.test), from_ast(n.body), from_ast(n.orelse)]
    if isinstance(n, ast.Call):
        if isinstance(n.func, ast.Name) and n.func.id == "TICK":
            return ["tick", n.args[0].value, from_ast(n.args[1])]
        if any(isinstance(a, ast.Starred) for a in n.args) or any(k.arg is None for k in n.keywords):
            raise Outside("starred")
        return ["call", from_ast(n.func), [from_ast(a) for a in n.args], [[k.arg, from_ast(k.value)] for k in n.keywords]]
    if isinstance(n, ast.Tuple):
        # ('name', type(...)) inside a key tuple is the model's `pair`
        if len(n.elts) == 2 and isinstance(n.elts[0], ast.Constant) and isinstance(n.elts[0].value, str):
            return ["pair", n.elts[0].value, from_ast(n.elts[1])]
        return ["tuple", [from_ast(a) for a in n.elts]]
    if isinstance(n, ast.Subscript):
        return ["subscript", from_ast(n.value), from_ast(n.slice)]
    raise Outside(type(n).__name__)


# ---------------------------------------------------------------- statements (Model/RewriteStmt.lean)


def gen_block(rng, depth, n=None):
    out = []
    for _ in range(n or rng.randint(1, 3)):
        r = rng.random()
        if depth <= 0 or r < 0.3:
            out.append(["assign", rng.choice(USER), gen(rng, rng.randint(1, 3))])
        elif r < 0.45:
            out.append(["expr", gen(rng, rng.randint(1, 3))])
        elif r < 0.55:
            out.append(["ret", gen(rng, rng.randint(1, 2))])
        elif r < 0.7:
            out.append(["ite", gen(rng, rng.randint(0, 2)), gen_block(rng, depth - 1), gen_block(rng, depth - 1) if rng.random() < 0.6 else []])
        elif r < 0.8:
            out.append(["while", gen(rng, rng.randint(0, 2)), gen_block(rng, depth - 1)])
        elif r < 0.9:
            out.append(["try", gen_block(rng, depth - 1), gen_block(rng, depth - 1)])
        elif r < 0.95:
            out.append(["raise", rng.randint(0, 5)])
        else:
            out.append(["pass"])
    return out


def block_src(b, ind):
    pad = " " * ind
    lines = []
    for st in b:
        k = st[0]
        if k == "assign":
            lines.append(f"{pad}{st[1]} = {to_src(st[2])}")
        elif k == "expr":
            lines.append(f"{pad}{to_src(st[1])}")
        elif k == "ret":
            lines.append(f"{pad}return {to_src(st[1])}")
        elif k == "ite":
            lines.append(f"{pad}if {to_src(st[1])}:")
            lines += block_src(st[2], ind + 4)
            if st[3]:
                lines.append(f"{pad}else:")
                lines += block_src(st[3], ind + 4)
        elif k == "while":
            lines.append(f"{pad}while {to_src(st[1])}:")
            lines += block_src(st[2], ind + 4)
        elif k == "try":
            lines.append(f"{pad}try:")
            lines += block_src(st[1], ind + 4)
            lines.append(f"{pad}finally:")
            lines += block_src(st[2], ind + 4)
        elif k == "raise":
            lines.append(f"{pad}raise EXN({st[1]})")
        else:
            lines.append(f"{pad}pass")
    return lines


def block_from_ast(stmts):
    out = []
    for n in stmts:
        if isinstance(n, ast.Assign) and len(n.targets) == 1 and isinstance(n.targets[0], ast.Name):
            out.append(["assign", n.targets[0].id, from_ast(n.value)])
        elif isinstance(n, ast.Expr):
            out.append(["expr", from_ast(n.value)])
        elif isinstance(n, ast.Return):
            out.append(["ret", from_ast(n.value)])
        elif isinstance(n, ast.If):
            out.append(["ite", from_ast(n.test), block_from_ast(n.body), block_from_ast(n.orelse)])
        elif isinstance(n, ast.While) and not n.orelse:
            out.append(["while", from_ast(n.test), block_from_ast(n.body)])
        elif isinstance(n, ast.Try) and not n.handlers and not n.orelse:
            out.append(["try", block_from_ast(n.body), block_from_ast(n.finalbody)])
        elif isinstance(n, ast.Raise) and isinstance(n.exc, ast.Call) and getattr(n.exc.func, "id", None) == "EXN":
            out.append(["raise", n.exc.args[0].value])
        elif isinstance(n, ast.Pass):
            out.append(["pass"])
        else:
            raise Outside(type(n).__name__)
    return out


def real_rewrite_block(b):
    from ovld.recode import NameConverter

    src = "def m(x, y, z):\n" + "\n".join(block_src(b, 4)) + "\n"
    tree = ast.parse(src)
    conv = NameConverter(anal=FakeAnalysis(), recurse_sym="recurse", call_next_sym="call_next", ovld_mangled="OVLD", map_mangled="MAP", code_mangled="CODE")
    new = conv.visit(tree)
    return block_from_ast(new.body[0].body)


class FakeAnalysis:
    is_method = False
    # a declaration order of the keyword-only parameters that differs from the order at most call sites
    keyword_required = ["w"]
    keyword_optional = ["tag", "k"]
    strict_positional_required = []
    strict_positional_optional = []
    positional_required = []
    positional_optional = []
    complex_transforms = set()

    def lookup_for(self, key):
        return type


def real_rewrite(e):
    from ovld.recode import NameConverter

    src = f"def m(x, y, z):\n    return {to_src(e)}\n"
    tree = ast.parse(src)
    conv = NameConverter(anal=FakeAnalysis(), recurse_sym="recurse", call_next_sym="call_next", ovld_mangled="OVLD", map_mangled="MAP", code_mangled="CODE")
    new = conv.visit(tree)
    ret = new.body[0].body[0].value
    return from_ast(ret)


def run(seed, n):
    rng = random.Random(seed)
    exprs, reals = [], []
    stats = {"generated": 0, "with_call": 0, "outside": 0, "error": 0}
    for _ in range(n):
        e = gen(rng, rng.randint(1, 4))
        stats["generated"] += 1
        s = json.dumps(e)
        if '"recurse"' in s or '"call_next"' in s:
            stats["with_call"] += 1
        try:
            r = real_rewrite(e)
        except Outside:
            stats["outside"] += 1
            continue
        except Exception as ex:  # noqa: e.g. UsageError for a bare call_next
            r = ["error", type(ex).__name__]
            stats["error"] += 1
            if type(ex).__name__ not in ("UsageError",):
                stats.setdefault("unexpected", []).append({"layer": "H", "what": "the rewriter raised on an expression of the modelled subset", "error": f"{type(ex).__name__}: {ex}"[:200], "src": to_src(e)})
        exprs.append(e)
        reals.append(r)
    # blocks of statements
    blocks, breals = [], []
    stats["blocks"] = 0
    for _ in range(max(1, n // 4)):
        b = gen_block(rng, 2)
        try:
            r = real_rewrite_block(b)
        except Outside:
            stats["outside"] += 1
            continue
        except Exception as ex:  # noqa
            if type(ex).__name__ != "UsageError":
                stats.setdefault("unexpected", []).append({"layer": "H", "what": "the rewriter raised on a block of the modelled subset", "error": f"{type(ex).__name__}: {ex}"[:200], "src": "\n".join(block_src(b, 0))})
            continue
        stats["blocks"] += 1
        blocks.append(b)
        breals.append(r)
    res = run_driver([{"layer": "H", "exprs": exprs, "blocks": blocks}])[0]
    diffs = list(stats.pop("unexpected", []))[:3]
    if "error" in res:
        return stats, [{"kind": "driver-error", "detail": res["error"]}]
    for e, r, m in zip(exprs, reals, res["rw"]):
        if r and r[0] == "error":
            continue
        if m != r:
            diffs.append({"layer": "H", "expr": e, "src": to_src(e), "model": m, "impl": r})
    for b, r, m in zip(blocks, breals, res.get("rwS", [])):
        if m != r:
            diffs.append({"layer": "H", "what": "rewritten block of statements", "src": "\n".join(block_src(b, 0)), "model": m, "impl": r})
    return stats, diffs


def worker(payload):
    seed, n, _ = payload
    stats, diffs = run(seed, n)
    return {"ops": stats["generated"], "corr": diffs[:3], "hist": {f"structural:{k}": v for k, v in stats.items()}, "samples": [], "oracles": {}}


if __name__ == "__main__":
    seed = int(sys.argv[1]) if len(sys.argv) > 1 else 0
    n = int(sys.argv[2]) if len(sys.argv) > 2 else 300
    stats, diffs = run(seed, n)
    print(stats, "diffs", len(diffs))
    for d in diffs[:3]:
        print(json.dumps(d)[:1200])
