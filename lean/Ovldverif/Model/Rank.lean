/-!
# Layer D (1/3): `typemap.Candidate` — sort key, `dominates`, the stable descending sort and `_pull`

typemap.py L58-76 and L165-198.
-/
set_option autoImplicit false
namespace Ovld

structure Cand where
  id : Nat
  prio : Int
  spec : List Nat
  tb : Int
deriving DecidableEq, Repr, Inhabited

def allGe : List Nat → List Nat → Bool
  | a :: as, b :: bs => decide (a ≥ b) && allGe as bs
  | _, _ => true

abbrev SortKey := Int × Nat × Int

def Cand.key (c : Cand) : SortKey := (c.prio, c.spec.sum, c.tb)

/-- lexicographic `≥` on sort keys (tuples compare lexicographically in Python) -/
def keyGe (a b : SortKey) : Bool :=
  decide (a.1 > b.1) || (decide (a.1 = b.1) && (decide (a.2.1 > b.2.1) || (decide (a.2.1 = b.2.1) && decide (a.2.2 ≥ b.2.2))))

/-- `Candidate.dominates` -/
def dominates (s o : Cand) : Bool :=
  if s.prio > o.prio then true
  else if s.spec ≠ o.spec then allGe s.spec o.spec
  else decide (s.tb > o.tb)

/-- `candidates.sort(key=Candidate.sort_key, reverse=True)` (stable) -/
def sortCands (cs : List Cand) : List Cand :=
  cs.mergeSort (fun a b => keyGe a.key b.key)

/-- `_pull`: successive ranks; `processed` holds the handlers already placed next to a head that
    did not dominate them -/
def pull : Nat → List Cand → List Nat → List (List Cand)
  | 0, _, _ => []
  | f + 1, cands, processed =>
    match cands.filter (fun c => !processed.contains c.id) with
    | [] => []
    | c1 :: rest =>
      let extra := rest.filter (fun c2 => !dominates c1 c2)
      (c1 :: extra) :: pull f rest (processed ++ extra.map (·.id))

def ranks (cs : List Cand) : List (List Cand) :=
  let s := sortCands cs
  pull s.length s []

end Ovld
