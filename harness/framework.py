"""Check framework: Lean build + axiom audit, parallel scenario runs, evidence, known findings, exit codes.

Exit codes: 0 = property held on everything explored (KNOWN-FINDING lines may be printed),
1 = VIOLATION line printed, 2 = the check itself is broken (Lean build failed, driver missing, timeout).
"""

import json
import multiprocessing as mp
import os
import re
import subprocess
import sys
import time

from common import EVIDENCE, LEAN_DIR, REPLAYS, VERIF, write_replay

ALLOWED_AXIOMS = {"propext", "Classical.choice", "Quot.sound"}
TRUSTED_BASE = [
    "Lean 4.33.0 kernel (lake build of /verif/lean; thorough tier re-checks the .olean files with leanchecker)",
    "axioms allowed: propext, Classical.choice, Quot.sound (audited with #print axioms on every run); no native_decide / bv_decide / sorry / own axioms",
    "hand-written Lean model of the anchored code, tied to /repo's working tree by the differential correspondence run of this check (generators, adapters, canonicalisers in /verif/harness; JSON decoding in the Lean driver)",
    "compiled Lean code of the driver agrees with the kernel's reading of the same definitions",
    "CPython's issubclass / isinstance / type / typing / graphlib / list.sort are modelled (tables re-extracted from the live classes of every scenario), not verified",
]


class Broken(Exception):
    pass


def lake_build():
    t0 = time.time()
    p = subprocess.run(["lake", "build", "Ovldverif", "driver"], cwd=LEAN_DIR, stdout=subprocess.PIPE, stderr=subprocess.STDOUT, timeout=3000)
    out = p.stdout.decode()
    if p.returncode != 0:
        raise Broken("lake build failed:\n" + out[-3000:])
    return round(time.time() - t0, 1)


def grep_forbidden():
    """sorry / admit / axiom / native_decide / bv_decide / implemented_by / unsafe in our Lean sources (comments stripped)"""
    bad = []
    pat = re.compile(r"\b(sorry|admit|native_decide|bv_decide|implemented_by|unsafe)\b|^\s*axiom\s|maxHeartbeats\s+0")
    root_src = open(os.path.join(LEAN_DIR, "Ovldverif.lean")).read()
    mods = re.findall(r"^import\s+(Ovldverif\.\S+)", root_src, flags=re.M)
    for mod in mods:
        if True:
            path = os.path.join(LEAN_DIR, mod.replace(".", "/") + ".lean")
            src = open(path).read()
            src = re.sub(r"/-.*?-/", lambda m: "\n" * m.group(0).count("\n"), src, flags=re.S)
            for i, line in enumerate(src.split("\n")):
                line = line.split("--")[0]
                if pat.search(line):
                    bad.append(f"{os.path.relpath(path, LEAN_DIR)}:{i+1}: {line.strip()[:100]}")
    return bad


def theorems_of(modules):
    """[(module, fully qualified theorem name)] for every `theorem` in the given property modules"""
    out = []
    for mod in modules:
        path = os.path.join(LEAN_DIR, mod.replace(".", "/") + ".lean")
        src = open(path).read()
        src = re.sub(r"/-.*?-/", "", src, flags=re.S)
        ns = []
        for line in src.split("\n"):
            m = re.match(r"\s*namespace\s+(\S+)", line)
            if m:
                ns.append(m.group(1))
            m = re.match(r"\s*end\s+(\S+)", line)
            if m and ns and ns[-1] == m.group(1):
                ns.pop()
            m = re.match(r"\s*(?:private\s+|protected\s+)?theorem\s+(\S+)", line)
            if m:
                out.append((mod, ".".join(ns + [m.group(1)])))
    return out


def lean_audit(modules):
    """returns dict(obligations, discharged, theorems=[{name, axioms}], failures=[...], checker_cmd)"""
    ths = theorems_of(modules)
    lines = [f"import {m}" for m in modules]
    for _, name in ths:
        lines.append(f"#print axioms {name}")
    tmp = os.path.join(LEAN_DIR, ".lake", "audit_%d.lean" % os.getpid())
    os.makedirs(os.path.dirname(tmp), exist_ok=True)
    with open(tmp, "w") as f:
        f.write("\n".join(lines) + "\n")
    try:
        p = subprocess.run(["lake", "env", "lean", tmp], cwd=LEAN_DIR, stdout=subprocess.PIPE, stderr=subprocess.STDOUT, timeout=1200)
    finally:
        try:
            os.unlink(tmp)
        except OSError:
            pass
    out = p.stdout.decode()
    if p.returncode != 0:
        raise Broken("axiom audit failed:\n" + out[-3000:])
    res = {}
    for m in re.finditer(r"'([^']+)' depends on axioms: \[([^\]]*)\]", out.replace("\n", " ")):
        res[m.group(1)] = [a.strip() for a in m.group(2).split(",") if a.strip()]
    for m in re.finditer(r"'([^']+)' does not depend on any axioms", out):
        res[m.group(1)] = []
    items, failures = [], []
    for _, name in ths:
        ax = res.get(name)
        if ax is None:
            failures.append(f"{name}: no axiom report")
            continue
        items.append({"name": name, "axioms": ax})
        extra = [a for a in ax if a not in ALLOWED_AXIOMS]
        if extra:
            failures.append(f"{name}: axioms {extra}")
    forb = grep_forbidden()
    failures += forb
    return {
        "obligations": len(ths),
        "discharged": 0 if forb else len([i for i in items if all(a in ALLOWED_AXIOMS for a in i["axioms"])]),
        "theorems": items,
        "failures": failures,
        "checker_cmd": f"cd lean && lake build Ovldverif driver && lake env lean <#print axioms for {len(ths)} theorems of {', '.join(modules)}> ; grep sorry|admit|axiom|native_decide|bv_decide|implemented_by|unsafe",
    }


def leanchecker(modules):
    p = subprocess.run(["lake", "env", "leanchecker"] + modules, cwd=LEAN_DIR, stdout=subprocess.PIPE, stderr=subprocess.STDOUT, timeout=3000)
    return p.returncode == 0, p.stdout.decode()[-2000:]


# ---------------------------------------------------------------- parallel runs


def tag_replay(out, fn_mod, fn_name, payload):
    """every violation / correspondence break remembers the deterministic batch that produced it"""
    how = {"module": fn_mod, "fn": fn_name, "payload": list(payload)}
    for c in out.get("corr", []):
        if isinstance(c, dict):
            c.setdefault("_replay", how)
    for v in out.get("viol", []):
        if isinstance(v, dict):
            v.setdefault("_replay", how)
    for oc in out.get("oracles", {}).values():
        for v in oc.get("viol", []):
            if isinstance(v, dict):
                v.setdefault("_replay", how)
    return out


def _worker(args):
    fn_mod, fn_name, payload = args
    import importlib

    mod = importlib.import_module(fn_mod)
    try:
        return getattr(mod, fn_name)(payload)
    except Exception as e:  # noqa
        # the comparison itself could not be carried out (the code under test handed the harness something it cannot
        # even decode): the correspondence of this batch is broken; reported as such, never as a crash of the check
        import traceback

        return {"ops": 0, "corr": [{"layer": "harness", "kind": "harness-exception", "where": f"{fn_mod}.{fn_name}",
                                    "detail": (type(e).__name__ + ": " + str(e))[:300], "trace": traceback.format_exc()[-1200:]}],
                "viol": [], "samples": [], "hist": {}, "oracles": {}, "known": {}}


def _timed_out(fn_mod, fn_name, budget):
    return {"ops": 0, "corr": [{"layer": "harness", "kind": "harness-timeout", "where": f"{fn_mod}.{fn_name}",
                                "detail": f"a batch of scenarios did not finish within {budget} s on the code under test (a call that never returns?)"}],
            "viol": [], "samples": [], "hist": {}, "oracles": {}, "known": {}}


def _died(fn_mod, fn_name, how):
    return {"ops": 0, "corr": [{"layer": "harness", "kind": "harness-worker-died", "where": f"{fn_mod}.{fn_name}",
                                "detail": f"the process running a batch of scenarios on the code under test {how}"}],
            "viol": [], "samples": [], "hist": {}, "oracles": {}, "known": {}}


def parallel(fn_mod, fn_name, payloads, procs=None):
    """every batch runs in a worker process, under a wall-clock budget (VERIF_BATCH_TIMEOUT, default 900 s — a batch
    of the quick tier takes seconds, one of the exhaustive thorough tier minutes).  A batch that does not come back
    (the code under test loops or dead-locks) or whose process dies (a crash of the interpreter: the code under test
    built a function object CPython cannot run) is reported as a broken correspondence; the check itself ends."""
    import concurrent.futures as cf
    from concurrent.futures.process import BrokenProcessPool

    budget = int(os.environ.get("VERIF_BATCH_TIMEOUT", "900"))
    if fn_mod == "check_conc":
        budget = max(budget, 3600)
    procs = procs or min(16, max(1, len(payloads)))
    ctx = mp.get_context("fork")
    outs = [None] * len(payloads)

    def run(indices, nproc):
        ex = cf.ProcessPoolExecutor(max_workers=nproc, mp_context=ctx)
        broken = []
        try:
            futs = {i: ex.submit(_worker, (fn_mod, fn_name, payloads[i])) for i in indices}
            t_end = time.time() + budget
            for i, f in futs.items():
                try:
                    outs[i] = f.result(timeout=max(1.0, t_end - time.time()))
                except cf.TimeoutError:
                    outs[i] = _timed_out(fn_mod, fn_name, budget)
                except BrokenProcessPool:
                    broken.append(i)
                except Exception as e:  # noqa
                    outs[i] = _died(fn_mod, fn_name, f"failed: {type(e).__name__}: {e}"[:200])
        finally:
            # never wait for a process that hangs: kill what is left
            for pr in list(getattr(ex, "_processes", {}).values()):
                try:
                    pr.kill()
                except Exception:  # noqa
                    pass
            ex.shutdown(wait=False, cancel_futures=True)
        return broken

    broken = run(list(range(len(payloads))), procs)
    # a dead worker takes the whole pool with it: the batches that were lost run again, one process each, so that only
    # the batch that kills its process is reported
    for i in broken:
        if run([i], 1):
            outs[i] = _died(fn_mod, fn_name, "died (killed by a signal, e.g. a segmentation fault of the interpreter)")
    return [tag_replay(o, fn_mod, fn_name, p) if isinstance(o, dict) else o for o, p in zip(outs, payloads)]


# ---------------------------------------------------------------- known findings


def load_fixed(prop):
    path = os.path.join(VERIF, "known_findings.json")
    if not os.path.exists(path):
        return []
    data = json.load(open(path))
    return [f for f in data.get("fixed", []) if f["property"] == prop]


def regressions(prop):
    """witnesses of repaired defects are a corpus that must pass: a fixed entry suppresses nothing"""
    import witness as wit

    out = []
    for f in load_fixed(prop):
        try:
            failing = wit.replay(f["witness"])
        except Exception as e:  # noqa
            failing = True
        if failing:
            out.append({"law": "a repaired defect is back: " + f["line"], "witness": f["witness"]})
    return out


def load_known(prop):
    path = os.path.join(VERIF, "known_findings.json")
    if not os.path.exists(path):
        return []
    data = json.load(open(path))
    return [f for f in data.get("findings", []) if f["property"] == prop]


# ---------------------------------------------------------------- finishing


def finish(prop, tier, seed, t0, audit, stats, violations, corr_breaks, known_lines, extra=None):
    """violations: list of {what, replay(dict)} found on the real code; corr_breaks: list of {layer, detail, theorems}
    (model/impl disagreement with no failing input found)"""
    os.makedirs(EVIDENCE, exist_ok=True)
    import glob

    for old in glob.glob(os.path.join(REPLAYS, f"{prop}_{tier}_{seed}_*.json")):
        os.unlink(old)
    ev = {
        "property_id": prop,
        "tier": tier,
        "seed": seed,
        "level": "proof",
        "coverage": {
            "obligations": audit["obligations"],
            "discharged": audit["discharged"],
            "checker_cmd": audit["checker_cmd"],
            "trusted_base": TRUSTED_BASE,
            "theorems": audit["theorems"],
            "evaluations": stats.get("evaluations", 0),
            "distinct_nontrivial": stats.get("distinct_nontrivial", 0),
            "rule": stats.get("rule", ""),
            "samples": stats.get("samples", [])[:6],
            "traces_validated_against_impl": stats.get("traces_validated_against_impl", stats.get("evaluations", 0)),
            "histogram": stats.get("histogram", {}),
            "known_finding_hits": stats.get("known_finding_hits", {}),
            "exhaustive": bool(stats.get("exhaustive", False)),
        },
        "assumptions": stats.get("assumptions", []),
        "wall_s": round(time.time() - t0, 2),
        "violations": len(violations) + len(corr_breaks),
    }
    if extra:
        ev["coverage"].update(extra)
    with open(os.path.join(EVIDENCE, f"{prop}.json"), "w") as f:
        json.dump(ev, f, indent=1, default=str)
    for line in known_lines:
        print(line)
    rc = 0
    if audit["failures"]:
        print("BROKEN-CHECK: Lean audit failures:", audit["failures"][:5])
        return 2
    for i, v in enumerate(violations[:3]):
        path = write_replay(prop, f"{tier}_{seed}_{i}", v)
        print(f"VIOLATION property={prop} replay={path}")
        rc = 1
    if not violations:
        for i, b in enumerate(corr_breaks[:3]):
            path = write_replay(prop, f"{tier}_{seed}_corr{i}", b)
            print(f"VIOLATION property={prop} replay={path} no-failing-input-found")
            rc = 1
    print(
        f"{prop} tier={tier} seed={seed} obligations={audit['obligations']}/{audit['discharged']} evaluations={ev['coverage']['evaluations']} "
        f"nontrivial={ev['coverage']['distinct_nontrivial']} violations={ev['violations']} wall={ev['wall_s']}s"
    )
    return rc
