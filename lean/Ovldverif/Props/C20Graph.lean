import Ovldverif.Props.C08
import Ovldverif.Props.C20
/-!
# C20 in derivation graphs — what a function has handled stays handled while nobody's methods change

`C20_fn` is about one function.  Here the function is a node of an arbitrary derivation graph (copies, variants,
mixins, linked or not): once a call on node `n` has succeeded, ANY sequence of later calls on ANY nodes of the graph —
the lazy first builds of parents, children and siblings included — leaves node `n` warm: the same call resolves
nothing (`nres = 0`: no candidate search, no user predicate, no order hook).  Calls change no method set; the theorem
says in particular that a build of some other function never rebuilds, or empties the cache of, this one.
-/
set_option autoImplicit false
namespace Ovld

/-- node `n` is in service over the definitions `B` (analysis `A`) and its cache contains everything `mm1` holds -/
structure Warm (cfg : Cfg) (g : Graph) (n : Nat) (B : List (Def × Int)) (A : Analysis) (mm1 : MMap) : Prop where
  tab : ∃ mm, g.tb n = ⟨true, B, mm, A⟩ ∧ MMap.Le (Fn.cfgOf cfg B) mm1 mm ∧
    MInv (Fn.cfgOf cfg B) (Fn.methsOf B) mm

theorem Graph.lt_of_compiled (g : Graph) (n : Nat) (h : (g.get n).compiled = true) : n < g.nodes.length := by
  by_cases hn : n < g.nodes.length
  · exact hn
  · have : g.nodes[n]? = none := by simpa using Nat.le_of_not_lt hn
    unfold Graph.get at h
    rw [this] at h
    exact absurd h (by decide)

theorem Graph.compile_tb_other (g : Graph) (m n : Nat) (hne : n ≠ m) : (g.compile m).1.tb n = g.tb n := by
  rw [Graph.compile_eq]
  have ht := Graph.lockUnlinked_tb (g.nodes.length + 1) g m
  cases analyze ((g.defns g.depth m).map (·.1.d)) with
  | error e => exact congrFun ht n
  | ok ana =>
    show (((Graph.lockUnlinked (g.nodes.length + 1) g m).set m _).get n).tab = _
    rw [Graph.get_set, if_neg (fun h => hne h.1)]
    exact congrFun ht n

theorem Graph.set_tb_other (g : Graph) (m n : Nat) (x : Node) (hne : n ≠ m) : (g.set m x).tb n = g.tb n := by
  show ((g.set m x).get n).tab = _
  rw [Graph.get_set, if_neg (fun h => hne h.1)]
  rfl

/-- a call on another node does not touch this node's table -/
theorem Graph.call_tb_other (cfg : Cfg) (g : Graph) (m n : Nat) (c : Call) (hne : n ≠ m) :
    (g.call cfg m c).1.tb n = g.tb n := by
  cases hc : (g.get m).compiled with
  | true =>
    rw [Graph.call_compiled cfg g m c hc]
    exact Graph.set_tb_other g m n _ hne
  | false =>
    cases he : (g.compile m).2 with
    | some e =>
      rw [Graph.call_uncompiled_err cfg g m c e hc he]
      exact Graph.compile_tb_other g m n hne
    | none =>
      rw [Graph.call_uncompiled_ok cfg g m c hc he]
      show (((g.compile m).1.set m _).tb n) = _
      rw [Graph.set_tb_other _ m n _ hne]
      exact Graph.compile_tb_other g m n hne

/-- one later call, on any node, keeps node `n` warm -/
theorem Warm.call {cfg : Cfg} {g : Graph} {n : Nat} {B : List (Def × Int)} {A : Analysis} {mm1 : MMap}
    (h : Warm cfg g n B A mm1) (hd : DistinctHandlers (Fn.methsOf B)) (m : Nat) (c : Call) :
    Warm cfg (g.call cfg m c).1 n B A mm1 := by
  obtain ⟨mm, ht, hle, hinv⟩ := h.tab
  by_cases hne : n = m
  · subst hne
    have hc : (g.get n).compiled = true := by
      have := congrArg Tab.compiled ht
      exact this
    have hlt := Graph.lt_of_compiled g n hc
    have ok := plan_ok (Fn.cfgOf cfg B) (Fn.methsOf B) hd.ids hd.codes
    have hF : FInv cfg B A (g.tb n).view := by
      rw [ht]; exact ⟨rfl, rfl, rfl, hinv⟩
    have r := call_rel cfg B A ok _ _ hF hF c
    rw [Graph.call_compiled cfg g n c hc]
    refine ⟨⟨((g.tb n).view.call cfg c).1.mm, ?_, ?_, r.inv1.mm⟩⟩
    · show ((g.set n _).get n).tab = _
      rw [Graph.get_set, if_pos ⟨rfl, hlt⟩]
      have h1 : (g.get n).built = B := congrArg Tab.built ht
      have h2 : (g.get n).ana = A := congrArg Tab.ana ht
      show (⟨(g.get n).compiled, (g.get n).built, _, (g.get n).ana⟩ : Tab) = _
      rw [hc, h1, h2]
    · have := r.le1
      rw [ht] at this
      exact hle.trans (by rw [ht]; exact this)
  · refine ⟨⟨mm, ?_, hle, hinv⟩⟩
    rw [Graph.call_tb_other cfg g m n c hne]
    exact ht

theorem Warm.calls {cfg : Cfg} {n : Nat} {B : List (Def × Int)} {A : Analysis} {mm1 : MMap}
    (hd : DistinctHandlers (Fn.methsOf B)) : ∀ (later : List (Nat × Call)) (g : Graph), Warm cfg g n B A mm1 →
    Warm cfg (later.foldl (fun g' mc => (g'.call cfg mc.1 mc.2).1) g) n B A mm1
  | [], _, h => h
  | mc :: rest, _, h => Warm.calls hd rest _ (h.call hd mc.1 mc.2)

/-- **node level**: on any graph satisfying the invariants, after a successful call on node `n`, any later calls on
    any nodes leave the same call on `n` free of any resolution -/
theorem Graph.warm_after_call (cfg : Cfg) (g : Graph) (hi : Inv g) (ht : AllOK cfg g) (n : Nat) (hn : n < g.len)
    (hd : DistinctHandlers (Fn.methsOf (g.defns g.depth n))) (c : Call) (id : Nat)
    (hran : (g.call cfg n c).2.1 = .ran id) (later : List (Nat × Call)) :
    ((later.foldl (fun g' mc => (g'.call cfg mc.1 mc.2).1) (g.call cfg n c).1).call cfg n c).2.2.2 = 0 := by
  -- the view that answers the first call: the table in service, or the one the lazy build has just made
  have key : ∃ (B : List (Def × Int)) (A : Analysis) (v : Fn), B = g.defns g.depth n ∧ FInv cfg B A v ∧
      (v.call cfg c).2.1 = .ran id ∧ Warm cfg (g.call cfg n c).1 n B A (v.call cfg c).1.mm := by
    cases hc : (g.get n).compiled with
    | true =>
      have hb : (g.tb n).built = g.defns g.depth n := hi.cons n hc
      have hlt := Graph.lt_of_compiled g n hc
      obtain ⟨ha, hf⟩ := ht n hc
      have hF : FInv cfg (g.tb n).built (g.tb n).ana (g.tb n).view := hf (by rw [hb]; exact hd)
      have ok := plan_ok (Fn.cfgOf cfg (g.tb n).built) (Fn.methsOf (g.tb n).built) (hb ▸ hd).ids (hb ▸ hd).codes
      have r := call_rel cfg _ _ ok _ _ hF hF c
      rw [Graph.call_compiled cfg g n c hc] at hran ⊢
      refine ⟨(g.tb n).built, (g.tb n).ana, (g.tb n).view, hb, hF, hran, ⟨⟨_, ?_, MMap.Le.refl _ _, r.inv1.mm⟩⟩⟩
      show ((g.set n _).get n).tab = _
      rw [Graph.get_set, if_pos ⟨rfl, hlt⟩]
      show (⟨(g.get n).compiled, (g.get n).built, _, (g.get n).ana⟩ : Tab) = _
      rw [hc]; rfl
    | false =>
      cases ha : analyze ((g.defns g.depth n).map (·.1.d)) with
      | error e =>
        rw [Graph.call_uncompiled_err cfg g n c e hc (Graph.compile_err g n e ha)] at hran
        cases hran
      | ok ana =>
        obtain ⟨h1, h2⟩ := Graph.compile_tb_ok g n ana hn ha
        have hF : FInv cfg (g.defns g.depth n) ana (Fn.built (g.defns g.depth n) ana) := Fn.built_inv cfg _ ana
        have ok := plan_ok (Fn.cfgOf cfg (g.defns g.depth n)) (Fn.methsOf (g.defns g.depth n)) hd.ids hd.codes
        have r := call_rel cfg _ _ ok _ _ hF hF c
        have hv : ((g.compile n).1.tb n).view = Fn.built (g.defns g.depth n) ana := by rw [h2]; rfl
        have hcomp : ((g.compile n).1.get n).compiled = true := by
          have := congrArg Tab.compiled h2
          exact this
        have hlt := Graph.lt_of_compiled _ n hcomp
        rw [Graph.call_uncompiled_ok cfg g n c hc h1, hv] at hran ⊢
        refine ⟨_, ana, Fn.built (g.defns g.depth n) ana, rfl, hF, hran, ⟨⟨_, ?_, MMap.Le.refl _ _, r.inv1.mm⟩⟩⟩
        show (((g.compile n).1.set n _).get n).tab = _
        rw [Graph.get_set, if_pos ⟨rfl, hlt⟩]
        have e1 : ((g.compile n).1.get n).built = g.defns g.depth n := congrArg Tab.built h2
        have e2 : ((g.compile n).1.get n).ana = ana := congrArg Tab.ana h2
        show (⟨((g.compile n).1.get n).compiled, ((g.compile n).1.get n).built, _, ((g.compile n).1.get n).ana⟩ : Tab) = _
        rw [hcomp, e1, e2]
  obtain ⟨B, A, v, hB, hFv, hranv, hw⟩ := key
  have hdB : DistinctHandlers (Fn.methsOf B) := hB ▸ hd
  have hw2 := Warm.calls hdB later _ hw
  obtain ⟨mm, htab, hle, hinv⟩ := hw2.tab
  generalize later.foldl (fun g' mc => (g'.call cfg mc.1 mc.2).1) (g.call cfg n c).1 = g2 at htab
  have hc2 : (g2.get n).compiled = true := by
    have := congrArg Tab.compiled htab
    exact this
  have ok := plan_ok (Fn.cfgOf cfg B) (Fn.methsOf B) hdB.ids hdB.codes
  have hF2 : FInv cfg B A (g2.tb n).view := by rw [htab]; exact ⟨rfl, rfl, rfl, hinv⟩
  rw [Graph.call_compiled cfg g2 n c hc2]
  have r := call_rel cfg B A ok v (g2.tb n).view hFv hF2 c
  exact r.warm id hranv (by rw [htab]; exact hle)

/-- **every history**: after ANY sequence of create / copy / variant / add-mixins / register / unregister / call
    operations accepted by the library, once a call on a node has run a method, later calls on any nodes of the graph
    leave that call free of any resolution -/
theorem C20_graph (cfg : Cfg) (ops : List GOp) (hok : Graph.opsOK cfg {} ops = true)
    (n : Nat) (hn : n < (Graph.runOps cfg {} ops).nodes.length)
    (hd : (Graph.runOps cfg {} ops).distinctAt n) (c : Call) (id : Nat)
    (hran : ((Graph.runOps cfg {} ops).call cfg n c).2.1 = .ran id) (later : List (Nat × Call)) :
    ((later.foldl (fun g' mc => (g'.call cfg mc.1 mc.2).1) ((Graph.runOps cfg {} ops).call cfg n c).1).call cfg n c).2.2.2
      = 0 :=
  Graph.warm_after_call cfg _ (Graph.inv_runOps cfg ops {} Inv.empty hok)
    (Graph.allOK_runOps cfg ops {} (AllOK.empty cfg)) n hn hd c id hran later

/-! non-vacuity of the hypotheses on histories: a function with one method, a linked variant of it with a second
method — the history is accepted (`opsOK`).  That a call on the variant then runs a method (`hran`) is not
kernel-reducible (the table model sorts with well-founded recursion); the compiled model evaluates exactly this
scenario in the graph stream of the correspondence ("a linked variant put to use before its parent": one resolution,
then none after the parent's own first call). -/
namespace C20GraphExample
def Hx : Hier := { sub := fun a b => a == b || b == 0, hasAttr := fun _ _ => false, pred := fun _ _ => false }
def cfgx : Cfg := { H := Hx, tyRank := fun _ => 0, hRank := fun n => n }
def d1 : Def := { d := { id := 1, code := 101, isMethod := false, params := [{ name := 0, kind := .posOrKw, required := true, ty := .cls 1 }], prio := 0 }, body := .ret }
def d2 : Def := { d := { id := 2, code := 102, isMethod := false, params := [{ name := 0, kind := .posOrKw, required := true, ty := .cls 0 }], prio := 0 }, body := .recurse [] }
def opsx : List GOp := [.create [] false, .register 0 d1, .create [0] true, .register 1 d2]
example : Graph.opsOK cfgx {} opsx = true ∧ (Graph.runOps cfgx {} opsx).nodes.length = 2 := by decide +kernel
end C20GraphExample

end Ovld
