import Ovldverif.Spec.ClassSpec
import Ovldverif.Props.C08
import Ovldverif.Lemmas.ClassCore
import Ovldverif.Lemmas.ClassStep
/-!
# C17 — overloaded methods in classes merge per class and inherit without leaking

`translate` (Model/ClassBody.lean) is what the class dict of the metaclass does, as operations on the graph of
overloaded functions; `effAll` (Spec/ClassSpec.lean) is the documented effective method set of every class.
-/
set_option autoImplicit false
namespace Ovld.ClassBody
open Ovld

/-- the graph of overloaded functions after the class statements `ks` -/
def graphOf (cfg : Cfg) (ks : List ClassDecl) : Graph := Graph.runOps cfg {} (translate ks).ops

/-- every class refers to earlier classes only -/
def WF (ks : List ClassDecl) : Prop :=
  ∀ (i : Nat) (k : ClassDecl), ks[i]? = some k → (∀ b ∈ k.bases, b < i) ∧ (∀ c ∈ k.mro, c < i)

set_option linter.unusedVariables false in
/-- **merge per class / inherit**: for every list of class statements and every class, the overloaded method the
    class ends up holding dispatches over exactly the documented effective method set, and a class holds a plain
    function exactly when the documentation says so -/
theorem C17_effective (cfg : Cfg) (ks : List ClassDecl) (hwf : WF ks) (i : Nat) (a : Attr)
    (h : (translate ks).attr[i]? = some a) :
    ∃ e, (effAll ks)[i]? = some e ∧
      match a with
      | .none => e.kind = .none
      | .plain d => e.kind = .plain ∧ e.fn = some d
      | .node n fl => e.kind = .ovld ∧ e.flagged = fl ∧
          (graphOf cfg ks).defns (graphOf cfg ks).depth n = e.defns := by
  obtain ⟨_, _, hag, _, _⟩ := mainInv cfg ks
  obtain ⟨e, he, hr⟩ := hag.get i a h
  refine ⟨e, he, ?_⟩
  cases a with
  | none => exact hr
  | plain d => exact ⟨hr.1, hr.2.1⟩
  | node n fl => exact ⟨hr.1, hr.2.1, hr.2.2.2⟩

/-- **without leaking**: one more class statement leaves what every earlier class holds, and the definitions of
    every function that existed before it, exactly as they were (base classes and siblings keep their behaviour) -/
theorem C17_bases_untouched (cfg : Cfg) (ks : List ClassDecl) (k : ClassDecl) :
    (translate (ks ++ [k])).attr.take ks.length = (translate ks).attr ∧
    ∀ m, m < (translate ks).nn →
      (graphOf cfg (ks ++ [k])).defns (graphOf cfg (ks ++ [k])).depth m =
        (graphOf cfg ks).defns (graphOf cfg ks).depth m :=
  (MainInv.step cfg ks k (mainInv cfg ks)).2

set_option linter.unusedVariables false in
/-- class statements never put a function to use: nothing is compiled or locked by them, and every operation
    they perform is accepted -/
theorem C17_ops_accepted (cfg : Cfg) (ks : List ClassDecl) (hwf : WF ks) :
    Graph.opsOK cfg {} (translate ks).ops = true ∧
    ∀ n, ((graphOf cfg ks).get n).locked = false ∧ ((graphOf cfg ks).get n).compiled = false := by
  obtain ⟨_, hs, _⟩ := mainInv cfg ks
  obtain ⟨h1, _, h3, _⟩ := snap_graph cfg hs
  exact ⟨h3, fun n => ⟨(h1 n).2.1, (h1 n).1⟩⟩

set_option linter.unusedVariables false in
/-- **calls on the bound method** (with C08): a call on the method a class holds — including every nested
    `recurse` / `call_next` — behaves like the same call on a brand-new function over the documented effective
    method set of that class -/
theorem C17_call (cfg : Cfg) (ks : List ClassDecl) (hwf : WF ks) (i n : Nat) (fl : Bool) (e : Eff)
    (h : (translate ks).attr[i]? = some (.node n fl)) (he : (effAll ks)[i]? = some e)
    (hd : DistinctHandlers (Fn.methsOf e.defns)) (c : Call) :
    ((graphOf cfg ks).call cfg n c).2.1 = Fn.outcome ((Fn.fresh e.defns).call cfg c) ∧
    ((graphOf cfg ks).call cfg n c).2.2.1 = Fn.trace ((Fn.fresh e.defns).call cfg c) := by
  obtain ⟨a, hs, hag, _, _⟩ := mainInv cfg ks
  obtain ⟨_, h2, h3, _⟩ := snap_graph cfg hs
  obtain ⟨e', he', hr⟩ := hag.get i _ h
  rw [he] at he'
  cases he'
  unfold graphOf
  have hdef : (Graph.runOps cfg {} (translate ks).ops).defns (Graph.runOps cfg {} (translate ks).ops).depth n =
      e.defns := hr.2.2.2
  have hn : n < (Graph.runOps cfg {} (translate ks).ops).nodes.length := by
    have : (Graph.runOps cfg {} (translate ks).ops).len = a.len := congrArg AG.len h2
    unfold Graph.len at this
    rw [this]; exact hr.2.2.1
  have := C08_call_as_fresh cfg (translate ks).ops h3 n hn (by unfold Graph.distinctAt; rw [hdef]; exact hd) c
  rw [hdef] at this
  exact this

end Ovld.ClassBody
