import random, sys, linecache, collections, traceback
from ovld import Ovld, recurse, call_next
# grammar-based bodies using recurse/call_next in many expression contexts; reference = same source with recurse/call_next bound to plain callables
def gen_expr(rnd, depth, allow_cn):
    # returns source of an expression over variable x (an int) that logs evaluation order through T(tag, v)
    if depth == 0:
        return rnd.choice(["x - 1", "T('a', x - 1)", "T('b', x - 2)", "0"])
    k = rnd.random()
    sub = lambda: gen_expr(rnd, depth - 1, allow_cn)
    fname = "call_next" if (allow_cn and rnd.random() < 0.3) else "recurse"
    forms = [
        lambda: f"{fname}({sub()})",
        lambda: f"{fname}(T('p', {sub()}), k=T('k', {sub()}))",
        lambda: f"({sub()}) + ({sub()})",
        lambda: f"({sub()} if T('c', x) > 1 else {sub()})",
        lambda: f"(T('l', x) and {sub()})",
        lambda: f"sum([{fname}(i) for i in range(T('r', x))])",
        lambda: f"sum({fname}(i) for i in range(x) if T('f', i) >= 0)",
        lambda: f"sum([i for i in range({fname}(T('it', x - 1)))])" if fname == "recurse" else f"{fname}({sub()})",
        lambda: f"(lambda y: {fname}(y))(T('lam', x - 1))",
        lambda: f"(w := {fname}({sub()})) + w",
        lambda: f"int(f'{{{fname}({sub()})}}')",
        lambda: f"{fname}(*[T('s', x - 1)])",
        lambda: f"{fname}(**{{'x': T('d', x - 1)}})",
        lambda: f"max({fname}({sub()}), {fname}({sub()}))",
    ]
    return rnd.choice(forms)()
LOG = []
class Budget(Exception): pass
def T(tag, v):
    LOG.append(tag)
    if len(LOG) > 60: raise Budget()
    return v
def build(body, mode):
    src = f"def m(x: int, *, k: int = 0):\n    T('enter', x)\n    if x <= 0: return 0\n    return {body}\n"
    src0 = "def z(x: int, *, k: int = 0):\n    return call_next(x) + 1 if x > 100 else 0\n" if False else ""
    g = {"T": T}
    fn = f"<c09_{mode}_{abs(hash(body))}>"; linecache.cache[fn] = (len(src), None, src.splitlines(True), fn)
    if mode == "ovld":
        g.update(recurse=recurse, call_next=call_next)
        exec(compile(src, fn, "exec"), g)
        F = Ovld(name="F")
        F.register(g["m"], priority=1)
        def base(x: int, *, k: int = 0): return x + k
        F.register(base)
        return F
    else:
        def base(x, k=0): return x + k
        def rec(*a, **kw):
            if len(a) != 1 or set(kw) - {"k"}: raise TypeError("No method")
            return g["m"](*a, **kw)
        def cn(*a, **kw):
            if len(a) != 1 or set(kw) - {"k"}: raise TypeError("No method")
            return base(*a, **kw)
        g.update(recurse=rec, call_next=cn)
        exec(compile(src, fn, "exec"), g)
        return g["m"]
def run(f, x):
    LOG.clear()
    try: r = ("ok", f(x))
    except RecursionError: r = ("rec",)
    except Exception as e: r = ("exc", type(e).__name__)
    return r, tuple(LOG)
stats = collections.Counter(); shown = collections.Counter()
for seed in range(int(sys.argv[1]), int(sys.argv[2])):
    rnd = random.Random(seed)
    body = gen_expr(rnd, rnd.choice([1, 2, 2, 3]), True)
    try: ref = build(body, "ref")
    except SyntaxError: stats["gen-syntax"] += 1; continue
    try:
        F = build(body, "ovld"); F.compile()
    except Exception as e:
        kind = "BUILD:" + type(e).__name__
        stats[kind] += 1
        if shown[kind] < 3: shown[kind] += 1; print(kind, str(e)[:70], "|", body)
        continue
    for x in (1, 2):
        stats["runs"] += 1
        a, b = run(F, x), run(ref, x)
        if a != b:
            kind = "DIFF"
            if "**" in body: kind = "DIFF(**kw)"
            stats[kind] += 1
            if shown[kind] < 4: shown[kind] += 1; print(kind, "x", x, a, b, "|", body)
print(dict(stats))
