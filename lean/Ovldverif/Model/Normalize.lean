import Ovldverif.Model.TypeOrder
/-!
# Layer B: normalisation of annotations (`types.py: TypeNormalizer.__call__`, `abc.py` generic handlers,
# `dependent.py: Equals.default_bound`) and `utils.subtler_type`

`Ann` is the syntax of the supported annotation forms; `normalize` follows `TypeNormalizer.__call__` branch by
branch (after the `fix:` commits for `Annotated[...]`, `type[Any]` and the bound of a mixed `Literal`):

* a string is evaluated in the function's globals (`Env.globals`) and normalised,
* `Annotated[X, ...]` is normalised like `X`,
* bare `type` is `type[object]`; `Any` and a missing annotation are `object`,
* `typing.Union[...]` / `Optional[...]`, `A | B` and a tuple of types all end in `Union[tuple(normalised members)]`
  (member order kept, nothing flattened),
* `type[X]` is kept verbatim (its argument is not normalised), except `type[Any]` = `type[object]`,
* `Literal[v1..vn]` is `Equals[v1..vn]` bounded by the nearest common base class of the values' types,
* `tuple[...]` is `ProductType[...]`; another parametrised generic goes to the handler registered for the most
  specific base of its origin (`Env.handler`, resolved by the real `TypeMap`; an input like the `issubclass`
  tables) and is bounded by its origin.
-/
set_option autoImplicit false
namespace Ovld.Norm
open Ovld

inductive Ann
  | missing
  | any
  | cls (c : Nat)
  | bareType
  | typeOf (a : Ann)
  | name (s : String)
  | annotated (a : Ann)
  | unionT (as : List Ann)
  | pipe (as : List Ann)
  | tup (as : List Ann)
  | literal (vals : List Nat)
  | tupleG (as : List Ann)
  | gen (origin : Nat) (as : List Ann)
deriving Repr, Inhabited

/-- is this annotation literally `typing.Any` -/
def Ann.isAny : Ann → Bool
  | .any => true
  | _ => false

inductive NTy
  | cls (c : Nat)
  /-- `type[X]`, argument verbatim -/
  | rawType (a : Ann)
  | union (ms : List NTy)
  | lit (vals : List Nat) (bound : NTy)
  | prod (ms : List NTy)
  /-- `SequenceFastCheck` / `CollectionFastCheck` / `MappingFastCheck` / `Callable` `[...] < origin` -/
  | fast (handler : Nat) (ms : List NTy) (origin : Nat)
deriving Repr, Inhabited

inductive NErr | nameError | noHandler | fuel
deriving Repr, DecidableEq

structure Env where
  globals : String → Option Ann
  /-- the class of a literal value -/
  valCls : Nat → Nat
  /-- which registered generic handler serves this origin class -/
  handler : Nat → Option Nat
  /-- `issubclass` on classes (the same table as `Hier.sub`) -/
  sub : Nat → Nat → Bool := fun _ _ => false
  /-- `c.__mro__` of a class (from CPython), most specific first, ending in `object` -/
  mro : Nat → List Nat := fun _ => []

/-- `Equals.default_bound`: the nearest class (along the MRO of the first value's class) that all the values are
    instances of -/
def defaultBound (env : Env) (vals : List Nat) : NTy :=
  let cs := vals.map env.valCls
  match cs with
  | [] => .cls 0
  | c0 :: _ =>
    match (env.mro c0).find? (fun cand => cs.all (fun c => env.sub c cand)) with
    | some b => .cls b
    | none => .cls 0

def mapE {α β ε : Type} (f : α → Except ε β) : List α → Except ε (List β)
  | [] => .ok []
  | x :: xs =>
    match f x with
    | .error e => .error e
    | .ok y =>
      match mapE f xs with
      | .error e => .error e
      | .ok ys => .ok (y :: ys)

/-- `normalize_type(t, fn)` -/
def normalize (env : Env) : Nat → Ann → Except NErr NTy
  | 0, _ => .error .fuel
  | f + 1, a =>
    match a with
    | .name s =>
      match env.globals s with
      | some a' => normalize env f a'
      | none => .error .nameError
    | .annotated a' => normalize env f a'
    | .bareType => .ok (.rawType (.cls 0))
    | .any => .ok (.cls 0)
    | .missing => .ok (.cls 0)
    | .cls c => .ok (.cls c)
    | .typeOf a' => .ok (.rawType (if a'.isAny then .cls 0 else a'))
    | .unionT as => (mapE (normalize env f) as).map .union
    | .pipe as => (mapE (normalize env f) as).map .union
    | .tup as => (mapE (normalize env f) as).map .union
    | .literal vals => .ok (.lit vals (defaultBound env vals))
    | .tupleG as => (mapE (normalize env f) as).map .prod
    | .gen o as =>
      match env.handler o with
      | none => .error .noHandler
      | some h => (mapE (normalize env f) as).map (fun ms => .fast h ms o)

mutual
def Ann.size : Ann → Nat
  | .typeOf a => a.size + 1
  | .annotated a => a.size + 1
  | .unionT as => Ann.sizeL as + 1
  | .pipe as => Ann.sizeL as + 1
  | .tup as => Ann.sizeL as + 1
  | .tupleG as => Ann.sizeL as + 1
  | .gen _ as => Ann.sizeL as + 1
  | _ => 1
def Ann.sizeL : List Ann → Nat
  | [] => 0
  | a :: as => a.size + Ann.sizeL as + 1
end

/-! ## the type-valued argument side: `subtler_type` -/

/-- an argument object, as far as keying is concerned -/
inductive PyArg
  | inst (c : Nat)
  /-- a class or a parametrised generic passed as a value -/
  | typeVal (t : Ty)
  /-- `typing.Any` passed as a value -/
  | anyVal

/-- `subtler_type(obj)`; `cT` is the class id of `type` -/
def subtlerType (cT : Nat) : PyArg → Ty
  | .inst c => .cls c
  | .typeVal t => .gen cT [t]
  | .anyVal => .gen cT [.cls 0]

/-! ## into the types of the order model (the fragment it has constructors for) -/

mutual
/-- the argument of `type[...]` as a type of the order model: classes and parametrised generics -/
def annTy (cT : Nat) : Ann → Option Ty
  | .cls c => some (.cls c)
  | .any => some (.cls 0)
  | .gen o as => (annTyL cT as).map (.gen o)
  | .typeOf a => (annTy cT a).map (fun t => .gen cT [t])
  | _ => none
def annTyL (cT : Nat) : List Ann → Option (List Ty)
  | [] => some []
  | a :: as =>
    match annTy cT a, annTyL cT as with
    | some t, some ts => some (t :: ts)
    | _, _ => none
end

mutual
def NTy.toTy (cT cTuple : Nat) : NTy → Option Ty
  | .cls c => some (.cls c)
  | .rawType a => (annTy cT a).map (fun t => .gen cT [t])
  | .union ms => (NTy.toTyL cT cTuple ms).map .union
  | .lit vals b => (NTy.toTy cT cTuple b).map (.lit vals)
  | .prod ms => (NTy.toTyL cT cTuple ms).map (fun ts => .prod ts (.cls cTuple))
  | .fast .. => none
def NTy.toTyL (cT cTuple : Nat) : List NTy → Option (List Ty)
  | [] => some []
  | a :: as =>
    match NTy.toTy cT cTuple a, NTy.toTyL cT cTuple as with
    | some t, some ts => some (t :: ts)
    | _, _ => none
end

/-! ## which values a normalised annotation accepts (classes, unions, literals) -/

/-- `isinstance(v, T)` for a value `v` (an equality class of values) of class `vcls` -/
def NTy.accepts (H : Hier) (vcls v : Nat) : Nat → NTy → Bool
  | 0, _ => false
  | _ + 1, .cls c => H.sub vcls c
  | f + 1, .union ms => ms.any (NTy.accepts H vcls v f)
  | f + 1, .lit vals b => NTy.accepts H vcls v f b && vals.contains v
  | _ + 1, _ => false

end Ovld.Norm
