#!/bin/sh
# MANIFEST.setup_cmd: build the Lean library (all theorems are checked here) and the native driver.
set -e
cd "$(dirname "$0")/lean"
lake build Ovldverif driver 2>&1 | tail -5
