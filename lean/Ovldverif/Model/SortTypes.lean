import Ovldverif.Model.TypeOrder
import Ovldverif.Model.TyEq
import Ovldverif.Model.Batch
/-!
# Layer C (2/2): `mro.sort_types` and the levels computed by `TypeMap.__missing__`

`avail` is an explicit list: the iteration order of the library's `set` of registered types is an
input of the model.  Predecessor sets are built from the *one direction* comparisons
`typeorder(avail[i], avail[j])`, `i < j`, exactly as mro.py L165-172 does.
-/
set_option autoImplicit false
namespace Ovld

section
variable (H : Hier)

def depsOf (before : List Ty) (t : Ty) (after : List Ty) : List Ty :=
  before.filter (fun u => typeorder H u t == .less) ++ after.filter (fun u => typeorder H t u == .more)

def allDepsGo : List Ty → List Ty → List (Ty × List Ty)
  | _, [] => []
  | before, t :: after => (t, depsOf H before t after) :: allDepsGo (before ++ [t]) after

def allDeps (avail : List Ty) : List (Ty × List Ty) := allDepsGo H [] avail

def predFn (deps : List (Ty × List Ty)) (t : Ty) : List Ty :=
  match deps.find? (fun p => p.1 == t) with
  | some p => p.2
  | none => []

/-- `list(sort_types(cls, avail))`; `none` = `graphlib.CycleError` -/
def sortTypes (cls : Ty) (avail : List Ty) : Option (List (List Ty)) :=
  let av := avail.filter (fun t => subclasscheck H cls t)
  let bs := batches (predFn (allDeps H av)) av.length av []
  if bs.flatten.length == av.length then some bs else none

/-- level of each applicable registered type: index in the reversed batches (typemap.py L45) -/
def levels (cls : Ty) (avail : List Ty) : Option (List (Ty × Nat)) :=
  match sortTypes H cls avail with
  | none => none
  | some bs =>
    let n := bs.length
    some ((bs.zipIdx).flatMap (fun (b, i) => b.map (fun t => (t, n - 1 - i))))

end
end Ovld
