import Ovldverif.Lemmas.GraphOps
import Ovldverif.Lemmas.FnInv
/-!
# The tables in service in the graph of functions: a per-node invariant preserved by every operation

`Inv` (Lemmas/GraphOps.lean) talks about the static projections of the graph and about `built`; here the
remaining fields `mm` / `ana` of every node are tied to `built`: a compiled node carries a successful analysis
of `built` and — whenever the handlers of `built` are distinct — a table satisfying the single-function
invariant `FInv`.  Every (re)compilation re-establishes this from a blank table; a call preserves it.
-/
set_option autoImplicit false
namespace Ovld

/-- the part of a node a call works on -/
structure Tab where
  compiled : Bool
  built : List (Def × Int)
  mm : MMap
  ana : Analysis

def Node.tab (x : Node) : Tab := ⟨x.compiled, x.built, x.mm, x.ana⟩

/-- the single-function view on which a call runs -/
def Tab.view (t : Tab) : Fn := { defns := t.built, compiled := true, mm := t.mm, ana := t.ana }

def Graph.tb (g : Graph) : Nat → Tab := fun k => (g.get k).tab

theorem Graph.viewOf_eq (g : Graph) (n : Nat) : g.viewOf n = (g.tb n).view := rfl

/-- the table invariant of one node -/
def TabOK (cfg : Cfg) (t : Tab) : Prop :=
  t.compiled = true → analyze (t.built.map (·.1.d)) = .ok t.ana ∧
    (DistinctHandlers (Fn.methsOf t.built) →
      FInv cfg t.built t.ana t.view)

/-- what `compile` leaves behind -/
def Tab.Fresh (t : Tab) : Prop :=
  ∃ ds ana, analyze (ds.map (·.1.d)) = .ok ana ∧ t = ⟨true, ds, MMap.fresh (Fn.methsOf ds), ana⟩

theorem Tab.Fresh.ok (cfg : Cfg) {t : Tab} (h : t.Fresh) : TabOK cfg t := by
  obtain ⟨ds, ana, ha, rfl⟩ := h
  intro _
  exact ⟨ha, fun _ => Fn.built_inv cfg ds ana⟩

/-- a call on the view preserves the invariant of the node (only `mm` is stored back) -/
theorem TabOK.call (cfg : Cfg) (t : Tab) (c : Call) (h : TabOK cfg t) :
    TabOK cfg ⟨t.compiled, t.built, (t.view.call cfg c).1.mm, t.ana⟩ := by
  intro hc
  obtain ⟨ha, hf⟩ := h hc
  refine ⟨ha, fun hd => ?_⟩
  have ok := plan_ok (Fn.cfgOf cfg t.built) (Fn.methsOf t.built) hd.ids hd.codes
  have r := (call_rel cfg _ _ ok _ _ (hf hd) (hf hd) c).inv1
  exact ⟨rfl, rfl, rfl, r.mm⟩

/-! ## how the operations change the tables: each one is kept or rebuilt from scratch -/

def TUpd (g g' : Graph) : Prop := ∀ k, g'.tb k = g.tb k ∨ (g'.tb k).Fresh

theorem TUpd.refl (g : Graph) : TUpd g g := fun _ => Or.inl rfl

theorem TUpd.trans {a b c : Graph} (h1 : TUpd a b) (h2 : TUpd b c) : TUpd a c := by
  intro k
  rcases h2 k with h | h
  · rw [h]; exact h1 k
  · exact Or.inr h

theorem TUpd.of_eq {g g' : Graph} (h : g'.tb = g.tb) : TUpd g g' := fun k => Or.inl (congrFun h k)

def AllOK (cfg : Cfg) (g : Graph) : Prop := ∀ k, TabOK cfg (g.tb k)

theorem AllOK.upd {cfg : Cfg} {g g' : Graph} (h : AllOK cfg g) (hu : TUpd g g') : AllOK cfg g' := by
  intro k
  rcases hu k with hk | hk
  · rw [hk]; exact h k
  · exact hk.ok cfg

theorem AllOK.empty (cfg : Cfg) : AllOK cfg {} := by
  intro k hc
  have : (({} : Graph).get k).compiled = true := hc
  rw [Graph.get_of_ge {} k (Nat.zero_le k)] at this
  cases this

theorem Graph.tb_set (g : Graph) (n : Nat) (x : Node) (h : x.tab = (g.get n).tab) : (g.set n x).tb = g.tb :=
  Graph.proj_set Node.tab g n x h

/-! ### locking -/

theorem foldl_tb {β : Type} (step : Graph → β → Graph) (l : List β) (hs : ∀ a, ∀ b ∈ l, (step a b).tb = a.tb)
    (a : Graph) : (l.foldl step a).tb = a.tb :=
  foldl_rel (fun a b : Graph => b.tb = a.tb) (fun _ => rfl) (fun _ _ _ h1 h2 => h2.trans h1) step l hs a

theorem Graph.lock_tb : ∀ (f : Nat) (g : Graph) (n : Nat), (Graph.lock f g n).tb = g.tb
  | 0, _, _ => rfl
  | f + 1, g, n => by
    unfold Graph.lock
    exact (foldl_tb _ _ (fun a b _ => Graph.lock_tb f a b) _).trans (Graph.tb_set g n _ rfl)

theorem Graph.lockUnlinked_tb : ∀ (f : Nat) (g : Graph) (n : Nat), (Graph.lockUnlinked f g n).tb = g.tb
  | 0, _, _ => rfl
  | f + 1, g, n => by
    unfold Graph.lockUnlinked
    refine foldl_tb _ _ (fun a b _ => ?_) _
    split
    · exact Graph.lockUnlinked_tb f a b
    · exact Graph.lock_tb f a b

/-! ### compile -/

/-- locking does not change the overlay -/
theorem Graph.lockUnlinked_defns (f : Nat) (g : Graph) (n k : Nat) :
    (Graph.lockUnlinked f g n).defns (Graph.lockUnlinked f g n).depth k = g.defns g.depth k :=
  Graph.defnsD_frame (D := fun k => g.defns g.depth k) (Graph.lockUnlinked_frame f g n).shape (fun _ => rfl) k

theorem Graph.compile_eq (g : Graph) (n : Nat) :
    g.compile n =
      match analyze ((g.defns g.depth n).map (·.1.d)) with
      | .error e => (Graph.lockUnlinked (g.nodes.length + 1) g n, some e)
      | .ok ana =>
        ((Graph.lockUnlinked (g.nodes.length + 1) g n).set n
          { (Graph.lockUnlinked (g.nodes.length + 1) g n).get n with
            compiled := true, mm := MMap.fresh (Fn.methsOf (g.defns g.depth n)), ana := ana,
            built := g.defns g.depth n }, none) := by
  unfold Graph.compile
  dsimp only
  rw [Graph.lockUnlinked_defns]
  rfl

theorem Graph.compile_err (g : Graph) (n : Nat) (e : CfgErr)
    (h : analyze ((g.defns g.depth n).map (·.1.d)) = .error e) : (g.compile n).2 = some e := by
  rw [Graph.compile_eq, h]

theorem Graph.compile_tb_ok (g : Graph) (n : Nat) (ana : Analysis) (hn : n < g.len)
    (h : analyze ((g.defns g.depth n).map (·.1.d)) = .ok ana) :
    (g.compile n).2 = none ∧
      (g.compile n).1.tb n = ⟨true, g.defns g.depth n, MMap.fresh (Fn.methsOf (g.defns g.depth n)), ana⟩ := by
  rw [Graph.compile_eq, h]
  refine ⟨rfl, ?_⟩
  show (((Graph.lockUnlinked (g.nodes.length + 1) g n).set n _).get n).tab = _
  have hl : n < (Graph.lockUnlinked (g.nodes.length + 1) g n).nodes.length := by
    have := (Graph.lockUnlinked_frame (g.nodes.length + 1) g n).shape.len
    unfold Graph.len at this hn
    omega
  rw [Graph.get_set, if_pos ⟨rfl, hl⟩]
  rfl

theorem Graph.compile_upd (g : Graph) (n : Nat) : TUpd g (g.compile n).1 := by
  rw [Graph.compile_eq]
  have ht := Graph.lockUnlinked_tb (g.nodes.length + 1) g n
  cases ha : analyze ((g.defns g.depth n).map (·.1.d)) with
  | error e => exact TUpd.of_eq ht
  | ok ana =>
    intro k
    show ((((Graph.lockUnlinked (g.nodes.length + 1) g n).set n _).get k).tab = _) ∨
      ((((Graph.lockUnlinked (g.nodes.length + 1) g n).set n _).get k).tab).Fresh
    rw [Graph.get_set]
    split
    · exact Or.inr ⟨_, ana, ha, rfl⟩
    · exact Or.inl (congrFun ht k)

/-! ### `_update()` -/

theorem Graph.update_upd : ∀ (f : Nat) (g : Graph) (n : Nat), TUpd g (Graph.update f g n).1
  | 0, g, _ => TUpd.refl g
  | f + 1, g, n => by
    rw [Graph.update_succ]
    have h1 : TUpd g (if (g.get n).compiled then g.compile n else (g, none)).1 := by
      split
      · exact Graph.compile_upd g n
      · exact TUpd.refl g
    generalize (if (g.get n).compiled then g.compile n else (g, none)) = r1 at h1
    have : ∀ (l : List Nat) (acc : Graph × Option CfgErr),
        TUpd acc.1 (l.foldl (fun (acc : Graph × Option CfgErr) c =>
          ((Graph.update f acc.1 c).1, match acc.2 with | some e => some e | none => (Graph.update f acc.1 c).2)) acc).1 := by
      intro l
      induction l with
      | nil => intro acc; exact TUpd.refl _
      | cons c l ih =>
        intro acc
        simp only [List.foldl_cons]
        exact (Graph.update_upd f acc.1 c).trans (ih _)
    exact h1.trans (this _ r1)

/-! ### register / unregister / add_mixins / create -/

theorem Graph.setOwn_tb (g : Graph) (n : Nat) (o : List (Def × Int)) : (g.setOwn n o).tb = g.tb :=
  Graph.tb_set g n _ rfl

theorem Graph.register_upd (g : Graph) (n : Nat) (d : Def) : TUpd g (g.register n d).1 := by
  cases hl : (g.get n).locked with
  | true => simp [Graph.register, hl]; exact TUpd.refl g
  | false =>
    rw [Graph.register_eq g n d hl]
    exact (TUpd.of_eq (Graph.setOwn_tb g n _)).trans (Graph.update_upd _ _ _)

theorem Graph.unregister_upd (g : Graph) (n : Nat) (id : Nat) : TUpd g (g.unregister n id).1 := by
  cases hl : (g.get n).locked with
  | true => simp [Graph.unregister, hl]; exact TUpd.refl g
  | false =>
    rw [Graph.unregister_eq g n id hl]
    exact (TUpd.of_eq (Graph.setOwn_tb g n _)).trans (Graph.update_upd _ _ _)

theorem Graph.setMixins_tb (g : Graph) (n : Nat) (ms : List Nat) :
    (g.set n { g.get n with mixins := (g.get n).mixins ++ ms }).tb = g.tb :=
  Graph.tb_set g n _ rfl

theorem Graph.setChildren_tb (g : Graph) (m n : Nat) :
    (g.set m { g.get m with children := (g.get m).children ++ [n] }).tb = g.tb :=
  Graph.tb_set g m _ rfl

theorem Graph.addEdges_tb (g : Graph) (n : Nat) (ms : List Nat) : (g.addEdges n ms).tb = g.tb := by
  unfold Graph.addEdges
  refine (Graph.setMixins_tb _ n ms).trans ?_
  split
  · exact foldl_tb (fun g m => let y := g.get m; g.set m { y with children := y.children ++ [n] }) ms
      (fun a b _ => Graph.setChildren_tb a b n) g
  · rfl

theorem Graph.addMixins_upd (g : Graph) (n : Nat) (ms : List Nat) : TUpd g (g.addMixins n ms).1 := by
  cases hl : (g.get n).locked with
  | true => simp [Graph.addMixins, hl]; exact TUpd.refl g
  | false =>
    rw [Graph.addMixins_eq g n ms hl]
    exact (TUpd.of_eq (Graph.addEdges_tb g n _)).trans (Graph.update_upd _ _ _)

theorem Graph.append_tb (g : Graph) (lb : Bool) : (Graph.mk (g.nodes ++ [{ linkback := lb }])).tb = g.tb := by
  funext k
  show ((Graph.mk (g.nodes ++ [{ linkback := lb }])).get k).tab = (g.get k).tab
  rw [Graph.get_append]
  split
  · next hk => rw [hk, Graph.get_of_ge g _ (Nat.le_refl _)]; rfl
  · rfl

theorem Graph.create_upd (g : Graph) (ms : List Nat) (lb : Bool) : TUpd g (g.create ms lb) := by
  have : g.create ms lb = ((Graph.mk (g.nodes ++ [{ linkback := lb }])).addMixins g.nodes.length ms).1 := rfl
  rw [this]
  exact (TUpd.of_eq (Graph.append_tb g lb)).trans (Graph.addMixins_upd _ _ _)

/-! ### call -/

theorem Graph.call_compiled (cfg : Cfg) (g : Graph) (n : Nat) (c : Call) (hc : (g.get n).compiled = true) :
    g.call cfg n c =
      (g.set n { g.get n with mm := ((g.tb n).view.call cfg c).1.mm },
        ((g.tb n).view.call cfg c).2.1, ((g.tb n).view.call cfg c).2.2.1, ((g.tb n).view.call cfg c).2.2.2) := by
  unfold Graph.call
  rw [if_pos hc]
  dsimp only [Tab.view, Graph.tb, Node.tab]

theorem Graph.call_uncompiled_err (cfg : Cfg) (g : Graph) (n : Nat) (c : Call) (e : CfgErr)
    (hc : (g.get n).compiled = false) (h : (g.compile n).2 = some e) :
    g.call cfg n c = ((g.compile n).1, .configError, [], 0) := by
  unfold Graph.call
  rw [if_neg (by rw [hc]; exact Bool.false_ne_true)]
  generalize g.compile n = r at h
  obtain ⟨g1, e1⟩ := r
  cases h
  rfl

theorem Graph.call_uncompiled_ok (cfg : Cfg) (g : Graph) (n : Nat) (c : Call)
    (hc : (g.get n).compiled = false) (h : (g.compile n).2 = none) :
    g.call cfg n c =
      ((g.compile n).1.set n { (g.compile n).1.get n with mm := (((g.compile n).1.tb n).view.call cfg c).1.mm },
        (((g.compile n).1.tb n).view.call cfg c).2.1, (((g.compile n).1.tb n).view.call cfg c).2.2.1,
        (((g.compile n).1.tb n).view.call cfg c).2.2.2) := by
  unfold Graph.call
  rw [if_neg (by rw [hc]; exact Bool.false_ne_true)]
  generalize g.compile n = r at h
  obtain ⟨g1, e1⟩ := r
  cases h
  dsimp only [Tab.view, Graph.tb, Node.tab]

theorem AllOK.setCall {cfg : Cfg} {g : Graph} (h : AllOK cfg g) (n : Nat) (c : Call) :
    AllOK cfg (g.set n { g.get n with mm := ((g.tb n).view.call cfg c).1.mm }) := by
  intro k
  show TabOK cfg ((g.set n _).get k).tab
  rw [Graph.get_set]
  split
  · exact TabOK.call cfg (g.tb n) c (h n)
  · exact h k

theorem AllOK.call {cfg : Cfg} {g : Graph} (h : AllOK cfg g) (n : Nat) (c : Call) :
    AllOK cfg (g.call cfg n c).1 := by
  cases hc : (g.get n).compiled with
  | true =>
    rw [Graph.call_compiled cfg g n c hc]
    exact AllOK.setCall h n c
  | false =>
    have h1 : AllOK cfg (g.compile n).1 := AllOK.upd h (Graph.compile_upd g n)
    cases he : (g.compile n).2 with
    | some e =>
      rw [Graph.call_uncompiled_err cfg g n c e hc he]
      exact h1
    | none =>
      rw [Graph.call_uncompiled_ok cfg g n c hc he]
      exact AllOK.setCall h1 n c

/-! ## a call on a node behaves like the same call on a new function carrying `built` -/

theorem TabOK.call_as_fresh (cfg : Cfg) (t : Tab) (c : Call) (h : TabOK cfg t) (hc : t.compiled = true)
    (hd : DistinctHandlers (Fn.methsOf t.built)) :
    (t.view.call cfg c).2.1 = ((Fn.fresh t.built).call cfg c).2.1 ∧
    (t.view.call cfg c).2.2.1 = ((Fn.fresh t.built).call cfg c).2.2.1 := by
  obtain ⟨ha, hf⟩ := h hc
  have ok := plan_ok (Fn.cfgOf cfg t.built) (Fn.methsOf t.built) hd.ids hd.codes
  rw [Fn.call_fresh_ok cfg _ t.ana ha c]
  have r := call_rel cfg _ t.ana ok t.view (Fn.built t.built t.ana) (hf hd) (Fn.built_inv cfg _ t.ana) c
  exact ⟨r.outcome, r.trace⟩

/-- the node-level statement, on any graph satisfying both invariants -/
theorem Graph.call_as_fresh (cfg : Cfg) (g : Graph) (hi : Inv g) (ht : AllOK cfg g) (n : Nat) (hn : n < g.len)
    (hd : DistinctHandlers (Fn.methsOf (g.defns g.depth n))) (c : Call) :
    (g.call cfg n c).2.1 = ((Fn.fresh (g.defns g.depth n)).call cfg c).2.1 ∧
    (g.call cfg n c).2.2.1 = ((Fn.fresh (g.defns g.depth n)).call cfg c).2.2.1 := by
  cases hc : (g.get n).compiled with
  | true =>
    have hb : (g.tb n).built = g.defns g.depth n := hi.cons n hc
    rw [Graph.call_compiled cfg g n c hc, ← hb]
    exact TabOK.call_as_fresh cfg (g.tb n) c (ht n) hc (by rw [hb]; exact hd)
  | false =>
    cases ha : analyze ((g.defns g.depth n).map (·.1.d)) with
    | error e =>
      rw [Graph.call_uncompiled_err cfg g n c e hc (Graph.compile_err g n e ha), Fn.call_fresh_err cfg _ e ha c]
      exact ⟨rfl, rfl⟩
    | ok ana =>
      obtain ⟨h1, h2⟩ := Graph.compile_tb_ok g n ana hn ha
      rw [Graph.call_uncompiled_ok cfg g n c hc h1, h2, Fn.call_fresh_ok cfg _ ana ha c]
      exact ⟨rfl, rfl⟩

end Ovld
