import Ovldverif.Model.Cache
/-!
# Specification of the cache layer: the pure lookup, the structural facts needed about a plan, the invariant

`pureLookup plan ck` is what a lookup returns on a table with nothing cached.  `PlanOK`: the code objects of
different ranks are pairwise distinct, and every rank's codes are among `allCodes`.
-/
set_option autoImplicit false
namespace Ovld

section
variable {K F E : Type} [DecidableEq K]

/-- last value written to `ck` in the cache / in errors by a list of writes -/
def lastC (ck : CKey K) : List (W K F E) → Option F
  | [] => none
  | .c ck' f :: ws => match lastC ck ws with | some g => some g | none => if ck = ck' then some f else none
  | .e _ _ :: ws => lastC ck ws
def lastE (ck : CKey K) : List (W K F E) → Option E
  | [] => none
  | .e ck' f :: ws => match lastE ck ws with | some g => some g | none => if ck = ck' then some f else none
  | .c _ _ :: ws => lastE ck ws

variable (plan : K → Plan F E)

/-- what a lookup of an ordinary key returns on a table with nothing cached -/
def pureTop (k : K) : Res F E :=
  if (plan k).fail then .failed
  else if (plan k).ranks.isEmpty then .noMethod
  else match lastE (none, k) (ws plan k) with
    | some e => .amb e
    | none => match lastC (none, k) (ws plan k) with
      | some f => .ok f
      | none => .keyError

def pureNext (c : Code) (k : K) : Res F E :=
  match pureTop plan k with
  | .ok f =>
    if !(plan k).allCodes.contains c then .ok f
    else match lastE (some c, k) (ws plan k) with
      | some e => .amb e
      | none => match lastC (some c, k) (ws plan k) with
        | some f' => .ok f'
        | none => .noMethod
  | r => r

def pureLookup : CKey K → Res F E
  | (none, k) => pureTop plan k
  | (some c, k) => pureNext plan c k

/-- all codes of all ranks, in publication order -/
def rankCodes (rs : List (Rank F E)) : List Code := rs.flatMap (·.codes)

structure PlanOK : Prop where
  codes_nodup : ∀ k, (rankCodes (plan k).ranks).Nodup
  codes_sub : ∀ k, ∀ c ∈ rankCodes (plan k).ranks, c ∈ (plan k).allCodes

/-- everything cached is what a resolution of that key on an empty table publishes; once the entry of a key
    ITSELF is present (`cache (none, k)`, the last write of `ws plan k`) everything its resolution publishes is
    present — nothing is promised for a key whose resolution was interrupted after a prefix of its writes
    (`all k` set, own entry absent); a key whose plan fails is never touched -/
structure CInv (st : St K F E) : Prop where
  cache_sub : ∀ ck f, st.cache ck = some f → lastC ck (ws plan ck.2) = some f ∧ (plan ck.2).fail = false
  errors_sub : ∀ ck e, st.errors ck = some e → lastE ck (ws plan ck.2) = some e ∧ (plan ck.2).fail = false
  all_eq : ∀ k cs, st.all k = some cs → cs = (plan k).allCodes ∧ (plan k).fail = false
  closed_c : ∀ k, st.cache (none, k) ≠ none → ∀ c, st.cache (c, k) = lastC (c, k) (ws plan k)
  closed_e : ∀ k, st.cache (none, k) ≠ none → ∀ c, st.errors (c, k) = lastE (c, k) (ws plan k)
  top_all : ∀ k f, st.cache (none, k) = some f → st.all k ≠ none

/-- does this lookup run `resolve` (and with it `mro`, `sort_types`, `typeorder`, `subclasscheck`)? -/
def resolves (st : St K F E) : CKey K → Bool
  | (none, k) => (st.cache (none, k)).isNone && !(plan k).fail
  | (some c, k) => (st.cache (some c, k)).isNone && (st.cache (none, k)).isNone && !(plan k).fail

end
end Ovld
