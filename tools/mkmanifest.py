"""Regenerate MANIFEST.json from the table below (development-time helper)."""
import json
props = [json.loads(l) for l in open('/verif/properties.jsonl')]
CORR = "Tied to /repo's working tree on every run by differential correspondence: generated scenarios are executed on the real code and on the compiled Lean model and every operation is compared (outcome, trace of entered methods with the identities of received arguments, cache key sets / resolve counts); the property's oracle is additionally evaluated on the real code alone. "
TB = "Trusted: Lean kernel; axioms propext/Classical.choice/Quot.sound only (audited each run); hand-written model + correspondence harness; CPython issubclass/typing/graphlib/list.sort/dict modelled (class tables re-extracted from live classes per scenario), set iteration order imposed through ovld.typemap.set in correspondence runs."
CLAIMED = {
 "C01": dict(
   text="Proof (Lean 4) of the three layers that keep a body from being entered on excluded arguments: (1) C01_lookup_applicable — whatever the table returns for a key or a call_next continuation key, for ANY declared types, only mentions handlers applicable to that key (arity, required keywords, every key type a subtype of the declared type); (2) C01_bind_arity — CPython's binding of the forwarded arguments; (3) C01_dependent_selected / C01_dependent_keyed — a generated value dispatcher only selects a handler whose generated conditions hold (resp. whose table key equals the argument). " + CORR + "Oracle: Python's own isinstance(arg, declared annotation) for every argument of every entered body, over static and value-dependent method sets.",
   note="Partial: the value-level step from 'generated condition holds' to 'isinstance holds' is not a theorem for unions/intersections with value-dependent members (finding D7, listed) and literal tables (D4, listed). " + TB,
   technique="Lean 4 theorems over a hand-written model + differential correspondence + isinstance oracle", ref="7/C01"),
 "C02": dict(
   text="Proof (Lean 4): C02_partial / C02_table — for every well-formed antisymmetric hierarchy, every table of plain-class methods, every key and every iteration order of the library's sets, after any history of lookups, the table returns exactly what the documented rule (specResolve: priority, then pointwise subclassing with a strict difference, then recency between identical signatures) prescribes: the unique winner, Ambiguous, or No method — under candComparable and sigTieOK, the complements of findings D1 and D21. Built from levels_mono (longest-path layering is strictly monotone along subclassing, no CycleError), the ranking core (first rank is a singleton iff unique winner) and the cache refinement. " + CORR + "Oracle: specResolve evaluated by the Lean driver vs the real outcome for every lookup/call; a levels correspondence (layer C) with a directed search for a failing input when it breaks.",
   note="Partial: hypotheses candComparable (D1: integer levels order unrelated types) and sigTieOK (D21: tiebreak compared across signatures) delimit listed known findings; zero-argument calls bypass resolution (D9, listed). " + TB,
   technique="Lean 4 theorems (layering monotonicity, ranking core, cache refinement) + differential correspondence + spec oracle", ref="7/C02"),
 "C03": dict(
   text="Proof (Lean 4) about the generated entry point (entry, proved equal to an explicit fold entry'): C03_forwards_only_supplied, C03_positions (positional arguments keep their positions), C03_key (the lookup key is exactly the types of what is forwarded), C03_nothing_dropped (every supplied argument is forwarded when no keyword-given positional lies beyond an omitted one), C03_method_own_defaults (every parameter the caller omitted is left to the selected method's own default). " + CORR + "Oracle on the real code: the selected method received exactly the supplied objects by identity, omitted parameters hold that method's own default sentinel, and a call shape accepted by an applicable method under the documented keyword rules is not rejected. Finding D8 (early exit dropped keywords) was reported by this check and repaired (fix: commit).",
   note="Partial: residual class D8b (a keyword-given optional positional beyond an omitted one) and D9 (zero arguments) are listed findings; results/exceptions pass through by construction of the model (return method(args)) and are compared by the correspondence. " + TB,
   technique="Lean 4 theorems over a hand-written model of the generated dispatcher + differential correspondence + identity oracle", ref="7/C03"),
 "C04": dict(
   text="Proof (Lean 4): C04_table and C04_fn — for every table / function with distinct handlers, ANY history of lookups or calls (succeeding, ambiguous, unmatched, nested recurse / call_next / f.next with the same or other arguments, value-dependent ranks) followed by a call gives the outcome and the trace of entered bodies of the same call made first on a fresh object; by refinement of the three caches to a pure lookup (invariant CInv, lookup_spec) lifted through the execution of method bodies (RunRel). " + CORR + "Oracle: every call is repeated on a freshly built real function and compared.",
   note="Assumes distinct handler identities and code objects (CPython compares code objects by value; the model reproduces the collision, the theorem excludes it). " + TB,
   technique="Lean 4 refinement proof (cache state machine to pure lookup) + differential correspondence + fresh-object oracle", ref="7/C04"),
 "C05": dict(
   text="Proof (Lean 4): C05_table — after ANY interleaving of registrations and lookups a lookup returns what a brand-new table with the same registrations returns; C05_fn — after any sequence of register / re-register / unregister / call a call behaves as on a brand-new function carrying the resulting definitions; C05_defns_register_only. " + CORR + "Oracle: every lookup/call after a change is compared with a freshly built real table / function built from the survivors. Finding D2 (register did not clear remembered errors) was reported by this check and repaired (fix: commit); its witness is a regression corpus entry.",
   note="Partial at function level w.r.t. 'built from the surviving method set': tiebreaks left by unregister differ from a fresh build (D21, listed); registrations that fail with a configuration error are C18's subject. " + TB,
   technique="Lean 4 invariant proof over operation sequences + differential correspondence + fresh-object oracle", ref="7/C05"),
 "C06": dict(
   text="Proof (Lean 4): specResolve_perm, specResolve_irrelevant (the documented rule ignores registration order and non-applicable methods) and, with C02, C06_order (any two registration orders and any two iteration orders of the library's sets answer alike) and C06_irrelevant. " + CORR + "Oracle: each static table is rebuilt under a shuffled registration order and shuffled set orders and the outcomes compared; the levels correspondence covers the per-type layering.",
   note="Partial: inside candComparable / sigTieOK (D1, D21); overlapping unions/intersections are outside (D3, see C12). Hash seeds and addresses enter only through set iteration order, which the model takes as an explicit input. " + TB,
   technique="Lean 4 theorems (order-freeness of the spec + C02) + metamorphic differential runs", ref="7/C06"),
 "C07": dict(
   text="Proof (Lean 4): C07_step (call_next from a handler of rank i yields exactly rank i+1: handler, dependent dispatcher, its ambiguity, or No method below the last rank — any types), C07_once (handlers of different ranks are different: no method twice), C07_fresh (not a candidate for the new arguments => fresh call), C07_next_partial (static tables: call_next from cur resolves as if cur and everything ranked above it were not registered). " + CORR + "Oracle: nextSpec evaluated by the Lean driver vs the real continuation lookup; function-level chains through real bodies compared by trace.",
   note="Partial: strictAbove (no tied rank at or above the current method: D18), D1/D21 as in C02, zero-argument call_next raises KeyError (D24), handlers without a code object end the chain (codesAbove), f.next from methods with self is outside the documented use. " + TB,
   technique="Lean 4 theorems over the publication plan + differential correspondence + spec oracle", ref="7/C07"),
 "C12": dict(
   text="Proof (Lean 4): typeorder of the model is reflexive, coincides with subclassing on classes (transitive there), puts a parametrised generic below its origin, a union above / an intersection below each member, a value-dependent type below its bound, and is mirror-symmetric on the fragment symFrag (never two different hook designs facing each other, recursively) for all hierarchies and all types, unbounded nesting (C12_refl, C12_cls, C12_cls_trans, C12_generic_origin, C12_union_member, C12_inter_member, C12_lit_bound, C12_dep_bound, C12_mirror_one_hook, C12_mirror_partial; fuel_irrelevant shows the model's fuel never runs out). The model is tied to /repo by correspondence layer A (every ordered pair of generated type closures on the real mro.typeorder / subclasscheck vs the model) on every run, plus the laws evaluated directly on the real code. Outside symFrag the code is NOT mirror-symmetric (findings D3, D22: listed per pair of hook kinds, each with a replayed witness); there the model must still predict the real answer exactly.",
   note="Partial: mirror symmetry is proved on symFrag only; its complement is exactly the listed known-finding classes. Assumes Hier.WF (issubclass reflexive/transitive/below object; checked on the live classes of every scenario). " + TB,
   technique="Lean 4 theorems over a hand-written model + differential correspondence (typeorder/subclasscheck on live objects)", ref="7/C12"),
 "C13": dict(
   text="Proof (Lean 4): for every non-value-dependent type built from classes, unions, intersections, Exactly, StrictSubclass, HasMethod and class predicates and every class c, the model's subclasscheck(c, T) equals the documented membership mem c T (C13_mem, by induction with unbounded nesting); the test is reflexive, equals issubclass on classes (hence transitive), and is transitive through a class on the down-closed fragment (C13_trans_partial); it cannot be transitive through Exactly (C13_trans_exactly_counterexample, kernel-checked witness; finding D17). Tied to /repo by correspondence layer A and by evaluating mem (computed by the Lean driver) against the real subclasscheck for every class x type of every scenario.",
   note="Partial: transitivity only on the down-closed fragment (D17 findings listed: Exactly, HasMethod with virtual subclasses). Generic covariance is checked by the oracle and the correspondence, not by a separate theorem. Assumes Hier.WF (+ antisymmetry for StrictSubclass), checked per scenario. " + TB,
   technique="Lean 4 theorems over a hand-written model + differential correspondence", ref="7/C13"),
 "C20": dict(
   text="Proof (Lean 4): C20_hit (a cache hit never resolves), C20_table and C20_fn — once a lookup / call has succeeded, repeating it (including every recurse / call_next / f.next lookup its methods perform) runs no resolution at all, whatever other lookups or calls happened in between (resolve is the only caller of mro / sort_types / typeorder / subclasscheck and hence of user predicates and hooks); cache_monotone (lookups never evict). " + CORR + "The correspondence compares the number of MultiTypeMap.resolve invocations per call with the model's prediction; oracle: repeated successful calls leave the resolve counter and the user class-predicate call counters unchanged.",
   note="Distinct handlers assumed as in C04. " + TB,
   technique="Lean 4 theorems (warm_no_resolve, cache monotonicity) + differential correspondence on resolve counts + hook-counter oracle", ref="7/C20"),
}
checks = []
for pid, c in CLAIMED.items():
    checks.append({
      "property_id": pid,
      "quick_cmd": f"./check {pid} --tier quick",
      "thorough_cmd": f"./check {pid} --tier thorough",
      "evidence_file": f"evidence/{pid}.json",
      "replay_cmd_template": f"./check {pid} --replay {{path}}",
      "engine": "lean-model+correspondence",
      "level_claimed": {"category": "proof", "text": c["text"], "design_ref": c["ref"]},
      "level_note": c["note"],
      "technique": c["technique"],
    })
m = {
 "version": 1,
 "setup_cmd": "./setup.sh",
 "hooks": {"guard": "OVLD_VERIF", "enable": "no source hooks in /repo: the harness rebinds ovld.typemap.set (iteration order) and uses sys.settrace from outside", "baseline_off_cmd": "cd /repo && /venv/bin/python -m pytest -q -p no:cacheprovider --timeout=900", "source_commits": [], "add_only": True},
 "engines": [{"name": "lean-model+correspondence", "path": "lean/ (model, specs, theorems, driver) + harness/ (generators, adapters, oracles) + check", "serves_properties": sorted(CLAIMED), "kind_free_text": "hand-written Lean 4 model with machine-checked theorems; differential correspondence against /repo's working tree on every run"}],
 "checks": checks,
 "not_applicable": [{"property_id": p["id"], "reason": "check not built yet (work in progress, see DESIGN.md Appendix B); not claimed"} for p in props if p["id"] not in CLAIMED],
 "notes": "Exit 2 = the check itself is broken (Lean build / audit failure, driver error), never a violation.",
}
json.dump(m, open('/verif/MANIFEST.json', 'w'), indent=1)
print(len(checks), "checks")
