"""C18: a failed build never leaves a half-built function in service.

Natural faults (an invalid method at each position: conflicting argument names, bare call_next, unreadable
source, a user class predicate that raises) and injected faults (an exception raised from a sys.settrace hook at
the n-th executed line of the library during first-use build, rebuild after a change, and cache-miss resolution).
After the failure, every probe call must either fail again with an error or behave exactly like a brand-new
function built from the complete set of registered methods; once the offending method is removed the function
must behave like a fresh one over the remaining methods."""

import linecache
import os
import random
import sys

from common import REPO, use_repo

use_repo()
_uid = [0]
SRC = os.path.join(REPO, "src", "ovld")


class Injected(BaseException):
    """stands for an interrupt arriving at an arbitrary moment"""


class Tracer:
    """raise Injected at the n-th 'line' event inside the library (including generated <ovld:...> code)"""

    def __init__(self, n):
        self.n = n
        self.count = 0
        self.fired = False

    def glob(self, frame, event, arg):
        fn = frame.f_code.co_filename
        if fn.startswith(SRC) or fn.startswith("<ovld:"):
            return self.local
        return None

    def local(self, frame, event, arg):
        if event == "line" and not self.fired:
            self.count += 1
            if self.count == self.n:
                self.fired = True
                stack = []
                f = frame
                while f is not None:
                    stack.append(f.f_code.co_name)
                    f = f.f_back
                self.stack = stack
                raise Injected()
        return self.local


def held_dispatch(ov):
    """the dispatch function as a user holds it (`f = ovld(...)` binds the function object once: a module global, a
    class attribute): the first one this Ovld ever had, whatever `ov.dispatch` is bound to later"""
    h = ov.__dict__.get("_verif_held")
    if h is None and hasattr(ov, "dispatch"):
        h = ov.dispatch
        ov.__dict__["_verif_held"] = h
    return h


def mk_fn(name, body, params, glb, readable=True):
    src = f"def {name}({params}):\n    {body}\n"
    _uid[0] += 1
    fname = f"<verif-build-{_uid[0]}>"
    if readable:
        linecache.cache[fname] = (len(src), None, src.splitlines(True), fname)
    exec(compile(src, fname, "exec"), glb)
    return glb[name]


class Scenario:
    """k valid one-argument methods over distinct classes + optionally one invalid method at position `bad_pos`"""

    def __init__(self, rng, k, bad_kind, bad_pos):
        from ovld import call_next, recurse
        from ovld.types import class_check

        self.k, self.bad_kind, self.bad_pos = k, bad_kind, bad_pos
        self.classes = []
        for i in range(k + 1):
            # chains of subclasses (so that call_next has somewhere to go) mixed with unrelated classes
            base = (self.classes[rng.randrange(i)],) if i and i < k and rng.random() < 0.6 else ()
            if i == k and i and bad_kind == "abc_hook" and rng.random() < 0.6:
                # the class the hook recognises is also a subclass of a class with a valid method: a resolution that
                # loses the hook's type still finds something (and would cache it)
                base = (self.classes[rng.randrange(i)],)
            if 2 <= i < k and bad_kind is None and rng.random() < 0.4:
                # two bases now and then: the methods of both are applicable to the class and neither dominates the
                # other (a tied rank; the ranking's bookkeeping of candidates it has set aside is then in use)
                two = tuple(rng.sample(self.classes[:i], 2))
                try:
                    type("S", two, {})
                    base = two
                except TypeError:
                    pass
            self.classes.append(type(f"B{i}", base, {}))
        self.raise_flag = [False]
        glb = {"call_next": call_next, "recurse": recurse, "__name__": "verif_build"}
        for i, c in enumerate(self.classes):
            glb[f"B{i}"] = c
        self.glb = glb
        self.fns = []
        # call shapes: some methods take an optional second positional, some an optional keyword-only argument, so
        # that an entry point generated from a partial or stale argument analysis is visibly different
        self.shapes = rng.random() < 0.5
        self.extra = []
        for i in range(k):
            r = rng.random()
            body = f"return ('m', {i})" if r < 0.4 else f"return ('m', {i}, recurse)" if r < 0.6 else f"return ('m', {i}, call_next(x))"
            params = f"x: B{i}"
            ex = None
            if self.shapes:
                ex = rng.choice([None, "y", "k"])
                if ex == "y":
                    params += ", y: object = 0"
                elif ex == "k":
                    params += ", *, k: object = 1"
            self.extra.append(ex)
            self.fns.append(mk_fn(f"m{i}", body, params, glb))
        flag = self.raise_flag

        def pred(cls):
            if flag[0]:
                raise RuntimeError("hook failure")
            return cls is self.classes[k]

        pred.__name__ = "pred"
        glb["P"] = class_check(pred)
        self.bad = None
        if bad_kind == "names":
            # the same name `x` positional in the others, keyword-only here
            self.bad = mk_fn("bad", "return ('bad',)", f"y: B{k}, *, x: B{k}", glb)
        elif bad_kind == "positions":
            self.bad = mk_fn("bad", "return ('bad',)", f"y: B{k}, x: B{k}", glb)
        elif bad_kind == "call_next":
            self.bad = mk_fn("bad", "f = call_next; return f(x)", f"x: B{k}", glb)
        elif bad_kind == "nosource":
            self.bad = mk_fn("bad", "return recurse(x)", f"x: B{k}", glb, readable=False)
        elif bad_kind == "hook":
            self.bad = mk_fn("bad", "return ('hooked',)", "x: P", glb)
        elif bad_kind == "abc_hook":
            # an abstract base class whose __subclasshook__ raises (anything but TypeError) while the flag is set
            import abc

            target = self.classes[k]

            class Q(abc.ABC):
                @classmethod
                def __subclasshook__(cls, C):
                    if flag[0]:
                        raise RuntimeError("hook failure")
                    return True if C is target else NotImplemented

            glb["Q"] = Q
            self.bad = mk_fn("bad", "return ('hooked',)", "x: Q", glb)
        self.order = list(range(k))
        if self.bad is not None:
            self.order.insert(bad_pos, "bad")

    def fn_of(self, tag):
        return self.bad if tag == "bad" else self.fns[tag]

    def build(self, tags):
        from ovld import Ovld

        ov = Ovld()
        for t in tags:
            ov.register(self.fn_of(t))
        held_dispatch(ov)
        return ov

    def probes(self):
        ps = [c() for c in self.classes]
        if self.shapes:
            for i, ex in enumerate(self.extra):
                if ex == "y":
                    ps.append(("call", (self.classes[i](), 7), {}))
                elif ex == "k":
                    ps.append(("call", (self.classes[i](),), {"k": 3}))
        return ps


def canon(r):
    if isinstance(r, tuple):
        return tuple(canon(x) for x in r)
    return "<callable>" if callable(r) else r


def invoke(f, arg):
    """call f with a probe: an instance, or ("call", args, kwargs)"""
    if isinstance(arg, tuple) and arg and arg[0] == "call":
        return f(*arg[1], **arg[2])
    return f(arg)


def call(ov, arg, route="obj"):
    try:
        f = ov if route == "obj" or not hasattr(ov, "dispatch") else held_dispatch(ov)
        if isinstance(arg, tuple) and arg and arg[0] == "call":
            r = f(*arg[1], **arg[2])
        else:
            r = f(arg)
        return ("ok", canon(r))
    except Injected:
        return ("injected",)
    except BaseException as e:  # noqa
        return ("error", type(e).__name__, str(e)[:80])


def is_error(r):
    return r[0] in ("error", "injected")


def reference(sc, tags, probes, hook_raises):
    """what a brand-new function over `tags` does for the probes"""
    sc.raise_flag[0] = hook_raises
    try:
        try:
            ov = sc.build(tags)
        except BaseException as e:  # noqa
            return [("error", type(e).__name__, str(e)[:80])] * len(probes)
        return [call(ov, p) for p in probes]
    finally:
        sc.raise_flag[0] = False


def binding_error(a):
    """the arity / keyword TypeError of a generated entry point: an answer of the function, not a build failure"""
    return a[0] == "error" and a[1] == "TypeError" and any(m in a[2] for m in ("positional argument", "keyword argument", "keyword-only", "multiple values"))


def cfg_error(a):
    """an error that is neither a dispatch answer ("No method" / "Ambiguous resolution") nor the entry point's own
    arity answer"""
    return is_error(a) and "No method" not in str(a) and "Ambiguous" not in str(a) and not binding_error(a)


def same(a, b):
    if is_error(a) and is_error(b) and binding_error(a) != binding_error(b):
        return False
    if is_error(a) and is_error(b):
        # error kinds must agree on "no method" vs other errors
        return ("No method" in str(a)) == ("No method" in str(b)) or a[1:2] == b[1:2]
    return a == b


def run_natural(rng, out, orc, known):
    kinds = ["names", "positions", "call_next", "nosource", "hook", "abc_hook"]
    kind = rng.choice(kinds)
    k = rng.randint(1, 4)
    pos = rng.randint(0, k)
    mode = rng.choice(["first", "rebuild"])
    sc = Scenario(rng, k, kind, pos)
    probes = sc.probes()
    wit = {"kind": "build", "bad_kind": kind, "k": k, "bad_pos": pos, "mode": mode}
    hook = kind in ("hook", "abc_hook")
    if mode == "first":
        ov = sc.build([t for t in sc.order if True]) if kind not in ("names", "positions") else None
        if ov is None:
            try:
                ov = sc.build(sc.order)
            except BaseException:  # the registration itself may refuse
                return
        sc.raise_flag[0] = hook
        first = [call(ov, p) for p in probes[:1]]
        after = [call(ov, p) for p in probes]
        sc.raise_flag[0] = False
    else:
        valid = [t for t in sc.order if t != "bad"]
        ov = sc.build(valid)
        for p in probes:
            call(ov, p)
        sc.raise_flag[0] = hook
        try:
            ov.register(sc.bad)
        except BaseException:
            pass
        after = [call(ov, p) for p in probes]
        sc.raise_flag[0] = False
    complete = list(ov.defns.values())
    tags_now = [("bad" if f is sc.bad else sc.fns.index(f)) for f in complete]
    # acceptable: a configuration error, or the behaviour of the valid registered methods (never a dispatch
    # answer computed over a table that lacks some of them)
    ref = reference(sc, [t for t in tags_now if t != "bad"], probes, False)
    o = orc("C18")
    o["n"] += 1
    o["nontrivial"] += 1
    for p_i, (a, r) in enumerate(zip(after, ref)):
        if cfg_error(a):
            continue
        if not same(a, r):
            known(o, f"D15:{mode}-{kind}" if False else "D15:half-built-function-in-service", {**wit, "probe": p_i, "got": a, "fresh": r})
            break
    # a type hook that raised and works again: the method it guards is an ordinary method now, and nothing computed
    # while the hook was failing may survive (no partial candidate set cached by the failed resolutions)
    if hook and "bad" in tags_now:
        ref_full = reference(sc, tags_now, probes, False)
        got_full = [call(ov, p) for p in probes]
        o["n"] += 1
        o["nontrivial"] += 1
        for p_i, (a, r) in enumerate(zip(got_full, ref_full)):
            if not same(a, r):
                o["viol"].append({"law": "after a type hook that raised works again, calls do not follow the complete set of registered methods", "probe": p_i, "got": a, "fresh": r, **wit})
                break
    # after removing the offending method the function must work normally
    if "bad" in tags_now:
        try:
            ov.unregister(sc.bad)
        except BaseException:
            pass
        rest = [t for t in tags_now if t != "bad"]
        ref2 = reference(sc, rest, probes, False)
        got2 = [call(ov, p) for p in probes]
        o["n"] += 1
        for p_i, (a, r) in enumerate(zip(got2, ref2)):
            if not same(a, r):
                known(o, "D15:does-not-recover-after-removal", {**wit, "probe": p_i, "got": a, "fresh": r})
                break


def run_linked(rng, out, orc, known):
    """a function and a linked variant (`Ovld(mixins=[f], linkback=True)`), both in use; a rebuild of the function
    fails (invalid method); the offending method is removed and one more valid method is registered: at every stage
    the variant, through both routes, either reports a configuration error or answers like a brand-new function
    over the complete set of valid methods it derives from (its own method included)"""
    from ovld import Ovld

    kind = rng.choice(["names", "positions", "call_next", "nosource", "hook"])
    k = rng.randint(2, 4)
    sseed = rng.randrange(2**31)
    sc = Scenario(random.Random(sseed), k, kind, 0)
    probes = sc.probes()
    wit = {"kind": "build-linked", "bad_kind": kind, "k": k, "sseed": sseed}
    hook = kind == "hook"
    own = k >= 3 and rng.random() < 0.5
    spare = k - 1
    first = [t for t in range(k) if t != spare and not (own and t == 0)]
    parent = sc.build(first)
    child = Ovld(mixins=[parent], linkback=True)
    if own:
        child.register(sc.fns[0])
    for r in ("obj", "fn"):
        for p in probes:
            call(child, p, r)
            call(parent, p, r)
    o = orc("C18")

    # calling the variant through the Ovld object re-checks its built flag (and so repairs a stale one): in half of
    # the runs the variant is used through its entry-point function only, in half it is left alone until the end
    child_routes = rng.choice([("obj", "fn"), ("fn",), ("fn",)])
    child_quiet = rng.random() < 0.5

    def stage(label, ptags, with_bad=False, last=False):
        ctags = ptags + ([0] if own else [])
        for ov, tags, who in ((parent, ptags, "function"), (child, ctags, "linked variant")):
            if ov is child and child_quiet and not last:
                continue
            ref = reference(sc, tags, probes, False)
            # the offending method, while registered, may be part of the answer when it can be built at all (a
            # method whose type hook raised during the build is a valid method once the hook works)
            ref_bad = reference(sc, tags + ["bad"], probes, False) if with_bad else ref
            for r in (child_routes if ov is child else ("obj", "fn")):
                o["n"] += 1
                o["nontrivial"] += 1
                for p_i, p in enumerate(probes):
                    a = call(ov, p, r)
                    if cfg_error(a):
                        continue
                    if not same(a, ref[p_i]) and not same(a, ref_bad[p_i]):
                        o["viol"].append({"law": f"after a failed rebuild ({label}) the {who} neither reports a configuration error nor answers over the complete set of registered methods",
                                          "route": r, "probe": p_i, "got": a, "fresh": ref[p_i], **wit})
                        return False
        return True

    sc.raise_flag[0] = hook
    try:
        parent.register(sc.bad)
    except BaseException:
        pass
    ok = stage("offending method still registered", list(first), with_bad=sc.bad in parent.defns.values())
    sc.raise_flag[0] = False
    if sc.bad in parent.defns.values():
        try:
            parent.unregister(sc.bad)
        except BaseException:
            pass
    ok = ok and stage("offending method removed", list(first))
    try:
        parent.register(sc.fns[spare])
    except BaseException as e:  # noqa
        o["viol"].append({"law": "a valid method cannot be registered after the offending one was removed", "error": str(e)[:80], **wit})
        return
    if ok:
        stage("offending method removed, another method registered", list(first) + [spare], last=True)


def run_injected(rng, out, orc, known, nmax, fixed_n=None, fixed_mode=None, sseed=None):
    k = rng.randint(1, 3)
    sc = Scenario(random.Random(sseed) if sseed is not None else rng, k, None, 0)
    probes = sc.probes()
    mode = fixed_mode or rng.choice(["first", "rebuild", "miss", "rebuild-linked"])
    n = fixed_n if fixed_n is not None else rng.randint(1, nmax)
    wit = {"kind": "build-injected", "k": k, "mode": mode, "line_event": n}
    linked = mode == "rebuild-linked"
    if linked:
        mode = "rebuild"
    ov = sc.build(list(range(k)) if mode != "rebuild" else list(range(k - 1)) or [0])
    tags = list(range(k))
    if mode != "first":
        call(ov, probes[0])
    child = None
    if linked:
        # a linked variant of the function, in use as well: an interrupt that hits the function's change must not
        # leave the variant dispatching over the previous method set either
        from ovld import Ovld

        child = Ovld(mixins=[ov], linkback=True)
        for r in ("obj", "fn"):
            call(child, probes[0], r)
    tr = Tracer(n)
    old = sys.gettrace()
    sys.settrace(tr.glob)
    try:
        try:
            if mode == "rebuild":
                if k - 1 >= 1:
                    ov.register(sc.fns[k - 1])
                else:
                    ov.register(sc.fns[0])
            elif mode == "miss":
                ov(probes[min(1, len(probes) - 1)])
            else:
                ov(probes[0])
        except BaseException:
            pass
    finally:
        sys.settrace(old)
    if not tr.fired:
        return False
    complete = list(ov.defns.values())
    tags_now = [sc.fns.index(f) for f in complete]
    ref = reference(sc, tags_now, probes, False)
    route = rng.choice(["obj", "fn"])
    wit["route"] = route
    got = [call(ov, p, route) for p in probes]
    o = orc("C18")
    o["n"] += 1
    o["nontrivial"] += 1
    in_build = "_compile" in getattr(tr, "stack", [])
    for p_i, (a, r) in enumerate(zip(got, ref)):
        if cfg_error(a):
            continue
        if not same(a, r):
            if mode == "rebuild" and not in_build:
                # the interrupt fell between the change of the definitions and the start of the rebuild
                known(o, "D34:interrupt-between-change-and-rebuild", {**wit, "probe": p_i, "got": a, "fresh": r, "fired_in": tr.stack[:3]})
            else:
                known(o, "D15:half-built-function-in-service", {**wit, "probe": p_i, "got": a, "fresh": r, "fired_in": getattr(tr, "stack", [])[:3]})
            break
    if child is not None:
        croute = rng.choice(["obj", "fn", "fn"])
        gotc = [call(child, p, croute) for p in probes]
        o["n"] += 1
        o["nontrivial"] += 1
        stack = getattr(tr, "stack", [])
        for p_i, (a, r) in enumerate(zip(gotc, ref)):
            if cfg_error(a):
                continue
            if not same(a, r):
                w2 = {**wit, "route": croute, "probe": p_i, "got": a, "fresh": r, "fired_in": stack[:4], "who": "linked variant"}
                if "_compile" not in stack:
                    # outside every `_compile`: between the change of the definitions and the rebuild of the function,
                    # or between the rebuild of the function and that of its variant (the prologue of the variant's
                    # `compile` included): the few instructions of finding D34, same criterion as for the function
                    known(o, "D34:interrupt-between-change-and-rebuild", w2)
                else:
                    o["viol"].append({"law": "an interrupt during the rebuild of a function left its linked variant dispatching over the previous method set", **w2})
                break
    return True


def replay_injected(w):
    out = {"oracles": {}}
    hits = []

    def orc(name):
        return out["oracles"].setdefault(name, {"n": 0, "nontrivial": 0, "viol": [], "known": {}})

    def known(o, key, witness):
        hits.append(key)

    class R(random.Random):
        pass

    for seed in range(4):
        rng = R(seed)
        vals = iter([w["k"], w["line_event"]])
        real_choice, real_randint = rng.choice, rng.randint

        def randint(a, b, _v=vals):
            try:
                return next(_v)
            except StopIteration:
                return real_randint(a, b)

        def choice(xs):
            if xs and xs[0] == "first":
                return w["mode"]
            return real_choice(xs)

        rng.randint, rng.choice = randint, choice
        run_injected(rng, out, orc, known, 10**6)
    return bool(hits) or any(o["viol"] for o in out["oracles"].values())


def replay_witness(w):
    """re-run a recorded natural-fault scenario; True when it still fails"""
    out = {"oracles": {}}
    hits = []

    def orc(name):
        return out["oracles"].setdefault(name, {"n": 0, "nontrivial": 0, "viol": [], "known": {}})

    def known(o, key, witness):
        hits.append(key)

    class FixedRng(random.Random):
        pass

    for seed in range(6):
        rng = FixedRng(seed)
        seq = iter([w["bad_kind"], None, None, w["mode"]])
        real_choice, real_randint = rng.choice, rng.randint

        def choice(xs, _it=seq):
            if xs and xs[0] == "names":
                return w["bad_kind"]
            if xs and xs[0] == "first":
                return w["mode"]
            return real_choice(xs)

        cnt = [0]

        def randint(a, b):
            cnt[0] += 1
            if cnt[0] == 1:
                return w["k"]
            if cnt[0] == 2:
                return w["bad_pos"]
            return real_randint(a, b)

        rng.choice, rng.randint = choice, randint
        run_natural(rng, out, orc, known)
    return bool(hits)


def worker(payload):
    seed, n, opts = payload
    rng = random.Random(seed)
    out = {"ops": 0, "corr": [], "hist": {}, "samples": [], "oracles": {}}

    def orc(name):
        return out["oracles"].setdefault(name, {"n": 0, "nontrivial": 0, "viol": [], "known": {}})

    def known(o, key, witness):
        e = o["known"].setdefault(key, {"count": 0, "witness": witness})
        e["count"] += 1

    # correspondence with the Lean build state machine (layer I)
    import corr_i

    stats, diffs, unsafe = corr_i.run(seed + 1, max(4, n // 2))
    out["corr"].extend(diffs[:3])
    for kx, v in stats.items():
        out["hist"]["layer I: " + kx] = v
    out["hist"]["layer I: states the model calls unsafe (all in the D34 window)"] = len(unsafe)
    # correspondence with the Lean model of a function and its linked variant (layer T)
    import corr_t

    tstats, tdiffs, tunsafe = corr_t.run(seed + 2, max(4, n // 3))
    out["corr"].extend(tdiffs[:3])
    for kx, v in tstats.items():
        out["hist"]["layer T: " + kx] = v
    if tunsafe:
        # C18_tree proves there is none: a model state the driver calls unsafe contradicts the theorem
        out["corr"].append({"layer": "T", "what": "the driver reports an unsafe model state although C18_tree excludes it", "detail": tunsafe[0]})
    # ... and of a function with several linked variants (layer U, Model/BuildForest.lean, Props/C18Forest.lean)
    import corr_u

    ustats, udiffs, uunsafe, uviols = corr_u.run(seed + 3, max(6, n // 2))
    out["corr"].extend(udiffs[:3])
    for kx, v in ustats.items():
        out["hist"]["layer U: " + kx] = v
    if uunsafe:
        out["corr"].append({"layer": "U", "what": "the driver reports an unsafe model state although C18_forest excludes it", "detail": uunsafe[0]})
    o18 = orc("C18")
    o18["n"] += ustats["ops"]
    o18["nontrivial"] += ustats["interrupts inside a variant's build"] + ustats["natural"]
    for v in uviols:
        o18["viol"].append({"kind": "forest", **v})
    if opts.get("sweep"):
        # thorough tier: for a few scenarios, EVERY executed library line of first-use build, rebuild and cache-miss
        # resolution is a failure point
        for _ in range(3):
            sseed = rng.randrange(2**31)
            for mode in ("first", "rebuild", "miss", "rebuild-linked"):
                line = 1
                while line < 5000:
                    fired = run_injected(random.Random(sseed + 1), out, orc, known, 0, fixed_n=line, fixed_mode=mode, sseed=sseed)
                    if not fired:
                        break
                    out["hist"]["exhaustive failure points: " + mode] = out["hist"].get("exhaustive failure points: " + mode, 0) + 1
                    line += 1
    for i in range(n):
        out["ops"] += 1
        if i % 6 == 4:
            run_linked(rng, out, orc, known)
            out["hist"]["natural faults with a linked variant in use"] = out["hist"].get("natural faults with a linked variant in use", 0) + 1
        elif i % 2 == 0:
            run_natural(rng, out, orc, known)
            out["hist"]["natural faults"] = out["hist"].get("natural faults", 0) + 1
        else:
            if run_injected(rng, out, orc, known, opts.get("nmax", 400)):
                out["hist"]["injected faults that fired"] = out["hist"].get("injected faults that fired", 0) + 1
    return out


if __name__ == "__main__":
    import json

    r = worker((int(sys.argv[1]) if len(sys.argv) > 1 else 0, int(sys.argv[2]) if len(sys.argv) > 2 else 60, {}))
    print(r["ops"], r["hist"])
    for k, o in r["oracles"].items():
        print(k, o["n"], len(o["viol"]), {a: b["count"] for a, b in o["known"].items()})
        for a, b in o["known"].items():
            print("  ", a, json.dumps(b["witness"])[:300])
