import Ovldverif.Props.C19Build
/-!
# C20 under concurrent first calls — a function that has been built is not built again

A rebuild throws the table away, and with it every argument-type combination that has already been handled: each
would be resolved again (user class predicates, order hooks and subtype hooks consulted again) although the set of
methods has not changed.  `C20_build_stable`: in the model of `Model/ConcBuild.lean` (`ensure_compiled` re-reads
`_compiled` under the lock), once the flag is set NO schedule of NO number of threads changes the shared build state
again — table, entry point and flag stay what the one build left.

`C20_no_recheck_counterexample`: without the second read of `_compiled` (the lock alone), a thread that passed the
first test before the other thread's build and takes the lock after it empties the table of a function that is in
service.
-/
set_option autoImplicit false
namespace Ovld.ConcBuild
open Ovld.Build

/-- one step of any thread leaves a built function's state alone -/
theorem step_stable {cfg : Cfg} {D : List Nat} {sys : Sys} (h : Inv cfg D sys) (hc : sys.s.compiled = true)
    (i : Nat) : (stepThread cfg sys i).s = sys.s := by
  unfold stepThread
  cases ht : sys.threads[i]? with
  | none => rfl
  | some t =>
    have hpc := h.pcs i t ht
    rcases t with ⟨r, pc⟩
    cases pc with
    | chk1 => dsimp only; split <;> rfl
    | acq =>
      dsimp only
      split
      · rfl
      · split <;> rfl
    | chk2 => dsimp only; split <;> rfl
    | bNew => exact absurd hc (by rw [hpc.2.2]; simp)
    | bNames => exact absurd hc (by rw [hpc.2.2.1]; simp)
    | bFill rest => exact absurd hc (by rw [hpc.2.2.1]; simp)
    | bSwap => exact absurd hc (by rw [hpc.2.2.1]; simp)
    | bFlag => exact absurd hc (by rw [hpc.2.2.2]; simp)
    | bFail => exact absurd hc (by rw [hpc.2.2.1]; simp)
    | rel => rfl
    | disp => dsimp only; split <;> rfl
    | look e => rfl
    | done o => rfl

theorem run_stable {cfg : Cfg} {D : List Nat} (sched : List Nat) : ∀ {sys : Sys}, Inv cfg D sys →
    sys.s.compiled = true → (run cfg sys sched).s = sys.s := by
  induction sched with
  | nil => intro sys _ _; rfl
  | cons i sched ih =>
    intro sys h hc
    have e := step_stable h hc i
    show (run cfg (stepThread cfg sys i) sched).s = sys.s
    rw [ih (h.step i) (by rw [e]; exact hc), e]

/-- **built once**: take any number of threads calling a function, any schedule `pre` after which the function is
    flagged built, and any continuation `post` of it — the table, the entry point and the flag after `pre ++ post`
    are those after `pre`: nothing that has been cached in between is thrown away by a second build -/
theorem C20_build_stable (cfg : Cfg) (s : S) (hs : Safe s) (routes : List Route) (pre post : List Nat)
    (hc : (run cfg (init s routes) pre).s.compiled = true) :
    (run cfg (run cfg (init s routes) pre) post).s = (run cfg (init s routes) pre).s :=
  run_stable post (Inv.reach cfg s hs routes pre) hc

/-- … and what it serves is the complete method set over the complete table -/
theorem C20_built_complete (cfg : Cfg) (s : S) (hs : Safe s) (routes : List Route) (pre : List Nat)
    (hc : (run cfg (init s routes) pre).s.compiled = true)
    (hl : (run cfg (init s routes) pre).lock = none) :
    (run cfg (init s routes) pre).s.entry = some s.defns ∧ (run cfg (init s routes) pre).s.table = s.defns := by
  have hsafe := (Inv.reach cfg s hs routes pre).free hl
  have hd := (Inv.reach cfg s hs routes pre).defns
  rcases hsafe with h | h
  · rw [h.2] at hc; cases hc
  · rw [← hd]; exact ⟨h.2.1, h.2.2⟩

/-- `ensure_compiled` with the lock but without the second read of `_compiled` -/
def stepNoRecheck (cfg : Cfg) (sys : Sys) (i : Nat) : Sys :=
  match sys.threads[i]? with
  | some { route := r, pc := .chk2 } =>
    { s := sys.s, lock := sys.lock, threads := sys.threads.set i { route := r, pc := .bNew } }
  | _ => stepThread cfg sys i

def runNoRecheck (cfg : Cfg) (sys : Sys) : List Nat → Sys
  | [] => sys
  | i :: sched => runNoRecheck cfg (stepNoRecheck cfg sys i) sched

/-- two threads, methods `[1, 2]`: thread 0 reads `_compiled` (false) and is switched out; thread 1 builds, is
    answered, finishes; thread 0 takes the lock and — without the second read — starts a build: the table of a
    function in service is empty again.  With the second read the state does not move. -/
theorem C20_no_recheck_counterexample :
    let cfg : Cfg := ⟨fun _ => false, fun _ => true⟩
    let s : S := { defns := [1, 2] }
    let pre : List Nat := [0] ++ List.replicate 13 1
    let post : List Nat := [0, 0, 0]
    (runNoRecheck cfg (init s [.obj, .obj]) pre).s.compiled = true ∧
      (runNoRecheck cfg (init s [.obj, .obj]) pre).s.table = [1, 2] ∧
      ((runNoRecheck cfg (init s [.obj, .obj]) pre).threads.map (·.pc))[1]? = some (.done (.served [1, 2] [1, 2])) ∧
      (runNoRecheck cfg (init s [.obj, .obj]) (pre ++ post)).s.table = [] ∧
      (run cfg (init s [.obj, .obj]) (pre ++ post)).s.table = [1, 2] := by
  decide

/-- non-vacuity of `C20_build_stable`: the same schedule in the model of the current code -/
example :
    let cfg : Cfg := ⟨fun _ => false, fun _ => true⟩
    let s : S := { defns := [1, 2] }
    (run cfg (init s [.obj, .obj]) ([0] ++ List.replicate 13 1)).s.compiled = true ∧ Safe s := by
  refine ⟨by decide, Or.inl ⟨rfl, rfl⟩⟩

end Ovld.ConcBuild
