import Ovldverif.Lemmas.GraphInv
import Ovldverif.Lemmas.GraphTopo
/-!
# The global invariant of the graph of functions and its preservation by every operation
-/
set_option autoImplicit false
namespace Ovld

/-- the invariant behind C16 -/
structure Inv (g : Graph) : Prop where
  /-- (I0) the mixin relation is acyclic: there is a topological order -/
  topo : ∃ ord, Topo g.len g.mx ord
  /-- (I0) `children` edges mirror `mixins` edges -/
  mirror : Mirror g.len g.mx g.ch
  /-- (I1) the table in service is current -/
  cons : ∀ n, g.cp n = true → g.bt n = g.defns g.depth n
  /-- (I2) locks are closed upwards -/
  closed : LockClosed g.mx g.lk
  /-- (I3) every mixin edge above a compiled function along linked paths is linked back or locked -/
  safe : ∀ c, g.cp c = true → Fixed g.mx g.ch g.lk c

theorem Graph.proj_of_ge (g : Graph) (k : Nat) (h : g.len ≤ k) :
    g.mx k = [] ∧ g.ch k = [] ∧ g.cp k = false ∧ g.lk k = false := by
  unfold Graph.mx Graph.ch Graph.cp Graph.lk
  rw [Graph.get_of_ge g k h]
  exact ⟨rfl, rfl, rfl, rfl⟩

theorem Graph.cp_lt (g : Graph) (k : Nat) (h : g.cp k = true) : k < g.len := by
  apply Classical.byContradiction
  intro hk
  rw [(Graph.proj_of_ge g k (by omega)).2.2.1] at h
  cases h

theorem Inv.empty : Inv {} := by
  have hp := Graph.proj_of_ge {}
  refine ⟨⟨[], rfl, fun x hx => absurd hx (Nat.not_lt_zero x), fun n m hm => ?_⟩, fun a c hc => ?_,
    fun n hn => ?_, fun x hx => ?_, fun c hc => ?_⟩
  · rw [(hp n (Nat.zero_le n)).1] at hm; cases hm
  · rw [(hp a (Nat.zero_le a)).2.1] at hc; cases hc
  · rw [(hp n (Nat.zero_le n)).2.2.1] at hn; cases hn
  · rw [(hp x (Nat.zero_le x)).2.2.2] at hx; cases hx
  · rw [(hp c (Nat.zero_le c)).2.2.1] at hc; cases hc

/-- the invariant only talks about the projections -/
theorem Inv.congr {g g' : Graph} (hlen : g'.len = g.len) (hmx : g'.mx = g.mx) (hch : g'.ch = g.ch)
    (how : g'.ow = g.ow) (hlk : g'.lk = g.lk) (hcp : g'.cp = g.cp) (hbt : g'.bt = g.bt) (hi : Inv g) : Inv g' := by
  refine ⟨?_, ?_, ?_, ?_, ?_⟩
  · rw [hlen, hmx]; exact hi.topo
  · rw [hlen, hmx, hch]; exact hi.mirror
  · intro n hn
    rw [hcp] at hn
    rw [hbt, Graph.defns_congr g g' hmx how, Graph.depth_eq, hlen, ← Graph.depth_eq]
    exact hi.cons n hn
  · rw [hmx, hlk]; exact hi.closed
  · intro c hc
    rw [hcp] at hc
    rw [hmx, hch, hlk]; exact hi.safe c hc

theorem Fixed.of_mono {mx ch : Nat → List Nat} {lk lk' : Nat → Bool} (hm : ∀ k, lk k = true → lk' k = true)
    {c : Nat} (h : Fixed mx ch lk c) : Fixed mx ch lk' c := by
  intro x hx m hmx
  rcases h x hx m hmx with h1 | h1
  · exact Or.inl (hm _ h1)
  · exact Or.inr h1

/-- an unlocked ancestor of a function that feeds a compiled function along linked paths is itself connected
    to it by a linked path -/
theorem anc_lpath {mx ch : Nat → List Nat} {lk : Nat → Bool} (hc : LockClosed mx lk) {c0 : Nat}
    (hfix : Fixed mx ch lk c0) {a : Nat} (ha : lk a = false) {c : Nat} (hanc : Anc mx a c) :
    LPath ch c c0 → LPath ch a c := by
  induction hanc with
  | direct hm =>
    intro hp
    rcases hfix _ hp _ hm with h | h
    · rw [ha] at h; cases h
    · exact LPath.step h (LPath.refl _)
  | @step m c hm hanc ih =>
    intro hp
    have hlm : lk m = false := by
      cases hlm : lk m
      · rfl
      · have := hc.anc hlm hanc; rw [ha] at this; cases this
    rcases hfix _ hp _ hm with h | h
    · rw [hlm] at h; cases h
    · exact (ih (LPath.step h hp)).snoc h

/-! ## compile / call -/

theorem Inv.compile {g g' : Graph} {n : Nat} (hi : Inv g) (h : CompRes g g' n) : Inv g' := by
  have hD := Graph.defnsD_frame (D := fun k => g.defns g.depth k) h.shape (fun _ => rfl)
  refine ⟨?_, ?_, ?_, h.closed hi.closed, ?_⟩
  · rw [h.shape.len, h.shape.mx]; exact hi.topo
  · exact Mirror.frame h.shape hi.mirror
  · intro k hk
    rw [hD k]
    by_cases hkn : k = n
    · subst hkn; exact h.bt_n
    · rw [h.bt_ne k hkn]
      rw [h.cp_ne k hkn] at hk
      exact hi.cons k hk
  · intro k hk
    by_cases hkn : k = n
    · subst hkn; exact h.fixed
    · rw [h.cp_ne k hkn] at hk
      rw [h.shape.mx, h.shape.ch]
      exact (hi.safe k hk).of_mono h.mono

/-- the single-function view on which a call of node `n` runs -/
def Graph.viewOf (g : Graph) (n : Nat) : Fn :=
  { defns := (g.get n).built, compiled := true, mm := (g.get n).mm, ana := (g.get n).ana }

theorem Graph.call_cases (cfg : Cfg) (g : Graph) (n : Nat) (c : Call)
    (h : (g.call cfg n c).2.1 ≠ Outcome.configError) :
    ∃ g1 mm', ((g.cp n = true ∧ g1 = g) ∨ (g.cp n = false ∧ g.compile n = (g1, none))) ∧
      (g.call cfg n c).1 = g1.set n { g1.get n with mm := mm' } := by
  unfold Graph.call at h ⊢
  by_cases hc : (g.get n).compiled = true
  · rw [if_pos hc] at h ⊢
    exact ⟨g, (Fn.call cfg (g.viewOf n) c).1.mm, Or.inl ⟨hc, rfl⟩, rfl⟩
  · rw [if_neg hc] at h ⊢
    cases hcomp : g.compile n with
    | mk g1 e =>
    rw [hcomp] at h
    cases e with
    | some e => exact absurd rfl h
    | none =>
      exact ⟨g1, (Fn.call cfg (g1.viewOf n) c).1.mm, Or.inr ⟨by simpa [Graph.cp] using hc, rfl⟩, rfl⟩

theorem Inv.setMM {g : Graph} (hi : Inv g) (n : Nat) (mm' : MMap) : Inv (g.set n { g.get n with mm := mm' }) :=
  Inv.congr (Graph.len_set _ _ _) (Graph.proj_set Node.mixins g n _ rfl) (Graph.proj_set Node.children g n _ rfl)
    (Graph.proj_set Node.own g n _ rfl) (Graph.proj_set Node.locked g n _ rfl)
    (Graph.proj_set Node.compiled g n _ rfl) (Graph.proj_set Node.built g n _ rfl) hi

theorem Inv.call (cfg : Cfg) {g : Graph} (hi : Inv g) (n : Nat) (hn : n < g.len) (c : Call)
    (h : (g.call cfg n c).2.1 ≠ Outcome.configError) : Inv (g.call cfg n c).1 := by
  obtain ⟨g1, mm', hcase, heq⟩ := Graph.call_cases cfg g n c h
  rw [heq]
  apply Inv.setMM
  rcases hcase with ⟨_, rfl⟩ | ⟨_, hcomp⟩
  · exact hi
  · obtain ⟨ord, ht⟩ := hi.topo
    exact hi.compile (Graph.compile_spec _ g n ht.ranked hi.mirror hn g1 hcomp)

/-! ## register / unregister: a change of `own` at an unlocked function, then `_update()` -/

theorem Inv.setOwn_update {g : Graph} (hi : Inv g) (n : Nat) (hn : n < g.len) (hl : g.lk n = false)
    (o : List (Def × Int)) (g' : Graph)
    (h : Graph.update (g.setOwn n o).depth (g.setOwn n o) n = (g', none)) : Inv g' := by
  obtain ⟨ord, ht⟩ := hi.topo
  have hr := ht.ranked
  have hlen1 := Graph.setOwn_len g n o
  have hmx1 := Graph.setOwn_mx g n o
  have hch1 := Graph.setOwn_ch g n o
  have hlk1 := Graph.setOwn_lk g n o
  have hcp1 := Graph.setOwn_cp g n o
  have hbt1 := Graph.setOwn_bt g n o
  have how1 := Graph.setOwn_ow_ne g n o
  generalize g.setOwn n o = g1 at *
  have hr1 : Ranked g1.len g1.mx ord.idxOf := by rw [hlen1, hmx1]; exact hr
  have hmi1 : Mirror g1.len g1.mx g1.ch := by rw [hlen1, hmx1, hch1]; exact hi.mirror
  obtain ⟨hupd, hreach⟩ := Graph.update_spec (fun k => g1.defns g1.depth k) ord.idxOf g1.depth g1 n g'
    hr1 hmi1 (fun _ => rfl) (by rw [hlen1]; exact hn) (by rw [Graph.depth_eq]; omega) h
  have hD := Graph.defnsD_frame (D := fun k => g1.defns g1.depth k) hupd.shape (fun _ => rfl)
  refine ⟨?_, ?_, ?_, ?_, ?_⟩
  · rw [hupd.shape.len, hupd.shape.mx, hlen1, hmx1]; exact ⟨ord, ht⟩
  · exact Mirror.frame hupd.shape hmi1
  · intro c hc
    rw [hupd.cp, hcp1] at hc
    rw [hD c]
    rcases hupd.bt c with hb | hb
    · by_cases hrel : c = n ∨ Anc g.mx n c
      · have hp : LPath g.ch n c := by
          rcases hrel with rfl | hrel
          · exact LPath.refl _
          · exact anc_lpath hi.closed (hi.safe c hc) hl hrel (LPath.refl c)
        exact (hreach c (by rw [hch1]; exact hp) (by rw [hcp1]; exact hc)).1
      · rw [hb, hbt1, hi.cons c hc]
        show _ = g1.defns g1.depth c
        rw [Graph.depth_eq g1, hlen1, ← Graph.depth_eq]
        refine (Graph.defns_local g g1 _ c (fun x hx => ?_)).symm
        have hxn : x ≠ n := by
          rintro rfl
          exact hrel (hx.imp Eq.symm id)
        exact ⟨how1 x hxn, congrFun hmx1 x⟩
    · exact hb
  · apply hupd.closed; rw [hmx1, hlk1]; exact hi.closed
  · intro c hc
    rw [hupd.cp, hcp1] at hc
    rw [hupd.shape.mx, hupd.shape.ch, hmx1, hch1]
    refine (hi.safe c hc).of_mono (fun k hk => hupd.mono k ?_)
    rw [hlk1]; exact hk

theorem Inv.register {g : Graph} (hi : Inv g) (n : Nat) (hn : n < g.len) (d : Def)
    (h : (g.register n d).2 ≠ some Outcome.configError) : Inv (g.register n d).1 := by
  cases hl : (g.get n).locked with
  | true => simp [Graph.register, hl]; exact hi
  | false =>
    rw [Graph.register_eq g n d hl] at h ⊢
    dsimp only at h ⊢
    cases hu : Graph.update (g.setOwn n (setDefn ((g.get n).own.length + 1) (g.get n).own d 0)).depth
      (g.setOwn n (setDefn ((g.get n).own.length + 1) (g.get n).own d 0)) n with
    | mk g' e =>
    rw [hu] at h
    cases e with
    | some e => simp at h
    | none => exact hi.setOwn_update n hn hl _ g' hu

theorem Inv.unregister {g : Graph} (hi : Inv g) (n : Nat) (hn : n < g.len) (id : Nat)
    (h : (g.unregister n id).2 ≠ some Outcome.configError) : Inv (g.unregister n id).1 := by
  cases hl : (g.get n).locked with
  | true => simp [Graph.unregister, hl]; exact hi
  | false =>
    rw [Graph.unregister_eq g n id hl] at h ⊢
    dsimp only at h ⊢
    cases hu : Graph.update (g.setOwn n ((g.get n).own.filter (fun e => e.1.d.id != id))).depth
      (g.setOwn n ((g.get n).own.filter (fun e => e.1.d.id != id))) n with
    | mk g' e =>
    rw [hu] at h
    cases e with
    | some e => simp at h
    | none => exact hi.setOwn_update n hn hl _ g' hu

/-! ## add_mixins -/

/-- `g2` is `g` with the mixins `ms` appended to `n` (and, with `linkback`, `n` appended to their children) -/
structure AddRel (g g2 : Graph) (n : Nat) (ms : List Nat) (lb : Bool) : Prop where
  len : g2.len = g.len
  mx_n : g2.mx n = g.mx n ++ ms
  mx_ne : ∀ k, k ≠ n → g2.mx k = g.mx k
  ch : ∀ k c, c ∈ g2.ch k ↔ (c ∈ g.ch k ∨ (lb = true ∧ c = n ∧ k ∈ ms))
  ow : g2.ow = g.ow
  lk : g2.lk = g.lk
  cp : g2.cp = g.cp
  bt : g2.bt = g.bt

theorem lpath_split {ch ch2 : Nat → List Nat} {n : Nat} (hsub : ∀ k c, c ∈ ch2 k → c ∈ ch k ∨ c = n)
    {x c : Nat} (h : LPath ch2 x c) : LPath ch x c ∨ LPath ch2 n c := by
  induction h with
  | refl => exact Or.inl (LPath.refl _)
  | step hb hp ih =>
    rcases ih with ih | ih
    · rcases hsub _ _ hb with h1 | h1
      · exact Or.inl (LPath.step h1 ih)
      · subst h1; exact Or.inr hp
    · exact Or.inr ih

theorem Inv.addRel_update {g g2 : Graph} (hi : Inv g) {n : Nat} {ms : List Nat} {lb : Bool}
    (hrel : AddRel g g2 n ms lb) (hn : n < g.len) (hl : g.lk n = false)
    (hms : ∀ m ∈ ms, m < g.len ∧ m ≠ n ∧ ¬ Anc g.mx n m) (g3 : Graph)
    (h : Graph.update g2.depth g2 n = (g3, none)) : Inv g3 := by
  obtain ⟨ord, ht⟩ := hi.topo
  have hmxsub : ∀ k, ∀ m ∈ g.mx k, m ∈ g2.mx k := by
    intro k m hm
    by_cases hk : k = n
    · subst hk; rw [hrel.mx_n]; exact List.mem_append_left _ hm
    · rw [hrel.mx_ne k hk]; exact hm
  have hchsub : ∀ k, ∀ c ∈ g.ch k, c ∈ g2.ch k := fun k c hc => (hrel.ch k c).mpr (Or.inl hc)
  obtain ⟨ord2, ht2⟩ := ht.addMixins n hn ms hms g2.mx (by
    intro k m hm
    by_cases hk : k = n
    · subst hk
      rw [hrel.mx_n] at hm
      rcases List.mem_append.mp hm with h1 | h1
      · exact Or.inl h1
      · exact Or.inr ⟨rfl, h1⟩
    · rw [hrel.mx_ne k hk] at hm; exact Or.inl hm)
  have hr2 : Ranked g2.len g2.mx ord2.idxOf := by rw [hrel.len]; exact ht2.ranked
  have hmi2 : Mirror g2.len g2.mx g2.ch := by
    intro a c hc
    rw [hrel.len]
    rcases (hrel.ch a c).mp hc with h1 | ⟨_, rfl, h1⟩
    · exact ⟨(hi.mirror a c h1).1, hmxsub _ _ (hi.mirror a c h1).2⟩
    · exact ⟨hn, by rw [hrel.mx_n]; exact List.mem_append_right _ h1⟩
  have hcl2 : LockClosed g2.mx g2.lk := by
    rw [hrel.lk]
    intro x hx m hm
    have hxn : x ≠ n := by rintro rfl; rw [hl] at hx; cases hx
    rw [hrel.mx_ne x hxn] at hm
    exact hi.closed x hx m hm
  obtain ⟨hupd, hreach⟩ := Graph.update_spec (fun k => g2.defns g2.depth k) ord2.idxOf g2.depth g2 n g3
    hr2 hmi2 (fun _ => rfl) (by rw [hrel.len]; exact hn) (by rw [Graph.depth_eq]; omega) h
  have hD := Graph.defnsD_frame (D := fun k => g2.defns g2.depth k) hupd.shape (fun _ => rfl)
  refine ⟨?_, Mirror.frame hupd.shape hmi2, ?_, hupd.closed hcl2, ?_⟩
  · rw [hupd.shape.len, hupd.shape.mx, hrel.len]; exact ⟨ord2, ht2⟩
  · intro c hc
    rw [hupd.cp, hrel.cp] at hc
    rw [hD c]
    rcases hupd.bt c with hb | hb
    · by_cases hr : c = n ∨ Anc g.mx n c
      · have hp : LPath g.ch n c := by
          rcases hr with rfl | hr
          · exact LPath.refl _
          · exact anc_lpath hi.closed (hi.safe c hc) hl hr (LPath.refl c)
        exact (hreach c (hp.mono hchsub) (by rw [hrel.cp]; exact hc)).1
      · rw [hb, hrel.bt, hi.cons c hc]
        show _ = g2.defns g2.depth c
        rw [Graph.depth_eq g2, hrel.len, ← Graph.depth_eq]
        refine (Graph.defns_local g g2 _ c (fun x hx => ?_)).symm
        have hxn : x ≠ n := by
          rintro rfl
          exact hr (hx.imp Eq.symm id)
        exact ⟨congrFun hrel.ow x, hrel.mx_ne x hxn⟩
    · exact hb
  · intro c hc
    rw [hupd.cp] at hc
    by_cases hnc : LPath g2.ch n c
    · exact (hreach c hnc hc).2
    · rw [hrel.cp] at hc
      rw [hupd.shape.mx, hupd.shape.ch]
      intro x hx m hm
      have hsplit := lpath_split (ch := g.ch) (ch2 := g2.ch) (n := n) (fun k c' hc' => by
        rcases (hrel.ch k c').mp hc' with h1 | ⟨_, h1, _⟩
        · exact Or.inl h1
        · exact Or.inr h1) hx
      rcases hsplit with hxg | hxg
      · have hxn : x ≠ n := by rintro rfl; exact hnc hx
        rw [hrel.mx_ne x hxn] at hm
        rcases hi.safe c hc x hxg m hm with h1 | h1
        · exact Or.inl (hupd.mono m (by rw [hrel.lk]; exact h1))
        · exact Or.inr (hchsub _ _ h1)
      · exact absurd hxg hnc

/-- the loop of `add_mixins` that links `n` back into its new mixins -/
theorem Graph.addChildren_spec (n : Nat) : ∀ (ms : List Nat) (g : Graph), (∀ m ∈ ms, m < g.len) →
    let g' := ms.foldl (fun g m => let y := g.get m; g.set m { y with children := y.children ++ [n] }) g
    g'.len = g.len ∧ g'.mx = g.mx ∧ g'.ow = g.ow ∧ g'.lk = g.lk ∧ g'.cp = g.cp ∧ g'.bt = g.bt ∧
      ∀ k c, c ∈ g'.ch k ↔ (c ∈ g.ch k ∨ (c = n ∧ k ∈ ms))
  | [], g, _ => by simp
  | m :: ms, g, hms => by
    simp only [List.foldl_cons]
    have hm : m < g.len := hms m (by simp)
    have hlen1 : (g.set m { g.get m with children := (g.get m).children ++ [n] }).len = g.len := Graph.len_set _ _ _
    have ih := Graph.addChildren_spec n ms (g.set m { g.get m with children := (g.get m).children ++ [n] })
      (fun m' hm' => by rw [hlen1]; exact hms m' (by simp [hm']))
    dsimp only at ih ⊢
    obtain ⟨h1, h2, h3, h4, h5, h6, h7⟩ := ih
    refine ⟨h1.trans hlen1, h2.trans (Graph.proj_set Node.mixins g m _ rfl),
      h3.trans (Graph.proj_set Node.own g m _ rfl), h4.trans (Graph.proj_set Node.locked g m _ rfl),
      h5.trans (Graph.proj_set Node.compiled g m _ rfl), h6.trans (Graph.proj_set Node.built g m _ rfl), ?_⟩
    intro k c
    rw [h7 k c]
    have hch : (g.set m { g.get m with children := (g.get m).children ++ [n] }).ch k =
        if k = m then g.ch m ++ [n] else g.ch k := by
      show ((g.set m _).get k).children = _
      rw [Graph.get_set]
      by_cases hk : k = m
      · subst hk; rw [if_pos ⟨rfl, hm⟩, if_pos rfl]; rfl
      · rw [if_neg (fun hh => hk hh.1), if_neg hk]; rfl
    rw [hch]
    by_cases hk : k = m
    · subst hk
      rw [if_pos rfl]
      simp only [List.mem_append, List.mem_singleton]
      constructor
      · rintro ((h | h) | h)
        · exact Or.inl h
        · exact Or.inr ⟨h, List.mem_cons_self⟩
        · exact Or.inr ⟨h.1, List.mem_cons_of_mem _ h.2⟩
      · rintro (h | ⟨h, _⟩)
        · exact Or.inl (Or.inl h)
        · exact Or.inl (Or.inr h)
    · rw [if_neg hk]
      simp only [List.mem_cons, hk, false_or]

/-- the edge changes of `add_mixins`, before `_update()` -/
def Graph.addEdges (g : Graph) (n : Nat) (ms : List Nat) : Graph :=
  let g1 := if (g.get n).linkback then
    ms.foldl (fun g m => let y := g.get m; g.set m { y with children := y.children ++ [n] }) g else g
  g1.set n { g1.get n with mixins := (g1.get n).mixins ++ ms }

theorem Graph.addMixins_eq (g : Graph) (n : Nat) (ms : List Nat) (hl : (g.get n).locked = false) :
    g.addMixins n ms =
      ((Graph.update (g.addEdges n (ms.filter (fun m => m != n))).depth (g.addEdges n (ms.filter (fun m => m != n))) n).1,
       (Graph.update (g.addEdges n (ms.filter (fun m => m != n))).depth (g.addEdges n (ms.filter (fun m => m != n))) n).2.map
         (fun _ => Outcome.configError)) := by
  unfold Graph.addMixins
  dsimp only
  split
  · next hh => rw [hl] at hh; cases hh
  · rfl

theorem Graph.addMixins_rel (g : Graph) (n : Nat) (ms : List Nat) (hn : n < g.len) (hms : ∀ m ∈ ms, m < g.len) :
    AddRel g (g.addEdges n ms) n ms (g.get n).linkback := by
  unfold Graph.addEdges
  generalize hg1 : (if (g.get n).linkback then
    ms.foldl (fun g m => let y := g.get m; g.set m { y with children := y.children ++ [n] }) g else g) = g1
  dsimp only
  -- the first phase
  have h1 : g1.len = g.len ∧ g1.mx = g.mx ∧ g1.ow = g.ow ∧ g1.lk = g.lk ∧ g1.cp = g.cp ∧ g1.bt = g.bt ∧
      ∀ k c, c ∈ g1.ch k ↔ (c ∈ g.ch k ∨ ((g.get n).linkback = true ∧ c = n ∧ k ∈ ms)) := by
    cases hlb : (g.get n).linkback with
    | true =>
      rw [hlb] at hg1
      simp only [if_true] at hg1
      have := Graph.addChildren_spec n ms g hms
      dsimp only at this
      rw [hg1] at this
      obtain ⟨a1, a2, a3, a4, a5, a6, a7⟩ := this
      exact ⟨a1, a2, a3, a4, a5, a6, fun k c => by rw [a7 k c]; simp⟩
    | false =>
      rw [hlb] at hg1
      simp only [Bool.false_eq_true, if_false] at hg1
      subst hg1
      exact ⟨rfl, rfl, rfl, rfl, rfl, rfl, fun k c => by simp⟩
  obtain ⟨a1, a2, a3, a4, a5, a6, a7⟩ := h1
  have hn1 : n < g1.nodes.length := by unfold Graph.len at a1 hn; omega
  refine ⟨(Graph.len_set _ _ _).trans a1, ?_, ?_, ?_, ?_, ?_, ?_, ?_⟩
  · show ((g1.set n _).get n).mixins = _
    rw [Graph.get_set, if_pos ⟨rfl, hn1⟩]
    show g1.mx n ++ ms = _
    rw [a2]
  · intro k hk
    show ((g1.set n _).get k).mixins = _
    rw [Graph.get_set, if_neg (fun hh => hk hh.1)]
    exact congrFun a2 k
  · intro k c
    have : (g1.set n { g1.get n with mixins := (g1.get n).mixins ++ ms }).ch = g1.ch :=
      Graph.proj_set Node.children g1 n _ rfl
    rw [this]; exact a7 k c
  · exact Eq.trans (Graph.proj_set Node.own g1 n { g1.get n with mixins := (g1.get n).mixins ++ ms } rfl) a3
  · exact Eq.trans (Graph.proj_set Node.locked g1 n { g1.get n with mixins := (g1.get n).mixins ++ ms } rfl) a4
  · exact Eq.trans (Graph.proj_set Node.compiled g1 n { g1.get n with mixins := (g1.get n).mixins ++ ms } rfl) a5
  · exact Eq.trans (Graph.proj_set Node.built g1 n { g1.get n with mixins := (g1.get n).mixins ++ ms } rfl) a6

theorem Inv.addMixins {g : Graph} (hi : Inv g) (n : Nat) (hn : n < g.len) (ms : List Nat)
    (hms : ∀ m ∈ ms, m < g.len ∧ m ≠ n ∧ ¬ Anc g.mx n m)
    (h : (g.addMixins n ms).2 ≠ some Outcome.configError) : Inv (g.addMixins n ms).1 := by
  cases hl : (g.get n).locked with
  | true => simp [Graph.addMixins, hl]; exact hi
  | false =>
    rw [Graph.addMixins_eq g n ms hl] at h ⊢
    dsimp only at h ⊢
    have hms' : ∀ m ∈ ms.filter (fun m => m != n), m < g.len ∧ m ≠ n ∧ ¬ Anc g.mx n m :=
      fun m hm => hms m (List.mem_filter.mp hm).1
    have hrel := Graph.addMixins_rel g n (ms.filter (fun m => m != n)) hn (fun m hm => (hms' m hm).1)
    generalize g.addEdges n (ms.filter (fun m => m != n)) = g2 at *
    cases hu : Graph.update g2.depth g2 n with
    | mk g3 e =>
    rw [hu] at h
    cases e with
    | some e => simp at h
    | none => exact hi.addRel_update hrel hn hl hms' g3 hu

/-! ## create -/

theorem Graph.get_append (g : Graph) (x : Node) (k : Nat) :
    (Graph.mk (g.nodes ++ [x])).get k = if k = g.nodes.length then x else g.get k := by
  unfold Graph.get
  by_cases hk : k < g.nodes.length
  · rw [List.getElem?_append_left hk, if_neg (by omega)]
  · by_cases hk2 : k = g.nodes.length
    · subst hk2; simp
    · rw [if_neg hk2, List.getElem?_eq_none (by simp; omega), List.getElem?_eq_none (by omega)]

theorem Graph.update_leaf (f : Nat) (g : Graph) (n : Nat) (hc : g.cp n = false) (hch : g.ch n = []) :
    Graph.update (f + 1) g n = (g, none) := by
  rw [Graph.update_succ]
  have hc' : (g.get n).compiled = false := hc
  have hch' : (g.get n).children = [] := hch
  simp [hc', hch']

theorem Inv.create {g : Graph} (hi : Inv g) (ms : List Nat) (lb : Bool) (hms : ∀ m ∈ ms, m < g.len) :
    Inv (g.create ms lb) := by
  obtain ⟨ord, ht⟩ := hi.topo
  -- the graph with the fresh node
  have hget := Graph.get_append g { linkback := lb }
  generalize hg0 : Graph.mk (g.nodes ++ [{ linkback := lb }]) = g0 at hget
  have hlen0 : g0.len = g.len + 1 := by subst hg0; simp [Graph.len]
  have hproj : ∀ {α : Type} (p : Node → α), p { linkback := lb } = p default →
      (fun k => p (g0.get k)) = fun k => p (g.get k) := by
    intro α p hp
    funext k
    rw [hget k]
    split
    · next hk => rw [hp, hk, Graph.get_of_ge g _ (Nat.le_refl _)]
    · rfl
  have hmx0 : g0.mx = g.mx := hproj Node.mixins rfl
  have hch0 : g0.ch = g.ch := hproj Node.children rfl
  have how0 : g0.ow = g.ow := hproj Node.own rfl
  have hlk0 : g0.lk = g.lk := hproj Node.locked rfl
  have hcp0 : g0.cp = g.cp := hproj Node.compiled rfl
  have hbt0 : g0.bt = g.bt := hproj Node.built rfl
  have hi0 : Inv g0 := by
    refine ⟨?_, ?_, ?_, ?_, ?_⟩
    · rw [hlen0, hmx0]; exact ⟨_, ht.append⟩
    · rw [hlen0, hmx0, hch0]
      intro a c hc
      exact ⟨Nat.lt_succ_of_lt (hi.mirror a c hc).1, (hi.mirror a c hc).2⟩
    · intro c hc
      rw [hcp0] at hc
      rw [hbt0, hi.cons c hc, Graph.defns_congr g g0 hmx0 how0, Graph.depth_eq, Graph.depth_eq, hlen0]
      have : List.idxOf c ord < g.len := ht.ranked.1 c (Graph.cp_lt g c hc)
      exact Graph.defns_fuel g ht.ranked _ _ c (by show List.idxOf c ord < _; omega)
        (by show List.idxOf c ord < _; omega)
    · rw [hmx0, hlk0]; exact hi.closed
    · intro c hc
      rw [hcp0] at hc
      rw [hmx0, hch0, hlk0]; exact hi.safe c hc
  have hpn := Graph.proj_of_ge g g.len (Nat.le_refl _)
  have hl0 : (g0.get g.nodes.length).locked = false := by
    have := congrFun hlk0 g.len; unfold Graph.lk at this
    exact this.trans hpn.2.2.2
  have hcreate : g.create ms lb = (g0.addMixins g.nodes.length ms).1 := by
    subst hg0; rfl
  rw [hcreate]
  have hms0 : ∀ m ∈ ms.filter (fun m => m != g.nodes.length),
      m < g0.len ∧ m ≠ g.nodes.length ∧ ¬ Anc g0.mx g.nodes.length m := by
    intro m hm
    have hm' := hms m (List.mem_filter.mp hm).1
    refine ⟨by omega, by unfold Graph.len at hm'; omega, ?_⟩
    rw [hmx0]
    intro hanc
    have := (ht.ranked.anc hanc).1
    unfold Graph.len at this; omega
  rw [Graph.addMixins_eq g0 _ ms hl0]
  dsimp only
  have hrel := Graph.addMixins_rel g0 g.nodes.length (ms.filter (fun m => m != g.nodes.length))
    (by rw [hlen0]; exact Nat.lt_succ_self _) (fun m hm => (hms0 m hm).1)
  generalize g0.addEdges g.nodes.length (ms.filter (fun m => m != g.nodes.length)) = g2 at *
  -- the new node is neither compiled nor has children: `_update()` does nothing
  have hcp2 : g2.cp g.nodes.length = false := by
    rw [hrel.cp, hcp0]; exact hpn.2.2.1
  have hch2 : g2.ch g.nodes.length = [] := by
    apply List.eq_nil_iff_forall_not_mem.mpr
    intro c hc
    rcases (hrel.ch _ c).mp hc with h1 | ⟨_, _, h1⟩
    · rw [hch0, show g.ch g.nodes.length = [] from hpn.2.1] at h1; cases h1
    · exact (hms0 _ h1).2.1 rfl
  have hu : Graph.update g2.depth g2 g.nodes.length = (g2, none) := Graph.update_leaf _ g2 _ hcp2 hch2
  rw [hu]
  exact hi0.addRel_update hrel (by rw [hlen0]; exact Nat.lt_succ_self _)
    (by rw [hlk0]; exact hpn.2.2.2) hms0 g2 hu

end Ovld
