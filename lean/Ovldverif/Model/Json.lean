import Lean.Data.Json
import Ovldverif.Model.TypeOrder
/-!
Decoding of the line protocol (trusted glue, not part of any theorem).
Types: `["cls",c] ["gen",o,[..]] ["union",[..]] ["inter",[..]] ["exactly",tag,c] ["strict",tag,c]
["hasm",tag,m] ["pred",tag,k] ["lit",[keys],bound] ["prod",[ps],bound] ["fdep",fn,[p|null],bound]`.
-/
set_option autoImplicit false
open Lean

namespace Ovld

def jNat (j : Json) : Except String Nat :=
  match j.getNat? with
  | .ok n => .ok n
  | .error e => .error s!"nat expected: {e} in {j.compress}"

def jInt (j : Json) : Except String Int :=
  match j.getInt? with
  | .ok n => .ok n
  | .error e => .error s!"int expected: {e} in {j.compress}"

def jArr (j : Json) : Except String (Array Json) :=
  match j.getArr? with
  | .ok a => .ok a
  | .error e => .error s!"array expected: {e} in {j.compress}"

def jStr (j : Json) : Except String String :=
  match j.getStr? with
  | .ok a => .ok a
  | .error e => .error s!"string expected: {e}"

def jBool (j : Json) : Except String Bool :=
  match j with
  | .bool b => .ok b
  | _ => match j.getNat? with
    | .ok n => .ok (n != 0)
    | .error e => .error s!"bool expected: {e}"

def jField (j : Json) (k : String) : Except String Json :=
  match j.getObjVal? k with
  | .ok v => .ok v
  | .error _ => .error s!"missing field {k}"

def jFieldD (j : Json) (k : String) (d : Json) : Json :=
  match j.getObjVal? k with
  | .ok v => v
  | .error _ => d

partial def tyOfJson (j : Json) : Except String Ty := do
  let a ← jArr j
  if a.size == 0 then throw "empty type"
  let k ← jStr a[0]!
  let list (x : Json) : Except String (List Ty) := do
    let xs ← jArr x
    xs.toList.mapM tyOfJson
  match k with
  | "cls" => return .cls (← jNat a[1]!)
  | "gen" => return .gen (← jNat a[1]!) (← list a[2]!)
  | "union" => return .union (← list a[1]!)
  | "inter" => return .inter (← list a[1]!)
  | "exactly" => return .exactly (← jNat a[1]!) (← jNat a[2]!)
  | "strict" => return .strict (← jNat a[1]!) (← jNat a[2]!)
  | "hasm" => return .hasm (← jNat a[1]!) (← jNat a[2]!)
  | "pred" => return .pred (← jNat a[1]!) (← jNat a[2]!)
  | "lit" => do
    let ks ← (← jArr a[1]!).toList.mapM jNat
    return .lit ks (← tyOfJson a[2]!)
  | "prod" => return .prod (← list a[1]!) (← tyOfJson a[2]!)
  | "fdep" => do
    let ps ← (← jArr a[2]!).toList.mapM (fun p => if p.isNull then pure none else some <$> jNat p)
    return .fdep (← jNat a[1]!) ps (← tyOfJson a[3]!)
  | _ => throw s!"unknown type kind {k}"

def boolMatrix (j : Json) : Except String (Array (Array Bool)) := do
  let rows ← jArr j
  rows.mapM (fun r => do (← jArr r).mapM jBool)

def tableFn (m : Array (Array Bool)) (i j : Nat) : Bool :=
  match m[i]? with
  | some r => r[j]?.getD false
  | none => false

/-- `{"sub":[[..]], "attr":[[..]] (class × attribute), "pred":[[..]] (predicate × class)}` -/
def hierOfJson (j : Json) : Except String Hier := do
  let sub ← boolMatrix (← jField j "sub")
  let attr ← boolMatrix (jFieldD j "attr" (Json.arr #[]))
  let pred ← boolMatrix (jFieldD j "pred" (Json.arr #[]))
  return { sub := tableFn sub, hasAttr := tableFn attr, pred := tableFn pred }

end Ovld
