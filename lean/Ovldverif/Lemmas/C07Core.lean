import Ovldverif.Spec.Chain
import Ovldverif.Props.C02
/-!
# C07: helper lemmas

Part A (generic, any plan): which writes of the publication loop go to a continuation key `(c, k)` when `c`
is a code of rank `i` — exactly the one that publishes rank `i + 1`.

Part B (static tables): under `strictAbove`, `_pull` emits the current method and everything that beats it as
singleton ranks, and the rank after the current method is the first group of the remaining (sorted) suffix;
the ranking core of C02 is re-used on that suffix.
-/
set_option autoImplicit false
namespace Ovld

/-! ## Part A: generic facts -/

theorem flatMap_nodup_disjoint {α β : Type} (f : α → List β) : ∀ (l : List α) (i j : Nat) (a b : α) (x : β),
    (l.flatMap f).Nodup → l[i]? = some a → l[j]? = some b → i ≠ j → x ∈ f a → x ∉ f b := by
  intro l
  induction l with
  | nil => intro i j a b x _ hi; simp at hi
  | cons y l ih =>
    intro i j a b x nd hi hj hij hxa hxb
    rw [List.flatMap_cons, List.nodup_append] at nd
    obtain ⟨_, nd2, nd3⟩ := nd
    cases i with
    | zero =>
      cases j with
      | zero => exact hij rfl
      | succ j =>
        simp only [List.getElem?_cons_zero, Option.some.injEq] at hi
        simp only [List.getElem?_cons_succ] at hj
        subst hi
        exact nd3 x hxa x (List.mem_flatMap.mpr ⟨b, List.mem_of_getElem? hj, hxb⟩) rfl
    | succ i =>
      simp only [List.getElem?_cons_succ] at hi
      cases j with
      | zero =>
        simp only [List.getElem?_cons_zero, Option.some.injEq] at hj
        subst hj
        exact nd3 x hxb x (List.mem_flatMap.mpr ⟨a, List.mem_of_getElem? hi, hxa⟩) rfl
      | succ j =>
        simp only [List.getElem?_cons_succ] at hj
        exact ih i j a b x nd2 hi hj (fun e => hij (by rw [e])) hxa hxb

section
variable {K F E : Type}

/-- the write that publishes rank `r` under the continuation key of the code `c` of the previous rank -/
def wOf (k : K) (c : Code) (r : Rank F E) : W K F E :=
  match r.func with
  | some f => W.c (some c, k) f
  | none => W.e (some c, k) r.err

theorem mem_rankCodes_of_getElem? (rs : List (Rank F E)) (i : Nat) (r : Rank F E) (c : Code)
    (hr : rs[i]? = some r) (hc : c ∈ r.codes) : c ∈ rankCodes rs :=
  List.mem_flatMap.mpr ⟨r, List.mem_of_getElem? hr, hc⟩

theorem mem_tups_some (k : K) (ps : List Code) (c : Code) : ((some c, k) : CKey K) ∈ tups k ps ↔ c ∈ ps := by
  rw [mem_tups]
  constructor
  · rintro (⟨_, h⟩ | ⟨p, hp, h⟩)
    · cases h
    · cases h; exact hp
  · intro h; exact Or.inr ⟨c, h, rfl⟩

/-- writes of the first round (`parents = ps`) to `(c, k)` with `c ∈ ps` not a code of any rank: exactly the
    publication of the first rank -/
theorem writes_head (k : K) (c : Code) (rs : List (Rank F E)) (ps : List Code) (hc : c ∈ ps)
    (hnc : c ∉ rankCodes rs) :
    (∀ w ∈ writes k rs ps, w.key = (some c, k) → ∃ r', rs[0]? = some r' ∧ w = wOf k c r') ∧
    (∀ r', rs[0]? = some r' → (wOf k c r' : W K F E) ∈ writes k rs ps) := by
  cases rs with
  | nil => exact ⟨fun w hw => by simp [writes] at hw, fun r' h => by simp at h⟩
  | cons r1 rs =>
    rw [writes_cons]
    constructor
    · intro w hw hk
      refine ⟨r1, rfl, ?_⟩
      unfold wOf
      cases hf : r1.func with
      | none =>
        rw [hf] at hw
        simp only [List.mem_map] at hw
        obtain ⟨t, _, rfl⟩ := hw
        simp only [W.key] at hk
        rw [hk]
      | some f1 =>
        rw [hf] at hw
        simp only [List.mem_append, List.mem_map] at hw
        rcases hw with ⟨t, _, rfl⟩ | hw
        · simp only [W.key] at hk
          rw [hk]
        · exfalso
          cases hce : r1.codes.isEmpty with
          | true => rw [hce] at hw; simp at hw
          | false =>
            rw [hce] at hw
            simp only [Bool.false_eq_true, if_false] at hw
            have := (writes_keys k rs r1.codes w hw).2.2 c (by rw [hk])
            apply hnc
            rw [rankCodes_cons]
            exact List.mem_append.mpr this
    · intro r' hr'
      simp only [List.getElem?_cons_zero, Option.some.injEq] at hr'
      subst hr'
      have ht : ((some c, k) : CKey K) ∈ tups k ps := (mem_tups_some k ps c).mpr hc
      unfold wOf
      cases hf : r1.func with
      | none => exact List.mem_map.mpr ⟨_, ht, rfl⟩
      | some f1 => exact List.mem_append_left _ (List.mem_map.mpr ⟨_, ht, rfl⟩)

/-- the writes to `(c, k)` for `c` a code of rank `i`, when every rank up to `i` has a callable and every
    rank before `i` has a code: exactly the publication of rank `i + 1` -/
theorem writes_at (k : K) (c : Code) : ∀ (rs : List (Rank F E)) (ps : List Code) (i : Nat) (r : Rank F E),
    rs[i]? = some r → c ∈ r.codes → (ps ++ rankCodes rs).Nodup →
    (∀ j, j ≤ i → ∀ r', rs[j]? = some r' → r'.func.isSome = true) →
    (∀ j, j < i → ∀ r', rs[j]? = some r' → r'.codes.isEmpty = false) →
    (∀ w ∈ writes k rs ps, w.key = (some c, k) → ∃ r', rs[i + 1]? = some r' ∧ w = wOf k c r') ∧
    (∀ r', rs[i + 1]? = some r' → (wOf k c r' : W K F E) ∈ writes k rs ps) := by
  intro rs
  induction rs with
  | nil => intro ps i r hr; simp at hr
  | cons r0 rs ih =>
    intro ps i r hr hc nd hprev hcodes
    have hcR : c ∈ rankCodes (r0 :: rs) := mem_rankCodes_of_getElem? _ i r c hr hc
    have hcps : c ∉ ps := fun h => (List.nodup_append.1 nd).2.2 c h c hcR rfl
    rw [rankCodes_cons] at nd
    have nd' : (r0.codes ++ rankCodes rs).Nodup := (List.nodup_append.1 nd).2.1
    obtain ⟨f0, hf0⟩ : ∃ f0, r0.func = some f0 := by
      have := hprev 0 (Nat.zero_le _) r0 rfl
      cases h : r0.func with
      | none => rw [h] at this; cases this
      | some f0 => exact ⟨f0, rfl⟩
    have hne : r0.codes.isEmpty = false := by
      cases i with
      | zero =>
        simp only [List.getElem?_cons_zero, Option.some.injEq] at hr
        subst hr
        cases h : r0.codes with
        | nil => rw [h] at hc; cases hc
        | cons a b => rfl
      | succ i => exact hcodes 0 (Nat.succ_pos _) r0 rfl
    -- the rest of the loop
    have key : (∀ w ∈ writes k rs r0.codes, w.key = (some c, k) →
          ∃ r', (r0 :: rs)[i + 1]? = some r' ∧ w = wOf k c r') ∧
        (∀ r', (r0 :: rs)[i + 1]? = some r' → (wOf k c r' : W K F E) ∈ writes k rs r0.codes) := by
      simp only [List.getElem?_cons_succ]
      cases i with
      | zero =>
        simp only [List.getElem?_cons_zero, Option.some.injEq] at hr
        subst hr
        exact writes_head k c rs r0.codes hc
          (fun h => (List.nodup_append.1 nd').2.2 c hc c h rfl)
      | succ i =>
        simp only [List.getElem?_cons_succ] at hr
        exact ih r0.codes i r hr hc nd'
          (fun j hj r' hr' => hprev (j + 1) (Nat.succ_le_succ hj) r' (by simpa using hr'))
          (fun j hj r' hr' => hcodes (j + 1) (Nat.succ_lt_succ hj) r' (by simpa using hr'))
    rw [writes_cons, hf0, hne]
    simp only [Bool.false_eq_true, if_false]
    constructor
    · intro w hw hk
      rcases List.mem_append.mp hw with hw | hw
      · exfalso
        obtain ⟨t, ht, rfl⟩ := List.mem_map.mp hw
        simp only [W.key] at hk
        subst hk
        exact hcps ((mem_tups_some k ps c).mp ht)
      · exact key.1 w hw hk
    · intro r' hr'
      exact List.mem_append_right _ (key.2 r' hr')

variable [DecidableEq K]

theorem lastE_some_of_mem (ck : CKey K) (e : E) (l : List (W K F E)) :
    W.e ck e ∈ l → ∃ g, lastE ck l = some g := by
  induction l with
  | nil => intro h; simp at h
  | cons w l ih =>
    intro h
    cases w with
    | e ck' g =>
      simp only [lastE]
      cases hl : lastE ck l with
      | some g' => exact ⟨g', rfl⟩
      | none =>
        rcases List.mem_cons.1 h with h1 | h2
        · have hk : ck = ck' := by injection h1
          exact ⟨g, by simp [hk]⟩
        · obtain ⟨g', hg'⟩ := ih h2
          rw [hl] at hg'; cases hg'
    | c ck' g =>
      simp only [lastE]
      rcases List.mem_cons.1 h with h1 | h2
      · cases h1
      · exact ih h2

theorem lastC_eq_of_unique (ck : CKey K) (f : F) (l : List (W K F E)) (hm : W.c ck f ∈ l)
    (hu : ∀ g, W.c ck g ∈ l → g = f) : lastC ck l = some f := by
  obtain ⟨g, hg⟩ := lastC_some_of_mem ck f l hm
  rw [hg, hu g (lastC_mem ck l g hg)]

theorem lastE_eq_of_unique (ck : CKey K) (e : E) (l : List (W K F E)) (hm : W.e ck e ∈ l)
    (hu : ∀ g, W.e ck g ∈ l → g = e) : lastE ck l = some e := by
  obtain ⟨g, hg⟩ := lastE_some_of_mem ck e l hm
  rw [hg, hu g (lastE_mem ck l g hg)]

/-- what a continuation key of a code of rank `i` resolves to (generic form of `nextRankRes`) -/
def resOfRank : Option (Rank F E) → Res F E
  | some r => (match r.func with | some f => .ok f | none => .amb r.err)
  | none => .noMethod

def nextRes (rs : List (Rank F E)) (i : Nat) : Res F E := resOfRank rs[i + 1]?

/-- the branch of `pureNext` that reads the two dicts -/
def readNext (ck : CKey K) (l : List (W K F E)) : Res F E :=
  match lastE ck l with
  | some e => .amb e
  | none => match lastC ck l with
    | some f' => .ok f'
    | none => .noMethod

theorem readNext_of_writes (k : K) (c : Code) (rs : List (Rank F E)) (i : Nat) (l : List (W K F E))
    (h1 : ∀ w ∈ l, w.key = (some c, k) → ∃ r', rs[i + 1]? = some r' ∧ w = wOf k c r')
    (h2 : ∀ r', rs[i + 1]? = some r' → (wOf k c r' : W K F E) ∈ l) :
    readNext (some c, k) l = nextRes rs i := by
  unfold readNext nextRes resOfRank
  cases hr : rs[i + 1]? with
  | none =>
    rw [hr] at h1
    have hE : lastE (some c, k) l = none :=
      lastE_none_of_not_mem _ _ fun e he => by
        obtain ⟨r', h, _⟩ := h1 _ he rfl
        cases h
    have hC : lastC (some c, k) l = none :=
      lastC_none_of_not_mem _ _ fun e he => by
        obtain ⟨r', h, _⟩ := h1 _ he rfl
        cases h
    rw [hE, hC]
  | some r' =>
    rw [hr] at h1
    have hm := h2 r' hr
    have h1' : ∀ w ∈ l, w.key = (some c, k) → w = wOf k c r' := by
      intro w hw hk
      obtain ⟨r'', h, e⟩ := h1 w hw hk
      cases h
      exact e
    unfold wOf at hm h1'
    cases hf : r'.func with
    | none =>
      rw [hf] at hm h1'
      have hE : lastE (some c, k) l = some r'.err :=
        lastE_eq_of_unique _ _ _ hm fun g hg => by
          have := h1' _ hg rfl
          injection this
      rw [hE]
      simp only [hf]
    | some f' =>
      rw [hf] at hm h1'
      have hE : lastE (some c, k) l = none :=
        lastE_none_of_not_mem _ _ fun e he => by
          have := h1' _ he rfl
          cases this
      have hC : lastC (some c, k) l = some f' :=
        lastC_eq_of_unique _ _ _ hm fun g hg => by
          have := h1' _ hg rfl
          injection this
      rw [hE, hC]
      simp only [hf]

variable (plan : K → Plan F E)

theorem pureNext_eq_readNext (k : K) (c : Code) (f : F) (htop : pureTop plan k = .ok f)
    (hc : c ∈ (plan k).allCodes) : pureNext plan c k = readNext (some c, k) (ws plan k) := by
  unfold pureNext readNext
  rw [htop]
  have : (plan k).allCodes.contains c = true := List.contains_iff_mem.mpr hc
  simp only [this, Bool.not_true, Bool.false_eq_true, if_false]
  rfl

/-- generic form of `C07_step` -/
theorem step_generic (ok : PlanOK plan) (k : K) (c : Code) (i : Nat) (r : Rank F E)
    (hr : (plan k).ranks[i]? = some r) (hc : c ∈ r.codes) (f : F) (htop : pureTop plan k = .ok f)
    (hprev : ∀ j, j ≤ i → ∀ r', (plan k).ranks[j]? = some r' → r'.func.isSome = true)
    (hcodes : ∀ j, j < i → ∀ r', (plan k).ranks[j]? = some r' → r'.codes.isEmpty = false) :
    pureNext plan c k = nextRes (plan k).ranks i := by
  have hcm : c ∈ (plan k).allCodes := ok.codes_sub k c (mem_rankCodes_of_getElem? _ i r c hr hc)
  rw [pureNext_eq_readNext plan k c f htop hcm]
  obtain ⟨h1, h2⟩ := writes_at k c (plan k).ranks [] i r hr hc (by simpa using ok.codes_nodup k) hprev hcodes
  exact readNext_of_writes k c (plan k).ranks i (ws plan k)
    (fun w hw => h1 w ((mem_ws plan k w).1 hw)) (fun r' hr' => (mem_ws plan k _).2 (h2 r' hr'))

theorem pureNext_fresh (k : K) (c : Code) (h : (plan k).allCodes.contains c = false) :
    pureNext plan c k = pureTop plan k := by
  unfold pureNext
  cases hp : pureTop plan k with
  | ok f => simp only [h, Bool.not_false, if_true]
  | amb e => rfl
  | noMethod => rfl
  | failed => rfl
  | keyError => rfl

end

/-! ## Part B: ranking under `strictAbove` (abstract part) -/

section
variable {T : Type} [DecidableEq T]
variable (le : T → T → Bool) (lvl : T → Nat) (tys : Cand → List T) (sig : Cand → Nat)

omit [DecidableEq T] in
/-- the hypotheses of the ranking core restrict to any sub-collection of the candidates (same level function) -/
theorem RankHyp.sub {n : Nat} {cs cs' : List Cand} (H : RankHyp le lvl tys sig n cs)
    (hs : ∀ c ∈ cs', c ∈ cs) : RankHyp le lvl tys sig n cs' where
  spec := fun c hc => H.spec c (hs c hc)
  len := fun c hc => H.len c (hs c hc)
  mono := H.mono
  comp := fun c hc c' hc' => H.comp c (hs c hc) c' (hs c' hc')
  sigTie := fun c hc c' hc' => H.sigTie c (hs c hc) c' (hs c' hc')

def SortedK (l : List Cand) : Prop := l.Pairwise (fun a b : Cand => keyGe a.key b.key = true)

theorem sortCands_sorted (cs : List Cand) : SortedK (sortCands cs) :=
  List.pairwise_mergeSort (le := fun a b : Cand => keyGe a.key b.key)
    (fun _ _ _ => keyGe_trans _ _ _) (fun _ _ => keyGe_total _ _) cs

theorem sortCands_of_sorted (l : List Cand) (h : SortedK l) : sortCands l = l :=
  List.mergeSort_of_pairwise (le := fun a b : Cand => keyGe a.key b.key) h

theorem firstGroup_sorted (h : Cand) (t : List Cand) (hs : SortedK (h :: t)) :
    firstGroup (h :: t) = h :: t.filter (fun c => !dominates h c) := by
  unfold firstGroup
  rw [sortCands_of_sorted _ hs]

theorem pull_cons_nil (f : Nat) (h : Cand) (t : List Cand) :
    pull (f + 1) (h :: t) [] = (h :: t.filter (fun c2 => !dominates h c2)) ::
      pull f t ((t.filter (fun c2 => !dominates h c2)).map (·.id)) := by
  simp [pull]
  rw [List.filter_eq_self.mpr (fun _ _ => rfl)]

theorem pull_nil_nil (f : Nat) : pull f [] [] = [] := by
  cases f <;> simp [pull]

/-- the first rank `_pull` emits for an already sorted list -/
theorem pull_head (f : Nat) (l : List Cand) (hf : l.length ≤ f) (hs : SortedK l) :
    (pull f l [])[0]? = if l = [] then none else some (firstGroup l) := by
  cases l with
  | nil => rw [pull_nil_nil]; rfl
  | cons h t =>
    obtain ⟨f', rfl⟩ : ∃ f', f = f' + 1 := ⟨f - 1, by simp at hf; omega⟩
    rw [pull_cons_nil, firstGroup_sorted h t hs]
    simp

theorem beatsC_not_of_keyGe (refl : ∀ a, le a a = true) {n : Nat} {cs : List Cand}
    (H : RankHyp le lvl tys sig n cs) (a c : Cand) (ha : a ∈ cs) (hc : c ∈ cs)
    (hge : keyGe c.key a.key = true) : ¬ beatsC le tys sig a c := by
  intro b
  have := keyGt_not_ge _ _ (beats_keyGt le lvl tys sig refl H a c ha hc b)
  rw [hge] at this
  cases this

/-- under `strictAbove` the sorted candidate list starts with a chain of singleton ranks that ends with the
    current method; `_pull` continues on the suffix after it with nothing marked as processed -/
theorem pull_chain (refl : ∀ a, le a a = true) {n : Nat} {cs : List Cand}
    (H : RankHyp le lvl tys sig n cs) (ccur : Cand) (hccur : ccur ∈ cs)
    (hstrict : ∀ a ∈ cs, (a = ccur ∨ beatsC le tys sig a ccur) → ∀ c ∈ cs, c ≠ a →
      beatsC le tys sig a c ∨ beatsC le tys sig c a) :
    ∀ (l : List Cand) (f : Nat), SortedK l → (∀ c ∈ l, c ∈ cs) → ccur ∈ l → l.Nodup → l.length ≤ f →
    ∃ pre rest f2, l = pre ++ ccur :: rest ∧ rest.length ≤ f2 ∧
      pull f l [] = (pre ++ [ccur]).map (fun c => [c]) ++ pull f2 rest [] ∧
      (∀ a ∈ pre, beatsC le tys sig a ccur) := by
  intro l
  induction l with
  | nil => intro f _ _ hm; cases hm
  | cons h t ih =>
    intro f hsort hsub hmem nd hf
    obtain ⟨f', rfl⟩ : ∃ f', f = f' + 1 := ⟨f - 1, by simp at hf; omega⟩
    have hs := List.pairwise_cons.mp hsort
    have hnd := List.nodup_cons.mp nd
    have hh : h ∈ cs := hsub h List.mem_cons_self
    have hA : h = ccur ∨ beatsC le tys sig h ccur := by
      by_cases e : h = ccur
      · exact Or.inl e
      · right
        have hct : ccur ∈ t := (List.mem_cons.mp hmem).resolve_left (fun e' => e e'.symm)
        rcases hstrict ccur hccur (Or.inl rfl) h hh e with b | b
        · exact absurd b (beatsC_not_of_keyGe le lvl tys sig refl H ccur h hccur hh (hs.1 ccur hct))
        · exact b
    have hdom : t.filter (fun c2 => !dominates h c2) = [] := by
      rw [List.filter_eq_nil_iff]
      intro c hc
      have hcc := hsub c (List.mem_cons_of_mem _ hc)
      have cne : c ≠ h := fun e => hnd.1 (e ▸ hc)
      have ge := hs.1 c hc
      have b : beatsC le tys sig h c := by
        rcases hstrict h hh hA c hcc cne with b | b
        · exact b
        · exact absurd b (beatsC_not_of_keyGe le lvl tys sig refl H c h hcc hh ge)
      have := (dominates_iff_beats le lvl tys sig refl H h c hh hcc (keyGe_prio _ _ ge)).mpr b
      simp [this]
    rw [pull_cons_nil, hdom]
    simp only [List.map_nil]
    have hf' : t.length ≤ f' := by simp at hf; omega
    by_cases e : h = ccur
    · subst e
      exact ⟨[], t, f', rfl, hf', rfl, fun a ha => by cases ha⟩
    · have hct : ccur ∈ t := (List.mem_cons.mp hmem).resolve_left (fun e' => e e'.symm)
      obtain ⟨pre, rest, f2, e1, e2, e3, e4⟩ :=
        ih f' hs.2 (fun c hc => hsub c (List.mem_cons_of_mem _ hc)) hct hnd.2 hf'
      refine ⟨h :: pre, rest, f2, by rw [e1]; rfl, e2, by rw [e3]; rfl, ?_⟩
      intro a ha
      rcases List.mem_cons.mp ha with rfl | ha
      · exact hA.resolve_left e
      · exact e4 a ha

end

/-! ## Part B: static tables -/

/-- the rank `mkRanks` builds from a group of candidates of a static table -/
def staticRank (ms : List Meth) (g : List Cand) : Rank Entry (List Nat) :=
  { func := (match g.map (·.id) with | [id] => some (Entry.meth id) | _ => none),
    codes := (g.map (·.id)).filterMap (codeOf ms), err := g.map (·.id) }

theorem mkRanks_static (ms : List Meth) (hst : staticTable ms = true) :
    ∀ gs : List (List Cand), mkRanks ms gs = gs.map (staticRank ms)
  | [] => rfl
  | g :: gs => by
    have hdep : (g.map (·.id)).any (fun id => ((findMeth ms id).map Meth.dependent).getD false) = false := by
      rw [List.any_eq_false]
      intro id _
      cases hfm : findMeth ms id with
      | none => simp
      | some m =>
        have hm : m ∈ ms := List.mem_of_find?_eq_some hfm
        simp [not_dependent_of_static ms hst m hm]
    rw [List.map_cons, ← mkRanks_static ms hst gs]
    unfold staticRank
    rw [mkRanks]
    rw [hdep]
    rfl

theorem getElem?_singletons {β : Type} (g : List Cand → β) (A : List Cand) (B : List (List Cand)) (j : Nat)
    (x : Cand) (hx : A[j]? = some x) : ((A.map (fun c => [c]) ++ B).map g)[j]? = some (g [x]) := by
  have hj : j < A.length := (List.getElem?_eq_some_iff.mp hx).1
  rw [List.getElem?_map, List.getElem?_append_left (by simpa using hj), List.getElem?_map, hx]
  rfl

theorem codeOf_of_mem (ms : List Meth) (hid : (ms.map (·.id)).Nodup) (m : Meth) (hm : m ∈ ms)
    (hc : m.hasCode = true) : codeOf ms m.id = some m.code := by
  unfold codeOf
  rw [findMeth_of_mem ms hid m hm]
  simp [hc]

theorem nextSpec_eq (H : Hier) (ms : List Meth) (hcodes : (ms.map (·.code)).Nodup) (k : Key) (cur : Meth)
    (hcur : cur ∈ applicable H ms k) (hcode : cur.hasCode = true) :
    nextSpec H ms cur.code k =
      specResolve H (ms.filter (fun m => !(m.id == cur.id || (applicableTo H k m && beats H k m cur)))) k := by
  have hfind : (applicable H ms k).find? (fun m => m.hasCode && m.code == cur.code) = some cur := by
    cases hf : (applicable H ms k).find? (fun m => m.hasCode && m.code == cur.code) with
    | none =>
      have := List.find?_eq_none.mp hf cur hcur
      simp [hcode] at this
    | some m =>
      have hm : m ∈ applicable H ms k := List.mem_of_find?_eq_some hf
      have hp := List.find?_some hf
      simp only [Bool.and_eq_true, beq_iff_eq] at hp
      have hm' : m ∈ ms := (List.mem_filter.mp hm).1
      have hc' : cur ∈ ms := (List.mem_filter.mp hcur).1
      rw [eq_of_nodup_map (·.code) ms hcodes m hm' cur hc' hp.2]
  unfold nextSpec
  rw [hfind]

section
variable {cfg : Cfg} {ms : List Meth} {k : Key}

/-- the candidates `rest` ranked below the current method against the reduced table `ms'` -/
structure Below (cs rest : List Cand) (ms' : List Meth) : Prop where
  X : Ctx cfg ms k cs
  sub : ∀ c ∈ rest, c ∈ cs
  nodup : rest.Nodup
  nodup' : ms'.Nodup
  corr : ∀ m, (m ∈ ms' ∧ applicableTo cfg.H k m = true) ↔ ∃ c ∈ rest, methOf ms c.id = m

theorem Below.firstGroup_of_winners {cs rest : List Cand} {ms' : List Meth} (B : Below (cfg := cfg) (ms := ms) (k := k) cs rest ms')
    (w : Meth) (hw : w ∈ winners cfg.H ms' k) : ∃ cw ∈ rest, methOf ms cw.id = w ∧ firstGroup rest = [cw] := by
  obtain ⟨⟨hwm, hwa⟩, hall⟩ := (winners_mem cfg ms' k w).mp hw
  obtain ⟨cw, hcw, hmw⟩ := (B.corr w).mp ⟨hwm, hwa⟩
  refine ⟨cw, hcw, hmw, ?_⟩
  apply firstGroup_of_winner (leT cfg ms k) (lvlT cfg ms) (tysT ms k) (sigT ms) (leT_refl cfg ms k)
    ((rankHyp B.X).sub _ _ _ _ B.sub) B.nodup cw hcw
  intro c hc hne
  rw [beats_iff B.X cw c (B.sub cw hcw) (B.sub c hc), hmw]
  obtain ⟨hm', happ'⟩ := (B.corr _).mpr ⟨c, hc, rfl⟩
  rcases hall _ hm' happ' with h | h
  · exfalso
    apply hne
    have h1 := (cand_meth B.X c (B.sub c hc)).2.1
    have h2 := (cand_meth B.X cw (B.sub cw hcw)).2.1
    rw [hmw] at h2
    exact eq_of_nodup_map (·.id) cs B.X.ok.nodup c (B.sub c hc) cw (B.sub cw hcw) (by rw [← h1, h, h2])
  · exact h

theorem Below.winner_of_firstGroup {cs rest : List Cand} {ms' : List Meth} (B : Below (cfg := cfg) (ms := ms) (k := k) cs rest ms')
    (h : Cand) (hg : firstGroup rest = [h]) : h ∈ rest ∧ methOf ms h.id ∈ winners cfg.H ms' k := by
  obtain ⟨hh, hwin⟩ := Ovld.winner_of_firstGroup (leT cfg ms k) (lvlT cfg ms) (tysT ms k) (sigT ms)
    (leT_refl cfg ms k) ((rankHyp B.X).sub _ _ _ _ B.sub) h hg
  refine ⟨hh, ?_⟩
  rw [winners_mem]
  refine ⟨(B.corr _).mpr ⟨h, hh, rfl⟩, ?_⟩
  intro m' hm' happ'
  obtain ⟨c', hc', rfl⟩ := (B.corr m').mp ⟨hm', happ'⟩
  by_cases e : c' = h
  · left; rw [e]
  · right
    exact (beats_iff B.X h c' (B.sub h hh) (B.sub c' hc')).mp (hwin c' hc' e)

/-- the documented rule on the reduced table against the first group of the remaining candidates -/
theorem Below.agrees {cs rest : List Cand} {ms' : List Meth} (B : Below (cfg := cfg) (ms := ms) (k := k) cs rest ms')
 :
    specAgrees
      (resOfRank ((if rest = [] then none else some (firstGroup rest)).map (staticRank ms)))
      (specResolve cfg.H ms' k) := by
  by_cases hre : rest = []
  · rw [if_pos hre]
    have hap : applicable cfg.H ms' k = [] := by
      apply List.eq_nil_iff_forall_not_mem.mpr
      intro m hm
      obtain ⟨c, hc, _⟩ := (B.corr m).mp ((mem_applicable cfg ms' k m).mp hm)
      rw [hre] at hc
      cases hc
    unfold specResolve winners
    rw [hap]
    simp [specAgrees, resOfRank]
  · rw [if_neg hre]
    have hapne : (applicable cfg.H ms' k).isEmpty = false := by
      obtain ⟨c, hc⟩ := List.exists_mem_of_ne_nil rest hre
      have := (mem_applicable cfg ms' k _).mpr ((B.corr _).mpr ⟨c, hc, rfl⟩)
      cases hap : applicable cfg.H ms' k with
      | nil => rw [hap] at this; cases this
      | cons a b => rfl
    match hfg : firstGroup rest with
    | [] => exact absurd hfg (firstGroup_ne_nil rest hre)
    | [h] =>
      obtain ⟨hhc, hwin⟩ := B.winner_of_firstGroup h hfg
      have huniq : ∀ w ∈ winners cfg.H ms' k, w = methOf ms h.id := by
        intro w hw
        obtain ⟨cw, hcw, hmw, hfg'⟩ := B.firstGroup_of_winners w hw
        rw [hfg] at hfg'
        cases hfg'
        exact hmw.symm
      have hnd : (winners cfg.H ms' k).Nodup := by
        unfold winners applicable
        exact (List.filter_sublist.trans List.filter_sublist).nodup B.nodup'
      have hw1 := singleton_of_nodup_all_eq _ hnd _ hwin huniq
      show specAgrees (Res.ok (Entry.meth h.id)) (specResolve cfg.H ms' k)
      unfold specResolve
      rw [hw1]
      exact (cand_meth B.X h (B.sub h hhc)).2.1.symm
    | h :: h2 :: tl =>
      have hnw : ∀ w, winners cfg.H ms' k ≠ [w] := by
        intro w hw
        obtain ⟨cw, _, _, hfg'⟩ := B.firstGroup_of_winners w (by rw [hw]; exact List.mem_cons_self)
        rw [hfg] at hfg'
        cases hfg'
      show specAgrees (Res.amb _) (specResolve cfg.H ms' k)
      unfold specResolve
      split
      · rename_i w hw
        exact absurd hw (hnw w)
      · rw [hapne]
        trivial

end

/-- hypothesis added to `C07_next_partial` (a code-less handler stops the publication loop): every applicable
    method that beats the current one has a code object -/
def codesAbove (H : Hier) (ms : List Meth) (k : Key) (cur : Meth) : Bool :=
  (applicable H ms k).all (fun m => !(beats H k m cur) || m.hasCode)

theorem below_pred (H : Hier) (k : Key) (cur m : Meth) :
    (!(m.id == cur.id || (applicableTo H k m && beats H k m cur))) = true ↔
      (m.id ≠ cur.id ∧ ¬ (applicableTo H k m = true ∧ beats H k m cur = true)) := by
  cases h1 : m.id == cur.id <;> cases h2 : applicableTo H k m <;> cases h3 : beats H k m cur <;>
    simp_all

theorem next_partial_core_all (cfg : Cfg) (ms : List Meth) (wf : cfg.H.WF) (anti : cfg.H.Antisym)
    (hd : DistinctHandlers ms) (hst : staticTable ms = true)
    (k : Key) (hkc : ∀ e ∈ k, e.2.isCls = true)
    (hcc : candComparable cfg.H ms k = true) (htie : sigTieOK cfg.H ms k = true)
    (cur : Meth) (hcur : cur ∈ applicable cfg.H ms k) (hcode : cur.hasCode = true)
    (hsa : strictAbove cfg.H ms k cur = true) (hca : codesAbove cfg.H ms k cur = true) :
    specAgrees (pureNext (plan cfg ms) cur.code k) (nextSpec cfg.H ms cur.code k) := by
  have hid := hd.ids
  have slots : ∀ e ∈ k, SlotOK cfg ms e := fun e he => slotOK_of_cls cfg ms wf anti hst e (hkc e he)
  obtain ⟨cs, hcs, ok⟩ := candidates_ok_all cfg ms hid k slots
  have X : Ctx cfg ms k cs := ⟨wf, hid, slots, ok, hcc, htie⟩
  have R := rankHyp X
  have hplan : plan cfg ms k =
      { ranks := mkRanks ms (ranks cs), allCodes := (sortCands cs).filterMap (fun c => codeOf ms c.id) } := by
    unfold plan
    rw [hcs]
    rfl
  have hf : (plan cfg ms k).fail = false := by rw [hplan]
  -- the candidate of the current method
  obtain ⟨hcurm, hcura⟩ := (mem_applicable cfg ms k cur).mp hcur
  obtain ⟨ccur, hccur, hccid⟩ := ok.complete cur hcurm hcura
  have hmcur : methOf ms ccur.id = cur := by rw [hccid]; exact methOf_mem ms hid cur hcurm
  have idinj : ∀ a ∈ cs, ∀ b ∈ cs, a.id = b.id → a = b := eq_of_nodup_map (·.id) cs ok.nodup
  have happM : ∀ c ∈ cs, methOf ms c.id ∈ applicable cfg.H ms k := fun c hc =>
    (mem_applicable cfg ms k _).mpr ⟨(cand_meth X c hc).1, (cand_meth X c hc).2.2.1⟩
  have hstrict : ∀ a ∈ cs, (a = ccur ∨ beatsC (leT cfg ms k) (tysT ms k) (sigT ms) a ccur) → ∀ c ∈ cs, c ≠ a →
      beatsC (leT cfg ms k) (tysT ms k) (sigT ms) a c ∨ beatsC (leT cfg ms k) (tysT ms k) (sigT ms) c a := by
    intro a ha hA c hc hne'
    rw [beats_iff X a c ha hc, beats_iff X c a hc ha]
    have cond : ((methOf ms a.id).id == cur.id || beats cfg.H k (methOf ms a.id) cur) = true := by
      rcases hA with e | b
      · rw [e, hmcur]; simp
      · rw [beats_iff X a ccur ha hccur, hmcur] at b
        rw [b]; simp
    unfold strictAbove at hsa
    have h1 := List.all_eq_true.mp hsa _ (happM a ha)
    rw [cond] at h1
    simp only [Bool.not_true, Bool.false_or] at h1
    have h2 := List.all_eq_true.mp h1 _ (happM c hc)
    simp only [Bool.or_eq_true, beq_iff_eq] at h2
    rcases h2 with (h2 | h2) | h2
    · exfalso
      apply hne'
      apply idinj c hc a ha
      rw [← (cand_meth X c hc).2.1, h2, (cand_meth X a ha).2.1]
    · exact Or.inl h2
    · exact Or.inr h2
  -- the sorted candidate list
  have hsorted := sortCands_sorted cs
  have perm := sort_perm cs
  have hmemS : ∀ c, c ∈ sortCands cs ↔ c ∈ cs := fun c => perm.mem_iff
  have ndS : (sortCands cs).Nodup := perm.nodup_iff.mpr (nodup_of_map_nodup (·.id) cs ok.nodup)
  obtain ⟨pre, rest, f2, hS, hf2, hpull, hpre⟩ :=
    pull_chain (leT cfg ms k) (lvlT cfg ms) (tysT ms k) (sigT ms) (leT_refl cfg ms k) R ccur hccur hstrict
      (sortCands cs) (sortCands cs).length hsorted (fun c hc => (hmemS c).mp hc) ((hmemS ccur).mpr hccur) ndS
      (Nat.le_refl _)
  have hranks : ranks cs = (pre ++ [ccur]).map (fun c => [c]) ++ pull f2 rest [] := hpull
  have hpre_sub : ∀ c ∈ pre, c ∈ cs := fun c hc =>
    (hmemS c).mp (by rw [hS]; exact List.mem_append_left _ hc)
  have hrest_sub : ∀ c ∈ rest, c ∈ cs := fun c hc =>
    (hmemS c).mp (by rw [hS]; exact List.mem_append_right _ (List.mem_cons_of_mem _ hc))
  rw [hS] at hsorted ndS
  have hsort2 : SortedK (ccur :: rest) := (List.pairwise_append.mp hsorted).2.1
  have hrestS : SortedK rest := (List.pairwise_cons.mp hsort2).2
  have ndrest : (ccur :: rest).Nodup := (List.nodup_append.mp ndS).2.1
  have hrest_ne : ∀ c ∈ rest, c ≠ ccur := fun c hc e => (List.nodup_cons.mp ndrest).1 (e ▸ hc)
  have hrest_nb : ∀ c ∈ rest, ¬ beatsC (leT cfg ms k) (tysT ms k) (sigT ms) c ccur := fun c hc =>
    beatsC_not_of_keyGe (leT cfg ms k) (lvlT cfg ms) (tysT ms k) (sigT ms) (leT_refl cfg ms k) R c ccur
      (hrest_sub c hc) hccur ((List.pairwise_cons.mp hsort2).1 c hc)
  -- the ranks of the plan
  have hr : (plan cfg ms k).ranks =
      (((pre ++ [ccur]).map (fun c => [c])) ++ pull f2 rest []).map (staticRank ms) := by
    rw [hplan]
    show mkRanks ms (ranks cs) = _
    rw [mkRanks_static ms hst, hranks]
  have hsing : ∀ (j : Nat) (x : Cand), (pre ++ [ccur])[j]? = some x → (plan cfg ms k).ranks[j]? = some (staticRank ms [x]) := by
    intro j x hx
    rw [hr]
    exact getElem?_singletons (staticRank ms) _ _ j x hx
  have hcodeM : ∀ c ∈ cs, (methOf ms c.id).hasCode = true → codeOf ms c.id = some (methOf ms c.id).code := by
    intro c hc h
    have := codeOf_of_mem ms hid _ (cand_meth X c hc).1 h
    rw [(cand_meth X c hc).2.1] at this
    exact this
  have hlen : (pre ++ [ccur]).length = pre.length + 1 := by simp
  have hget : ∀ j, j ≤ pre.length → ∃ x, (pre ++ [ccur])[j]? = some x :=
    fun j hj => ⟨(pre ++ [ccur])[j]'(by omega), List.getElem?_eq_getElem _⟩
  have hri : (plan cfg ms k).ranks[pre.length]? = some (staticRank ms [ccur]) :=
    hsing pre.length ccur (by simp)
  have hci : cur.code ∈ (staticRank ms [ccur]).codes := by
    have := hcodeM ccur hccur (by rw [hmcur]; exact hcode)
    rw [hmcur] at this
    simp [staticRank, this]
  have hprev : ∀ j, j ≤ pre.length → ∀ r', (plan cfg ms k).ranks[j]? = some r' → r'.func.isSome = true := by
    intro j hj r' hr'
    obtain ⟨x, hx⟩ := hget j hj
    rw [hsing j x hx] at hr'
    cases hr'
    rfl
  have hcodes : ∀ j, j < pre.length → ∀ r', (plan cfg ms k).ranks[j]? = some r' → r'.codes.isEmpty = false := by
    intro j hj r' hr'
    have hx : (pre ++ [ccur])[j]? = some pre[j] := by
      rw [List.getElem?_append_left hj]
      exact List.getElem?_eq_getElem _
    rw [hsing j _ hx] at hr'
    cases hr'
    have hxp : pre[j] ∈ pre := List.getElem_mem hj
    have hxc := hpre_sub _ hxp
    have hb := (beats_iff X _ ccur hxc hccur).mp (hpre _ hxp)
    rw [hmcur] at hb
    unfold codesAbove at hca
    have h1 := List.all_eq_true.mp hca _ (happM _ hxc)
    rw [hb] at h1
    simp only [Bool.not_true, Bool.false_or] at h1
    simp [staticRank, hcodeM _ hxc h1]
  obtain ⟨f0, htop⟩ : ∃ f0, pureTop (plan cfg ms) k = .ok f0 := by
    obtain ⟨x, hx⟩ := hget 0 (Nat.zero_le _)
    have h0 := hsing 0 x hx
    cases hrk : (plan cfg ms k).ranks with
    | nil => rw [hrk] at h0; cases h0
    | cons a b =>
      rw [hrk] at h0
      simp only [List.getElem?_cons_zero, Option.some.injEq] at h0
      exact ⟨Entry.meth x.id, pureTop_ok _ k hf a b hrk _ (by rw [h0]; rfl)⟩
  rw [step_generic (plan cfg ms) (plan_ok cfg ms hd.ids hd.codes) k cur.code pre.length _ hri hci f0 htop hprev hcodes]
  -- the rank after the current method
  have hnext : (plan cfg ms k).ranks[pre.length + 1]? =
      (if rest = [] then none else some (firstGroup rest)).map (staticRank ms) := by
    rw [hr, List.getElem?_map, List.getElem?_append_right (by simp), ← pull_head f2 rest hf2 hrestS]
    simp
  unfold nextRes
  rw [hnext, nextSpec_eq cfg.H ms hd.codes k cur hcur hcode]
  -- the reduced table
  apply Below.agrees (cfg := cfg) (ms := ms) (k := k) (cs := cs)
  refine ⟨X, hrest_sub, (List.nodup_cons.mp ndrest).2, (List.filter_sublist).nodup (nodup_of_map_nodup (·.id) ms hid), ?_⟩
  intro m
  rw [List.mem_filter, below_pred]
  constructor
  · rintro ⟨⟨hm, hni, hnb⟩, happ⟩
    obtain ⟨c, hc, hcid⟩ := ok.complete m hm happ
    have hmc : methOf ms c.id = m := by rw [hcid]; exact methOf_mem ms hid m hm
    refine ⟨c, ?_, hmc⟩
    have hcS := (hmemS c).mpr hc
    rw [hS] at hcS
    rcases List.mem_append.mp hcS with h | h
    · exfalso
      have hb := (beats_iff X c ccur hc hccur).mp (hpre c h)
      rw [hmc, hmcur] at hb
      exact hnb ⟨happ, hb⟩
    · rcases List.mem_cons.mp h with h | h
      · exfalso
        apply hni
        rw [← hcid, h, hccid]
      · exact h
  · rintro ⟨c, hc, rfl⟩
    have hcc' := hrest_sub c hc
    obtain ⟨hm, hmid, happ, _⟩ := cand_meth X c hcc'
    refine ⟨⟨hm, ?_, ?_⟩, happ⟩
    · intro e
      apply hrest_ne c hc
      apply idinj c hcc' ccur hccur
      rw [← hmid, e, hccid]
    · rintro ⟨_, hb⟩
      apply hrest_nb c hc
      rw [beats_iff X c ccur hcc' hccur, hmcur]
      exact hb

theorem next_partial_core (cfg : Cfg) (ms : List Meth) (wf : cfg.H.WF) (anti : cfg.H.Antisym)
    (hd : DistinctHandlers ms) (hst : staticTable ms = true)
    (k : Key) (hkc : ∀ e ∈ k, e.2.isCls = true) (_hne : k ≠ [])
    (hcc : candComparable cfg.H ms k = true) (htie : sigTieOK cfg.H ms k = true)
    (cur : Meth) (hcur : cur ∈ applicable cfg.H ms k) (hcode : cur.hasCode = true)
    (hsa : strictAbove cfg.H ms k cur = true) (hca : codesAbove cfg.H ms k cur = true) :
    specAgrees (pureNext (plan cfg ms) cur.code k) (nextSpec cfg.H ms cur.code k) :=
  next_partial_core_all cfg ms wf anti hd hst k hkc hcc htie cur hcur hcode hsa hca

end Ovld
