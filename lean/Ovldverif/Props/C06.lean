import Ovldverif.Props.C02
/-!
# C06 — resolution is deterministic and ignores irrelevant context

The documented rule (`specResolve`) mentions only the applicable methods, their declared types, priorities and
recency, so it cannot depend on registration order, on the iteration order of the library's sets (`Cfg.tyRank`,
`Cfg.hRank`: hash seeds and memory addresses enter the code only through them), or on methods that are not
applicable to the call.  By C02 the table agrees with the rule (inside the hypotheses that delimit findings D1
and D21), hence so does the table.
-/
set_option autoImplicit false
namespace Ovld

/-- same outcome: the same method, or an ambiguity on both sides, or no method on both sides -/
def sameAnswer : Res Entry (List Nat) → Res Entry (List Nat) → Prop
  | .ok (.meth a), .ok (.meth b) => a = b
  | .amb _, .amb _ => True
  | .noMethod, .noMethod => True
  | _, _ => False

/-! ### helper lemmas -/

theorem applicable_perm (H : Hier) (ms ms' : List Meth) (hp : ms'.Perm ms) (k : Key) :
    (applicable H ms' k).Perm (applicable H ms k) :=
  hp.filter _

theorem applicable_append_irrelevant (H : Hier) (ms extra : List Meth) (k : Key)
    (hx : ∀ m ∈ extra, applicableTo H k m = false) :
    applicable H (ms ++ extra) k = applicable H ms k := by
  unfold applicable
  rw [List.filter_append]
  have h : extra.filter (applicableTo H k) = [] := by
    rw [List.filter_eq_nil_iff]
    intro a ha
    rw [hx a ha]
    exact Bool.false_ne_true
  rw [h, List.append_nil]

/-- everything in the rule is a function of the applicable list, up to permutation -/
theorem winners_perm_of_applicable (H : Hier) (ms ms' : List Meth) (k : Key)
    (hap : (applicable H ms' k).Perm (applicable H ms k)) :
    (winners H ms' k).Perm (winners H ms k) := by
  unfold winners
  have hf : (fun m : Meth => (applicable H ms' k).all (fun m' => m'.id == m.id || beats H k m m')) =
      (fun m : Meth => (applicable H ms k).all (fun m' => m'.id == m.id || beats H k m m')) := by
    funext m
    exact hap.all_eq
  show (List.filter _ (applicable H ms' k)).Perm (List.filter _ (applicable H ms k))
  rw [hf]
  exact hap.filter _

theorem specResolve_of_applicable_perm (H : Hier) (ms ms' : List Meth) (k : Key)
    (hap : (applicable H ms' k).Perm (applicable H ms k)) :
    specResolve H ms' k = specResolve H ms k := by
  have hw := winners_perm_of_applicable H ms ms' k hap
  have he := hap.isEmpty_eq
  unfold specResolve
  rw [he]
  generalize winners H ms' k = l' at hw
  generalize winners H ms k = l at hw
  match l, hw with
  | [], hw =>
    have : l' = [] := List.Perm.eq_nil hw
    subst this
    rfl
  | [w], hw =>
    have : l' = [w] := List.perm_singleton.mp hw
    subst this
    rfl
  | a :: b :: r, hw =>
    have hl := hw.length_eq
    match l', hl with
    | a' :: b' :: r', _ => rfl

theorem candComparable_of_applicable_perm (H : Hier) (ms ms' : List Meth) (k : Key)
    (hap : (applicable H ms' k).Perm (applicable H ms k)) :
    candComparable H ms' k = candComparable H ms k := by
  unfold candComparable
  show List.all (applicable H ms' k) _ = List.all (applicable H ms k) _
  rw [hap.all_eq]
  congr 1
  funext m
  exact hap.all_eq

theorem sigTieOK_of_applicable_perm (H : Hier) (ms ms' : List Meth) (k : Key)
    (hap : (applicable H ms' k).Perm (applicable H ms k)) :
    sigTieOK H ms' k = sigTieOK H ms k := by
  unfold sigTieOK
  show List.all (applicable H ms' k) _ = List.all (applicable H ms k) _
  rw [hap.all_eq]
  congr 1
  funext m
  exact hap.all_eq

theorem DistinctHandlers_perm (ms ms' : List Meth) (hp : ms'.Perm ms) (hd : DistinctHandlers ms) :
    DistinctHandlers ms' :=
  ⟨((hp.map _).nodup_iff).mpr hd.ids, ((hp.map _).nodup_iff).mpr hd.codes⟩

theorem DistinctHandlers_append_left (ms extra : List Meth) (hd : DistinctHandlers (ms ++ extra)) :
    DistinctHandlers ms := by
  obtain ⟨h1, h2⟩ := hd
  rw [List.map_append] at h1 h2
  exact ⟨(List.nodup_append.mp h1).1, (List.nodup_append.mp h2).1⟩

theorem specAgrees_ran (r : Res Entry (List Nat)) (i : Nat) (h : specAgrees r (.ran i)) :
    r = .ok (.meth i) := by
  rcases r with (_ | _ | _) | _ | _ | _ | _
  · have e : _ = i := h
    rw [e]
  all_goals exact False.elim h

theorem specAgrees_ambiguous (r : Res Entry (List Nat)) (h : specAgrees r .ambiguous) :
    ∃ e, r = .amb e := by
  rcases r with (_ | _ | _) | e | _ | _ | _
  case amb => exact ⟨e, rfl⟩
  all_goals exact False.elim h

theorem specAgrees_noMethod (r : Res Entry (List Nat)) (h : specAgrees r .noMethod) :
    r = .noMethod := by
  rcases r with (_ | _ | _) | _ | _ | _ | _
  case noMethod => rfl
  all_goals exact False.elim h

/-- two answers that agree with the same verdict of the rule are the same answer -/
theorem sameAnswer_of_specAgrees (r r' : Res Entry (List Nat)) (s : SpecRes)
    (h' : specAgrees r' s) (h : specAgrees r s) : sameAnswer r' r := by
  cases s with
  | ran i =>
    rw [specAgrees_ran r' i h', specAgrees_ran r i h]
    exact rfl
  | ambiguous =>
    obtain ⟨e', he'⟩ := specAgrees_ambiguous r' h'
    obtain ⟨e, he⟩ := specAgrees_ambiguous r h
    rw [he', he]
    exact True.intro
  | noMethod =>
    rw [specAgrees_noMethod r' h', specAgrees_noMethod r h]
    exact True.intro

/-! ### the claims -/

/-- the rule does not depend on the order in which the entries were registered -/
theorem specResolve_perm (H : Hier) (ms ms' : List Meth) (hp : ms'.Perm ms)
    (hid : (ms.map (·.id)).Nodup) (k : Key) :
    specResolve H ms' k = specResolve H ms k := by
  have _ := hid  -- not needed: the rule is a function of the applicable entries up to permutation
  exact specResolve_of_applicable_perm H ms ms' k (applicable_perm H ms ms' hp k)

/-- the rule ignores entries that are not applicable to the call -/
theorem specResolve_irrelevant (H : Hier) (ms extra : List Meth) (k : Key)
    (hx : ∀ m ∈ extra, applicableTo H k m = false) :
    specResolve H (ms ++ extra) k = specResolve H ms k := by
  apply specResolve_of_applicable_perm
  rw [applicable_append_irrelevant H ms extra k hx]

/-- **order independence**: two tables holding the same entries, registered in any two orders and iterated in
    any two set orders, answer a lookup alike -/
theorem C06_order (cfg cfg' : Cfg) (hH : cfg'.H = cfg.H) (ms ms' : List Meth) (hp : ms'.Perm ms)
    (wf : cfg.H.WF) (anti : cfg.H.Antisym)
    (hd : DistinctHandlers ms) (hst : staticTable ms = true) (htw : tableWF ms = true)
    (k : Key) (hk : keyWF k = true) (hne : k ≠ [])
    (hcc : candComparable cfg.H ms k = true) (htie : sigTieOK cfg.H ms k = true) :
    sameAnswer (pureLookup (plan cfg' ms') (none, k)) (pureLookup (plan cfg ms) (none, k)) := by
  have hap := applicable_perm cfg.H ms ms' hp k
  have wf' : cfg'.H.WF := by rw [hH]; exact wf
  have anti' : cfg'.H.Antisym := by rw [hH]; exact anti
  have hd' := DistinctHandlers_perm ms ms' hp hd
  have hst' : staticTable ms' = true := by
    unfold staticTable at hst ⊢
    rw [hp.all_eq]; exact hst
  have htw' : tableWF ms' = true := by
    unfold tableWF at htw ⊢
    rw [hp.all_eq]; exact htw
  have hcc' : candComparable cfg'.H ms' k = true := by
    rw [hH, candComparable_of_applicable_perm cfg.H ms ms' k hap]; exact hcc
  have htie' : sigTieOK cfg'.H ms' k = true := by
    rw [hH, sigTieOK_of_applicable_perm cfg.H ms ms' k hap]; exact htie
  have h1 := C02_partial cfg ms wf anti hd hst htw k hk hne hcc htie
  have h2 := C02_partial cfg' ms' wf' anti' hd' hst' htw' k hk hne hcc' htie'
  rw [hH, specResolve_perm cfg.H ms ms' hp hd.ids k] at h2
  exact sameAnswer_of_specAgrees _ _ _ h2 h1

/-- **irrelevant methods**: registering further entries that are not applicable to the call does not change
    its outcome -/
theorem C06_irrelevant (cfg : Cfg) (ms extra : List Meth)
    (wf : cfg.H.WF) (anti : cfg.H.Antisym)
    (hd : DistinctHandlers (ms ++ extra)) (hst : staticTable (ms ++ extra) = true) (htw : tableWF (ms ++ extra) = true)
    (k : Key) (hk : keyWF k = true) (hne : k ≠ [])
    (hx : ∀ m ∈ extra, applicableTo cfg.H k m = false)
    (hcc : candComparable cfg.H ms k = true) (htie : sigTieOK cfg.H ms k = true) :
    sameAnswer (pureLookup (plan cfg (ms ++ extra)) (none, k)) (pureLookup (plan cfg ms) (none, k)) := by
  have hap : (applicable cfg.H (ms ++ extra) k).Perm (applicable cfg.H ms k) := by
    rw [applicable_append_irrelevant cfg.H ms extra k hx]
  have hd0 := DistinctHandlers_append_left ms extra hd
  have hst0 : staticTable ms = true := by
    unfold staticTable at hst ⊢
    rw [List.all_append, Bool.and_eq_true] at hst
    exact hst.1
  have htw0 : tableWF ms = true := by
    unfold tableWF at htw ⊢
    rw [List.all_append, Bool.and_eq_true] at htw
    exact htw.1
  have hcc' : candComparable cfg.H (ms ++ extra) k = true := by
    rw [candComparable_of_applicable_perm cfg.H ms (ms ++ extra) k hap]; exact hcc
  have htie' : sigTieOK cfg.H (ms ++ extra) k = true := by
    rw [sigTieOK_of_applicable_perm cfg.H ms (ms ++ extra) k hap]; exact htie
  have h1 := C02_partial cfg ms wf anti hd0 hst0 htw0 k hk hne hcc htie
  have h2 := C02_partial cfg (ms ++ extra) wf anti hd hst htw k hk hne hcc' htie'
  rw [specResolve_irrelevant cfg.H ms extra k hx] at h2
  exact sameAnswer_of_specAgrees _ _ _ h2 h1

end Ovld
