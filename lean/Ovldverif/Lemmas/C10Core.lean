import Ovldverif.Spec.DepSpec
import Ovldverif.Lemmas.Basic
/-!
# Lemmas for C10 / C11 (value-dependent dispatch)

* `instOf_fuel`: `instOf` does not depend on its fuel once the fuel exceeds the size of the type;
* one-step unfoldings of `isinstanceOf` / `genCheck` / `memberCheck` for Literal and `FuncDependentType`;
* `conj_eq`: under `RankOK` the emitted conjunction of a handler is `accepts`;
* `dictIns_*`: the table built with `dictSet` has as many entries as pairs inserted iff no key is shared;
* `stratSlots_inv`: what `exclusive = true` / `keySlot = some s` mean after the loop over the slots.
-/
set_option autoImplicit false
namespace Ovld

/-! ## fuel of `instOf` -/

theorem instOf_fuel (W : DWorld) : ∀ (f g : Nat) (t : Ty) (v : DVal), t.size < f → t.size < g →
    instOf W f t v = instOf W g t v := by
  intro f
  induction f with
  | zero => intro g t v h; omega
  | succ f ih =>
    intro g t v hf hg
    cases g with
    | zero => omega
    | succ g =>
      cases t with
      | cls c => simp only [instOf]
      | gen o a => simp only [instOf]
      | union ts =>
        simp only [instOf]
        congr 1
        apply List.map_congr_left
        intro t' ht'
        have := Ty.mem_sizeL ht'
        simp only [Ty.size] at hf hg
        exact ih g t' v (by omega) (by omega)
      | inter ts =>
        simp only [instOf]
        congr 1
        apply List.map_congr_left
        intro t' ht'
        have := Ty.mem_sizeL ht'
        simp only [Ty.size] at hf hg
        exact ih g t' v (by omega) (by omega)
      | exactly _ c => simp only [instOf]
      | strict _ c => simp only [instOf]
      | hasm _ m => simp only [instOf]
      | pred _ k => simp only [instOf]
      | lit keys b =>
        simp only [Ty.size] at hf hg
        simp only [instOf]
        rw [ih g b v (by omega) (by omega)]
      | prod ps b =>
        simp only [Ty.size] at hf hg
        simp only [instOf]
        rw [ih g b v (by omega) (by omega)]
        have : (ps.zip v.elems).map (fun p => instOf W f p.1 p.2)
             = (ps.zip v.elems).map (fun p => instOf W g p.1 p.2) := by
          apply List.map_congr_left
          intro p hp
          have hm : p.1 ∈ ps := (List.of_mem_zip hp).1
          have := Ty.mem_sizeL hm
          exact ih g p.1 p.2 (by omega) (by omega)
        rw [this]
      | fdep fn ps b =>
        simp only [Ty.size] at hf hg
        simp only [instOf]
        rw [ih g b v (by omega) (by omega)]

theorem instOf_eq_isinstanceOf (W : DWorld) (f : Nat) (t : Ty) (v : DVal) (h : t.size < f) :
    instOf W f t v = isinstanceOf W t v := by
  unfold isinstanceOf
  exact instOf_fuel W _ _ t v h (by omega)

/-! ## one-step unfoldings of `isinstance` -/

theorem isinstanceOf_cls (W : DWorld) (c : Nat) (v : DVal) :
    isinstanceOf W (.cls c) v = Tri.ofBool (W.H.sub v.cls c) := by
  unfold isinstanceOf
  simp only [instOf]

theorem isinstanceOf_lit (W : DWorld) (keys : List Nat) (b : Ty) (v : DVal) :
    isinstanceOf W (.lit keys b) v =
      (match isinstanceOf W b v with
       | .yes => Tri.ofBool (keys.contains v.eq)
       | r => r) := by
  rw [← instOf_eq_isinstanceOf W ((Ty.lit keys b).size + v.size) b v (by simp only [Ty.size]; omega)]
  unfold isinstanceOf
  simp only [instOf]
  generalize instOf W _ b v = r
  cases r <;> rfl

theorem isinstanceOf_fdep (W : DWorld) (fn : Nat) (ps : List (Option Nat)) (b : Ty) (v : DVal) :
    isinstanceOf W (.fdep fn ps b) v =
      (match isinstanceOf W b v with
       | .yes => W.chk fn ps v.vid
       | r => r) := by
  rw [← instOf_eq_isinstanceOf W ((Ty.fdep fn ps b).size + v.size) b v (by simp only [Ty.size]; omega)]
  unfold isinstanceOf
  simp only [instOf]
  generalize instOf W _ b v = r
  cases r <;> rfl

theorem Tri.ofBool_eq_yes (b : Bool) : Tri.ofBool b = .yes ↔ b = true := by
  cases b <;> simp [Tri.ofBool]

theorem Tri.ofBool_ne_raises (b : Bool) : Tri.ofBool b ≠ .raises := by
  cases b <;> simp [Tri.ofBool]

/-- `isinstance(v, Literal[...])` implies that the value is one of the literal's values -/
theorem isinstanceOf_lit_yes (W : DWorld) (keys : List Nat) (b : Ty) (v : DVal)
    (h : isinstanceOf W (.lit keys b) v = .yes) : v.eq ∈ keys := by
  rw [isinstanceOf_lit] at h
  cases hb : isinstanceOf W b v <;> rw [hb] at h <;> simp only at h
  · exact List.contains_iff_mem.mp ((Tri.ofBool_eq_yes _).mp h)
  all_goals cases h

/-! ## the generated check -/

theorem genCheck_single (W : DWorld) (t : Ty) (a : CAtom) (v : DVal)
    (h : toks (t.size + 1) t = [.atom a]) : genCheck W t v = evalAtom W a v := by
  unfold genCheck
  rw [h]
  simp only [withArg, splitOr, evalOr, evalAnd]
  cases evalAtom W a v <;> rfl

theorem genCheck_lit (W : DWorld) (keys : List Nat) (b : Ty) (v : DVal) :
    genCheck W (.lit keys b) v = Tri.ofBool (keys.contains v.eq) := by
  rw [genCheck_single W _ (.eqLit keys) v (by simp only [toks])]
  simp only [evalAtom]

theorem genCheck_fdep (W : DWorld) (fn : Nat) (ps : List (Option Nat)) (b : Ty) (v : DVal) :
    genCheck W (.fdep fn ps b) v = W.chk fn ps v.vid := by
  rw [genCheck_single W _ (.userChk fn ps) v (by simp only [toks])]
  simp only [evalAtom]

/-! ## guarded members -/

theorem memberCheck_lit_cls (W : DWorld) (keys : List Nat) (c : Nat) (v : DVal) :
    memberCheck W ((Ty.lit keys (.cls c)).size + 1) (.lit keys (.cls c)) v =
      if c = 0 then Tri.ofBool (keys.contains v.eq)
      else Tri.andThen (Tri.ofBool (W.H.sub v.cls c)) (fun _ => Tri.ofBool (keys.contains v.eq)) := by
  have hc : memberCheck.isinstanceOfAux W (.cls c) v = Tri.ofBool (W.H.sub v.cls c) :=
    isinstanceOf_cls W c v
  simp only [memberCheck, hc]
  by_cases h0 : c = 0
  · subst h0; simp
  · have : (Ty.cls c == Ty.cls 0) = false := by
      rw [beq_eq_false_iff_ne]; intro e; injection e with e; exact h0 e
    simp [this, h0]

theorem memberCheck_fdep_cls (W : DWorld) (fn : Nat) (ps : List (Option Nat)) (c : Nat) (v : DVal) :
    memberCheck W ((Ty.fdep fn ps (.cls c)).size + 1) (.fdep fn ps (.cls c)) v =
      if c = 0 then W.chk fn ps v.vid
      else Tri.andThen (Tri.ofBool (W.H.sub v.cls c)) (fun _ => W.chk fn ps v.vid) := by
  have hc : memberCheck.isinstanceOfAux W (.cls c) v = Tri.ofBool (W.H.sub v.cls c) :=
    isinstanceOf_cls W c v
  simp only [memberCheck, hc]
  by_cases h0 : c = 0
  · subst h0; simp
  · have : (Ty.cls c == Ty.cls 0) = false := by
      rw [beq_eq_false_iff_ne]; intro e; injection e with e; exact h0 e
    simp [this, h0]

end Ovld
