import Ovldverif.Spec.DepSpec
import Ovldverif.Lemmas.Basic
/-!
# Lemmas for C10 / C11 (value-dependent dispatch)

* `instOf_fuel`: `instOf` does not depend on its fuel once the fuel exceeds the size of the type;
* one-step unfoldings of `isinstanceOf` / `genCheck` / `memberCheck` for Literal and `FuncDependentType`;
* `conj_eq`: under `RankOK` the emitted conjunction of a handler is `accepts`;
* `dictIns_*`: the table built with `dictSet` has as many entries as pairs inserted iff no key is shared;
* `stratSlots_inv`: what `exclusive = true` / `keySlot = some s` mean after the loop over the slots.
-/
set_option autoImplicit false
namespace Ovld

/-! ## fuel of `instOf` -/

theorem instOf_fuel (W : DWorld) : ∀ (f g : Nat) (t : Ty) (v : DVal), t.size < f → t.size < g →
    instOf W f t v = instOf W g t v := by
  intro f
  induction f with
  | zero => intro g t v h; omega
  | succ f ih =>
    intro g t v hf hg
    cases g with
    | zero => omega
    | succ g =>
      cases t with
      | cls c => simp only [instOf]
      | gen o a => simp only [instOf]
      | union ts =>
        simp only [instOf]
        congr 1
        apply List.map_congr_left
        intro t' ht'
        have := Ty.mem_sizeL ht'
        simp only [Ty.size] at hf hg
        exact ih g t' v (by omega) (by omega)
      | inter ts =>
        simp only [instOf]
        congr 1
        apply List.map_congr_left
        intro t' ht'
        have := Ty.mem_sizeL ht'
        simp only [Ty.size] at hf hg
        exact ih g t' v (by omega) (by omega)
      | exactly _ c => simp only [instOf]
      | strict _ c => simp only [instOf]
      | hasm _ m => simp only [instOf]
      | pred _ k => simp only [instOf]
      | lit keys b =>
        simp only [Ty.size] at hf hg
        simp only [instOf]
        rw [ih g b v (by omega) (by omega)]
      | prod ps b =>
        simp only [Ty.size] at hf hg
        simp only [instOf]
        rw [ih g b v (by omega) (by omega)]
        have : (ps.zip v.elems).map (fun p => instOf W f p.1 p.2)
             = (ps.zip v.elems).map (fun p => instOf W g p.1 p.2) := by
          apply List.map_congr_left
          intro p hp
          have hm : p.1 ∈ ps := (List.of_mem_zip hp).1
          have := Ty.mem_sizeL hm
          exact ih g p.1 p.2 (by omega) (by omega)
        rw [this]
      | fdep fn ps b =>
        simp only [Ty.size] at hf hg
        simp only [instOf]
        rw [ih g b v (by omega) (by omega)]

theorem instOf_eq_isinstanceOf (W : DWorld) (f : Nat) (t : Ty) (v : DVal) (h : t.size < f) :
    instOf W f t v = isinstanceOf W t v := by
  unfold isinstanceOf
  exact instOf_fuel W _ _ t v h (by omega)

/-! ## one-step unfoldings of `isinstance` -/

theorem isinstanceOf_cls (W : DWorld) (c : Nat) (v : DVal) :
    isinstanceOf W (.cls c) v = Tri.ofBool (W.H.sub v.cls c) := by
  unfold isinstanceOf
  simp only [instOf]

theorem isinstanceOf_lit (W : DWorld) (keys : List Nat) (b : Ty) (v : DVal) :
    isinstanceOf W (.lit keys b) v =
      (match isinstanceOf W b v with
       | .yes => Tri.ofBool (keys.contains v.eq)
       | r => r) := by
  rw [← instOf_eq_isinstanceOf W ((Ty.lit keys b).size + v.size) b v (by simp only [Ty.size]; omega)]
  unfold isinstanceOf
  simp only [instOf]
  generalize instOf W _ b v = r
  cases r <;> rfl

theorem isinstanceOf_fdep (W : DWorld) (fn : Nat) (ps : List (Option Nat)) (b : Ty) (v : DVal) :
    isinstanceOf W (.fdep fn ps b) v =
      (match isinstanceOf W b v with
       | .yes => W.chk fn ps v.vid
       | r => r) := by
  rw [← instOf_eq_isinstanceOf W ((Ty.fdep fn ps b).size + v.size) b v (by simp only [Ty.size]; omega)]
  unfold isinstanceOf
  simp only [instOf]
  generalize instOf W _ b v = r
  cases r <;> rfl

theorem Tri.ofBool_eq_yes (b : Bool) : Tri.ofBool b = .yes ↔ b = true := by
  cases b <;> simp [Tri.ofBool]

theorem Tri.ofBool_ne_raises (b : Bool) : Tri.ofBool b ≠ .raises := by
  cases b <;> simp [Tri.ofBool]

/-- `isinstance(v, Literal[...])` implies that the value is one of the literal's values -/
theorem isinstanceOf_lit_yes (W : DWorld) (keys : List Nat) (b : Ty) (v : DVal)
    (h : isinstanceOf W (.lit keys b) v = .yes) : v.eq ∈ keys := by
  rw [isinstanceOf_lit] at h
  cases hb : isinstanceOf W b v <;> rw [hb] at h <;> simp only at h
  · exact List.contains_iff_mem.mp ((Tri.ofBool_eq_yes _).mp h)
  all_goals cases h

/-! ## the generated check -/

theorem genCheck_single (W : DWorld) (t : Ty) (a : CAtom) (v : DVal)
    (h : toks (t.size + 1) t = [.atom a]) : genCheck W t v = evalAtom W a v := by
  unfold genCheck
  rw [h]
  simp only [withArg, splitOr, evalOr, evalAnd]
  cases evalAtom W a v <;> rfl

theorem genCheck_lit (W : DWorld) (keys : List Nat) (b : Ty) (v : DVal) :
    genCheck W (.lit keys b) v = Tri.ofBool (keys.contains v.eq) := by
  rw [genCheck_single W _ (.eqLit keys) v (by simp only [toks])]
  simp only [evalAtom]

theorem genCheck_fdep (W : DWorld) (fn : Nat) (ps : List (Option Nat)) (b : Ty) (v : DVal) :
    genCheck W (.fdep fn ps b) v = W.chk fn ps v.vid := by
  rw [genCheck_single W _ (.userChk fn ps) v (by simp only [toks])]
  simp only [evalAtom]

/-! ## guarded members -/

theorem memberCheck_lit_cls (W : DWorld) (keys : List Nat) (c : Nat) (v : DVal) :
    memberCheck W ((Ty.lit keys (.cls c)).size + 1) (.lit keys (.cls c)) v =
      if c = 0 then Tri.ofBool (keys.contains v.eq)
      else Tri.andThen (Tri.ofBool (W.H.sub v.cls c)) (fun _ => Tri.ofBool (keys.contains v.eq)) := by
  have hc : memberCheck.isinstanceOfAux W (.cls c) v = Tri.ofBool (W.H.sub v.cls c) :=
    isinstanceOf_cls W c v
  simp only [memberCheck, hc]
  by_cases h0 : c = 0
  · subst h0; simp
  · have : (Ty.cls c == Ty.cls 0) = false := by
      rw [beq_eq_false_iff_ne]; intro e; injection e with e; exact h0 e
    simp [this, h0]

theorem memberCheck_fdep_cls (W : DWorld) (fn : Nat) (ps : List (Option Nat)) (c : Nat) (v : DVal) :
    memberCheck W ((Ty.fdep fn ps (.cls c)).size + 1) (.fdep fn ps (.cls c)) v =
      if c = 0 then W.chk fn ps v.vid
      else Tri.andThen (Tri.ofBool (W.H.sub v.cls c)) (fun _ => W.chk fn ps v.vid) := by
  have hc : memberCheck.isinstanceOfAux W (.cls c) v = Tri.ofBool (W.H.sub v.cls c) :=
    isinstanceOf_cls W c v
  simp only [memberCheck, hc]
  by_cases h0 : c = 0
  · subst h0; simp
  · have : (Ty.cls c == Ty.cls 0) = false := by
      rw [beq_eq_false_iff_ne]; intro e; injection e with e; exact h0 e
    simp [this, h0]


/-! ## the conjunction of a handler is `accepts` -/

theorem conjGo_eq (W : DWorld) (k : List Slot) (hs : List DHandler) (args : List (Slot × DVal))
    (ok : RankOK W k hs args) (h : DHandler) (hh : h ∈ hs) :
    ∀ ss : List Slot, (∀ s ∈ ss, s ∈ k) →
      conjGo W args h (ss.filter (fun s => (dTyAt h s).isDep)) = Tri.ofBool (accepts W ss args h) := by
  intro ss
  induction ss with
  | nil => intro _; rfl
  | cons s r ih =>
    intro hsub
    have hsk : s ∈ k := hsub s (List.mem_cons_self)
    have ih' := ih (fun s' hs' => hsub s' (List.mem_cons_of_mem _ hs'))
    obtain ⟨v, hv⟩ := ok.present s hsk
    have hacc : accepts W (s :: r) args h = ((isinstanceOf W (dTyAt h s) v == .yes) && accepts W r args h) := by
      simp only [accepts, List.all_cons, hv]
    rw [hacc]
    cases hd : (dTyAt h s).isDep
    · rw [List.filter_cons_of_neg (by simp [hd])]
      rw [ih', ok.static h hh s hsk hd v hv]
      simp
    · rw [List.filter_cons_of_pos (by simp [hd])]
      obtain ⟨h1, h2⟩ := ok.check h hh s hsk hd v hv
      simp only [conjGo, hv]
      rw [← h1]
      cases hg : genCheck W (dTyAt h s) v
      · simp only [ih']; simp
      · simp [Tri.ofBool]
      · exact absurd hg h2

theorem conj_eq (W : DWorld) (k : List Slot) (hs : List DHandler) (args : List (Slot × DVal))
    (ok : RankOK W k hs args) (h : DHandler) (hh : h ∈ hs) :
    conj W args k h = Tri.ofBool (accepts W k args h) := by
  unfold conj relevantSlots
  exact conjGo_eq W k hs args ok h hh k (fun _ h => h)

/-! ## generic list facts -/

theorem mem_dedupFold {α : Type} [BEq α] [LawfulBEq α] (x : α) : ∀ (l acc : List α),
    x ∈ l.foldl (fun acc t => if acc.contains t then acc else acc ++ [t]) acc ↔ x ∈ acc ∨ x ∈ l := by
  intro l
  induction l with
  | nil => intro acc; simp
  | cons a l ih =>
    intro acc
    rw [List.foldl_cons, ih]
    by_cases hc : acc.contains a = true
    · rw [if_pos hc]
      have : a ∈ acc := List.contains_iff_mem.mp hc
      constructor
      · rintro (h | h)
        · exact Or.inl h
        · exact Or.inr (List.mem_cons_of_mem _ h)
      · rintro (h | h)
        · exact Or.inl h
        · rcases List.mem_cons.mp h with e | e
          · subst e; exact Or.inl this
          · exact Or.inr e
    · rw [if_neg hc]
      simp only [List.mem_append, List.mem_cons, List.not_mem_nil, or_false, or_assoc]

theorem mem_dedupNats (x : Nat) (l : List Nat) : x ∈ dedupNats l ↔ x ∈ l := by
  unfold dedupNats
  rw [mem_dedupFold]; simp

theorem mem_dedupTys (x : Ty) (l : List Ty) : x ∈ dedupTys l ↔ x ∈ l := by
  unfold dedupTys
  rw [mem_dedupFold]; simp

/-- with unique first components, an element is determined by its first component -/
theorem eq_of_nodup_map_fst {α β : Type} : ∀ (l : List (α × β)), (l.map (·.1)).Nodup →
    ∀ a ∈ l, ∀ b ∈ l, a.1 = b.1 → a = b := by
  intro l
  induction l with
  | nil => intro _ a ha; cases ha
  | cons x l ih =>
    intro hnd a ha b hb hab
    rw [List.map_cons, List.nodup_cons] at hnd
    rcases List.mem_cons.mp ha with ea | ea <;> rcases List.mem_cons.mp hb with eb | eb
    · rw [ea, eb]
    · exfalso; apply hnd.1; rw [← ea, hab]; exact List.mem_map_of_mem eb
    · exfalso; apply hnd.1; rw [← eb, ← hab]; exact List.mem_map_of_mem ea
    · exact ih hnd.2 a ea b eb hab

theorem eq_of_nodup_map {α β : Type} (f : α → β) : ∀ (l : List α), (l.map f).Nodup →
    ∀ a ∈ l, ∀ b ∈ l, f a = f b → a = b := by
  intro l
  induction l with
  | nil => intro _ a ha; cases ha
  | cons x l ih =>
    intro hnd a ha b hb hab
    rw [List.map_cons, List.nodup_cons] at hnd
    rcases List.mem_cons.mp ha with ea | ea <;> rcases List.mem_cons.mp hb with eb | eb
    · rw [ea, eb]
    · exfalso; apply hnd.1; rw [← ea, hab]; exact List.mem_map_of_mem eb
    · exfalso; apply hnd.1; rw [← eb, ← hab]; exact List.mem_map_of_mem ea
    · exact ih hnd.2 a ea b eb hab

theorem nodup_of_nodup_map {α β : Type} (f : α → β) : ∀ (l : List α), (l.map f).Nodup → l.Nodup := by
  intro l
  induction l with
  | nil => intro _; exact List.nodup_nil
  | cons x l ih =>
    intro h
    rw [List.map_cons, List.nodup_cons] at h
    rw [List.nodup_cons]
    exact ⟨fun hx => h.1 (List.mem_map_of_mem hx), ih h.2⟩

/-- a duplicate-free list all of whose elements are equal has at most one element -/
theorem nodup_all_eq {α : Type} : ∀ (l : List α), l.Nodup → (∀ a ∈ l, ∀ b ∈ l, a = b) →
    l = [] ∨ ∃ a, l = [a] := by
  intro l hnd hall
  match l, hnd, hall with
  | [], _, _ => exact Or.inl rfl
  | [a], _, _ => exact Or.inr ⟨a, rfl⟩
  | a :: b :: r, hnd, hall =>
    exfalso
    rw [List.nodup_cons] at hnd
    apply hnd.1
    have : a = b := hall a List.mem_cons_self b (List.mem_cons_of_mem _ List.mem_cons_self)
    rw [this]; exact List.mem_cons_self

/-- if at most one element of a list satisfies `p`, two elements satisfying it are equal -/
theorem eq_of_filter_length_le_one {α : Type} (p : α → Bool) : ∀ (l : List α), (l.filter p).length ≤ 1 →
    ∀ a ∈ l, ∀ b ∈ l, p a = true → p b = true → a = b := by
  intro l hlen a ha b hb pa pb
  have ha' : a ∈ l.filter p := List.mem_filter.mpr ⟨ha, pa⟩
  have hb' : b ∈ l.filter p := List.mem_filter.mpr ⟨hb, pb⟩
  match hl : l.filter p, hlen with
  | [], _ => rw [hl] at ha'; cases ha'
  | [x], _ =>
    rw [hl] at ha' hb'
    rw [List.mem_singleton.mp ha', List.mem_singleton.mp hb']
  | _ :: _ :: _, h => simp at h

/-! ## the table built with `dictSet` -/

def dictIns (d : List (Nat × Nat)) (pairs : List (Nat × Nat)) : List (Nat × Nat) :=
  pairs.foldl (fun d p => dictSet d p.1 p.2) d

theorem dictSet_length_le (d : List (Nat × Nat)) (k v : Nat) : (dictSet d k v).length ≤ d.length + 1 := by
  unfold dictSet
  split
  · simp
  · simp

theorem dictSet_length_eq (d : List (Nat × Nat)) (k v : Nat) (h : (dictSet d k v).length = d.length + 1) :
    dictSet d k v = d ++ [(k, v)] ∧ k ∉ d.map (·.1) := by
  unfold dictSet at h ⊢
  by_cases hc : d.any (fun e => e.1 == k) = true
  · rw [if_pos hc] at h; simp at h
  · rw [if_neg hc]
    refine ⟨rfl, ?_⟩
    intro hm
    apply hc
    obtain ⟨e, he, hek⟩ := List.mem_map.mp hm
    exact List.any_eq_true.mpr ⟨e, he, by simp [hek]⟩

theorem dictIns_length_le : ∀ (pairs d : List (Nat × Nat)), (dictIns d pairs).length ≤ d.length + pairs.length := by
  intro pairs
  induction pairs with
  | nil => intro d; simp [dictIns]
  | cons p ps ih =>
    intro d
    have h1 := ih (dictSet d p.1 p.2)
    have h2 := dictSet_length_le d p.1 p.2
    simp only [dictIns, List.foldl_cons, List.length_cons] at h1 ⊢
    omega

/-- **(a)** the dictionary has as many entries as pairs inserted only if no key is shared: then it is the
    list of the pairs, and the keys are pairwise distinct -/
theorem dictIns_length_eq : ∀ (pairs d : List (Nat × Nat)), (d.map (·.1)).Nodup →
    (dictIns d pairs).length = d.length + pairs.length →
    dictIns d pairs = d ++ pairs ∧ ((d ++ pairs).map (·.1)).Nodup := by
  intro pairs
  induction pairs with
  | nil => intro d hd _; simp [dictIns, hd]
  | cons p ps ih =>
    obtain ⟨pk, pv⟩ := p
    intro d hd hlen
    have h1 := dictIns_length_le ps (dictSet d pk pv)
    have h2 := dictSet_length_le d pk pv
    have hstep : dictIns d ((pk, pv) :: ps) = dictIns (dictSet d pk pv) ps := by
      simp only [dictIns, List.foldl_cons]
    rw [hstep] at hlen ⊢
    simp only [List.length_cons] at hlen
    obtain ⟨e1, e2⟩ := dictSet_length_eq d pk pv (by omega)
    have hd' : ((dictSet d pk pv).map (·.1)).Nodup := by
      rw [e1, List.map_append, List.map_cons, List.map_nil]
      rw [List.nodup_append]
      refine ⟨hd, by simp, ?_⟩
      intro a ha b hb hab
      rw [List.mem_singleton] at hb
      have hb' : b = pk := hb
      apply e2; rw [← hb', ← hab]; exact ha
    have := ih (dictSet d pk pv) hd' (by rw [e1] at hlen ⊢; simp at hlen ⊢; omega)
    rw [e1] at this ⊢
    simpa using this


/-! ## the loop over the slots -/

/-- `get_keys()` of a handler's Literal at slot `s` -/
def keysOf (s : Slot) (h : DHandler) : List Nat :=
  match dTyAt h s with
  | .lit ks _ => dedupNats ks
  | _ => []

/-- the (key, handler) pairs of slot `s`, in insertion order -/
def pairsAt (hs : List DHandler) (s : Slot) : List (Nat × Nat) :=
  hs.flatMap (fun h => (keysOf s h).map (fun k => (k, h.1)))

def tableAt (hs : List DHandler) (s : Slot) : List (Nat × Nat) :=
  hs.foldl (fun d h => (keysOf s h).foldl (fun d k => dictSet d k h.1) d) []

def totalAt (hs : List DHandler) (s : Slot) : Nat :=
  (hs.map (fun h => (keysOf s h).length)).foldl (· + ·) 0

/-- one iteration of the loop of `stratSlots` -/
def stratStep (W : DWorld) (hs : List DHandler) (s : Slot) (st : StratState) : StratState :=
  if (dedupTys (hs.map (fun h => dTyAt h s))).length == hs.length then
    match dedupNats ((dedupTys (hs.map (fun h => dTyAt h s))).map (pyKind W)) with
    | [kind] =>
      if kind == 3 then
        if (tableAt hs s).length != totalAt hs s then
          { st with exclusive := false, keySlot := none, keyed := [] }
        else if (dedupTys (hs.map (fun h => dTyAt h s))).length < 4 then
          { st with exclusive := true, keySlot := none, keyed := tableAt hs s }
        else { st with keySlot := some s, keyed := tableAt hs s }
      else { st with exclusive := false }
    | _ => st
  else st

theorem stratSlots_cons (W : DWorld) (hs : List DHandler) (s : Slot) (rest : List Slot) (st : StratState) :
    stratSlots W hs (s :: rest) st = stratSlots W hs rest (stratStep W hs s st) := rfl

theorem tableAt_eq (hs : List DHandler) (s : Slot) : tableAt hs s = dictIns [] (pairsAt hs s) := by
  unfold tableAt dictIns pairsAt
  rw [List.foldl_flatMap]
  congr 1
  funext d h
  rw [List.foldl_map]

theorem totalAt_eq (hs : List DHandler) (s : Slot) : totalAt hs s = (pairsAt hs s).length := by
  unfold totalAt pairsAt
  rw [List.length_flatMap, List.sum_eq_foldl]
  simp only [List.length_map]

/-- all handlers declare a Literal at `s`, and no key is shared -/
def Disj (hs : List DHandler) (s : Slot) : Prop :=
  (∀ h ∈ hs, ∃ ks b, dTyAt h s = .lit ks b) ∧ ((pairsAt hs s).map (·.1)).Nodup

theorem pyKind_eq_three (W : DWorld) (t : Ty) (h : pyKind W t = 3) : ∃ ks b, t = .lit ks b := by
  cases t <;> simp only [pyKind] at h <;> try omega
  exact ⟨_, _, rfl⟩

theorem stratStep_cases (W : DWorld) (hs : List DHandler) (s : Slot) (st : StratState) :
    stratStep W hs s st = st ∨
    stratStep W hs s st = { st with exclusive := false } ∨
    stratStep W hs s st = { st with exclusive := false, keySlot := none, keyed := [] } ∨
    (Disj hs s ∧ stratStep W hs s st = { st with exclusive := true, keySlot := none, keyed := pairsAt hs s }) ∨
    (Disj hs s ∧ stratStep W hs s st = { st with keySlot := some s, keyed := pairsAt hs s }) := by
  unfold stratStep
  split
  · split
    · rename_i kind hk
      split
      · rename_i h3
        have h3' : kind = 3 := by simpa using h3
        subst h3'
        by_cases hlen : (tableAt hs s).length = totalAt hs s
        · have hall : ∀ h ∈ hs, ∃ ks b, dTyAt h s = .lit ks b := by
            intro h hh
            apply pyKind_eq_three W
            have h1 : dTyAt h s ∈ dedupTys (hs.map (fun h => dTyAt h s)) :=
              (mem_dedupTys _ _).mpr (List.mem_map_of_mem hh)
            have h2 : pyKind W (dTyAt h s) ∈
                dedupNats ((dedupTys (hs.map (fun h => dTyAt h s))).map (pyKind W)) :=
              (mem_dedupNats _ _).mpr (List.mem_map_of_mem h1)
            rw [hk] at h2
            exact List.mem_singleton.mp h2
          have hlen' := hlen
          rw [tableAt_eq, totalAt_eq] at hlen'
          obtain ⟨e1, e2⟩ := dictIns_length_eq (pairsAt hs s) [] (by simp) (by simpa using hlen')
          have etab : tableAt hs s = pairsAt hs s := by rw [tableAt_eq, e1]; simp
          have hd : Disj hs s := ⟨hall, by simpa using e2⟩
          rw [if_neg (by simp [hlen])]
          split
          · right; right; right; left; exact ⟨hd, by rw [etab]⟩
          · right; right; right; right; exact ⟨hd, by rw [etab]⟩
        · rw [if_pos (by simp [hlen])]
          right; right; left; rfl
      · right; left; rfl
    · left; rfl
  · left; rfl

/-- meaning of the state of the loop -/
structure StratInv (hs : List DHandler) (k : List Slot) (st : StratState) : Prop where
  excl : st.exclusive = true → ∃ s ∈ k, Disj hs s
  key : ∀ s, st.keySlot = some s → s ∈ k ∧ Disj hs s ∧ st.keyed = pairsAt hs s

theorem stratStep_inv (W : DWorld) (hs : List DHandler) (k : List Slot) (s : Slot) (hs_k : s ∈ k)
    (st : StratState) (inv : StratInv hs k st) : StratInv hs k (stratStep W hs s st) := by
  rcases stratStep_cases W hs s st with e | e | e | ⟨hd, e⟩ | ⟨hd, e⟩ <;> rw [e]
  · exact inv
  · exact ⟨fun h => (by cases h), inv.key⟩
  · exact ⟨fun h => (by cases h), fun s' h => by cases h⟩
  · exact ⟨fun _ => ⟨s, hs_k, hd⟩, fun s' h => by cases h⟩
  · refine ⟨inv.excl, fun s' h => ?_⟩
    have : s = s' := by simpa using h
    subst this
    exact ⟨hs_k, hd, rfl⟩

theorem stratSlots_inv (W : DWorld) (hs : List DHandler) (k : List Slot) :
    ∀ (ss : List Slot) (st : StratState), (∀ s ∈ ss, s ∈ k) → StratInv hs k st →
      StratInv hs k (stratSlots W hs ss st) := by
  intro ss
  induction ss with
  | nil => intro st _ inv; exact inv
  | cons s rest ih =>
    intro st hsub inv
    rw [stratSlots_cons]
    exact ih _ (fun s' h' => hsub s' (List.mem_cons_of_mem _ h'))
      (stratStep_inv W hs k s (hsub s List.mem_cons_self) st inv)

theorem stratSlots_final (W : DWorld) (hs : List DHandler) (k : List Slot) :
    StratInv hs k (stratSlots W hs k {}) :=
  stratSlots_inv W hs k k {} (fun _ h => h) ⟨fun h => (by cases h), fun s h => by cases h⟩

theorem strategy_keyed (W : DWorld) (k : List Slot) (hs : List DHandler) (s : Slot) (table : List (Nat × Nat))
    (h : strategy W k hs = .keyed s table) :
    (∀ h ∈ hs, (relevantSlots k h).length ≤ 1) ∧ (stratSlots W hs k {}).keySlot = some s ∧
      table = (stratSlots W hs k {}).keyed := by
  unfold strategy at h
  simp only at h
  split at h
  · rename_i s' hk
    injection h with h1 h2
    subst h1 h2
    by_cases hm : hs.any (fun h => decide ((relevantSlots k h).length > 1)) = true
    · rw [if_pos hm] at hk; cases hk
    · rw [if_neg hm] at hk
      refine ⟨?_, hk, rfl⟩
      intro h hh
      apply Nat.le_of_not_lt
      intro hgt
      apply hm
      exact List.any_eq_true.mpr ⟨h, hh, by simpa using hgt⟩
  · revert h
    generalize (if (hs.length == 1) = true then true else (stratSlots W hs k {}).exclusive) = ex
    intro h
    cases ex <;> simp at h

theorem strategy_firstMatch (W : DWorld) (k : List Slot) (hs : List DHandler)
    (h : strategy W k hs = .firstMatch) :
    hs.length = 1 ∨ (stratSlots W hs k {}).exclusive = true := by
  unfold strategy at h
  simp only at h
  split at h
  · cases h
  · by_cases h1 : hs.length = 1
    · exact Or.inl h1
    · right
      have hb : (hs.length == 1) = false := by simpa using h1
      rw [hb] at h
      cases hex : (stratSlots W hs k {}).exclusive
      · rw [hex] at h; simp at h
      · rfl


/-! ## accepting handlers under a disjoint Literal slot -/

theorem argAt_mem (args : List (Slot × DVal)) (s : Slot) (v : DVal) (h : argAt args s = some v) :
    ∃ a ∈ args, a.2 = v := by
  unfold argAt at h
  cases hf : args.find? (fun p => p.1 == s) with
  | none => rw [hf] at h; cases h
  | some a =>
    rw [hf] at h
    exact ⟨a, List.mem_of_find?_eq_some hf, by simpa using h⟩

/-- a handler accepting the values has the value at a Literal slot among its keys -/
theorem accepts_key (W : DWorld) (k : List Slot) (args : List (Slot × DVal)) (h : DHandler) (s : Slot)
    (hsk : s ∈ k) (v : DVal) (hv : argAt args s = some v) (ha : accepts W k args h = true) :
    v.eq ∈ keysOf s h ∨ ¬ ∃ ks b, dTyAt h s = .lit ks b := by
  unfold accepts at ha
  have := List.all_eq_true.mp ha s hsk
  rw [hv] at this
  have hi : isinstanceOf W (dTyAt h s) v = .yes := by simpa using this
  unfold keysOf
  cases ht : dTyAt h s with
  | lit ks b =>
    left
    rw [ht] at hi
    exact (mem_dedupNats _ _).mpr (isinstanceOf_lit_yes W ks b v hi)
  | _ => right; rintro ⟨ks, b, e⟩; cases e

theorem mem_pairsAt (hs : List DHandler) (s : Slot) (e : Nat × Nat) :
    e ∈ pairsAt hs s ↔ ∃ h ∈ hs, e.1 ∈ keysOf s h ∧ e.2 = h.1 := by
  unfold pairsAt
  rw [List.mem_flatMap]
  constructor
  · rintro ⟨h, hh, he⟩
    obtain ⟨x, hx, rfl⟩ := List.mem_map.mp he
    exact ⟨h, hh, hx, rfl⟩
  · rintro ⟨h, hh, h1, h2⟩
    refine ⟨h, hh, List.mem_map.mpr ⟨e.1, h1, ?_⟩⟩
    rw [← h2]

/-- **(c)** with pairwise disjoint key sets at most one handler's keys contain a given key -/
theorem disj_unique (hs : List DHandler) (s : Slot) (hd : Disj hs s) (ids : (hs.map (·.1)).Nodup)
    (x : Nat) (h1 : DHandler) (hh1 : h1 ∈ hs) (h2 : DHandler) (hh2 : h2 ∈ hs)
    (hx1 : x ∈ keysOf s h1) (hx2 : x ∈ keysOf s h2) : h1 = h2 := by
  have m1 : (x, h1.1) ∈ pairsAt hs s := (mem_pairsAt hs s _).mpr ⟨h1, hh1, hx1, rfl⟩
  have m2 : (x, h2.1) ∈ pairsAt hs s := (mem_pairsAt hs s _).mpr ⟨h2, hh2, hx2, rfl⟩
  have := eq_of_nodup_map_fst (pairsAt hs s) hd.2 _ m1 _ m2 rfl
  have hid : h1.1 = h2.1 := by injection this
  exact eq_of_nodup_map (·.1) hs ids h1 hh1 h2 hh2 hid

theorem accepts_le_one (W : DWorld) (k : List Slot) (hs : List DHandler) (args : List (Slot × DVal))
    (ids : (hs.map (·.1)).Nodup) (s : Slot) (hsk : s ∈ k) (hd : Disj hs s)
    (v : DVal) (hv : argAt args s = some v) :
    hs.filter (accepts W k args) = [] ∨ ∃ a, hs.filter (accepts W k args) = [a] := by
  apply nodup_all_eq
  · exact (nodup_of_nodup_map (·.1) hs ids).sublist List.filter_sublist
  · intro a ha b hb
    obtain ⟨ha1, ha2⟩ := List.mem_filter.mp ha
    obtain ⟨hb1, hb2⟩ := List.mem_filter.mp hb
    have ka : v.eq ∈ keysOf s a := by
      rcases accepts_key W k args a s hsk v hv ha2 with h | h
      · exact h
      · exact absurd (hd.1 a ha1) h
    have kb : v.eq ∈ keysOf s b := by
      rcases accepts_key W k args b s hsk v hv hb2 with h | h
      · exact h
      · exact absurd (hd.1 b hb1) h
    exact disj_unique hs s hd ids v.eq a ha1 b hb1 ka kb

/-! ## the three bodies -/

/-- the specification when at most one handler accepts -/
def firstSpec (W : DWorld) (k : List Slot) (args : List (Slot × DVal)) (l : List DHandler) : DRes :=
  match l.filter (accepts W k args) with
  | [] => .fallthrough
  | h :: _ => .handler h.1

theorem go_eq (W : DWorld) (k : List Slot) (args : List (Slot × DVal)) : ∀ (l : List DHandler),
    (∀ h ∈ l, conj W args k h = Tri.ofBool (accepts W k args h)) →
    dispatch.go W k args l = firstSpec W k args l := by
  intro l
  induction l with
  | nil => intro _; rfl
  | cons h r ih =>
    intro hc
    have ih' := ih (fun h' hh' => hc h' (List.mem_cons_of_mem _ hh'))
    have hch := hc h List.mem_cons_self
    unfold dispatch.go firstSpec
    rw [hch]
    cases ha : accepts W k args h
    · rw [List.filter_cons_of_neg (by simp [ha])]
      simp only [Tri.ofBool]
      exact ih'
    · rw [List.filter_cons_of_pos ha]
      simp [Tri.ofBool]

theorem rankSpec_of_le_one (W : DWorld) (k : List Slot) (hs : List DHandler) (args : List (Slot × DVal))
    (h1 : hs.filter (accepts W k args) = [] ∨ ∃ a, hs.filter (accepts W k args) = [a]) :
    rankSpec W k hs args = firstSpec W k args hs := by
  unfold rankSpec firstSpec
  rcases h1 with e | ⟨a, e⟩ <;> rw [e]

theorem counting_eq (W : DWorld) (k : List Slot) (hs : List DHandler) (args : List (Slot × DVal))
    (hc : ∀ h ∈ hs, conj W args k h = Tri.ofBool (accepts W k args h)) :
    (let rs := hs.map (fun h => (h.1, conj W args k h))
     if rs.any (fun p => p.2 == .raises) then DRes.raised
     else match rs.filter (fun p => p.2 == .yes) with
       | [] => .fallthrough
       | [p] => .handler p.1
       | _ => .ambiguous) = rankSpec W k hs args := by
  have hmap : hs.map (fun h => (h.1, conj W args k h)) =
      hs.map (fun h => (h.1, Tri.ofBool (accepts W k args h))) :=
    List.map_congr_left (fun h hh => by rw [hc h hh])
  simp only [hmap]
  have hany : (hs.map (fun h => (h.1, Tri.ofBool (accepts W k args h)))).any (fun p => p.2 == .raises) = false := by
    rw [List.any_eq_false]
    intro p hp
    obtain ⟨h, _, rfl⟩ := List.mem_map.mp hp
    cases accepts W k args h <;> simp [Tri.ofBool]
  rw [hany]
  have hfil : (hs.map (fun h => (h.1, Tri.ofBool (accepts W k args h)))).filter (fun p => p.2 == .yes) =
      (hs.filter (accepts W k args)).map (fun h => (h.1, Tri.ofBool (accepts W k args h))) := by
    rw [List.filter_map]
    congr 1
    apply List.filter_congr
    intro h _
    show (Tri.ofBool (accepts W k args h) == Tri.yes) = accepts W k args h
    cases accepts W k args h <;> simp [Tri.ofBool]
  simp only [Bool.false_eq_true, if_false]
  rw [hfil]
  unfold rankSpec
  match hs.filter (accepts W k args) with
  | [] => rfl
  | [_] => rfl
  | _ :: _ :: _ => rfl

/-- in the keyed body's situation a handler accepts as soon as its Literal contains the key -/
theorem accepts_of_key (W : DWorld) (k : List Slot) (hs : List DHandler) (args : List (Slot × DVal))
    (ok : RankOK W k hs args) (h : DHandler) (hh : h ∈ hs) (hrel : (relevantSlots k h).length ≤ 1)
    (s : Slot) (hsk : s ∈ k) (v : DVal) (hv : argAt args s = some v)
    (hlit : ∃ ks b, dTyAt h s = .lit ks b) (hkey : v.eq ∈ keysOf s h) :
    accepts W k args h = true := by
  obtain ⟨ks, b, ht⟩ := hlit
  have hdep : (dTyAt h s).isDep = true := by rw [ht]; simp [Ty.isDep]
  unfold accepts
  rw [List.all_eq_true]
  intro s' hs'
  obtain ⟨v', hv'⟩ := ok.present s' hs'
  rw [hv']
  show (isinstanceOf W (dTyAt h s') v' == Tri.yes) = true
  cases hd : (dTyAt h s').isDep
  · rw [ok.static h hh s' hs' hd v' hv']; simp
  · have hss : s' = s :=
      eq_of_filter_length_le_one (fun s => (dTyAt h s).isDep) k hrel s' hs' s hsk hd hdep
    subst hss
    rw [hv] at hv'
    injection hv' with hv'
    subst hv'
    have := (ok.check h hh s' hs' hd v hv).1
    rw [← this, ht, genCheck_lit]
    unfold keysOf at hkey
    rw [ht] at hkey
    have : v.eq ∈ ks := (mem_dedupNats _ _).mp hkey
    simp [Tri.ofBool, this]

theorem keyed_eq (W : DWorld) (k : List Slot) (hs : List DHandler) (args : List (Slot × DVal))
    (ok : RankOK W k hs args) (hrel : ∀ h ∈ hs, (relevantSlots k h).length ≤ 1)
    (s : Slot) (hsk : s ∈ k) (hd : Disj hs s) (v : DVal) (hv : argAt args s = some v) :
    (match (pairsAt hs s).find? (fun e => e.1 == v.eq) with
     | some e => DRes.handler e.2
     | none => .fallthrough) = rankSpec W k hs args := by
  have hle := accepts_le_one W k hs args ok.ids s hsk hd v hv
  cases hf : (pairsAt hs s).find? (fun e => e.1 == v.eq) with
  | some e =>
    have he1 : e.1 = v.eq := by simpa using List.find?_some hf
    obtain ⟨h, hh, hk, hid⟩ := (mem_pairsAt hs s e).mp (List.mem_of_find?_eq_some hf)
    rw [he1] at hk
    have hacc := accepts_of_key W k hs args ok h hh (hrel h hh) s hsk v hv (hd.1 h hh) hk
    have hmem : h ∈ hs.filter (accepts W k args) := List.mem_filter.mpr ⟨hh, hacc⟩
    unfold rankSpec
    rcases hle with e0 | ⟨a, e0⟩
    · rw [e0] at hmem; cases hmem
    · rw [e0] at hmem ⊢
      rw [List.mem_singleton] at hmem
      subst hmem
      simp only [hid]
  | none =>
    have hnone : hs.filter (accepts W k args) = [] := by
      rw [List.filter_eq_nil_iff]
      intro h hh hacc
      have hk : v.eq ∈ keysOf s h := by
        rcases accepts_key W k args h s hsk v hv hacc with h' | h'
        · exact h'
        · exact absurd (hd.1 h hh) h'
      have := List.find?_eq_none.mp hf (v.eq, h.1) ((mem_pairsAt hs s _).mpr ⟨h, hh, hk, rfl⟩)
      simp at this
    unfold rankSpec
    rw [hnone]

/-- the hypothesis `RankOK.hashable` had before the repair of finding D32 (all arguments hashable) implies the
    present one -/
theorem hashable_of_args (k : List Slot) (hs : List DHandler) (args : List (Slot × DVal))
    (hh : ∀ a ∈ args, a.2.eq < unhashableFrom) :
    ∀ s ∈ k, ∀ v, argAt args s = some v → unhashableFrom ≤ v.eq →
      ∀ h ∈ hs, ∀ ks b, dTyAt h s = .lit ks b → v.eq ∉ ks := by
  intro s _ v hv hu
  obtain ⟨a, ha, hav⟩ := argAt_mem args s v hv
  have := hh a ha
  rw [hav] at this
  omega

/-- so does "the keys of the Literals of the rank are hashable", whatever the arguments -/
theorem hashable_of_keys (k : List Slot) (hs : List DHandler) (args : List (Slot × DVal))
    (hh : ∀ h ∈ hs, ∀ s ∈ k, ∀ ks b, dTyAt h s = .lit ks b → ∀ x ∈ ks, x < unhashableFrom) :
    ∀ s ∈ k, ∀ v, argAt args s = some v → unhashableFrom ≤ v.eq →
      ∀ h ∈ hs, ∀ ks b, dTyAt h s = .lit ks b → v.eq ∉ ks := by
  intro s hs' v _ hu h hmem ks b ht hin
  have := hh h hmem s hs' ks b ht v.eq hin
  omega

/-- the three emitted bodies all implement `rankSpec` -/
theorem dispatch_eq_rankSpec (W : DWorld) (k : List Slot) (hs : List DHandler) (args : List (Slot × DVal))
    (ok : RankOK W k hs args) : dispatch W k hs args = rankSpec W k hs args := by
  have hc : ∀ h ∈ hs, conj W args k h = Tri.ofBool (accepts W k args h) :=
    fun h hh => conj_eq W k hs args ok h hh
  have inv := stratSlots_final W hs k
  unfold dispatch
  cases hst : strategy W k hs with
  | keyed s table =>
    obtain ⟨hrel, hks, htab⟩ := strategy_keyed W k hs s table hst
    obtain ⟨hsk, hd, hkeyed⟩ := inv.key s hks
    obtain ⟨v, hv⟩ := ok.present s hsk
    simp only [hv]
    by_cases hu : v.eq ≥ unhashableFrom
    · -- an unhashable argument: the table lookup falls through; no Literal of the rank contains the value
      rw [if_pos hu]
      have hnone : hs.filter (accepts W k args) = [] := by
        rw [List.filter_eq_nil_iff]
        intro h hh hacc
        obtain ⟨ks, b, ht⟩ := hd.1 h hh
        have hk : v.eq ∈ keysOf s h := by
          rcases accepts_key W k args h s hsk v hv hacc with h' | h'
          · exact h'
          · exact absurd (hd.1 h hh) h'
        unfold keysOf at hk
        rw [ht] at hk
        exact ok.hashable s hsk v hv hu h hh ks b ht ((mem_dedupNats _ _).mp hk)
      unfold rankSpec
      rw [hnone]
    · rw [if_neg hu]
      rw [htab, hkeyed]
      exact keyed_eq W k hs args ok hrel s hsk hd v hv
  | firstMatch =>
    simp only
    rw [go_eq W k args hs hc]
    symm
    apply rankSpec_of_le_one
    rcases strategy_firstMatch W k hs hst with h1 | hex
    · match hs, h1 with
      | [h], _ =>
        cases ha : accepts W k args h
        · left; simp [List.filter, ha]
        · right; exact ⟨h, by simp [List.filter, ha]⟩
    · obtain ⟨s, hsk, hd⟩ := inv.excl hex
      obtain ⟨v, hv⟩ := ok.present s hsk
      exact accepts_le_one W k hs args ok.ids s hsk hd v hv
  | counting =>
    exact counting_eq W k hs args hc

end Ovld
