import Ovldverif.Spec.Types
import Ovldverif.Lemmas.Basic
import Ovldverif.Props.C12
/-!
# C12 — mirror symmetry of `typeorder` on the fragment where the code is symmetric

`symFrag t1 t2` excludes exactly the operand pairs on which *both* sides have an effective
`__type_order__` hook of different design (Union/Intersection/Exactly against each other or against a
value-dependent type: finding D3), recursively through generic arguments, `tuple[...]` members and
dependent bounds.  Outside it the real code is not mirror-symmetric (witnesses below).
-/
set_option autoImplicit false
namespace Ovld
open TOrd


namespace TOrd

theorem all_map_opp (p q : TOrd → Bool) (h : ∀ o, p o.opposite = q o) (os : List TOrd) :
    (os.map opposite).all p = os.all q := by
  induction os with
  | nil => rfl
  | cons a t ih => simp only [List.map_cons, List.all_cons, ih, h]

theorem all_same_of_LS_MS (os : List TOrd) (h1 : os.all isLS = true) (h2 : os.all isMS = true) :
    os.all isSame = true := by
  rw [List.all_eq_true] at *
  intro x hx
  have a := h1 x hx
  have b := h2 x hx
  cases x <;> simp_all [isLS, isMS, isSame]

/-- `merge` commutes with `opposite` on NON-EMPTY lists (`merge [] = less` is not self-dual) -/
theorem merge_opp (os : List TOrd) (hne : os.isEmpty = false) :
    merge (os.map opposite) = (merge os).opposite := by
  have h1 := all_map_opp isSame isSame (by intro o; cases o <;> rfl) os
  have h2 := all_map_opp isLS isMS (by intro o; cases o <;> rfl) os
  have h3 := all_map_opp isMS isLS (by intro o; cases o <;> rfl) os
  have hne' : (os.map opposite).isEmpty = false := by
    cases os with
    | nil => cases hne
    | cons _ _ => rfl
  unfold merge
  rw [h1, h2, h3, hne, hne']
  cases a : os.all isSame <;> cases b : os.all isLS <;> cases c : os.all isMS <;>
    simp [opposite]
  have := all_same_of_LS_MS os b c
  rw [a] at this; cases this

end TOrd

theorem zipWithT_mirror (g : Ty → Ty → TOrd)
    (h : ∀ a b, symFrag a b = true → g b a = (g a b).opposite) :
    ∀ (as bs : List Ty), symFragL as bs = true →
      zipWithT g bs as = (zipWithT g as bs).map opposite
  | [], [] => by intro _; rfl
  | [], _ :: _ => by intro _; rfl
  | _ :: _, [] => by intro _; rfl
  | a :: as, b :: bs => by
    intro hs
    simp only [symFragL, Bool.and_eq_true] at hs
    simp only [zipWithT, List.map_cons, h a b hs.1, zipWithT_mirror g h as bs hs.2]

theorem zipWithT_isEmpty {α : Type} (g : Ty → Ty → α) :
    ∀ (as bs : List Ty), as.isEmpty = false → as.length = bs.length →
      (zipWithT g as bs).isEmpty = false
  | [], _ => by intro h; cases h
  | _ :: _, [] => by intro _ h; cases h
  | _ :: _, _ :: _ => by intro _ _; rfl

theorem depLt_asymm (a b : Ty) (h : Ty.depLt a b = true) : Ty.depLt b a = false := by
  cases a <;> cases b <;> simp [Ty.depLt] at h ⊢
  intros; omega


theorem depHook_mirror (to : Ty → Ty → TOrd) (sc : Ty → Ty → Bool) (s1 b1 s2 b2 : Ty)
    (hb1 : s1.bound? = some b1) (hb2 : s2.bound? = some b2)
    (hm : to b2 b1 = (to b1 b2).opposite) :
    depHook to sc s2 b2 s1 = (depHook to sc s1 b1 s2).opposite := by
  unfold depHook
  simp only [hb1, hb2, hm]
  have asym := depLt_asymm s1 s2
  generalize to b1 b2 = o
  cases hA : Ty.depLt s1 s2
  · cases hB : Ty.depLt s2 s1 <;> cases o <;> rfl
  · rw [asym hA]; cases o <;> rfl

theorem hook_mirror (to : Ty → Ty → TOrd) (sc : Ty → Ty → Bool)
    (ih : ∀ a b, symFrag a b = true → to b a = (to a b).opposite)
    (t1 t2 : Ty) (hs : symFrag t1 t2 = true)
    (h1 : t1.effHook t2 = true) (h2 : t2.effHook t1 = true) :
    ∃ r, hook to sc t1 t2 = some r ∧ hook to sc t2 t1 = some r.opposite := by
  cases t1 <;> cases t2 <;> simp [Ty.effHook] at h1 h2 <;> simp [symFrag, Ty.effHook] at hs
  case prod.prod ps b1 qs b2 =>
    obtain ⟨⟨⟨hp, hq⟩, hl⟩, _⟩ := hs
    refine ⟨_, rfl, ?_⟩
    simp only [hook]
    by_cases hlen : ps.length = qs.length
    · have hp' : ps.isEmpty = false := by simpa using hp
      simp only [hlen, beq_self_eq_true, if_true]
      rw [zipWithT_mirror to ih ps qs hl, merge_opp _ (zipWithT_isEmpty to ps qs hp' hlen)]
    · have hlen' : ¬ qs.length = ps.length := fun e => hlen e.symm
      simp [hlen, hlen', opposite]
  case lit.lit k1 b1 k2 b2 =>
    exact ⟨_, rfl, by simp only [hook]; exact congrArg some (depHook_mirror to sc _ b1 _ b2 rfl rfl (ih b1 b2 hs))⟩
  case lit.fdep k1 b1 f2 p2 b2 =>
    exact ⟨_, rfl, by simp only [hook]; exact congrArg some (depHook_mirror to sc _ b1 _ b2 rfl rfl (ih b1 b2 hs))⟩
  case fdep.lit f1 p1 b1 k2 b2 =>
    exact ⟨_, rfl, by simp only [hook]; exact congrArg some (depHook_mirror to sc _ b1 _ b2 rfl rfl (ih b1 b2 hs))⟩
  case fdep.fdep f1 p1 b1 f2 p2 b2 =>
    exact ⟨_, rfl, by simp only [hook]; exact congrArg some (depHook_mirror to sc _ b1 _ b2 rfl rfl (ih b1 b2 hs))⟩


variable (H : Hier)

theorem tstruct_gen_gen (to : Ty → Ty → TOrd) (sc : Ty → Ty → Bool)
    (ih : ∀ a b, symFrag a b = true → to b a = (to a b).opposite)
    (o1 : Nat) (a1 : List Ty) (o2 : Nat) (a2 : List Ty)
    (hs : symFrag (.gen o1 a1) (.gen o2 a2) = true) :
    tstruct H to sc (.gen o2 a2) (.gen o1 a1) = (tstruct H to sc (.gen o1 a1) (.gen o2 a2)).opposite := by
  simp only [symFrag, Bool.and_eq_true, Bool.not_eq_true'] at hs
  obtain ⟨⟨h1, h2⟩, hl⟩ := hs
  have hr : to (.cls o2) (.cls o1) = (to (.cls o1) (.cls o2)).opposite :=
    ih (.cls o1) (.cls o2) (by simp [symFrag, Ty.effHook])
  simp only [tstruct, hr, h1, h2]
  generalize to (.cls o1) (.cls o2) = r
  cases r
  · rfl
  · rfl
  · by_cases hlen : a1.length = a2.length
    · have e1 : (a1.length != a2.length) = false := by simp [hlen]
      have e2 : (a2.length != a1.length) = false := by simp [hlen]
      have e3 : (same.opposite != same) = false := rfl
      have e4 : (same != same) = false := rfl
      simp only [e1, e2, e3, e4, Bool.not_false, Bool.and_false,
        Bool.false_eq_true, if_false]
      rw [zipWithT_mirror to ih a1 a2 hl, merge_opp _ (zipWithT_isEmpty to a1 a2 h1 hlen)]
    · have e1 : (a1.length != a2.length) = true := by simp [hlen]
      have e2 : (a2.length != a1.length) = true := by simp; exact fun e => hlen e.symm
      have e3 : (same.opposite != same) = false := rfl
      have e4 : (same != same) = false := rfl
      simp only [e1, e2, e3, e4, Bool.not_false, Bool.and_false,
        Bool.false_eq_true, if_false, if_true]
      rfl
  · rfl

theorem tstruct_mirror (to : Ty → Ty → TOrd) (sc : Ty → Ty → Bool)
    (ih : ∀ a b, symFrag a b = true → to b a = (to a b).opposite)
    (t1 t2 : Ty) (hs : symFrag t1 t2 = true)
    (h1 : t1.effHook t2 = false) (h2 : t2.effHook t1 = false) :
    tstruct H to sc t2 t1 = (tstruct H to sc t1 t2).opposite := by
  cases t1 <;> cases t2 <;> simp [Ty.effHook] at h1 h2 <;>
    first
    | exact tstruct_gen_gen H to sc ih _ _ _ _ hs
    | exact ofSub_comm _ _
    | rfl
    | exact (opp_opp _).symm

theorem tord_mirror : ∀ (f : Nat) (t1 t2 : Ty), symFrag t1 t2 = true →
    tord H f t2 t1 = (tord H f t1 t2).opposite := by
  intro f
  induction f with
  | zero => intro t1 t2 _; rw [tord, tord]; rfl
  | succ f ih =>
    intro t1 t2 hs
    rw [tord, tord, Ty.beq_comm t2 t1]
    by_cases e : Ty.beq t1 t2 = true
    · simp [e, opposite]
    · simp only [e]
      cases h1 : t1.effHook t2 <;> cases h2 : t2.effHook t1
      · rw [hook_none_of_not_eff _ _ t1 t2 h1, hook_none_of_not_eff _ _ t2 t1 h2]
        exact tstruct_mirror H _ _ ih t1 t2 hs h1 h2
      · rw [hook_none_of_not_eff _ _ t1 t2 h1]
        obtain ⟨r, hr⟩ := hook_some_of_eff (tord H f) (subc H f) t2 t1 h2
        simp [hr]
      · rw [hook_none_of_not_eff _ _ t2 t1 h2]
        obtain ⟨r, hr⟩ := hook_some_of_eff (tord H f) (subc H f) t1 t2 h1
        simp [hr]
      · obtain ⟨r, hr1, hr2⟩ := hook_mirror (tord H f) (subc H f) ih t1 t2 hs h1 h2
        simp [hr1, hr2]

/-- **mirror symmetry**: on the fragment, comparing in the other direction gives the mirror image -/
theorem C12_mirror_partial (anti : H.Antisym) (t1 t2 : Ty) (h : symFrag t1 t2 = true) :
    typeorder H t2 t1 = (typeorder H t1 t2).opposite := by
  have _ := anti  -- not needed: `symFrag` demands non-empty argument lists on generic/generic pairs
  unfold typeorder
  rw [Nat.add_comm t2.size t1.size]
  exact tord_mirror H _ t1 t2 h

end Ovld
