"""Replay of dependent-dispatch witnesses on the real code."""
import corr_e
from check_dep import py_spec, safe_isinstance
from fnlevel import FnWorld
from world import World


def replay(w):
    wd = World(w["world"])
    wd.tables_cache = wd.tables()
    if w["kind"] == "fn-dep-order":
        import random

        def key(sc, j):
            ew = corr_e.EWorld(wd, random.Random(0))
            b = FnWorld(wd, sc, ew=ew).run()[j]
            return (b["o"][0], (b.get("t") or [[None]])[0][0] if b["o"][0] == "ran" else None)

        return key(w["scenario"], w["op_index"]) != key(w["scenario2"], w["op_index2"])
    if w["kind"] == "fn-dep":
        import random

        sc = w["scenario"]
        ew = corr_e.EWorld(wd, random.Random(0))
        fw = FnWorld(wd, sc, ew=ew)
        im = fw.run()
        j = w["op_index"]
        regs = [op[1] for op in sc["ops"][:j] if op[0] == "reg"]
        b = im[j]
        if "want" not in w:
            return any(bad for (_, bad) in b.get("acc", []))
        want, _ = py_spec(fw, ew, sc, regs, sc["ops"][j][1], sc["ops"][j][2])
        first = b["raw"][0][0] if b.get("raw") else None
        got = ["ran", first] if first is not None else ([b["o"][0]] if b["o"][0] in ("ambiguous", "nomethod") else ["other", b["o"][0]])
        return got != want
    if w["kind"] == "dep-rank":
        import random

        sc = w["scenario"]
        ew = corr_e.EWorld(wd, random.Random(0))
        # values are recorded by representation; find them back in the pool of this world
        pool = {corr_e.stable_repr(v): v for v in ew.values}
        calls = [[pool.get(r) for r in c] for c in sc["calls_repr"]]
        if any(v is None and r != "None" for c, rs in zip(calls, sc["calls_repr"]) for v, r in zip(c, rs)):
            return True
        sc2 = {"slots": sc["slots"], "key_classes": sc["key_classes"], "handlers": sc["handlers"], "calls": calls}
        im = corr_e.run_impl(wd, ew, sc2)
        j = w["call"]
        if j >= len(im["res"]):
            return True
        htys = {h["id"]: [ew.ty(t[2]) for t in h["types"]] for h in sc["handlers"]}
        if "guard" in w:
            return bool(im["guard"][j])
        M = [hid for hid, ts in htys.items() if all(safe_isinstance(v, T) for v, T in zip(calls[j], ts))]
        want = ["handler", M[0]] if len(M) == 1 else (["fallthrough"] if not M else ["ambiguous"])
        return im["res"][j] != want
    raise ValueError(w["kind"])
