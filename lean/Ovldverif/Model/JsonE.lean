import Ovldverif.Model.JsonD
import Ovldverif.Model.Dependent
/-! Decoding for the dependent-dispatch layer (trusted glue). -/
set_option autoImplicit false
open Lean
namespace Ovld

partial def dvalOfJson (j : Json) : Except String DVal := do
  let kind ← match (← jStr (← jField j "kind")) with
    | "plain" => pure VKind.plain
    | "seq" => pure VKind.seq
    | "sized" => pure VKind.sized
    | s => throw s!"bad value kind {s}"
  let elems ← (← jArr (jFieldD j "elems" (Json.arr #[]))).toList.mapM dvalOfJson
  return .mk (← jNat (← jField j "vid")) (← jNat (← jField j "cls")) (← jNat (← jField j "eq")) kind elems

def triOfStr (s : String) : Tri := if s == "y" then .yes else if s == "n" then .no else .raises

/-- `"meta": [tag per class]`, `"chk": [[fn, [params|null], vid, "y"|"n"|"r"], ...]` -/
def dworldOfJson (j : Json) : Except String DWorld := do
  let H ← hierOfJson (← jField j "hier")
  let metas ← (← jArr (jFieldD j "meta" (Json.arr #[]))).toList.mapM jNat
  let rows ← (← jArr (jFieldD j "chk" (Json.arr #[]))).toList.mapM (fun r => do
    let a ← jArr r
    let ps ← (← jArr a[1]!).toList.mapM (fun p => if p.isNull then pure none else some <$> jNat p)
    return ((← jNat a[0]!, ps, ← jNat a[2]!), triOfStr (← jStr a[3]!)))
  return {
    H := H,
    metaOf := fun c => metas[c]?.getD 0,
    chk := fun fn ps vid => match rows.find? (fun r => r.1 == (fn, ps, vid)) with
      | some r => r.2
      | none => .raises }

def dhandlerOfJson (j : Json) : Except String DHandler := do
  return (← jNat (← jField j "id"), ← (← jArr (← jField j "types")).toList.mapM slotTyOfJson)

def slotValOfJson (j : Json) : Except String (Slot × DVal) := do
  let a ← jArr j
  return (← slotOfJson a, ← dvalOfJson a[2]!)

def dresToJson : DRes → Json
  | .handler id => Json.arr #[Json.str "handler", toJson id]
  | .fallthrough => Json.arr #[Json.str "fallthrough"]
  | .ambiguous => Json.arr #[Json.str "ambiguous"]
  | .raised => Json.arr #[Json.str "raised"]

def triToStr : Tri → String | .yes => "y" | .no => "n" | .raises => "r"

end Ovld
