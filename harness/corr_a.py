"""Correspondence layer A: mro.typeorder / mro.subclasscheck on live objects vs the Lean model."""

import json
import random
import sys

from common import run_driver, use_repo
from typegen import TypeGen
from world import make_world

use_repo()

ORD_CODE = {"LESS": "L", "MORE": "M", "SAME": "S", "NONE": "N"}


def impl_matrix(w, tys):
    from ovld.mro import subclasscheck, typeorder

    objs = [w.ty(d) for d in tys]
    ords, subs = [], []
    for a in objs:
        ro, rs = "", ""
        for b in objs:
            try:
                ro += ORD_CODE[typeorder(a, b).name]
            except Exception as e:  # noqa
                ro += "E"
            try:
                r = subclasscheck(a, b)
                rs += "1" if r is True else ("0" if r is False else "?")
            except Exception:
                rs += "E"
        ords.append(ro)
        subs.append(rs)
    return ords, subs, objs


def scenario(rng, ntypes=10, depth=2, kinds=None, features=True, nuser=None):
    w = make_world(rng, features=features, nuser=nuser)
    g = TypeGen(w, rng, kinds=kinds)
    tys = [g.gen(rng.randint(0, depth)) for _ in range(ntypes)]
    return w, tys


def to_model(w, tys):
    return {"layer": "A", "hier": w.tables(), "types": [w.tyj(d) for d in tys]}


def run(seed, n, ntypes=10, depth=2, kinds=None, verbose=False):
    rng = random.Random(seed)
    scs, impls, keep = [], [], []
    for _ in range(n):
        w, tys = scenario(rng, ntypes, depth, kinds)
        ords, subs, objs = impl_matrix(w, tys)
        scs.append(to_model(w, tys))
        impls.append((ords, subs))
        keep.append((w, tys, objs))
    res = run_driver(scs)
    diffs = []
    pairs = 0
    for i, (r, (ords, subs)) in enumerate(zip(res, impls)):
        if "error" in r:
            diffs.append((i, "driver-error", r["error"]))
            continue
        w, tys, objs = keep[i]
        for a in range(len(tys)):
            for b in range(len(tys)):
                pairs += 1
                if r["ord"][a][b] != ords[a][b]:
                    diffs.append((i, "ord", tys[a], tys[b], "impl=" + ords[a][b], "model=" + r["ord"][a][b], str(objs[a]), str(objs[b])))
                if r["sub"][a][b] != subs[a][b]:
                    diffs.append((i, "sub", tys[a], tys[b], "impl=" + subs[a][b], "model=" + r["sub"][a][b], str(objs[a]), str(objs[b])))
    return pairs, diffs


if __name__ == "__main__":
    seed = int(sys.argv[1]) if len(sys.argv) > 1 else 0
    n = int(sys.argv[2]) if len(sys.argv) > 2 else 50
    pairs, diffs = run(seed, n)
    print("pairs", pairs, "diffs", len(diffs))
    seen = set()
    for d in diffs:
        key = (d[1], d[2][0], d[3][0]) if len(d) > 3 else d
        if key in seen:
            continue
        seen.add(key)
        print(json.dumps(d, default=str))
