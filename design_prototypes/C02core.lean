/-! Scratch prototype: ranking core of C02 over an abstract type order and level function. -/
set_option autoImplicit false

structure Cand (T : Type) where
  id : Nat
  prio : Int
  tys : List T
  sig : Nat          -- identity of the full signature modulo tiebreak
  tb : Int

variable {T : Type} [DecidableEq T]

/-- pointwise relation on two lists, truncating like zip -/
def all2 (r : T → T → Bool) : List T → List T → Bool
  | a :: as, b :: bs => r a b && all2 r as bs
  | _, _ => true

def allGe : List Nat → List Nat → Bool
  | a :: as, b :: bs => decide (a ≥ b) && allGe as bs
  | _, _ => true

section
variable (le : T → T → Bool) (lvl : T → Nat)

def spec (c : Cand T) : List Nat := c.tys.map lvl

def key (c : Cand T) : Int × Nat × Int := (c.prio, (spec lvl c).sum, c.tb)

def keyGe (a b : Int × Nat × Int) : Bool :=
  decide (a.1 > b.1) || (decide (a.1 = b.1) && (decide (a.2.1 > b.2.1) || (decide (a.2.1 = b.2.1) && decide (a.2.2 ≥ b.2.2))))

def keyGt (a b : Int × Nat × Int) : Prop :=
  a.1 > b.1 ∨ (a.1 = b.1 ∧ (a.2.1 > b.2.1 ∨ (a.2.1 = b.2.1 ∧ a.2.2 > b.2.2)))

/-- typemap.Candidate.dominates -/
def dominates (s o : Cand T) : Bool :=
  if s.prio > o.prio then true
  else if spec lvl s ≠ spec lvl o then allGe (spec lvl s) (spec lvl o)
  else decide (s.tb > o.tb)

def sortCands (cs : List (Cand T)) : List (Cand T) :=
  cs.mergeSort (fun a b => keyGe (key lvl a) (key lvl b))

/-- first rank produced by `_pull` -/
def firstGroup (cs : List (Cand T)) : List (Cand T) :=
  match sortCands lvl cs with
  | [] => []
  | h :: rest => h :: rest.filter (fun c => !dominates lvl h c)

/-- the documented rule -/
def beats (c c' : Cand T) : Prop :=
  c.prio > c'.prio ∨ (c.prio = c'.prio ∧
    ((c.tys ≠ c'.tys ∧ all2 le c.tys c'.tys = true) ∨ (c.tys = c'.tys ∧ c.sig = c'.sig ∧ c.tb > c'.tb)))

structure Hyp (n : Nat) (cs : List (Cand T)) : Prop where
  len : ∀ c ∈ cs, c.tys.length = n
  mono : ∀ a b, le a b = true → a ≠ b → lvl a > lvl b
  comp : ∀ c ∈ cs, ∀ c' ∈ cs, ∀ i (h : i < c.tys.length) (h' : i < c'.tys.length),
            le (c.tys[i]) (c'.tys[i]) = true ∨ le (c'.tys[i]) (c.tys[i]) = true
  sigTie : ∀ c ∈ cs, ∀ c' ∈ cs, c.tys = c'.tys → c.prio = c'.prio → c.sig ≠ c'.sig → c.tb = c'.tb

end

/-! ### list lemmas -/

theorem allGe_sum {a b : List Nat} (h : a.length = b.length) (hge : allGe a b = true) : a.sum ≥ b.sum := by
  induction a generalizing b with
  | nil => cases b <;> simp_all
  | cons x xs ih =>
    cases b with
    | nil => simp at h
    | cons y ys =>
      simp [allGe] at hge
      have := ih (by simpa using h) hge.2
      simp; omega

theorem allGe_sum_lt {a b : List Nat} (h : a.length = b.length) (hge : allGe a b = true) (hne : a ≠ b) : a.sum > b.sum := by
  induction a generalizing b with
  | nil => cases b <;> simp_all
  | cons x xs ih =>
    cases b with
    | nil => simp at h
    | cons y ys =>
      simp [allGe] at hge
      have hl : xs.length = ys.length := by simpa using h
      by_cases hxy : x = y
      · subst hxy
        have : xs ≠ ys := by intro e; apply hne; rw [e]
        have := ih hl hge.2 this
        simp; omega
      · have := allGe_sum hl hge.2
        simp; omega

section
variable (le : T → T → Bool) (lvl : T → Nat)

/-- under comparability + monotone levels, level-wise ≥ is the type order, slot by slot -/
theorem allGe_iff_all2 (mono : ∀ a b, le a b = true → a ≠ b → lvl a > lvl b)
    (refl : ∀ a, le a a = true)
    : ∀ (xs ys : List T), xs.length = ys.length →
      (∀ i (h : i < xs.length) (h' : i < ys.length), le xs[i] ys[i] = true ∨ le ys[i] xs[i] = true) →
      (allGe (xs.map lvl) (ys.map lvl) = true ↔ all2 le xs ys = true) := by
  intro xs
  induction xs with
  | nil => intro ys h _; cases ys <;> simp_all [allGe, all2]
  | cons x xs ih =>
    intro ys h hc
    cases ys with
    | nil => simp at h
    | cons y ys =>
      have hl : xs.length = ys.length := by simpa using h
      have hc' : ∀ i (h : i < xs.length) (h' : i < ys.length), le xs[i] ys[i] = true ∨ le ys[i] xs[i] = true := by
        intro i h1 h2
        have := hc (i+1) (by simp; omega) (by simp; omega)
        simpa using this
      have h0 := hc 0 (by simp) (by simp)
      simp only [List.getElem_cons_zero] at h0
      have := ih ys hl hc'
      simp only [List.map_cons, allGe, all2, Bool.and_eq_true, decide_eq_true_eq]
      rw [this]
      constructor
      · rintro ⟨hge, r⟩
        refine ⟨?_, r⟩
        rcases h0 with h0 | h0
        · exact h0
        · by_cases e : y = x
          · subst e; exact refl _
          · have := mono y x h0 e; omega
      · rintro ⟨hle, r⟩
        refine ⟨?_, r⟩
        by_cases e : x = y
        · subst e; exact Nat.le_refl _
        · have := mono x y hle e; omega

end

section
variable (le : T → T → Bool) (lvl : T → Nat)

theorem map_lvl_eq_iff (mono : ∀ a b, le a b = true → a ≠ b → lvl a > lvl b)
    : ∀ (xs ys : List T), xs.length = ys.length →
      (∀ i (h : i < xs.length) (h' : i < ys.length), le xs[i] ys[i] = true ∨ le ys[i] xs[i] = true) →
      (xs.map lvl = ys.map lvl ↔ xs = ys) := by
  intro xs
  induction xs with
  | nil => intro ys h _; cases ys <;> simp_all
  | cons x xs ih =>
    intro ys h hc
    cases ys with
    | nil => simp at h
    | cons y ys =>
      have hl : xs.length = ys.length := by simpa using h
      have hc' : ∀ i (h : i < xs.length) (h' : i < ys.length), le xs[i] ys[i] = true ∨ le ys[i] xs[i] = true := by
        intro i h1 h2
        have := hc (i+1) (by simp; omega) (by simp; omega)
        simpa using this
      have h0 := hc 0 (by simp) (by simp)
      simp only [List.getElem_cons_zero] at h0
      have := ih ys hl hc'
      simp only [List.map_cons, List.cons.injEq]
      rw [this]
      constructor
      · rintro ⟨hl, r⟩
        refine ⟨?_, r⟩
        by_cases e : x = y
        · exact e
        · rcases h0 with h0 | h0
          · have := mono x y h0 e; omega
          · have := mono y x h0 (fun e' => e e'.symm); omega
      · rintro ⟨e, r⟩; exact ⟨by rw [e], r⟩

/-- Candidate.dominates coincides with the documented "beats" for a candidate of no lower priority -/
theorem dominates_iff_beats (refl : ∀ a, le a a = true) {n : Nat} {cs : List (Cand T)} (H : Hyp le lvl n cs)
    (h c : Cand T) (hh : h ∈ cs) (hc : c ∈ cs) (hp : h.prio ≥ c.prio) :
    dominates lvl h c = true ↔ beats le h c := by
  have hlen : h.tys.length = c.tys.length := by rw [H.len h hh, H.len c hc]
  have hcomp := H.comp h hh c hc
  have e1 := map_lvl_eq_iff le lvl H.mono h.tys c.tys hlen hcomp
  have e2 := allGe_iff_all2 le lvl H.mono refl h.tys c.tys hlen hcomp
  unfold dominates beats spec
  by_cases p : h.prio > c.prio
  · simp [p]
  · have pe : h.prio = c.prio := by omega
    rw [if_neg p]
    by_cases s : List.map lvl h.tys = List.map lvl c.tys
    · have te : h.tys = c.tys := e1.mp s
      rw [if_neg (by simpa using s)]
      simp only [decide_eq_true_eq]
      constructor
      · intro t
        refine Or.inr ⟨pe, Or.inr ⟨te, ?_, t⟩⟩
        by_cases ne : h.sig = c.sig
        · exact ne
        · have := H.sigTie h hh c hc te pe ne
          omega
      · rintro (t | ⟨_, (⟨ne, _⟩ | ⟨_, _, t⟩)⟩)
        · exact absurd t p
        · exact absurd te ne
        · exact t
    · have tne : h.tys ≠ c.tys := fun e => s (e1.mpr e)
      rw [if_pos (by simpa using s)]
      constructor
      · intro t; exact Or.inr ⟨pe, Or.inl ⟨tne, e2.mp t⟩⟩
      · rintro (t | ⟨_, (⟨_, t⟩ | ⟨te, _⟩)⟩)
        · exact absurd t p
        · exact e2.mpr t
        · exact absurd te tne

end

section
variable (le : T → T → Bool) (lvl : T → Nat)

theorem keyGe_trans (a b c : Int × Nat × Int) : keyGe a b = true → keyGe b c = true → keyGe a c = true := by
  simp [keyGe]; omega
theorem keyGe_total (a b : Int × Nat × Int) : (keyGe a b || keyGe b a) = true := by
  simp [keyGe]; omega
theorem keyGt_not_ge (a b : Int × Nat × Int) : keyGt a b → keyGe b a = false := by
  simp [keyGe, keyGt]; omega

theorem keyGe_prio (a b : Int × Nat × Int) : keyGe a b = true → a.1 ≥ b.1 := by
  simp [keyGe]; omega

theorem sort_perm (cs : List (Cand T)) : (sortCands lvl cs).Perm cs := List.mergeSort_perm _ _

theorem sort_head_max (cs : List (Cand T)) (h : Cand T) (rest : List (Cand T))
    (hs : sortCands lvl cs = h :: rest) : ∀ c ∈ rest, keyGe (key lvl h) (key lvl c) = true := by
  have := List.pairwise_mergeSort (le := fun a b : Cand T => keyGe (key lvl a) (key lvl b))
    (fun a b c => keyGe_trans _ _ _) (fun a b => keyGe_total _ _) cs
  unfold sortCands at hs
  rw [hs] at this
  exact (List.pairwise_cons.mp this).1

theorem beats_keyGt (refl : ∀ a, le a a = true) {n : Nat} {cs : List (Cand T)} (H : Hyp le lvl n cs)
    (h c : Cand T) (hh : h ∈ cs) (hc : c ∈ cs) (hb : beats le h c) : keyGt (key lvl h) (key lvl c) := by
  have hlen : h.tys.length = c.tys.length := by rw [H.len h hh, H.len c hc]
  have hcomp := H.comp h hh c hc
  unfold keyGt key spec
  rcases hb with p | ⟨pe, (⟨tne, a2⟩ | ⟨te, _, t⟩)⟩
  · exact Or.inl p
  · refine Or.inr ⟨pe, Or.inl ?_⟩
    have ge := (allGe_iff_all2 le lvl H.mono refl h.tys c.tys hlen hcomp).mpr a2
    have ne : h.tys.map lvl ≠ c.tys.map lvl := fun e => tne ((map_lvl_eq_iff le lvl H.mono h.tys c.tys hlen hcomp).mp e)
    exact allGe_sum_lt (by simp [hlen]) ge ne
  · refine Or.inr ⟨pe, Or.inr ⟨by rw [te], t⟩⟩

/-- C02 core, direction 1: a unique winner under the documented rule is exactly the first rank. -/
theorem firstGroup_of_winner (refl : ∀ a, le a a = true) {n : Nat} {cs : List (Cand T)} (H : Hyp le lvl n cs)
    (nd : cs.Nodup) (w : Cand T) (hw : w ∈ cs) (win : ∀ c ∈ cs, c ≠ w → beats le w c) :
    firstGroup lvl cs = [w] := by
  unfold firstGroup
  have perm := sort_perm lvl cs
  match hs : sortCands lvl cs with
  | [] =>
    have : w ∈ sortCands lvl cs := perm.mem_iff.mpr hw
    rw [hs] at this; cases this
  | h :: rest =>
    have hmem : ∀ c, c ∈ h :: rest ↔ c ∈ cs := fun c => by rw [← hs]; exact perm.mem_iff
    have ndS : (h :: rest).Nodup := by rw [← hs]; exact perm.nodup_iff.mpr nd
    have hh : h ∈ cs := (hmem h).mp (List.mem_cons_self ..)
    -- the head is the winner
    have hw' : h = w := by
      by_cases e : h = w
      · exact e
      · exfalso
        have wIn : w ∈ rest := by
          have := (hmem w).mpr hw
          rcases List.mem_cons.mp this with e' | e'
          · exact absurd e'.symm e
          · exact e'
        have ge := sort_head_max lvl cs h rest hs w wIn
        have gt := beats_keyGt le lvl refl H w h hw hh (win h hh e)
        have := keyGt_not_ge _ _ gt
        rw [ge] at this; cases this
    subst hw'
    have : rest.filter (fun c => !dominates lvl h c) = [] := by
      rw [List.filter_eq_nil_iff]
      intro c hc
      have hcs : c ∈ cs := (hmem c).mp (List.mem_cons_of_mem _ hc)
      have cne : c ≠ h := by
        intro e; subst e
        exact (List.nodup_cons.mp ndS).1 hc
      have b := win c hcs cne
      have pr : h.prio ≥ c.prio := by
        rcases b with p | ⟨pe, _⟩ <;> omega
      have := (dominates_iff_beats le lvl refl H h c hh hcs pr).mpr b
      simp [this]
    simp [this]

/-- C02 core, direction 2: a singleton first rank is a method that beats every other candidate. -/
theorem winner_of_firstGroup (refl : ∀ a, le a a = true) {n : Nat} {cs : List (Cand T)} (H : Hyp le lvl n cs)
    (h : Cand T) (hg : firstGroup lvl cs = [h]) :
    h ∈ cs ∧ ∀ c ∈ cs, c ≠ h → beats le h c := by
  unfold firstGroup at hg
  have perm := sort_perm lvl cs
  match hs : sortCands lvl cs with
  | [] => rw [hs] at hg; cases hg
  | h' :: rest =>
    rw [hs] at hg
    simp only [List.cons.injEq] at hg
    obtain ⟨e, hf⟩ := hg
    subst e
    have hmem : ∀ c, c ∈ h' :: rest ↔ c ∈ cs := fun c => by rw [← hs]; exact perm.mem_iff
    have hh : h' ∈ cs := (hmem h').mp (List.mem_cons_self ..)
    refine ⟨hh, ?_⟩
    intro c hc cne
    have cIn : c ∈ rest := by
      rcases List.mem_cons.mp ((hmem c).mpr hc) with e | e
      · exact absurd e cne
      · exact e
    have dom : dominates lvl h' c = true := by
      rw [List.filter_eq_nil_iff] at hf
      have := hf c cIn
      simpa using this
    have ge := sort_head_max lvl cs h' rest hs c cIn
    have pr : h'.prio ≥ c.prio := keyGe_prio _ _ ge
    exact (dominates_iff_beats le lvl refl H h' c hh hc pr).mp dom

end
#print axioms firstGroup_of_winner
#print axioms winner_of_firstGroup
