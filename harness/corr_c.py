"""Correspondence layer C: the levels computed by the real TypeMap (mro.sort_types + TypeMap.__missing__) vs the
Lean model, for random sets of registered types and every class of the hierarchy."""
import graphlib
import json
import random
import sys

from common import run_driver, use_repo
from corr_d import RANK, RankedSet
from typegen import TypeGen
from world import make_world

use_repo()


def gen(rng, static=True):
    w = make_world(rng, nuser=rng.randint(3, 7))
    kinds = ["cls"] * 8 if static else ["cls"] * 6 + ["union", "inter", "exactly", "strict", "hasm", "pred", "fdep", "fdep", "lit"]
    g = TypeGen(w, rng, kinds=kinds)
    types = []
    for _ in range(rng.randint(2, 7)):
        t = g.gen(1)
        # equal types are one registration (Exactly[A] written twice is one type since the fix for D22)
        if w.tyj(t) not in [w.tyj(x) for x in types]:
            types.append(t)
    # value-dependent checks with wildcards (Any) in crossing places: neither is more specific than the other
    for t in list(types):
        if t[0] == "fdep" and len(t[2]) >= 2 and rng.random() < 0.8:
            a, b2 = (t[2][0] if t[2][0] is not None else 0), (t[2][1] if t[2][1] is not None else 1)
            for ps in rng.sample([[a, None], [None, b2], [a, b2]], 2):
                u = ["fdep", t[1], ps + list(t[2][2:]), t[3]]
                if w.tyj(u) not in [w.tyj(x) for x in types]:
                    types.append(u)
    rng.shuffle(types)
    queries = [["cls", c] for c in range(w.n)]
    return w, {"types": types, "queries": queries}


def run_impl(w, sc):
    import ovld.typemap as tmod

    tmod.set = RankedSet
    objs = [w.ty(t) for t in sc["types"]]
    rank = {}
    for i, o in enumerate(objs):
        rank.setdefault(o, i)
    RANK["fn"] = lambda x: (0, rank.get(x, 99)) if not isinstance(x, int) else (1, x)
    try:
        tm = tmod.TypeMap()
        for i, o in enumerate(objs):
            tm.register(o, i)
        out = []
        for q in sc["queries"]:
            try:
                r = tm[w.ty(q)]
                out.append(sorted([h, l] for h, l in r.items()))
            except KeyError:
                out.append([])
            except graphlib.CycleError:
                out.append("cycle")
        return out
    finally:
        RANK["fn"] = None


def to_model(w, sc):
    return {"layer": "C", "hier": w.tables(), "types": [w.tyj(t) for t in sc["types"]], "queries": [w.tyj(q) for q in sc["queries"]]}


def run(seed, n, static=True):
    rng = random.Random(seed)
    scs, impls, keep = [], [], []
    for _ in range(n):
        w, sc = gen(rng, static)
        impls.append(run_impl(w, sc))
        scs.append(to_model(w, sc))
        keep.append((w, sc))
    res = run_driver(scs)
    diffs, nq, nontriv = [], 0, 0
    for i, (r, im) in enumerate(zip(res, impls)):
        if "error" in r:
            diffs.append({"kind": "driver-error", "detail": r["error"]})
            continue
        for q, (a, b) in enumerate(zip(r["levels"], im)):
            nq += 1
            if isinstance(b, list) and len({l for _, l in b}) > 1:
                nontriv += 1
            if a != b:
                diffs.append({"layer": "C", "query": keep[i][1]["queries"][q], "types": keep[i][1]["types"], "model": a, "impl": b, "world": keep[i][0].desc})
                break
    return nq, nontriv, diffs


def worker(payload):
    seed, n, static = payload
    nq, nontriv, diffs = run(seed, n, static)
    out = {"ops": nq, "corr": [{"layer": "C", **d} for d in diffs[:3]], "hist": {"level queries": nq, "queries with several levels": nontriv}, "samples": [], "oracles": {}}
    return out


if __name__ == "__main__":
    seed = int(sys.argv[1]) if len(sys.argv) > 1 else 0
    n = int(sys.argv[2]) if len(sys.argv) > 2 else 100
    nq, nontriv, diffs = run(seed, n, static=(len(sys.argv) <= 3))
    print("queries", nq, "nontrivial", nontriv, "diffs", len(diffs))
    for d in diffs[:3]:
        print(json.dumps(d)[:800])
