import Ovldverif.Model.JsonF
import Ovldverif.Model.Graph
/-! Driver side of the graph layer (trusted glue). -/
set_option autoImplicit false
open Lean
namespace Ovld

def natList (j : Json) : Except String (List Nat) := do (← jArr j).toList.mapM jNat

/-- `ignoreLocks`: specification mode — every listed operation is one the implementation accepted, so no lock
    may refuse it; only `expected` (the overlay of the current definitions) is meaningful in this mode -/
def runGraph (cfg : Cfg) (pool : Array Arg) (defs : Array Def) (ops : Array Json) (ignoreLocks : Bool := false) : Except String Json := do
  let mut g : Graph := {}
  let mut out : Array Json := #[]
  let okJ := Json.mkObj [("o", Json.arr #[Json.str "ok"])]
  let errJ (e : Option Outcome) : Json := match e with
    | some o => Json.mkObj [("o", outcomeToJson o)]
    | none => Json.mkObj [("o", Json.arr #[Json.str "ok"])]
  for op in ops do
    let a ← jArr op
    let kind ← jStr a[0]!
    if ignoreLocks then
      g := { nodes := g.nodes.map (fun x => { x with locked := false }) }
    if kind == "create" then
      g := g.create (← natList a[1]!) (← jBool a[2]!)
      out := out.push okJ
    else if kind == "addmix" then
      let (g', e) := g.addMixins (← jNat a[1]!) (← natList a[2]!)
      g := g'
      out := out.push (errJ e)
    else if kind == "reg" then
      match defs[(← jNat a[2]!)]? with
      | some d =>
        let (g', e) := g.register (← jNat a[1]!) d
        g := g'
        out := out.push (errJ e)
      | none => throw "bad def index"
    else if kind == "unreg" then
      match defs[(← jNat a[2]!)]? with
      | some d =>
        let (g', e) := g.unregister (← jNat a[1]!) d.d.id
        g := g'
        out := out.push (errJ e)
      | none => throw "bad def index"
    else if kind == "call" then
      let n ← jNat a[1]!
      let c ← callOfJson pool (a.extract 1 a.size)
      let exp := g.expected cfg n c
      let (g', o, t, _) := g.call cfg n c
      g := g'
      out := out.push (Json.mkObj [("o", outcomeToJson o), ("t", traceToJson t),
        ("exp", Json.mkObj [("o", outcomeToJson exp.1), ("t", traceToJson exp.2)]),
        ("locked", toJson ((List.range g.nodes.length).filter (fun i => (g.get i).locked)))])
    else throw s!"bad op {kind}"
  return Json.mkObj [("ops", Json.arr out)]

end Ovld
