import Ovldverif.Props.C01
import Ovldverif.Props.C11Comb
/-!
# C01, value level — from "the generated condition holds" to "`isinstance` holds"

`C01_dependent_selected` stops at `conj W args k hd = .yes`: the conjunction of the conditions *generated* for the
selected handler is true.  Here the step to the documented meaning is taken: for every slot for which a condition
is emitted the argument is an instance (`isinstanceOf`) of the declared type.

Which slots: `conj W args k hd = conjGo W args hd (relevantSlots k hd)` and
`relevantSlots k hd = k.filter (fun s => (dTyAt hd s).isDep)` — a condition is emitted for the slots of the key
whose declared type is value-dependent (`is_dependent`), and for no other slot.  The argument of slot `s` is
`argAt args s` (the first pair of `args` whose slot is `s`); `conjGo` answers `raises` when it is missing, so a
true conjunction also says that every relevant argument is present.  For the other slots nothing is evaluated
(not even the presence of the argument): see the examples at the end, the statement over *all* slots is false.
-/
set_option autoImplicit false
namespace Ovld

/-- a true conjunction: every slot it runs over has its argument, and the generated check of the declared
    type is true on it -/
theorem conjGo_yes (W : DWorld) (args : List (Slot × DVal)) (hd : DHandler) :
    ∀ ss : List Slot, conjGo W args hd ss = .yes →
      ∀ s ∈ ss, ∃ v, argAt args s = some v ∧ genCheck W (dTyAt hd s) v = .yes := by
  intro ss
  induction ss with
  | nil => intro _ s hs; cases hs
  | cons a r ih =>
    intro hc s hs
    rw [conjGo] at hc
    cases ha : argAt args a with
    | none => rw [ha] at hc; cases hc
    | some v =>
      rw [ha] at hc
      dsimp only at hc
      cases hg : genCheck W (dTyAt hd a) v with
      | yes =>
        rw [hg] at hc
        rcases List.mem_cons.mp hs with e | h'
        · subst e; exact ⟨v, ha, hg⟩
        · exact ih hc s h'
      | no => rw [hg] at hc; cases hc
      | raises => rw [hg] at hc; cases hc

/-- the empty Union is not value-dependent: no condition is emitted for it, the corner excluded in
    `C11_genCheck_guardable` cannot occur at a relevant slot -/
theorem ne_emptyUnion_of_isDep (t : Ty) (h : t.isDep = true) : t ≠ .union [] := by
  intro e
  rw [e] at h
  simp [Ty.isDep, Ty.isDepL] at h

/-- (0) what a true conjunction says in terms of the generated code: every slot of the key whose declared type
    is value-dependent has its argument, and the generated check of the declared type is true on it -/
theorem C01_conj_genCheck (W : DWorld) (args : List (Slot × DVal)) (k : List Slot) (hd : DHandler)
    (hc : conj W args k hd = .yes) (s : Slot) (hs : s ∈ k) (hdep : (dTyAt hd s).isDep = true) :
    ∃ v, argAt args s = some v ∧ genCheck W (dTyAt hd s) v = .yes := by
  unfold conj relevantSlots at hc
  exact conjGo_yes W args hd _ hc s (List.mem_filter.mpr ⟨hs, hdep⟩)

/-- (1) a true conjunction, slot by slot: for every slot `s` of the key whose declared type is value-dependent
    the argument `argAt args s` is present, and it is an instance of the declared type provided that
    * `htop`: its class is below `object` (the generated code omits the guard of a member bounded by `object`);
    * the declared type is `Guardable` (classes, `Exactly` / `StrictSubclass` / `HasMethod` / predicate types,
      `Literal` / `FuncDependentType` / `tuple[...]` over a guardable bound that is not itself value-dependent,
      unions and intersections of these, to any depth);
    * the value is inside the bound of the declared type when the declared type has one at its top (the
      top-level code does not test the bound: the type-level stage of dispatch has). -/
theorem C01_conj_isinstance (W : DWorld) (args : List (Slot × DVal)) (k : List Slot) (hd : DHandler)
    (hc : conj W args k hd = .yes) (s : Slot) (hs : s ∈ k) (hdep : (dTyAt hd s).isDep = true) :
    ∃ v, argAt args s = some v ∧
      (W.H.sub v.cls 0 = true → Guardable W v (dTyAt hd s) →
        (∀ b, (dTyAt hd s).bound? = some b → isinstanceOf W b v = .yes) →
        isinstanceOf W (dTyAt hd s) v = .yes) := by
  obtain ⟨v, hv, hg⟩ := C01_conj_genCheck W args k hd hc s hs hdep
  refine ⟨v, hv, fun htop g hb => ?_⟩
  rw [← C11_genCheck_guardable W v htop _ g (ne_emptyUnion_of_isDep _ hdep) hb]
  exact hg

/-- (1') the same with the value named by the caller -/
theorem C01_conj_isinstance_at (W : DWorld) (args : List (Slot × DVal)) (k : List Slot) (hd : DHandler)
    (hc : conj W args k hd = .yes) (s : Slot) (hs : s ∈ k) (hdep : (dTyAt hd s).isDep = true)
    (v : DVal) (hv : argAt args s = some v) (htop : W.H.sub v.cls 0 = true)
    (g : Guardable W v (dTyAt hd s))
    (hb : ∀ b, (dTyAt hd s).bound? = some b → isinstanceOf W b v = .yes) :
    isinstanceOf W (dTyAt hd s) v = .yes := by
  obtain ⟨v', hv', h⟩ := C01_conj_isinstance W args k hd hc s hs hdep
  rw [hv] at hv'
  cases Option.some.inj hv'
  exact h htop g hb

/-- (2) a dependent dispatcher that evaluates conditions (first-match or counting body) only selects a handler
    each of whose value-dependent declared types accepts (`isinstance`) the value it is given — under the
    hypotheses of (1) for that slot and value -/
theorem C01_dependent_isinstance (W : DWorld) (k : List Slot) (hs : List DHandler) (args : List (Slot × DVal))
    (h : Nat) (hsel : dispatch W k hs args = .handler h)
    (hnk : ∀ s t, strategy W k hs ≠ .keyed s t) :
    ∃ hd ∈ hs, hd.1 = h ∧
      ∀ s ∈ k, (dTyAt hd s).isDep = true →
        ∃ v, argAt args s = some v ∧
          (W.H.sub v.cls 0 = true → Guardable W v (dTyAt hd s) →
            (∀ b, (dTyAt hd s).bound? = some b → isinstanceOf W b v = .yes) →
            isinstanceOf W (dTyAt hd s) v = .yes) := by
  obtain ⟨hd, hm, hid, hc⟩ := C01_dependent_selected W k hs args h hsel hnk
  exact ⟨hd, hm, hid, fun s hsk hdep => C01_conj_isinstance W args k hd hc s hsk hdep⟩

/-- (2') the lookup-table body: the selected handler declares a `Literal` at the key slot, the argument's value
    is one of its values, and — inside the Literal's bound — the argument is an instance of it -/
theorem C01_keyed_isinstance (W : DWorld) (k : List Slot) (hs : List DHandler) (args : List (Slot × DVal))
    (h : Nat) (s : Slot) (table : List (Nat × Nat)) (hst : strategy W k hs = .keyed s table)
    (hsel : dispatch W k hs args = .handler h) :
    ∃ hd ∈ hs, hd.1 = h ∧ s ∈ k ∧
      ∃ v ks b, argAt args s = some v ∧ dTyAt hd s = .lit ks b ∧ v.eq ∈ ks ∧
        (isinstanceOf W b v = .yes → isinstanceOf W (dTyAt hd s) v = .yes) := by
  obtain ⟨v, hv, hmem⟩ := C01_dependent_keyed W k hs args h s table hst hsel
  obtain ⟨_, hks, htab⟩ := strategy_keyed W k hs s table hst
  obtain ⟨hsk, _, hkeyed⟩ := (stratSlots_final W hs k).key s hks
  rw [htab, hkeyed] at hmem
  obtain ⟨hd, hm, hkey, hid⟩ := (mem_pairsAt hs s (v.eq, h)).mp hmem
  refine ⟨hd, hm, hid.symm, hsk, v, ?_⟩
  unfold keysOf at hkey
  cases ht : dTyAt hd s with
  | lit ks b =>
    rw [ht] at hkey
    have hin : v.eq ∈ ks := (mem_dedupNats _ _).mp hkey
    refine ⟨ks, b, hv, rfl, hin, fun hb => ?_⟩
    rw [isinstanceOf_lit, hb]
    exact (Tri.ofBool_eq_yes _).mpr (List.contains_iff_mem.mpr hin)
  | _ => rw [ht] at hkey; cases hkey

/-! ## (3) the hypotheses are satisfiable, the conclusions are about a dispatcher that does select -/

/-- classes `0` (`object`), `1` (`int`), `2` (`str`), every class below `object`; user condition `3` holds for
    the value of identity `1` only -/
def depW : DWorld :=
  { H := { sub := fun a b => a == b || b == 0, hasAttr := fun _ _ => false, pred := fun _ _ => false },
    metaOf := fun _ => 0,
    chk := fun fn _ vid => if fn == 3 && vid == 1 then .yes else .no }

/-- `f(x: Literal[7])` (a Literal of class 1) -/
def hLit : DHandler := (10, [(.pos 0, .lit [7] (.cls 1))])
/-- `f(x: Dependent[int, cond3] | str)` -/
def hUni : DHandler := (20, [(.pos 0, .union [.fdep 3 [] (.cls 1), .cls 2])])

/-- an `int` on which condition 3 holds and which is not `7` -/
def vCond : DVal := .mk 1 1 8 .plain []
/-- the `int` `7`, condition 3 fails -/
def vSeven : DVal := .mk 2 1 7 .plain []
/-- a `str` -/
def vStr : DVal := .mk 3 2 9 .plain []

-- two handlers, two kinds of type object at the slot: the counting body; it selects
example : (∀ s t, strategy depW [.pos 0] [hLit, hUni] ≠ .keyed s t) ∧
    dispatch depW [.pos 0] [hLit, hUni] [(.pos 0, vCond)] = .handler 20 ∧
    dispatch depW [.pos 0] [hLit, hUni] [(.pos 0, vStr)] = .handler 20 ∧
    dispatch depW [.pos 0] [hLit, hUni] [(.pos 0, vSeven)] = .handler 10 := by
  refine ⟨fun s t e => ?_, by decide, by decide, by decide⟩
  have : strategy depW [.pos 0] [hLit, hUni] = .counting := rfl
  rw [this] at e
  cases e

-- both declared types are value-dependent: a condition is emitted for slot 0 of either handler
example : (dTyAt hLit (.pos 0)).isDep = true ∧ (dTyAt hUni (.pos 0)).isDep = true := by decide

-- the hypotheses of (1) / (2) for the selected handler `hUni` and the value it is given
example : depW.H.sub vCond.cls 0 = true ∧ Guardable depW vCond (dTyAt hUni (.pos 0)) ∧
    (∀ b, (dTyAt hUni (.pos 0)).bound? = some b → isinstanceOf depW b vCond = .yes) := by
  refine ⟨by decide, ?_, fun b hb => by cases hb⟩
  refine .union _ fun m hm => ?_
  simp only [List.mem_cons, List.not_mem_nil, or_false] at hm
  rcases hm with rfl | rfl
  · exact .fdep _ _ _ (.cls 1) rfl
  · exact .cls 2

-- ... and for `hLit` on `7` (here the bound hypothesis is not vacuous: `7` is an `int`)
example : depW.H.sub vSeven.cls 0 = true ∧ Guardable depW vSeven (dTyAt hLit (.pos 0)) ∧
    (dTyAt hLit (.pos 0)).bound? = some (.cls 1) ∧
    (∀ b, (dTyAt hLit (.pos 0)).bound? = some b → isinstanceOf depW b vSeven = .yes) := by
  refine ⟨by decide, .lit _ _ (.cls 1) rfl, rfl, fun b hb => ?_⟩
  cases Option.some.inj hb
  decide

/-- (2) applied, all hypotheses discharged: whatever handler the dispatcher selects for `vCond` / `vSeven`
    accepts it at every value-dependent slot -/
example (a : DVal) (ha : a = vCond ∨ a = vSeven) (h : Nat)
    (hsel : dispatch depW [.pos 0] [hLit, hUni] [(.pos 0, a)] = .handler h) :
    ∃ hd ∈ [hLit, hUni], hd.1 = h ∧ ∀ s ∈ [Slot.pos 0], (dTyAt hd s).isDep = true →
      ∃ v, argAt [(.pos 0, a)] s = some v ∧ isinstanceOf depW (dTyAt hd s) v = .yes := by
  have hnk : ∀ s t, strategy depW [.pos 0] [hLit, hUni] ≠ .keyed s t := by
    intro s t e
    have : strategy depW [.pos 0] [hLit, hUni] = .counting := rfl
    rw [this] at e
    cases e
  obtain ⟨hd, hm, hid, hall⟩ := C01_dependent_isinstance depW _ _ _ h hsel hnk
  refine ⟨hd, hm, hid, fun s hs hdep => ?_⟩
  obtain ⟨v, hv, himp⟩ := hall s hs hdep
  refine ⟨v, hv, ?_⟩
  have hs0 : s = .pos 0 := by simpa using hs
  subst hs0
  have hva : v = a := by
    have : argAt [(Slot.pos 0, a)] (.pos 0) = some a := rfl
    rw [this] at hv
    exact (Option.some.inj hv).symm
  subst hva
  have htop : depW.H.sub v.cls 0 = true := by rcases ha with rfl | rfl <;> decide
  have hin : isinstanceOf depW (.cls 1) v = .yes := by rcases ha with rfl | rfl <;> decide
  simp only [List.mem_cons, List.not_mem_nil, or_false] at hm
  rcases hm with rfl | rfl
  · refine himp htop (.lit _ _ (.cls 1) rfl) fun b hb => ?_
    cases Option.some.inj hb
    exact hin
  · refine himp htop ?_ fun b hb => by cases hb
    refine .union _ fun m hm => ?_
    simp only [List.mem_cons, List.not_mem_nil, or_false] at hm
    rcases hm with rfl | rfl
    · exact .fdep _ _ _ (.cls 1) rfl
    · exact .cls 2

-- the conclusion, computed directly
example : isinstanceOf depW (dTyAt hUni (.pos 0)) vCond = .yes ∧
    isinstanceOf depW (dTyAt hUni (.pos 0)) vStr = .yes ∧
    isinstanceOf depW (dTyAt hLit (.pos 0)) vSeven = .yes := by decide

/-! ## the restrictions are real -/

/-- `f(x: str, y: Literal[7])` -/
def hMixed : DHandler := (30, [(.pos 0, .cls 2), (.pos 1, .lit [7] (.cls 1))])

-- only value-dependent slots get a condition: slot 0 declares `str`, the argument is an `int`; the conjunction
-- is true, `isinstance` is false (the type-level stage is what excludes this handler for such a call)
example : relevantSlots [.pos 0, .pos 1] hMixed = [.pos 1] ∧
    conj depW [(.pos 0, vCond), (.pos 1, vSeven)] [.pos 0, .pos 1] hMixed = .yes ∧
    dispatch depW [.pos 0, .pos 1] [hMixed] [(.pos 0, vCond), (.pos 1, vSeven)] = .handler 30 ∧
    isinstanceOf depW (dTyAt hMixed (.pos 0)) vCond = .no := by decide

-- a missing argument: at a slot without a condition it goes unnoticed, at a value-dependent slot the
-- conjunction raises
example : conj depW [(.pos 1, vSeven)] [.pos 0, .pos 1] hMixed = .yes ∧
    conj depW [(.pos 0, vStr)] [.pos 0, .pos 1] hMixed = .raises := by decide

/-- `f(x: Literal[7])` for a Literal of class `str` (bound 2) -/
def hLitStr : DHandler := (40, [(.pos 0, .lit [7] (.cls 2))])

-- the bound hypothesis: the top-level code of a Literal does not test the bound; for a value outside it
-- (an `int` equal to the `str`-bounded literal's value) the dispatcher selects, `isinstance` is false
example : (dTyAt hLitStr (.pos 0)).isDep = true ∧ Guardable depW vSeven (dTyAt hLitStr (.pos 0)) ∧
    depW.H.sub vSeven.cls 0 = true ∧
    conj depW [(.pos 0, vSeven)] [.pos 0] hLitStr = .yes ∧
    dispatch depW [.pos 0] [hLitStr] [(.pos 0, vSeven)] = .handler 40 ∧
    isinstanceOf depW (.cls 2) vSeven = .no ∧
    isinstanceOf depW (dTyAt hLitStr (.pos 0)) vSeven = .no := by
  refine ⟨by decide, .lit _ _ (.cls 2) rfl, by decide, by decide, by decide, by decide, by decide⟩

/-- `f(x: Literal[7] | str)` where the Literal's bound is itself a Literal of class `str` -/
def hNested : DHandler := (50, [(.pos 0, .union [.lit [7] (.lit [7] (.cls 2)), .cls 2])])

-- `Guardable`: a member whose bound is value-dependent is guarded by the bound's code *without* the bound's
-- own guard; the dispatcher selects, `isinstance` is false (no bound at the top: that hypothesis is vacuous)
example : (dTyAt hNested (.pos 0)).isDep = true ∧ (dTyAt hNested (.pos 0)).bound? = none ∧
    conj depW [(.pos 0, vSeven)] [.pos 0] hNested = .yes ∧
    dispatch depW [.pos 0] [hNested] [(.pos 0, vSeven)] = .handler 50 ∧
    isinstanceOf depW (dTyAt hNested (.pos 0)) vSeven = .no := by decide

-- `htop`: in a world where `int` is not below `object` the unguarded member bounded by `object` is accepted
example :
    let W : DWorld := { depW with H := { depW.H with sub := fun a b => a == b } }
    let hObj : DHandler := (60, [(.pos 0, .union [.lit [7] (.cls 0), .cls 2])])
    conj W [(.pos 0, vSeven)] [.pos 0] hObj = .yes ∧
    isinstanceOf W (dTyAt hObj (.pos 0)) vSeven = .no := by decide

end Ovld
