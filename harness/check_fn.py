"""Function-level stream: a real Ovld vs the model (correspondence F) + oracles on the real code for
C01 (accepts), C02 (documented rule), C03 (pass-through / not rejected), C04 / C05 (fresh function),
C06 (orders), C07 (call_next chains), C20 (no second resolution)."""

import copy
import inspect
import json
import random

from common import run_driver, use_repo

use_repo()
from fngen import gen_fn_scenario, to_model  # noqa: E402
from fnlevel import FnWorld  # noqa: E402


def strip(b):
    return {k: v for k, v in b.items() if k in ("o", "t", "nres")}


def ot(b):
    """outcome and trace only (what C04 / C05 compare)"""
    return {k: v for k, v in b.items() if k in ("o", "t")}


def norm6(b):
    """outcome and trace, with CPython's own binding error counted as 'no method' (the generated entry point's
    arity follows the whole method set)"""
    o = b.get("o")
    if o and o[0] in ("bind", "nomethod"):
        o = ["nomethod"]
    if o and o[0] == "ambiguous":
        o = ["ambiguous"]
    return {"o": o, "t": b.get("t")}


def survivors(sc, upto):
    """chronological list of registrations not since unregistered (by definition object), before op `upto`"""
    regs = []
    for op in sc["ops"][:upto]:
        if op[0] == "reg":
            regs.append(op[1])
        elif op[0] == "unreg":
            regs = [r for r in regs if r != op[1]]
    return regs


def fresh_call(w, sc, upto, only_history=False):
    """the call `ops[upto]` on a brand-new function: C04 replays the same register/unregister history without
    the earlier calls; C05 builds the function directly from the surviving registrations"""
    if only_history:
        ops = [op for op in sc["ops"][:upto] if op[0] != "call"]
    else:
        ops = [["reg", i] for i in survivors(sc, upto)]
    sc2 = dict(sc)
    sc2["ops"] = ops + [sc["ops"][upto]]
    r = FnWorld(w, sc2).run()[-1]
    return strip(r)


def ann_below(fw, d1, p1, d2, p2):
    """is the annotation of (d1, p1) at or below that of (d2, p2) by the documented subtype rule?"""
    import typing

    from fnlevel import py_subtype

    t1, t2 = fw.glb[f"T_{d1['id']}_{p1}"], fw.glb[f"T_{d2['id']}_{p2}"]
    t1 = type[object] if t1 is type else t1
    t2 = type[object] if t2 is type else t2
    o1, o2 = typing.get_origin(t1) is type, typing.get_origin(t2) is type
    if o1 and o2:
        return py_subtype(typing.get_args(t1)[0], typing.get_args(t2)[0])
    if o1:
        return issubclass(type, t2) if isinstance(t2, type) else False
    if o2:
        return False
    try:
        return issubclass(t1, t2)
    except TypeError:
        return None


def doc_winner(sc, regs, pos, fw):
    """C14, independent of the model: among the methods taking exactly these positional arguments and accepting
    them by the documented rule, the one that beats all others (higher priority, or same priority and every
    annotation at or below with one strictly below); None when there is no such method or the rule is silent"""
    cands = []
    if not regs:
        return None  # nothing registered: the generated entry point takes no arguments at all
    for i in regs:
        d = sc["defs"][i]
        pp = [p for p in d["params"]]
        if any(p["kind"] == "ko" for p in pp) or len(pp) != len(pos) or not all(p["req"] for p in pp):
            return None  # keep to the plain shape: all methods take exactly the given positionals
        if all(fw.is_instance(fw.vals[v], d["id"], p["name"]) for p, v in zip(pp, pos)):
            cands.append(d)
    if not cands:
        return ["nomethod"]

    def beats(a, b):
        if a["prio"] != b["prio"]:
            return a["prio"] > b["prio"]
        le = [ann_below(fw, a, pa["name"], b, pb["name"]) for pa, pb in zip(a["params"], b["params"])]
        ge = [ann_below(fw, b, pb["name"], a, pa["name"]) for pa, pb in zip(a["params"], b["params"])]
        if None in le or None in ge:
            return None
        return all(le) and not all(ge)

    for a in cands:
        bs = [beats(a, b) for b in cands if b is not a]
        if None in bs:
            return None
        if all(bs):
            return ["ran", a["id"]]
    return None


def doc_accepts(sc, regs, d, pos, kw, fw):
    """does definition `d` accept this call under the documented positional/keyword rules (docs/usage.md)?"""
    defs = [sc["defs"][i] for i in regs]
    pp = [p for p in d["params"] if p["kind"] != "ko"]
    ko = [p for p in d["params"] if p["kind"] == "ko"]
    if len(pos) > len(pp):
        return False
    bound = {}
    for p, v in zip(pp, pos):
        bound[p["name"]] = v
    # which positions may be given by keyword: uniformly named trailing positions, and only when the spread
    # between the minimum required count and the maximum count is at most 1
    maxn = max(len([p for p in x["params"] if p["kind"] != "ko"]) for x in defs)
    minreq = min(len([p for p in x["params"] if p["kind"] != "ko" and p["req"]]) for x in defs)
    names_at = {}
    for x in defs:
        for i, p in enumerate([p for p in x["params"] if p["kind"] != "ko"]):
            names_at.setdefault(i, set()).add(p["name"] if p["kind"] == "pk" else None)
    kwable = set()
    if maxn - minreq <= 1:
        for i in reversed(range(maxn)):
            ns = names_at.get(i, set())
            if len(ns) == 1 and None not in ns:
                kwable.add(i)
            else:
                break
    for n, v in kw:
        if n in bound:
            return False
        pk = [i for i, p in enumerate(pp) if p["name"] == n and p["kind"] == "pk"]
        if pk:
            if pk[0] not in kwable:
                return False
            bound[n] = v
        elif any(p["name"] == n for p in ko):
            # a keyword-only name must not be a positional name of another method
            if any(p["name"] == n and p["kind"] != "ko" for x in defs for p in x["params"]):
                return False
            bound[n] = v
        else:
            return False
    for p in d["params"]:
        if p["req"] and p["name"] not in bound:
            return False
    # positional arguments given by keyword must not leave a gap before them
    given_pos = [i for i, p in enumerate(pp) if p["name"] in bound]
    if given_pos and given_pos != list(range(len(given_pos))):
        return False
    for n, v in bound.items():
        if not fw.is_instance(fw.vals[v], d["id"], n):
            return False
    return True


def worker(payload):
    seed, n, opts = payload
    rng = random.Random(seed)
    scs, impls, keep = [], [], []
    for _ in range(n):
        w, sc = gen_fn_scenario(rng, **opts)
        fw = FnWorld(w, sc)
        impls.append(fw.run())
        scs.append(to_model(w, sc))
        keep.append((w, sc, fw))
    res = run_driver(scs)
    out = {"ops": 0, "corr": [], "hist": {}, "samples": [], "oracles": {}}

    def orc(name):
        return out["oracles"].setdefault(name, {"n": 0, "nontrivial": 0, "viol": [], "known": {}})

    def bump(k):
        out["hist"][k] = out["hist"].get(k, 0) + 1

    predicted = [True]

    def known(o, key, witness):
        if not predicted[0]:
            o["viol"].append({"law": f"fails inside class {key} but differently from the model", **witness})
            return
        e = o["known"].setdefault(key, {"count": 0, "witness": witness})
        e["count"] += 1

    snap14 = [None]

    def flush14():
        """add to C14 what the three oracles recorded since the snapshot"""
        if snap14[0] is None:
            return
        o14 = orc("C14")
        for nm, (n0, nt0, v0, k0) in snap14[0].items():
            o = orc(nm)
            o14["n"] += o["n"] - n0
            o14["nontrivial"] += o["nontrivial"] - nt0
            o14["viol"] += o["viol"][v0:]
            for k, v in o["known"].items():
                d = v["count"] - k0.get(k, 0)
                if d:
                    e = o14["known"].setdefault(k, {"count": 0, "witness": v["witness"]})
                    e["count"] += d
        snap14[0] = None

    extra6 = []
    for i, (r, im) in enumerate(zip(res, impls)):
        flush14()
        w, sc, fw = keep[i]
        desc = {"world": w.desc, "scenario": sc}
        if "error" in r:
            out["corr"].append({"layer": "F", "kind": "driver-error", "detail": r["error"], "scenario": desc})
            continue
        seen_call = False
        change_after_call = False
        broke_at = None
        warmed = {}
        warm_keys = set()
        for j, (a, b) in enumerate(zip(r["ops"], im)):
            out["ops"] += 1
            op = sc["ops"][j]
            if op[0] == "call" and not survivors(sc, j):
                # nothing is registered any more: outside every property (a fully defined function); the generated
                # entry point of an empty method set takes no arguments at all
                continue
            ma = {k: v for k, v in a.items() if k in ("o", "t", "nres")}
            if ma.get("o", [None])[0] == "ambiguous":
                ma["o"] = ["ambiguous"]
            stop_after = False
            predicted[0] = True
            if opts.get("type_args") and op[0] == "call" and any(sc["args"][i]["kind"] == "type" for i in list(op[1]) + [v for _, v in op[2]]):
                # at a position keyed by type(x) the real key of a passed type is its metaclass / alias class
                # (type, ABCMeta, _ProtocolMeta, types.GenericAlias, typing._GenericAlias); the model has one class
                # id for each of the two kinds, so resolve *counts* may differ: not compared here (C20 has its own)
                ma.pop("nres", None)
                b = {k: v for k, v in b.items() if k != "nres"}
                b["nres"] = 0
            if ma.get("o") == ["cycle"] and b.get("o") == ["cycle"]:
                # sort_types hit a cycle (asymmetric order, finding D3): where exactly the resolution was abandoned,
                # hence the resolve count, is not modelled (same exemption as in the dependent function stream)
                ma.pop("nres", None)
                b = {k: v for k, v in b.items() if k != "nres"}
                b["nres"] = 0
            if broke_at is not None:
                # after a correspondence break: no further comparison with the model, but the oracles, which look at
                # the real code, are still evaluated on the calls that follow (the failing input is often a later one)
                predicted[0] = False
                stop_after = j > broke_at + 12
            elif ma != {k: v for k, v in strip(b).items() if k in ma or k != "nres"}:
                predicted[0] = False
                out["corr"].append({"layer": "F", "op_index": j, "op": op, "model": ma, "impl": strip(b), "msg": b.get("msg"), "scenario": desc})
                broke_at = j
                if op[0] != "call":
                    break
            if op[0] != "call":
                if seen_call:
                    change_after_call = True
                warmed = {}
                warm_keys = set()
                continue
            seen_call = True
            ok = b["o"]
            bump("outcome:" + ok[0])
            # C14: what C01 / C02 / C03 find on calls that pass a type-valued argument also counts for C14
            if opts.get("type_args"):
                flush14()
                if any(sc["args"][i]["kind"] == "type" for i in op[1]) or any(sc["args"][i]["kind"] == "type" for _, i in op[2]):
                    bump("calls with a type-valued argument")
                    if not op[2] and len({x["id"] for x in (sc["defs"][t] for t in survivors(sc, j))}) == len(survivors(sc, j)):
                        exp = doc_winner(sc, survivors(sc, j), op[1], fw)
                        if exp is not None:
                            o14 = orc("C14")
                            o14["n"] += 1
                            o14["nontrivial"] += exp[0] == "ran"
                            first = b["raw"][0][0] if b.get("raw") else None
                            got = ["ran", first] if first is not None else [b["o"][0]]
                            if got != exp:
                                o14["viol"].append({"law": "type-valued argument: the applicable method with the most specific type[...] annotation (or the highest priority) must run", "expected": exp, "got": got, "kind": "fn", "world": w.desc, "scenario": sc, "op_index": j})
                    snap14[0] = {nm: (orc(nm)["n"], orc(nm)["nontrivial"], len(orc(nm)["viol"]), {k: v["count"] for k, v in orc(nm)["known"].items()}) for nm in ("C01", "C02", "C03")}
            regs = survivors(sc, j)
            wit = {"kind": "fn", "world": w.desc, "scenario": sc, "op_index": j, "impl": strip(b)}
            # ---------------- C01: every entered body got arguments its annotations accept
            o1 = orc("C01")
            for (mid, bad), entry in zip(b.get("acc", []), b.get("raw", [])):
                o1["n"] += 1
                if len(b.get("raw", [])) > 1:
                    o1["nontrivial"] += 1
                if bad:
                    o1["viol"].append({"law": "method entered with an argument its annotation excludes", "method": mid, "params": bad, **wit})
                if any(v == -2 for v in entry[1]) or any(v == -2 for _, v in entry[2]):
                    orc("C03")["viol"].append({"law": "a parameter received a foreign default / placeholder", "method": mid, **wit})
            # ---------------- C04 / C05: same as on a fresh function
            if len(set(regs)) != len(regs):
                # one function object registered twice at once (a re-registration whose predecessor is pushed down):
                # two table entries share one code object, the key of every call_next continuation — outside the
                # hypothesis DistinctHandlers of the theorems (and of no use to a user); counted, not judged
                out["hist"]["calls while one function object is registered twice (C04 / C05 not judged)"] = out["hist"].get("calls while one function object is registered twice (C04 / C05 not judged)", 0) + 1
            elif change_after_call:
                o5 = orc("C05")
                fr = fresh_call(w, sc, j)
                o5["n"] += 1
                if ok[0] in ("ran", "ambiguous"):
                    o5["nontrivial"] += 1
                if ot(fr) != ot(b):
                    # defns of the surviving set may carry other tiebreaks than a fresh build (finding D21)
                    hist_fr = fresh_call(w, sc, j, only_history=True)
                    if ot(hist_fr) == ot(b):
                        known(o5, "D21:leftover-tiebreak-after-unregister", {**wit, "fresh": fr})
                    else:
                        o5["viol"].append({"law": "call differs from the same call on a freshly built function", "fresh": fr, **wit})
            else:
                o4 = orc("C04")
                fr = fresh_call(w, sc, j, only_history=True)
                o4["n"] += 1
                if len(b.get("raw", [])) > 1 or ok[0] == "ambiguous":
                    o4["nontrivial"] += 1
                if ot(fr) != ot(b):
                    o4["viol"].append({"law": "call differs from the same call made first on a fresh function", "fresh": fr, **wit})
            # ---------------- C20: a repeated successful call resolves nothing
            ck = json.dumps([op[1], op[2]])
            o20 = orc("C20")
            if ck in warmed:
                o20["n"] += 1
                if b["nres"] > 0:
                    o20["nontrivial"] += 1
                    o20["viol"].append({"law": "a call that had already succeeded resolved again", "nres": b["nres"], **wit})
                elif len(b.get("raw", [])) > 1:
                    o20["nontrivial"] += 1
            if ok[0] == "ran":
                warmed[ck] = True
            # C20, by combination: within a successful call every resolved key, read the way the entry point keys the
            # same arguments, is new since the last change of the method set (direct, through recurse, through
            # call_next alike; `f.next` keys by subtler_type throughout and is left out)
            if ok[0] == "ran" and "rkeys" in b and not any(fw.defs_by_id[e[0]]["body"][0] == "next" for e in b.get("raw", [])):
                o20["n"] += 1
                rk = b["rkeys"]
                again = [k for k in rk if k in warm_keys] + [k for q, k in enumerate(rk) if k in rk[:q]]
                if rk:
                    o20["nontrivial"] += 1
                if again:
                    o20["viol"].append({"law": "an argument-type combination that had already been handled was resolved again (as the entry point keys it)", "resolved": len(rk), "again": len(again), **wit})
                warm_keys.update(rk)
            # ---------------- C02: documented rule for the direct call
            if a.get("bind") is True and a.get("static"):
                o2 = orc("C02")
                o2["n"] += 1
                if a["napp"] >= 2:
                    o2["nontrivial"] += 1
                spec = a["spec"]
                first = b["raw"][0][0] if b.get("raw") else None
                ik = ["ran", first] if first is not None else ([ok[0]] if ok[0] in ("ambiguous", "nomethod") else ["other", ok[0]])
                if ik[0] == "other" and ok[0] == "bind" and spec == ["nomethod"]:
                    ik = ["nomethod"]  # CPython's own binding TypeError from the selected arity: no body ran
                if ik != spec:
                    if a.get("truncated"):
                        known(o2, "D8b:keyword-given-positional-beyond-an-omitted-one", wit)
                    elif not a["cc"]:
                        known(o2, "D1:levels-of-unrelated-types", wit)
                    elif not a["tie"]:
                        known(o2, "D21:tiebreak-across-signatures", wit)
                    else:
                        o2["viol"].append({"law": "documented priority/specificity/recency rule", "spec": spec, "got": ik, **wit})
            # ---------------- C06: methods that cannot take the call are irrelevant to it: a fresh function built from
            # the applicable methods alone (same relative order) answers like a fresh function built from all of them
            if (j % 2 == 0 or broke_at is not None) and len(set(regs)) == len(regs) and len(extra6) < 60 and \
                    not any(p["name"] == kn and p["kind"] != "ko" for kn, _ in op[2] for t in regs for p in sc["defs"][t]["params"]):
                try:
                    rel = [t for t in regs if doc_accepts(sc, regs, sc["defs"][t], op[1], op[2], fw)]
                except Exception:
                    rel = regs
                if rel and len(rel) < len(regs):
                    sc_all = dict(sc)
                    sc_all["ops"] = [["reg", t] for t in regs] + [op]
                    sc_rel = dict(sc)
                    sc_rel["ops"] = [["reg", t] for t in rel] + [op]
                    try:
                        r_all = FnWorld(w, sc_all).run()[-1]
                        r_rel = FnWorld(w, sc_rel).run()[-1]
                    except Exception as e:  # noqa
                        r_all = r_rel = None
                    if r_all is not None:
                        o6 = orc("C06")
                        o6["n"] += 1
                        o6["nontrivial"] += 1
                        bump("C06: calls compared with the applicable methods alone")
                        ent_all = [fw.defs_by_id[e[0]]["body"] for e in r_all.get("raw", [])]
                        # (a delegation forwards positionals only: with keywords in the call the inner call is another call)
                        plain6 = all(bd[0] == "ret" or (not op[2] and bd[0] in ("callNext", "next") and bd[1] == [["p", q] for q in range(len(op[1]))]) for bd in ent_all)
                        if plain6 and norm6(r_all) != norm6(r_rel):
                            extra6.append((w, sc_all, sc_rel, r_all, r_rel, {**wit, "applicable": rel, "registered": regs}))
            # ---------------- C07, model independent: along a chain of call_next calls that forward the call's own
            # arguments, no method runs twice, priorities never go up, and a chain that falls off its end has
            # visited every applicable method
            ent = [e[0] for e in b.get("raw", [])]
            if ent and not op[2] and len(set(regs)) == len(regs):  # (a definition registered twice is two entries)
                bodies = [fw.defs_by_id[m]["body"] for m in ent]
                npos_call = len(op[1])
                plain = all(bd[0] == "ret" or (bd[0] == "callNext" and bd[1] == [["p", q] for q in range(npos_call)]) for bd in bodies)
                if plain and all(len([p for p in fw.defs_by_id[m]["params"] if p["kind"] != "ko"]) == npos_call for m in ent):
                    o7 = orc("C07")
                    o7["n"] += 1
                    if len(ent) > 1:
                        o7["nontrivial"] += 1
                    prios = [fw.defs_by_id[m]["prio"] for m in ent]
                    law = None
                    if len(set(ent)) != len(ent):
                        law = "a method ran twice in one call_next chain"
                    elif any(x < y for x, y in zip(prios, prios[1:])):
                        law = "call_next went from a method to one of higher priority"
                    elif ok[0] == "nomethod" and bodies[-1][0] == "callNext":
                        app = {sc["defs"][t]["id"] for t in regs if doc_accepts(sc, regs, sc["defs"][t], op[1], op[2], fw)
                               and all(fw.is_instance(fw.vals[v], sc["defs"][t]["id"], p["name"]) for p, v in zip([p for p in sc["defs"][t]["params"] if p["kind"] != "ko"], op[1]))}
                        # a definition whose signature may equal another's was replaced by it (or replaced it)
                        def maybe_same(d, e):
                            pd, pe = d["params"], e["params"]
                            return (len(pd) == len(pe) and all(x["kind"] == y["kind"] and x["req"] == y["req"] for x, y in zip(pd, pe))
                                    and all(ann_below(fw, d, x["name"], e, y["name"]) is not False and ann_below(fw, e, y["name"], d, x["name"]) is not False
                                            for x, y in zip(pd, pe)))
                        rd = [sc["defs"][t] for t in regs]
                        app = {i for i in app if not any(e["id"] != i and maybe_same(fw.defs_by_id[i], e) for e in rd)}
                        # keep to definitions of the plain shape (exactly these positionals, all required)
                        app = {i for i in app if len(fw.defs_by_id[i]["params"]) == npos_call
                               and all(p["kind"] != "ko" and p["req"] for p in fw.defs_by_id[i]["params"])}
                        if len({sc["defs"][t]["id"] for t in regs}) == len(regs) and app - set(ent):
                            law = "a call_next chain fell off its end without visiting every applicable method"
                    if law:
                        o7["viol"].append({"law": law, "chain": ent, **wit})
            # ---------------- C03: the selected method received exactly what was supplied
            o3 = orc("C03")
            if b.get("raw"):
                mid, rpos, rkw = b["raw"][0]
                d = fw.defs_by_id[mid]
                pp = [p for p in d["params"] if p["kind"] != "ko"]
                expected = {}
                for p, v in zip(pp, op[1]):
                    expected[p["name"]] = v
                for nme, v in op[2]:
                    expected[nme] = v
                received = {}
                for p, v in zip(pp, rpos):
                    received[p["name"]] = v
                for nme, v in rkw:
                    received[nme] = v
                o3["n"] += 1
                if op[2] or len(op[1]) < len(pp):
                    o3["nontrivial"] += 1
                got = {k: v for k, v in received.items() if v is not None}
                if got != expected:
                    if a.get("truncated"):
                        known(o3, "D8b:keyword-given-positional-beyond-an-omitted-one", wit)
                    else:
                        o3["viol"].append({"law": "selected method did not receive exactly the supplied arguments", "expected": expected, "received": received, **wit})
            elif ok[0] in ("bind", "nomethod", "raised", "exc") and regs and not b.get("raw"):
                # not rejected (and no stray exception out of the dispatch machinery before any body ran): some
                # registered method accepts the call under the documented rules
                acc = [x for x in (sc["defs"][t] for t in regs) if doc_accepts(sc, regs, x, op[1], op[2], fw)]
                if acc:
                    o3["n"] += 1
                    o3["nontrivial"] += 1
                    if a.get("truncated"):
                        known(o3, "D8b:keyword-given-positional-beyond-an-omitted-one", wit)
                    else:
                        o3["viol"].append({"law": "a call shape accepted by an applicable method was rejected", "accepting": [x["id"] for x in acc], **wit})
            # ---------------- C07: chains
            o7 = orc("C07")
            raw = b.get("raw", [])
            if len(raw) > 1:
                o7["n"] += 1
                o7["nontrivial"] += 1
            if stop_after:
                break
        if len(out["samples"]) < 2 and im:
            j = len(im) - 1
            out["samples"].append({"op": sc["ops"][j], "impl": strip(im[j]), "model": {k: v for k, v in r["ops"][j].items() if k in ("o", "t", "nres")}})
    flush14()
    # ---- C06 (irrelevant methods): the differences found above, attributed with the model's help
    if extra6:
        res6 = run_driver([to_model(w_, x) for (w_, a_, b_, _, _, _) in extra6 for x in (a_, b_)])
        for q, (w_, sc_all, sc_rel, r_all, r_rel, wit6) in enumerate(extra6):
            ma, mb = res6[2 * q], res6[2 * q + 1]
            o6 = orc("C06")
            v = {"law": "a method that cannot take the call changes its outcome", "with_all": ot(r_all), "applicable_only": ot(r_rel), **wit6}
            agree = "error" not in ma and "error" not in mb and norm6(ma["ops"][-1]) == norm6(r_all) and norm6(mb["ops"][-1]) == norm6(r_rel)
            info = ma["ops"][-1] if "error" not in ma else {}
            if agree and info.get("truncated"):
                key = "D8b:keyword-given-positional-beyond-an-omitted-one"
            elif agree and info.get("cc") is False:
                key = "D1:levels-of-unrelated-types"
            else:
                key = None
            if key:
                e = o6["known"].setdefault(key, {"count": 0, "witness": v})
                e["count"] += 1
            else:
                o6["viol"].append(v)
    return out
