"""Correspondence layer H (structural): the real recode.NameConverter applied to generated expressions of the
modelled subset vs the Lean model `Ovld.Rw.rw` (Model/Rewrite.lean) on the same tree.  A translator maps the
Python AST of the rewritten body back into the model's expression language; trees outside the subset are
counted, not compared."""

import ast
import json
import random
import re
import sys

from common import run_driver, use_repo

use_repo()

GLOBS = ["g0", "g1", "recurse", "call_next"]
USER = ["x", "y", "z"]


def gen(rng, depth):
    if depth <= 0:
        r = rng.random()
        if r < 0.4:
            return ["lit", rng.randint(0, 9)]
        if r < 0.8:
            return ["var", ["user", rng.choice(USER)]]
        return ["glob", rng.choice(["g0", "g1"])]
    r = rng.random()
    sub = lambda: gen(rng, depth - 1)  # noqa
    if r < 0.35:
        f = rng.choice(["recurse", "recurse", "call_next", "g0"])
        nargs = rng.choice([0, 1, 1, 2, 3]) if f != "call_next" else rng.choice([1, 1, 2])
        args = [sub() for _ in range(nargs)]
        kws = []
        if rng.random() < 0.35:
            names = rng.sample(["k", "tag", "w"], rng.choice([1, 1, 2]))
            kws = [[n, sub()] for n in names]
        return ["call", ["glob", f], args, kws]
    if r < 0.45:
        return ["named", ["user", rng.choice(USER)], sub()]
    if r < 0.6:
        return ["tick", f"t{rng.randint(0, 99)}", sub()]
    if r < 0.7:
        return ["add", sub(), sub()]
    if r < 0.8:
        return ["ite", sub(), sub(), sub()]
    if r < 0.9:
        return ["tuple", [sub() for _ in range(rng.choice([1, 2, 3]))]]
    return ["subscript", sub(), sub()]


def to_src(e):
    k = e[0]
    if k == "lit":
        return str(e[1])
    if k == "var":
        return e[1][1]
    if k == "glob":
        return e[1]
    if k == "named":
        return f"({e[1][1]} := {to_src(e[2])})"
    if k == "tick":
        return f"TICK({e[1]!r}, {to_src(e[2])})"
    if k == "add":
        return f"({to_src(e[1])} + {to_src(e[2])})"
    if k == "ite":
        return f"({to_src(e[2])} if {to_src(e[1])} else {to_src(e[3])})"
    if k == "call":
        parts = [to_src(a) for a in e[2]] + [f"{n}={to_src(v)}" for n, v in e[3]]
        return f"{to_src(e[1])}({', '.join(parts)})"
    if k == "tuple":
        return "(" + ", ".join(to_src(a) for a in e[1]) + ",)"
    if k == "subscript":
        return f"{to_src(e[1])}[{to_src(e[2])}]"
    raise ValueError(e)


TMP = re.compile(r"^__TMP(\d+)_(.+)$")


class Outside(Exception):
    pass


def name_of(id_):
    m = TMP.match(id_)
    if m:
        s = m.group(2)
        return ["tmp", int(m.group(1)), ["pos", int(s)] if s.isdigit() else ["kw", s]]
    return ["user", id_]


def from_ast(n):
    """Python AST -> model expression (raises Outside for anything the model's language does not have)"""
    if isinstance(n, ast.Constant) and isinstance(n.value, int) and not isinstance(n.value, bool):
        return ["lit", n.value]
    if isinstance(n, ast.Name):
        if n.id in ("g0", "g1", "recurse", "call_next", "type", "MAP", "CODE", "OVLD"):
            return ["glob", n.id]
        return ["var", name_of(n.id)]
    if isinstance(n, ast.NamedExpr):
        return ["named", name_of(n.target.id), from_ast(n.value)]
    if isinstance(n, ast.BinOp) and isinstance(n.op, ast.Add):
        return ["add", from_ast(n.left), from_ast(n.right)]
    if isinstance(n, ast.IfExp):
        return ["ite", from_ast(n.test), from_ast(n.body), from_ast(n.orelse)]
    if isinstance(n, ast.Call):
        if isinstance(n.func, ast.Name) and n.func.id == "TICK":
            return ["tick", n.args[0].value, from_ast(n.args[1])]
        if any(isinstance(a, ast.Starred) for a in n.args) or any(k.arg is None for k in n.keywords):
            raise Outside("starred")
        return ["call", from_ast(n.func), [from_ast(a) for a in n.args], [[k.arg, from_ast(k.value)] for k in n.keywords]]
    if isinstance(n, ast.Tuple):
        # ('name', type(...)) inside a key tuple is the model's `pair`
        if len(n.elts) == 2 and isinstance(n.elts[0], ast.Constant) and isinstance(n.elts[0].value, str):
            return ["pair", n.elts[0].value, from_ast(n.elts[1])]
        return ["tuple", [from_ast(a) for a in n.elts]]
    if isinstance(n, ast.Subscript):
        return ["subscript", from_ast(n.value), from_ast(n.slice)]
    raise Outside(type(n).__name__)


class FakeAnalysis:
    is_method = False
    # a declaration order of the keyword-only parameters that differs from the order at most call sites
    keyword_required = ["w"]
    keyword_optional = ["tag", "k"]
    strict_positional_required = []
    strict_positional_optional = []
    positional_required = []
    positional_optional = []
    complex_transforms = set()

    def lookup_for(self, key):
        return type


def real_rewrite(e):
    from ovld.recode import NameConverter

    src = f"def m(x, y, z):\n    return {to_src(e)}\n"
    tree = ast.parse(src)
    conv = NameConverter(anal=FakeAnalysis(), recurse_sym="recurse", call_next_sym="call_next", ovld_mangled="OVLD", map_mangled="MAP", code_mangled="CODE")
    new = conv.visit(tree)
    ret = new.body[0].body[0].value
    return from_ast(ret)


def run(seed, n):
    rng = random.Random(seed)
    exprs, reals = [], []
    stats = {"generated": 0, "with_call": 0, "outside": 0, "error": 0}
    for _ in range(n):
        e = gen(rng, rng.randint(1, 4))
        stats["generated"] += 1
        s = json.dumps(e)
        if '"recurse"' in s or '"call_next"' in s:
            stats["with_call"] += 1
        try:
            r = real_rewrite(e)
        except Outside:
            stats["outside"] += 1
            continue
        except Exception as ex:  # noqa: e.g. UsageError for a bare call_next
            r = ["error", type(ex).__name__]
            stats["error"] += 1
            if type(ex).__name__ not in ("UsageError",):
                stats.setdefault("unexpected", []).append({"layer": "H", "what": "the rewriter raised on an expression of the modelled subset", "error": f"{type(ex).__name__}: {ex}"[:200], "src": to_src(e)})
        exprs.append(e)
        reals.append(r)
    res = run_driver([{"layer": "H", "exprs": exprs}])[0]
    diffs = list(stats.pop("unexpected", []))[:3]
    if "error" in res:
        return stats, [{"kind": "driver-error", "detail": res["error"]}]
    for e, r, m in zip(exprs, reals, res["rw"]):
        if r and r[0] == "error":
            continue
        if m != r:
            diffs.append({"layer": "H", "expr": e, "src": to_src(e), "model": m, "impl": r})
    return stats, diffs


def worker(payload):
    seed, n, _ = payload
    stats, diffs = run(seed, n)
    return {"ops": stats["generated"], "corr": diffs[:3], "hist": {f"structural:{k}": v for k, v in stats.items()}, "samples": [], "oracles": {}}


if __name__ == "__main__":
    seed = int(sys.argv[1]) if len(sys.argv) > 1 else 0
    n = int(sys.argv[2]) if len(sys.argv) > 2 else 300
    stats, diffs = run(seed, n)
    print(stats, "diffs", len(diffs))
    for d in diffs[:3]:
        print(json.dumps(d)[:1200])
