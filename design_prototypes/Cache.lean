/-! Scratch prototype: MultiTypeMap's caches (dict entries, continuation entries, remembered errors, `all`)
    refine the pure resolution: a lookup after ANY history of lookups returns what it returns on a fresh table. -/
set_option autoImplicit false

abbrev Code := Nat
abbrev Key := Nat            -- an argument-type tuple, abstractly
abbrev Fn := Nat             -- a callable (handler or generated dependent dispatcher), abstractly
abbrev ErrId := Nat
abbrev CKey := Option Code × Key

structure Rank where
  func : Option Fn           -- none: tied static rank
  codes : List Code
  err : ErrId
structure Plan where
  ranks : List Rank          -- [] : no candidate at all
  allCodes : List Code

inductive Res | ok (f : Fn) | amb (e : ErrId) | noMethod (k : Key)
deriving DecidableEq, Repr

inductive W | c (ck : CKey) (f : Fn) | e (ck : CKey) (err : ErrId)

structure St where
  cache : CKey → Option Fn
  errors : CKey → Option ErrId
  all : Key → Option (List Code)

def St.empty : St := ⟨fun _ => none, fun _ => none, fun _ => none⟩

/-- the top-down publication loop of `MultiTypeMap.resolve`, as the list of dict writes it performs -/
def writes (k : Key) : List Rank → List Code → List W
  | [], _ => []
  | r :: rs, parents =>
    let tups : List CKey := if parents = [] then [(none, k)] else parents.map (fun p => (some p, k))
    match r.func with
    | none => tups.map (fun t => W.e t r.err)
    | some f => tups.map (fun t => W.c t f) ++ (if r.codes = [] then [] else writes k rs r.codes)

def applyW (st : St) : List W → St
  | [] => st
  | .c ck f :: ws => applyW { st with cache := fun x => if x = ck then some f else st.cache x } ws
  | .e ck err :: ws => applyW { st with errors := fun x => if x = ck then some err else st.errors x } ws

/-- last value written to `ck` in the cache / in errors -/
def lastC (ck : CKey) : List W → Option Fn
  | [] => none
  | .c ck' f :: ws => match lastC ck ws with | some g => some g | none => if ck = ck' then some f else none
  | .e _ _ :: ws => lastC ck ws
def lastE (ck : CKey) : List W → Option ErrId
  | [] => none
  | .e ck' f :: ws => match lastE ck ws with | some g => some g | none => if ck = ck' then some f else none
  | .c _ _ :: ws => lastE ck ws

theorem applyW_cache (ws : List W) : ∀ (st : St) (ck : CKey),
    (applyW st ws).cache ck = match lastC ck ws with | some f => some f | none => st.cache ck := by
  induction ws with
  | nil => intro st ck; rfl
  | cons w ws ih =>
    intro st ck
    cases w with
    | c ck' f =>
      simp only [applyW, lastC]; rw [ih]
      cases lastC ck ws with
      | some g => simp
      | none => by_cases h : ck = ck' <;> simp [h]
    | e ck' err => simp only [applyW, lastC]; rw [ih]
theorem applyW_errors (ws : List W) : ∀ (st : St) (ck : CKey),
    (applyW st ws).errors ck = match lastE ck ws with | some f => some f | none => st.errors ck := by
  induction ws with
  | nil => intro st ck; rfl
  | cons w ws ih =>
    intro st ck
    cases w with
    | e ck' f =>
      simp only [applyW, lastE]; rw [ih]
      cases lastE ck ws with
      | some g => simp
      | none => by_cases h : ck = ck' <;> simp [h]
    | c ck' err => simp only [applyW, lastE]; rw [ih]
theorem applyW_all (ws : List W) : ∀ (st : St), (applyW st ws).all = st.all := by
  induction ws with
  | nil => intro st; rfl
  | cons w ws ih => intro st; cases w <;> simp [applyW, ih]

/-- writes of key k only touch composite keys whose tuple part is k -/
theorem writes_key (k : Key) : ∀ (rs : List Rank) (ps : List Code) (ck : CKey), ck.2 ≠ k →
    lastC ck (writes k rs ps) = none ∧ lastE ck (writes k rs ps) = none := by
  intro rs
  induction rs with
  | nil => intro ps ck _; simp [writes, lastC, lastE]
  | cons r rs ih =>
    intro ps ck hk
    have hC : ∀ (tups : List CKey) (f : Fn) (tail : List W), (∀ t ∈ tups, t.2 = k) →
        lastC ck tail = none → lastC ck (tups.map (fun t => W.c t f) ++ tail) = none := by
      intro tups f tail ht htl
      induction tups with
      | nil => simpa using htl
      | cons t ts ih2 =>
        have := ih2 (fun t' h' => ht t' (List.mem_cons_of_mem _ h'))
        simp only [List.map_cons, List.cons_append, lastC, this]
        have : ck ≠ t := fun e => hk (e ▸ ht t (List.mem_cons_self ..))
        simp [this]
    have hE1 : ∀ (tups : List CKey) (f : Fn) (tail : List W),
        lastE ck (tups.map (fun t => W.c t f) ++ tail) = lastE ck tail := by
      intro tups f tail
      induction tups with
      | nil => rfl
      | cons t ts ih2 => simpa [lastE] using ih2
    have hE2 : ∀ (tups : List CKey) (e : ErrId), (∀ t ∈ tups, t.2 = k) → lastE ck (tups.map (fun t => W.e t e)) = none := by
      intro tups e ht
      induction tups with
      | nil => rfl
      | cons t ts ih2 =>
        have := ih2 (fun t' h' => ht t' (List.mem_cons_of_mem _ h'))
        simp only [List.map_cons, lastE, this]
        have : ck ≠ t := fun e => hk (e ▸ ht t (List.mem_cons_self ..))
        simp [this]
    have hC2 : ∀ (tups : List CKey) (e : ErrId), lastC ck (tups.map (fun t => W.e t e)) = none := by
      intro tups e
      induction tups with
      | nil => rfl
      | cons t ts ih2 => simpa [lastC] using ih2
    have htups : ∀ t ∈ (if ps = [] then [((none : Option Code), k)] else ps.map (fun p => (some p, k))), t.2 = k := by
      intro t ht
      split at ht
      · simp at ht; rw [ht]
      · simp at ht; obtain ⟨_, _, rfl⟩ := ht; rfl
    simp only [writes]
    cases hf : r.func with
    | none => exact ⟨hC2 _ _, hE2 _ _ htups⟩
    | some f =>
      simp only []
      by_cases hc : r.codes = []
      · simp only [hc, if_true]
        exact ⟨hC _ _ _ htups rfl, by rw [hE1]; rfl⟩
      · simp only [hc, if_false]
        have := ih r.codes ck hk
        exact ⟨hC _ _ _ htups this.1, by rw [hE1]; exact this.2⟩

section
variable (plan : Key → Plan)

def ws (k : Key) : List W := writes k (plan k).ranks []

/-- `resolve(k)`: `mro` records the candidate codes, then the ranks are published -/
def resolve (k : Key) (st : St) : St :=
  applyW { st with all := fun k' => if k' = k then some (plan k).allCodes else st.all k' } (ws plan k)

/-- ordinary key: `dict.__getitem__`, else `__missing__` -/
def lookupTop (st : St) (k : Key) : St × Res :=
  match st.cache (none, k) with
  | some f => (st, .ok f)
  | none =>
    let st' := resolve plan k st
    if (plan k).ranks = [] then (st', .noMethod k)
    else match st'.errors (none, k) with
      | some e => (st', .amb e)
      | none => match st'.cache (none, k) with
        | some f => (st', .ok f)
        | none => (st', .noMethod k)   -- unreachable; kept total

/-- continuation key `(code, *k)` -/
def lookupNext (st : St) (c : Code) (k : Key) : St × Res :=
  match st.cache (some c, k) with
  | some f => (st, .ok f)
  | none =>
    match lookupTop plan st k with
    | (st', .ok f) =>
      match st'.all k with
      | none => (st', .noMethod k)     -- a KeyError in the code; unreachable on reachable states
      | some cs =>
        if c ∉ cs then (st', .ok f)
        else match st'.errors (some c, k) with
          | some e => (st', .amb e)
          | none => match st'.cache (some c, k) with
            | some f' => (st', .ok f')
            | none => (st', .noMethod k)
    | (st', r) => (st', r)

def lookup (st : St) : CKey → St × Res
  | (none, k) => lookupTop plan st k
  | (some c, k) => lookupNext plan st c k

def run (st : St) : List CKey → St
  | [] => st
  | ck :: rest => run (lookup plan st ck).1 rest

/-- everything cached is what a resolution of that key on an empty table publishes; and once a key has
    been resolved (`all` set) everything it publishes is present -/
structure CInv (st : St) : Prop where
  cache_sub : ∀ ck f, st.cache ck = some f → lastC ck (ws plan ck.2) = some f
  errors_sub : ∀ ck e, st.errors ck = some e → lastE ck (ws plan ck.2) = some e
  all_eq : ∀ k cs, st.all k = some cs → cs = (plan k).allCodes
  closed_c : ∀ k, st.all k ≠ none → ∀ c, st.cache (c, k) = lastC (c, k) (ws plan k)
  closed_e : ∀ k, st.all k ≠ none → ∀ c, st.errors (c, k) = lastE (c, k) (ws plan k)
  top_all : ∀ k f, st.cache (none, k) = some f → st.all k ≠ none

theorem inv_empty : CInv plan St.empty :=
  { cache_sub := by intro _ _ h; cases h
    errors_sub := by intro _ _ h; cases h
    all_eq := by intro _ _ h; cases h
    closed_c := by intro _ h; exact absurd rfl h
    closed_e := by intro _ h; exact absurd rfl h
    top_all := by intro _ _ h; cases h }

theorem resolve_cache (st : St) (k : Key) (ck : CKey) :
    (resolve plan k st).cache ck = match lastC ck (ws plan k) with | some f => some f | none => st.cache ck := by
  unfold resolve; rw [applyW_cache]
theorem resolve_errors (st : St) (k : Key) (ck : CKey) :
    (resolve plan k st).errors ck = match lastE ck (ws plan k) with | some f => some f | none => st.errors ck := by
  unfold resolve; rw [applyW_errors]
theorem resolve_all (st : St) (k k' : Key) :
    (resolve plan k st).all k' = if k' = k then some (plan k).allCodes else st.all k' := by
  unfold resolve; rw [applyW_all]

theorem inv_resolve (st : St) (k : Key) (h : CInv plan st) : CInv plan (resolve plan k st) := by
  have loc := fun ck (hk : ck.2 ≠ k) => writes_key k (plan k).ranks [] ck hk
  refine ⟨?_, ?_, ?_, ?_, ?_, ?_⟩
  · intro ck f hc
    rw [resolve_cache] at hc
    by_cases hk : ck.2 = k
    · cases hl : lastC ck (ws plan k) with
      | some g => rw [hl] at hc; simp at hc; subst hc; rw [hk]; exact hl
      | none => rw [hl] at hc; simp at hc; exact h.cache_sub ck f hc
    · have := (loc ck hk).1
      unfold ws at hc; rw [this] at hc; exact h.cache_sub ck f hc
  · intro ck e hc
    rw [resolve_errors] at hc
    by_cases hk : ck.2 = k
    · cases hl : lastE ck (ws plan k) with
      | some g => rw [hl] at hc; simp at hc; subst hc; rw [hk]; exact hl
      | none => rw [hl] at hc; simp at hc; exact h.errors_sub ck e hc
    · have := (loc ck hk).2
      unfold ws at hc; rw [this] at hc; exact h.errors_sub ck e hc
  · intro k' cs hc
    rw [resolve_all] at hc
    by_cases hk : k' = k
    · subst hk; simp at hc; exact hc.symm
    · simp [hk] at hc; exact h.all_eq k' cs hc
  · intro k' ha c
    rw [resolve_cache]
    by_cases hk : k' = k
    · subst hk
      cases hl : lastC (c, k') (ws plan k') with
      | some g => rfl
      | none =>
        simp only []
        cases hs : st.cache (c, k') with
        | none => rfl
        | some f => have := h.cache_sub (c, k') f hs; simp at this; rw [hl] at this; cases this
    · have := (loc (c, k') hk).1
      unfold ws; rw [this]
      rw [resolve_all] at ha; simp [hk] at ha
      exact h.closed_c k' ha c
  · intro k' ha c
    rw [resolve_errors]
    by_cases hk : k' = k
    · subst hk
      cases hl : lastE (c, k') (ws plan k') with
      | some g => rfl
      | none =>
        simp only []
        cases hs : st.errors (c, k') with
        | none => rfl
        | some f => have := h.errors_sub (c, k') f hs; simp at this; rw [hl] at this; cases this
    · have := (loc (c, k') hk).2
      unfold ws; rw [this]
      rw [resolve_all] at ha; simp [hk] at ha
      exact h.closed_e k' ha c
  · intro k' f hc
    rw [resolve_all]
    by_cases hk : k' = k
    · simp [hk]
    · simp only [hk, if_false]
      rw [resolve_cache] at hc
      have := (loc (none, k') hk).1
      unfold ws at hc; rw [this] at hc
      exact h.top_all k' f hc
end

section
variable (plan : Key → Plan)

/-- what a lookup of an ordinary key returns on a table with nothing cached -/
def pureTop (k : Key) : Res :=
  if (plan k).ranks = [] then .noMethod k
  else match lastE (none, k) (ws plan k) with
    | some e => .amb e
    | none => match lastC (none, k) (ws plan k) with
      | some f => .ok f
      | none => .noMethod k

def pureNext (c : Code) (k : Key) : Res :=
  match pureTop plan k with
  | .ok f =>
    if c ∉ (plan k).allCodes then .ok f
    else match lastE (some c, k) (ws plan k) with
      | some e => .amb e
      | none => match lastC (some c, k) (ws plan k) with
        | some f' => .ok f'
        | none => .noMethod k
  | r => r

def pureLookup : CKey → Res
  | (none, k) => pureTop plan k
  | (some c, k) => pureNext plan c k

/-- Structural fact about the publication loop used below: a published first rank means the plan has ranks
    and the top key has no remembered error (an error at the top is written *instead of* an entry). -/
structure PlanOK : Prop where
  top_entry_ranks : ∀ k f, lastC (none, k) (ws plan k) = some f → (plan k).ranks ≠ []
  top_excl : ∀ k f, lastC (none, k) (ws plan k) = some f → lastE (none, k) (ws plan k) = none
  next_entry_no_err : ∀ c k f, lastC (some c, k) (ws plan k) = some f → lastE (some c, k) (ws plan k) = none
  next_entry_top : ∀ c k f, lastC (some c, k) (ws plan k) = some f → (plan k).ranks ≠ [] ∧ lastE (none, k) (ws plan k) = none ∧ ∃ g, lastC (none, k) (ws plan k) = some g
  next_entry_code : ∀ c k f, lastC (some c, k) (ws plan k) = some f → c ∈ (plan k).allCodes

theorem lookupTop_spec (ok : PlanOK plan) (st : St) (k : Key) (h : CInv plan st) :
    (lookupTop plan st k).2 = pureTop plan k ∧ CInv plan (lookupTop plan st k).1 := by
  unfold lookupTop
  cases hc : st.cache (none, k) with
  | some f =>
    refine ⟨?_, h⟩
    have l := h.cache_sub (none, k) f hc
    simp only [] at l
    simp only [pureTop, ok.top_entry_ranks k f l, if_false, ok.top_excl k f l, l]
  | none =>
    simp only []
    have hi := inv_resolve plan st k h
    by_cases hr : (plan k).ranks = []
    · simp only [hr, if_true]; exact ⟨by simp [pureTop, hr], hi⟩
    · simp only [hr, if_false]
      have ha : (resolve plan k st).all k ≠ none := by rw [resolve_all]; simp
      have ec := hi.closed_c k ha none
      have ee := hi.closed_e k ha none
      rw [ee, ec]
      simp only [pureTop, hr, if_false]
      cases lastE (none, k) (ws plan k) with
      | some e => exact ⟨rfl, hi⟩
      | none =>
        cases lastC (none, k) (ws plan k) with
        | some f => exact ⟨rfl, hi⟩
        | none => exact ⟨rfl, hi⟩

theorem lookupTop_all (st : St) (k : Key) (h : CInv plan st) (f : Fn)
    (hr : (lookupTop plan st k).2 = .ok f) : (lookupTop plan st k).1.all k ≠ none := by
  unfold lookupTop at hr ⊢
  cases hc : st.cache (none, k) with
  | some g => simp only []; exact h.top_all k g hc
  | none =>
    simp only [hc] at hr ⊢
    by_cases hr' : (plan k).ranks = []
    · simp [hr'] at hr
    · simp only [hr', if_false] at hr ⊢
      have ha : (resolve plan k st).all k ≠ none := by rw [resolve_all]; simp
      cases he : (resolve plan k st).errors (none, k) with
      | some e => simp [he] at hr
      | none =>
        simp only [he] at hr ⊢
        cases hcc : (resolve plan k st).cache (none, k) with
        | some g => simpa using ha
        | none => simp [hcc] at hr

theorem lookupNext_spec (ok : PlanOK plan) (st : St) (c : Code) (k : Key) (h : CInv plan st) :
    (lookupNext plan st c k).2 = pureNext plan c k ∧ CInv plan (lookupNext plan st c k).1 := by
  unfold lookupNext
  cases hc : st.cache (some c, k) with
  | some f =>
    refine ⟨?_, h⟩
    have l := h.cache_sub (some c, k) f hc
    simp only [] at l
    obtain ⟨hr, he, g, hg⟩ := ok.next_entry_top c k f l
    have hcode := ok.next_entry_code c k f l
    have hne := ok.next_entry_no_err c k f l
    simp [pureNext, pureTop, hr, he, hg, hcode, hne, l]
  | none =>
    simp only []
    have ⟨ht, hi⟩ := lookupTop_spec plan ok st k h
    have hall := lookupTop_all plan st k h
    generalize hl : lookupTop plan st k = p at ht hi hall
    obtain ⟨st', r⟩ := p
    simp only [] at ht hi hall
    subst ht
    unfold pureNext
    cases hp : pureTop plan k with
    | amb e => exact ⟨rfl, hi⟩
    | noMethod k' => exact ⟨rfl, hi⟩
    | ok f =>
      simp only []
      have ha := hall f hp
      cases hA : st'.all k with
      | none => exact absurd hA ha
      | some cs =>
        have hcs := hi.all_eq k cs hA
        subst hcs
        simp only []
        by_cases hm : c ∈ (plan k).allCodes
        · simp only [hm, not_true_eq_false, if_false]
          rw [hi.closed_e k ha (some c), hi.closed_c k ha (some c)]
          cases lastE (some c, k) (ws plan k) with
          | some e => exact ⟨rfl, hi⟩
          | none =>
            cases lastC (some c, k) (ws plan k) with
            | some f' => exact ⟨rfl, hi⟩
            | none => exact ⟨rfl, hi⟩
        · simp only [hm, not_false_eq_true, if_true]; exact ⟨trivial, hi⟩

theorem lookup_spec (ok : PlanOK plan) (st : St) (ck : CKey) (h : CInv plan st) :
    (lookup plan st ck).2 = pureLookup plan ck ∧ CInv plan (lookup plan st ck).1 := by
  obtain ⟨c, k⟩ := ck
  cases c with
  | none => exact lookupTop_spec plan ok st k h
  | some c => exact lookupNext_spec plan ok st c k h

theorem inv_run (ok : PlanOK plan) : ∀ (hist : List CKey) (st : St), CInv plan st → CInv plan (run plan st hist)
  | [], _, h => h
  | ck :: rest, st, h => inv_run ok rest _ (lookup_spec plan ok st ck h).2

/-- C04 (table level): after any history of lookups a lookup returns what it returns on a fresh table -/
theorem C04_history_independent (ok : PlanOK plan) (hist : List CKey) (ck : CKey) :
    (lookup plan (run plan St.empty hist) ck).2 = (lookup plan St.empty ck).2 := by
  rw [(lookup_spec plan ok _ ck (inv_run plan ok hist _ (inv_empty plan))).1,
      (lookup_spec plan ok _ ck (inv_empty plan)).1]
end
#print axioms C04_history_independent
