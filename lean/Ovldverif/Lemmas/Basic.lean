import Ovldverif.Spec.Types
/-! Helper lemmas about sizes and one-step unfoldings. -/
set_option autoImplicit false
namespace Ovld

theorem Ty.size_pos (t : Ty) : 0 < t.size := by
  cases t <;> simp [Ty.size] <;> omega

theorem Ty.mem_sizeL {t : Ty} {ts : List Ty} (h : t ∈ ts) : t.size ≤ Ty.sizeL ts := by
  induction ts with
  | nil => cases h
  | cons a as ih =>
    simp [Ty.sizeL]
    rcases List.mem_cons.mp h with e | e
    · subst e; omega
    · have := ih e; omega

theorem Ty.ne_of_size_lt {a b : Ty} (h : a.size < b.size) : a ≠ b := by
  intro e; subst e; omega

theorem Ty.beq_false_of_ne {a b : Ty} (h : a ≠ b) : Ty.beq a b = false := by
  cases e : Ty.beq a b
  · rfl
  · exact absurd ((Ty.beq_iff a b).mp e) h

variable (H : Hier)

theorem tord_self (f : Nat) (t : Ty) : tord H (f + 1) t t = .same := by
  rw [tord]; simp [Ty.beq_refl]

theorem subc_self (f : Nat) (t : Ty) : subc H (f + 1) t t = true := by
  rw [subc]; simp [Ty.beq_refl]

end Ovld
