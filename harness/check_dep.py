"""Value-dependent dispatch (C10, C11): correspondence E (generated dispatcher vs model) and the function-level
pipeline with dependent methods (correspondence F), plus oracles on the real code built from Python's own
`isinstance` on the live annotation objects: within a rank exactly one handler whose conditions hold runs; none
-> fall through; several -> ambiguity; the user's condition is never evaluated outside its bound; and for whole
functions: delete every method whose value condition fails, then apply the documented rule."""

import json
import random

from common import run_driver, use_repo

use_repo()
import corr_e  # noqa: E402
from corr_f import canon_model_op  # noqa: E402
from fngen_dep import gen_dep_fn_scenario, to_model_dep  # noqa: E402
from fnlevel import FnWorld  # noqa: E402


def kinds_of(d, acc=None):
    acc = acc if acc is not None else set()
    acc.add(d[0])
    if d[0] in ("union", "inter"):
        for x in d[1]:
            kinds_of(x, acc)
    elif d[0] == "prod":
        for x in d[1]:
            kinds_of(x, acc)
    elif d[0] in ("lit", "fdep"):
        kinds_of(d[-1], acc)
    elif d[0] == "gen":
        for x in d[2]:
            kinds_of(x, acc)
    return acc


def combo_with_dep(d):
    """a union / intersection with a value-dependent member (findings D7, D26, D27, D29)"""
    if d[0] in ("union", "inter"):
        return any(x[0] in ("lit", "fdep", "prod", "union", "inter", "gen", "exactly", "strict", "hasm", "pred") for x in d[1])
    return False


def safe_isinstance(v, T):
    try:
        return bool(isinstance(v, T))
    except Exception:
        return False


def desc_holds(ew, d, v):
    """does value `v` belong to the declared type `d`, read off the declaration itself: an instance of the declared
    bound that satisfies the declared condition (independent of the type object the library built for it)"""
    k = d[0]
    if k == "lit":
        return desc_holds(ew, d[2], v) and any(v is corr_e.POOL[i] or v == corr_e.POOL[i] for i in d[1])
    if k == "prod":
        return (desc_holds(ew, d[2], v) and isinstance(v, tuple) and len(v) == len(d[1])
                and all(desc_holds(ew, t, x) for t, x in zip(d[1], v)))
    if k == "fdep":
        if not desc_holds(ew, d[3], v):
            return False
        fn = d[1]
        params = tuple(ew.param_obj(fn, p) for p in d[2])
        if fn == corr_e.FN_STARTS:
            return v.startswith(params[0])
        if fn == corr_e.FN_ENDS:
            return v.endswith(params[0])
        if fn == corr_e.FN_HASKEY:
            return all(q in v for q in params)
        if fn == corr_e.FN_REGEXP:
            import re

            return bool(re.compile(params[0]).search(v))
        n = len(ew.pred_log)
        try:
            return bool(ew.dep_check(fn, v, params))
        finally:
            del ew.pred_log[n:]
    if k == "union":
        return any(desc_holds(ew, x, v) for x in d[1])
    if k == "inter":
        return all(desc_holds(ew, x, v) for x in d[1])
    saved = list(ew.w.pred_calls)
    try:
        return safe_isinstance(v, ew.ty(d))
    finally:
        ew.w.pred_calls[:] = saved


def worker_e(payload):
    seed, n, steer = payload
    rng = random.Random(seed)
    scs, impls, keep = [], [], []
    for _ in range(n):
        w, ew, sc = corr_e.gen_scenario(rng, steer=steer if steer else ("literals" if rng.random() < 0.3 else None))
        m = corr_e.to_model(w, ew, sc)
        impls.append(corr_e.run_impl(w, ew, sc))
        scs.append(m)
        keep.append((w, ew, sc))
    res = run_driver(scs)
    out = {"ops": 0, "corr": [], "hist": {}, "samples": [], "oracles": {}}

    def orc(name):
        return out["oracles"].setdefault(name, {"n": 0, "nontrivial": 0, "viol": [], "known": {}})

    def known(o, key, witness):
        e = o["known"].setdefault(key, {"count": 0, "witness": witness})
        e["count"] += 1

    for i, (r, im) in enumerate(zip(res, impls)):
        w, ew, sc = keep[i]
        desc = {"world": w.desc, "scenario": {k: v for k, v in sc.items() if k != "calls"}, "calls": [[corr_e.stable_repr(v) for v in a] for a in sc["calls"]]}
        if "error" in r:
            out["corr"].append({"layer": "E", "kind": "driver-error", "detail": r["error"], "scenario": desc})
            continue
        out["hist"]["strategy:" + im["strategy"]] = out["hist"].get("strategy:" + im["strategy"], 0) + 1
        if r["strategy"] != im["strategy"]:
            out["corr"].append({"layer": "E", "kind": "strategy", "model": r["strategy"], "impl": im["strategy"], "src": im.get("src"), "scenario": desc})
            # another body is not wrong by itself: the oracles below (real code only) decide on these very calls;
            # the model's answers are not compared any further
            r = dict(r)
            r["res"] = list(im["res"])
        htys = {h["id"]: [ew.ty(t[2]) for t in h["types"]] for h in sc["handlers"]}
        hdesc = {h["id"]: [t[2] for t in h["types"]] for h in sc["handlers"]}
        any_combo = any(combo_with_dep(t) for ts in hdesc.values() for t in ts)
        multi_lit = any(t[0] == "lit" and len(set(t[1])) > 1 for ts in hdesc.values() for t in ts)
        for j, (a, b) in enumerate(zip(r["res"], im["res"])):
            out["ops"] += 1
            out["hist"]["result:" + b[0]] = out["hist"].get("result:" + b[0], 0) + 1
            stop_after = False
            if a != b:
                out["corr"].append({"layer": "E", "call": j, "model": a, "impl": b, "src": im.get("src"), "scenario": desc})
                stop_after = True  # the oracle below looks at the real code only: evaluate it here too
            args = sc["calls"][j]
            M = [hid for hid, ts in htys.items() if all(safe_isinstance(v, T) for v, T in zip(args, ts))]
            want = ["handler", M[0]] if len(M) == 1 else (["fallthrough"] if not M else ["ambiguous"])
            for name in ("C10", "C11"):
                o = orc(name)
                o["n"] += 1
                if len(sc["handlers"]) > 1 and M:
                    o["nontrivial"] += 1
            o1e = orc("C01")
            o1e["n"] += 1
            if b[0] == "handler":
                o1e["nontrivial"] += 1
                if b[1] not in M:
                    o1e["viol"].append({"law": "a value dispatcher selected a handler one of whose declared types rejects the value (isinstance)", "kind": "dep-rank", "world": w.desc, "scenario": sc_json(sc), "call": j, "impl": b, "accepting": M})
            if b != want:
                wit = {"kind": "dep-rank", "world": w.desc, "scenario": sc_json(sc), "call": j, "impl": b, "want": want, "strategy": im["strategy"]}
                if im["strategy"] == "keyed" and b[0] == "raised":
                    key = "D32:unhashable-argument-on-the-literal-table-path"
                else:
                    key = None
                for name in ("C10", "C11"):
                    if key:
                        known(orc(name), key, wit)
                    else:
                        orc(name)["viol"].append({"law": "within a rank exactly the handlers whose isinstance holds may run", **wit, "src": im.get("src")})
            # the user's condition is only ever asked about values inside the bound
            for (fn, params, value) in im["guard"][j] if j < len(im["guard"]) else []:
                bounds = []
                for ts in hdesc.values():
                    for t in ts:
                        for fd in corr_e.all_fdeps(t, []):
                            if fd[1] == fn and tuple(ew.param_obj(fn, p) for p in fd[2]) == tuple(params):
                                bounds.append(ew.ty(fd[3]))
                o = orc("C10")
                if bounds and not any(safe_isinstance(value, B) for B in bounds):
                    wit = {"kind": "dep-rank", "world": w.desc, "scenario": sc_json(sc), "call": j, "guard": [fn, list(params), corr_e.stable_repr(value)]}
                    o["viol"].append({"law": "user condition evaluated on a value outside its bound", **wit})
            if stop_after:
                break
        if len(out["samples"]) < 1 and im["res"]:
            out["samples"].append({"handlers": sc["handlers"], "call": [corr_e.stable_repr(v) for v in sc["calls"][0]], "strategy": im["strategy"], "impl": im["res"][0]})
    return out


def sc_json(sc):
    return {"slots": sc["slots"], "key_classes": sc["key_classes"], "handlers": sc["handlers"], "calls_repr": [[corr_e.stable_repr(v) for v in a] for a in sc["calls"]], "call_idx": None}


# ------------------------------------------------------------------ whole functions


def py_spec(fw, ew, sc, regs, pos, kw=()):
    """delete the methods whose value condition (read off the declarations: instance of the declared bound that
    satisfies the declared condition, on every supplied argument, keyword-only ones included) fails, then the
    documented rule with the library's own type order for "more specific" (a dependent type is below its bound)"""
    from ovld.mro import Order, typeorder

    args = [fw.vals[i] for i in pos]
    kwv = [(n, fw.vals[i]) for n, i in kw]
    slots = list(range(len(args))) + [("k", n) for n, _ in kwv]
    supplied = args + [v for _, v in kwv]

    def param_at(d, slot):
        if isinstance(slot, int):
            ps = [p for p in d["params"] if p["kind"] != "ko"]
            return ps[slot] if slot < len(ps) else None
        for p in d["params"]:
            if p["kind"] == "ko" and p["name"] == slot[1]:
                return p
        return None

    def shape_ok(d):
        ps = [p for p in d["params"] if p["kind"] != "ko"]
        # the supplied positionals must cover the required ones and not exceed the declared ones; every supplied
        # keyword must be a keyword-only parameter of the method and every required keyword-only one be supplied
        if not (len([p for p in ps if p["req"]]) <= len(args) <= len(ps)):
            return False
        if any(param_at(d, ("k", n)) is None for n, _ in kwv):
            return False
        given = {n for n, _ in kwv}
        return all(p["name"] in given for p in d["params"] if p["kind"] == "ko" and p["req"])

    app = []
    py_spec.mismatch = []
    for di in regs:
        d = sc["defs"][di]
        if not shape_ok(d):
            continue
        ps = [param_at(d, sl) for sl in slots]
        live = [safe_isinstance(v, fw.glb[f"T_{d['id']}_{p['name']}"]) for v, p in zip(supplied, ps)]
        try:
            decl = [bool(desc_holds(ew, p["ty"], v)) for v, p in zip(supplied, ps)]
        except Exception:
            decl = live  # a declared condition that raises on this value (outside its bound): no verdict
        if decl != live:
            py_spec.mismatch.append((d["id"], [p["name"] for p, a, b in zip(ps, live, decl) if a != b], live, decl))
        if all(decl):
            app.append(d)

    def ty(d, sl):
        return fw.glb[f"T_{d['id']}_{param_at(d, sl)['name']}"]

    def order(m, m2, sl):
        # two value-dependent declarations whose declared bounds are different plain classes are ordered the way
        # those bounds are (read off the declarations, not off the type objects built for them)
        d1, d2 = param_at(m, sl)["ty"], param_at(m2, sl)["ty"]
        if d1[0] in ("lit", "fdep", "prod") and d2[0] in ("lit", "fdep", "prod"):
            b1, b2 = d1[-1], d2[-1]
            if b1[0] in ("cls", "pred") and b2[0] in ("cls", "pred") and b1 != b2:
                saved = list(ew.w.pred_calls)
                try:
                    o = typeorder(ew.ty(b1), ew.ty(b2))
                finally:
                    ew.w.pred_calls[:] = saved
                if o in (Order.LESS, Order.MORE):
                    return o
        return typeorder(ty(m, sl), ty(m2, sl))

    def beats(m, m2):
        if m["prio"] != m2["prio"]:
            return m["prio"] > m2["prio"]
        os_ = [order(m, m2, sl) for sl in slots]
        if all(o in (Order.LESS, Order.SAME) for o in os_) and any(o is Order.LESS for o in os_):
            return True
        same_sig = len(m["params"]) == len(m2["params"]) and all(
            a["name"] == b["name"] and a["kind"] == b["kind"] and a["req"] == b["req"]
            and fw.glb[f"T_{m['id']}_{a['name']}"] == fw.glb[f"T_{m2['id']}_{b['name']}"] for a, b in zip(m["params"], m2["params"]))
        if all(o is Order.SAME for o in os_) and same_sig:
            # identical signatures (every declared parameter, supplied or not): the most recently registered wins
            return regs.index(m["id"]) > regs.index(m2["id"])
        return False

    winners = [m for m in app if all(m2 is m or beats(m, m2) for m2 in app)]
    # comparable: every two applicable methods are ordered (or the same) in every position (else: finding D1)
    comparable = all(
        order(m, m2, sl) is not Order.NONE and order(m2, m, sl) is not Order.NONE
        for m in app for m2 in app if m is not m2 for sl in slots
    )
    py_spec.comparable = comparable
    # value-dependent methods that are candidates at the type level but whose condition fails on these values
    from ovld.mro import subclasscheck as _sc

    def type_level(d):
        if not shape_ok(d):
            return False
        try:
            return all(_sc(type(v), ty(d, sl)) for v, sl in zip(supplied, slots))
        except Exception:
            return False

    py_spec.failing_candidates = [sc["defs"][di]["id"] for di in regs if sc["defs"][di] not in app and type_level(sc["defs"][di])]
    if len(winners) == 1:
        return ["ran", winners[0]["id"]], len(app)
    return (["nomethod"] if not app else ["ambiguous"]), len(app)


def worker_f(payload):
    seed, n, steer = payload
    rng = random.Random(seed)
    scs, impls, keep = [], [], []
    for _ in range(n):
        w, ew, sc = gen_dep_fn_scenario(rng, steer=steer if steer else ("literals" if rng.random() < 0.3 else None))
        fw = FnWorld(w, sc, ew=ew)
        m = to_model_dep(w, ew, sc, fw.vals)
        impls.append(fw.run())
        scs.append(m)
        keep.append((w, ew, sc, fw))
    res = run_driver(scs)
    out = {"ops": 0, "corr": [], "hist": {}, "samples": [], "oracles": {}}

    def orc(name):
        return out["oracles"].setdefault(name, {"n": 0, "nontrivial": 0, "viol": [], "known": {}})

    def known(o, key, witness):
        if stop_flag[0]:
            o["viol"].append({"law": f"fails inside class {key} but differently from the model", **witness})
            return
        e = o["known"].setdefault(key, {"count": 0, "witness": witness})
        e["count"] += 1

    stop_flag = [False]
    for i, (r, im) in enumerate(zip(res, impls)):
        w, ew, sc, fw = keep[i]
        desc = {"world": w.desc, "scenario": sc}
        if "error" in r:
            out["corr"].append({"layer": "F", "kind": "driver-error", "detail": r["error"], "scenario": desc})
            continue
        regs = []
        warmed = {}
        for j, (a, b) in enumerate(zip(r["ops"], im)):
            out["ops"] += 1
            op = sc["ops"][j]
            ma = canon_model_op(a)
            mb = {k: v for k, v in b.items() if k in ("o", "t", "nres")}
            if mb["o"] == ["cycle"]:
                ma.pop("nres", None)
                mb.pop("nres", None)
            stop_after = False
            stop_flag[0] = ma != mb
            if ma != mb:
                out["corr"].append({"layer": "F", "op_index": j, "op": op, "model": ma, "impl": mb, "msg": b.get("msg"), "scenario": desc})
                stop_after = True
                if op[0] != "call":
                    break
            if op[0] == "reg":
                regs.append(op[1])
                warmed = {}
                continue
            if op[0] != "call":
                continue
            out["hist"]["outcome:" + b["o"][0]] = out["hist"].get("outcome:" + b["o"][0], 0) + 1
            # C20: a call that already succeeded consults no user predicate and resolves nothing when repeated
            ck = json.dumps(op)
            if ck in warmed and "npred" in b:
                o20 = orc("C20")
                o20["n"] += 1
                if any("pred" in kinds_of(p["ty"]) for di in regs for p in sc["defs"][di]["params"]):
                    o20["nontrivial"] += 1
                if b["npred"] or b.get("nres"):
                    o20["viol"].append({"law": "a repeated successful call consulted user class predicates / resolved again", "npred": b["npred"], "nres": b.get("nres"), "kind": "fn-dep", "world": w.desc, "scenario": sc, "op_index": j})
            if b["o"][0] == "ran":
                warmed[ck] = True
            # C04: the same call made first on a brand-new function (same registration history, no earlier call)
            if j % 2 == 0 or stop_flag[0]:
                o4 = orc("C04")
                sc2 = dict(sc)
                sc2["ops"] = [x for x in sc["ops"][:j] if x[0] != "call"] + [op]
                try:
                    fr = FnWorld(w, sc2, ew=ew).run()[-1]
                except Exception as e:  # noqa
                    fr = {"o": ["harness", type(e).__name__], "t": []}
                o4["n"] += 1
                if len(b.get("t", [])) > 1 or b["o"][0] == "ambiguous":
                    o4["nontrivial"] += 1
                if (fr["o"], fr.get("t")) != (b["o"], b.get("t")):
                    o4["viol"].append({"law": "call differs from the same call made first on a fresh function", "fresh": {"o": fr["o"], "t": fr.get("t")}, "impl": {"o": b["o"], "t": b.get("t")}, "kind": "fn-dep", "world": w.desc, "scenario": sc, "op_index": j})
            # C01: every entered body got arguments that satisfy its annotations (isinstance)
            o1 = orc("C01")
            for (mid, bad) in b.get("acc", []):
                o1["n"] += 1
                o1["nontrivial"] += 1
                if bad:
                    d = fw.defs_by_id[mid]
                    wit = {"kind": "fn-dep", "world": w.desc, "scenario": sc, "op_index": j}
                    o1["viol"].append({"law": "method entered with a value its annotation excludes", "method": mid, "params": bad, **wit})
            # C10 / C11: delete the methods whose condition fails, then the documented rule
            want, napp = py_spec(fw, ew, sc, regs, op[1], op[2])
            for mid, names, live, decl in py_spec.mismatch:
                orc("C10")["viol"].append({"law": "isinstance on the annotation built for a declaration differs from: instance of the declared bound that satisfies the declared condition",
                                           "method": mid, "params": names, "isinstance": live, "declared": decl,
                                           "kind": "fn-dep", "world": w.desc, "scenario": sc, "op_index": j})
            first = b["raw"][0][0] if b.get("raw") else None
            got = ["ran", first] if first is not None else ([b["o"][0]] if b["o"][0] in ("ambiguous", "nomethod") else ["other", b["o"][0]])
            alld = [p["ty"] for di in regs for p in sc["defs"][di]["params"]]
            for name in ("C10", "C11"):
                o = orc(name)
                o["n"] += 1
                if napp >= 2:
                    o["nontrivial"] += 1
            if got != want:
                wit = {"kind": "fn-dep", "world": w.desc, "scenario": sc, "op_index": j, "impl": got, "want": want}
                ks = set()
                for t in alld:
                    kinds_of(t, ks)
                if got[0] == "other" and got[1] == "cycle":
                    key = "D3:asymmetric-order-makes-sort_types-cyclic"
                elif not py_spec.comparable:
                    key = "D1:levels-of-unrelated-types"
                elif got == ["nomethod"] and want == ["ambiguous"]:
                    key = "D20:fallthrough-into-tied-rank-reports-no-method"
                elif any(t[0] in ("union", "inter") for t in alld):
                    key = "D3:asymmetric-order-of-unions-and-intersections"
                elif py_spec.failing_candidates and got[0] == "ran" and want == ["ambiguous"]:
                    # a dependent method whose condition fails still shapes the ranks: what it dominates sits in
                    # a lower rank, so an ambiguity among the methods that do match goes unnoticed
                    key = "D23:failing-dependent-method-shapes-the-ranks"
                elif py_spec.failing_candidates and got == ["ambiguous"] and want[0] == "ran":
                    # the same cause seen from the other side: a dependent method whose condition fails sits in one
                    # type-level rank with static methods; the generated dispatcher of that rank counts matches, and
                    # methods that recency (or a lower rank) would have separated both count: ambiguity although the
                    # documented rule has a winner
                    key = "D23:failing-dependent-method-ties-a-rank"
                else:
                    key = None
                for name in ("C10", "C11"):
                    if key:
                        known(orc(name), key, wit)
                    else:
                        orc(name)["viol"].append({"law": "delete the methods whose condition fails, then the documented rule", **wit})
            # ---- C07 over value-dependent method sets: call_next, forwarding the arguments it received, goes on with
            # the method the documented rule selects once the methods entered so far are deleted — or reports that
            # there is none / that they tie.  (Only in the territory where the documented rule is decisive, as for C06;
            # distinct signatures, so that deleting an entered method cannot resurrect a replaced one.)
            raw7 = b.get("raw") or []
            if raw7 and not any(k in kinds_of(t) for t in alld for k in ("union", "inter")):
                def _sig7(q):
                    d7 = sc["defs"][q]
                    return [(p["kind"] == "ko", p["req"], fw.glb[f"T_{d7['id']}_{p['name']}"]) for p in d7["params"]]

                sl7 = [_sig7(q) for q in regs]
                if all(sl7[x] != sl7[y] for x in range(len(sl7)) for y in range(x)) and len(set(regs)) == len(regs):
                    entered = []
                    for q, e7 in enumerate(raw7):
                        d7 = fw.defs_by_id[e7[0]]
                        entered.append(e7[0])
                        if d7["body"][0] != "callNext":
                            break
                        nxt = raw7[q + 1] if q + 1 < len(raw7) else None
                        if nxt is not None and (nxt[1] != e7[1] or nxt[2] != e7[2]):
                            break  # other arguments were passed on: outside this oracle
                        if nxt is None and (b["o"][0] not in ("nomethod", "ambiguous") or len(d7["body"][1]) != len(e7[1]) or e7[2]
                                            or any(sx != ["p", ix] for ix, sx in enumerate(d7["body"][1]))):
                            break
                        if any(not isinstance(v, int) or v < 0 for v in e7[1]) or any(not isinstance(v, int) or v < 0 for _, v in e7[2]):
                            break  # a default value travelled: not one of the scenario's arguments
                        rest7 = [r7 for r7 in regs if sc["defs"][r7]["id"] not in entered]
                        want7, _n7 = py_spec(fw, ew, sc, rest7, e7[1], [tuple(x) for x in e7[2]])
                        # (where a candidate's value condition fails on this call, findings D1 / D23 bend the ranks —
                        # in the Literal-only stream as well: `(int, Literal[True, 0])` against `(Literal[1], object)`
                        # below a failing `(Literal[2, 1], Literal[0])` — those calls are C10's, not judged here)
                        if not py_spec.comparable or py_spec.failing_candidates:
                            break
                        got7 = ["ran", nxt[0]] if nxt is not None else [b["o"][0]]
                        o7 = orc("C07")
                        o7["n"] += 1
                        o7["nontrivial"] += 1
                        if got7 != want7:
                            o7["viol"].append({"law": "call_next from a method of a value-dependent method set did not go on with what the documented rule selects below the methods entered so far",
                                               "after": list(entered), "got": got7, "want": want7, "kind": "fn-dep", "world": w.desc, "scenario": sc, "op_index": j})
                            break
            if stop_after:
                break
        # ---- C06 on value-dependent functions: the same definitions registered in another order answer every call alike
        # (plain classes, Literals and conditions only: unions / intersections are outside, finding D3)
        alltys6 = [p["ty"] for d in sc["defs"] for p in d["params"]]
        regs6 = [op[1] for op in sc["ops"] if op[0] == "reg"]
        # distinct signatures by the library's own equality of types (Literal[1] and Literal[True] are EQUAL types:
        # one signature, recency decides between them — outside C06)
        def _sig6(q):
            d6 = sc["defs"][q]
            return [(p["kind"] == "ko", p["req"], fw.glb[f"T_{d6['id']}_{p['name']}"]) for p in d6["params"]]

        sl6 = [_sig6(q) for q in regs6]
        distinct6 = all(sl6[a] != sl6[b] for a in range(len(sl6)) for b in range(a))
        if i % 2 == 0 and len(regs6) >= 2 and len(set(regs6)) == len(regs6) and distinct6 and not any(k in kinds_of(t) for t in alltys6 for k in ("union", "inter")):
            perm = list(regs6)
            rng.shuffle(perm)
            if perm != regs6:
                sc2 = dict(sc)
                calls6 = [op for op in sc["ops"] if op[0] == "call"]
                first_call = next(q for q, op in enumerate(sc["ops"]) if op[0] == "call") if calls6 else None
                if first_call is not None and all(op[0] == "reg" for op in sc["ops"][:first_call]) and all(op[0] == "call" for op in sc["ops"][first_call:]):
                    sc2["ops"] = [["reg", q] for q in perm] + calls6
                    # ... and another iteration order of the library's sets of handlers and of types
                    sc2["hrank"] = list(sc["hrank"])
                    rng.shuffle(sc2["hrank"])
                    sc2["tyrank_desc"] = list(sc["tyrank_desc"])
                    rng.shuffle(sc2["tyrank_desc"])
                    try:
                        im2 = FnWorld(w, sc2, ew=ew).run()
                    except Exception:  # noqa
                        im2 = None
                    if im2 is not None:
                        o6 = orc("C06")
                        for q, (b1, b2) in enumerate(zip(im[first_call:], im2[len(perm):])):
                            # only calls in the territory where the documented rule is decisive (all applicable methods
                            # comparable, no failing value-dependent candidate): where the known findings D1 / D23
                            # bend the answer, the order in which they bend it is their business
                            op6 = sc["ops"][first_call + q]
                            want6, _n6 = py_spec(fw, ew, sc, regs6, op6[1], op6[2])
                            first6 = b1["raw"][0][0] if b1.get("raw") else None
                            got6 = ["ran", first6] if first6 is not None else [b1["o"][0]]
                            # (in the literal-only scenarios — Literals over int next to plain int / object methods —
                            # neither finding can arise: every call counts there)
                            if steer != "literals" and (not py_spec.comparable or py_spec.failing_candidates):
                                continue
                            o6["n"] += 1
                            o6["nontrivial"] += 1
                            k1 = (b1["o"][0], (b1.get("t") or [[None]])[0][0] if b1["o"][0] == "ran" else None)
                            k2 = (b2["o"][0], (b2.get("t") or [[None]])[0][0] if b2["o"][0] == "ran" else None)
                            if k1 != k2:
                                wit6 = {"kind": "fn-dep-order", "world": w.desc, "scenario": sc, "scenario2": sc2, "op_index": first_call + q, "op_index2": len(perm) + q}
                                if py_spec.failing_candidates:
                                    # finding D23 seen from C06: candidates whose value condition fails on this call
                                    # still shape / tie the type-level ranks, and HOW depends on the order of the sets
                                    known(o6, "D23:order-among-failing-dependent-candidates", wit6)
                                else:
                                    o6["viol"].append({"law": "outcome depends on the order in which distinct signatures were registered", "first": list(k1), "second": list(k2), "order": perm, **wit6})
                                break
        if len(out["samples"]) < 1:
            out["samples"].append({"defs": sc["defs"][:3], "last_op": sc["ops"][-1], "impl": {k: v for k, v in im[-1].items() if k in ("o", "t")}})
    return out
