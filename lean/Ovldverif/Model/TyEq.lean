import Ovldverif.Model.Ty
/-! `Ty.beq` decides equality (so `Ty` gets `DecidableEq` and a lawful `BEq`). -/
set_option autoImplicit false
namespace Ovld.Ty

mutual
theorem beq_refl : ∀ (a : Ty), beq a a = true
  | cls _ => by simp [beq]
  | gen _ a => by simp [beq, beqL_refl a]
  | union a => by simp [beq, beqL_refl a]
  | inter a => by simp [beq, beqL_refl a]
  | exactly .. => by simp [beq]
  | strict .. => by simp [beq]
  | hasm .. => by simp [beq]
  | pred .. => by simp [beq]
  | lit _ b => by simp [beq, beq_refl b]
  | prod p b => by simp [beq, beqL_refl p, beq_refl b]
  | fdep _ _ b => by simp [beq, beq_refl b]
theorem beqL_refl : ∀ (a : List Ty), beqL a a = true
  | [] => rfl
  | a :: as => by simp [beqL, beq_refl a, beqL_refl as]
end

mutual
theorem eq_of_beq : ∀ (a b : Ty), beq a b = true → a = b
  | cls _, b => by cases b <;> simp [beq]
  | gen o a, b => by
    cases b <;> simp [beq]
    rename_i p b
    intro h1 h2; exact ⟨h1, eqL_of_beqL a b h2⟩
  | union a, b => by
    cases b <;> simp [beq]
    rename_i b
    intro h; exact eqL_of_beqL a b h
  | inter a, b => by
    cases b <;> simp [beq]
    rename_i b
    intro h; exact eqL_of_beqL a b h
  | exactly .., b => by cases b <;> simp [beq]
  | strict .., b => by cases b <;> simp [beq]
  | hasm .., b => by cases b <;> simp [beq]
  | pred .., b => by cases b <;> simp [beq]
  | lit k a, b => by
    cases b <;> simp [beq]
    rename_i l b
    intro h1 h2; exact ⟨h1, eq_of_beq a b h2⟩
  | prod p a, b => by
    cases b <;> simp [beq]
    rename_i q b
    intro h1 h2; exact ⟨eqL_of_beqL p q h1, eq_of_beq a b h2⟩
  | fdep f p a, b => by
    cases b <;> simp [beq]
    rename_i g q b
    intro h1 h2 h3; exact ⟨h1, h2, eq_of_beq a b h3⟩
theorem eqL_of_beqL : ∀ (a b : List Ty), beqL a b = true → a = b
  | [], [] => fun _ => rfl
  | [], _ :: _ => by simp [beqL]
  | _ :: _, [] => by simp [beqL]
  | a :: as, b :: bs => by
    simp [beqL]
    intro h1 h2; exact ⟨eq_of_beq a b h1, eqL_of_beqL as bs h2⟩
end

theorem beq_iff (a b : Ty) : beq a b = true ↔ a = b :=
  ⟨eq_of_beq a b, fun h => h ▸ beq_refl a⟩

instance : DecidableEq Ty := fun a b =>
  if h : beq a b = true then isTrue ((beq_iff a b).mp h) else isFalse (fun e => h ((beq_iff a b).mpr e))

theorem beq_comm (a b : Ty) : beq a b = beq b a := by
  by_cases h : a = b
  · subst h; rfl
  · have h1 : beq a b = false := by
      cases e : beq a b
      · rfl
      · exact absurd ((beq_iff a b).mp e) h
    have h2 : beq b a = false := by
      cases e : beq b a
      · rfl
      · exact absurd ((beq_iff b a).mp e).symm h
    rw [h1, h2]

end Ovld.Ty
