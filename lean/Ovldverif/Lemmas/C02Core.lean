import Ovldverif.Lemmas.Candidates
import Ovldverif.Lemmas.RankCore
import Ovldverif.Lemmas.CacheInv
/-!
# C02: instantiating the ranking core with the candidates of a static table

`T := (key entry) × (declared type)`: the level of a declared type is the one computed for the key entry's
class in the entry's slot; `leT` is "same as or subclass of" restricted to the registered superclasses of the
key entry's class (so that levels are strictly monotone for ALL pairs); `sigT` numbers the signatures.
-/
set_option autoImplicit false
namespace Ovld

theorem nodup_of_map_nodup {α β : Type} (f : α → β) (l : List α) (h : (l.map f).Nodup) : l.Nodup :=
  (List.pairwise_map.mp h).imp (@fun a b (hne : f a ≠ f b) (e : a = b) => hne (congrArg f e))

theorem all2_map {α T : Type} (r : T → T → Bool) (f g : α → T) : ∀ (l : List α),
    all2 r (l.map f) (l.map g) = l.all (fun e => r (f e) (g e))
  | [] => rfl
  | a :: l => by simp [all2, all2_map r f g l]

abbrev TT := (Slot × Ty) × Ty

section
variable (cfg : Cfg) (ms : List Meth) (k : Key)

def methOf (id : Nat) : Meth := (findMeth ms id).getD default

def tysM (m : Meth) : List TT := k.map (fun e => (e, (m.tyAt e.1).getD default))
def tysT (c : Cand) : List TT := tysM k (methOf ms c.id)
def lvlT (a : TT) : Nat := lvlOf (keyLv cfg ms a.1) a.2
def goodT (a : TT) : Bool := k.contains a.1 && ((keyLv cfg ms a.1).map (·.1)).contains a.2
def leT (a b : TT) : Bool := a == b || (a.1 == b.1 && goodT cfg ms k a && goodT cfg ms k b && leTy cfg.H a.2 b.2)
def sigM (m : Meth) : Nat := ms.findIdx (fun m' => sameSig m' m)
def sigT (c : Cand) : Nat := sigM ms (methOf ms c.id)

theorem leT_refl (a : TT) : leT cfg ms k a a = true := by simp [leT]

/-! ### signatures -/

def sigKey (m : Meth) : List (Slot × Ty) × Nat × Nat × List Nat × Int :=
  (m.params, m.reqPos, m.maxPos, m.reqNames, m.prio)

theorem sameSig_iff (m m' : Meth) : sameSig m m' = true ↔ sigKey m = sigKey m' := by
  simp [sameSig, sigKey, and_assoc]

theorem sameSig_tyAt (m m' : Meth) (h : sameSig m m' = true) (s : Slot) : m.tyAt s = m'.tyAt s := by
  have := (sameSig_iff m m').mp h
  simp only [sigKey, Prod.mk.injEq] at this
  unfold Meth.tyAt
  rw [this.1]

theorem sigM_eq_iff (m m' : Meth) (hm : m ∈ ms) :
    sigM ms m = sigM ms m' ↔ sameSig m m' = true := by
  constructor
  · intro h
    unfold sigM at h
    have hlt : ms.findIdx (fun x => sameSig x m) < ms.length :=
      List.findIdx_lt_length_of_exists ⟨m, hm, (sameSig_iff m m).mpr rfl⟩
    have h1 : sameSig (ms[ms.findIdx (fun x => sameSig x m)]) m = true :=
      List.findIdx_getElem (p := fun x => sameSig x m) (w := hlt)
    have hlt' : ms.findIdx (fun x => sameSig x m') < ms.length := h ▸ hlt
    have h2 : sameSig (ms[ms.findIdx (fun x => sameSig x m')]) m' = true :=
      List.findIdx_getElem (p := fun x => sameSig x m') (w := hlt')
    have e : ms[ms.findIdx (fun x => sameSig x m)] = ms[ms.findIdx (fun x => sameSig x m')] := by
      congr 1
    rw [sameSig_iff] at h1 h2 ⊢
    rw [← h1, e, h2]
  · intro h
    unfold sigM
    have : (fun x => sameSig x m) = (fun x => sameSig x m') := by
      funext x
      have e := (sameSig_iff m m').mp h
      cases h1 : sameSig x m <;> cases h2 : sameSig x m' <;> try rfl
      · rw [sameSig_iff] at h2
        have : sameSig x m = true := (sameSig_iff x m).mpr (h2.trans e.symm)
        rw [h1] at this; cases this
      · rw [sameSig_iff] at h1
        have : sameSig x m' = true := (sameSig_iff x m').mpr (h1.trans e)
        rw [h2] at this; cases this
    rw [this]

/-! ### candidates and their methods -/

/-- everything the argument assumes about the table, the key and the candidate list -/
structure Ctx (cs : List Cand) : Prop where
  wf : cfg.H.WF
  hid : (ms.map (·.id)).Nodup
  slots : ∀ e ∈ k, SlotOK cfg ms e
  ok : CandsOK cfg ms k cs
  hcc : candComparable cfg.H ms k = true
  htie : sigTieOK cfg.H ms k = true

theorem methOf_mem (hid : (ms.map (·.id)).Nodup) (m : Meth) (hm : m ∈ ms) : methOf ms m.id = m := by
  unfold methOf
  rw [findMeth_of_mem ms hid m hm]
  rfl

theorem mem_applicable (m : Meth) : m ∈ applicable cfg.H ms k ↔ m ∈ ms ∧ applicableTo cfg.H k m = true := by
  unfold applicable
  exact List.mem_filter

variable {cfg ms k}

theorem cand_meth {cs : List Cand} (X : Ctx cfg ms k cs) (c : Cand) (hc : c ∈ cs) :
    methOf ms c.id ∈ ms ∧ (methOf ms c.id).id = c.id ∧ applicableTo cfg.H k (methOf ms c.id) = true ∧
    c.prio = (methOf ms c.id).prio ∧ c.tb = (methOf ms c.id).tb ∧
    c.spec = (tysT ms k c).map (lvlT cfg ms) := by
  obtain ⟨m, hm, hmid, happ, hp, htb, hs⟩ := X.ok.sound c hc
  have e : methOf ms c.id = m := by rw [← hmid]; exact methOf_mem ms X.hid m hm
  unfold tysT tysM
  rw [e]
  refine ⟨hm, hmid, happ, hp, htb, ?_⟩
  rw [hs, List.map_map]
  rfl

theorem app_slot {cs : List Cand} (X : Ctx cfg ms k cs) (m : Meth) (hm : m ∈ ms)
    (happ : applicableTo cfg.H k m = true) (e : Slot × Ty) (he : e ∈ k) :
    ∃ t, m.tyAt e.1 = some t ∧ goodT cfg ms k (e, t) = true := by
  obtain ⟨_, hsl⟩ := (applicableTo_iff cfg k m).mp happ
  obtain ⟨t, hty, hsub⟩ := hsl e he
  have ht : t ∈ (keyLv cfg ms e).map (·.1) := ((X.slots e he).mem t).mpr ⟨⟨m, hm, hty⟩, hsub⟩
  refine ⟨t, hty, ?_⟩
  unfold goodT
  simp only [Bool.and_eq_true, List.contains_iff_mem]
  exact ⟨he, ht⟩

theorem comp_spec {cs : List Cand} (X : Ctx cfg ms k cs) (m m' : Meth) (hm : m ∈ ms)
    (happ : applicableTo cfg.H k m = true) (hm' : m' ∈ ms) (happ' : applicableTo cfg.H k m' = true)
    (e : Slot × Ty) (he : e ∈ k) (t t' : Ty) (hty : m.tyAt e.1 = some t) (hty' : m'.tyAt e.1 = some t') :
    leTy cfg.H t t' = true ∨ leTy cfg.H t' t = true := by
  have hcc := X.hcc
  unfold candComparable at hcc
  have h1 := List.all_eq_true.mp hcc m ((mem_applicable cfg ms k m).mpr ⟨hm, happ⟩)
  have h2 := List.all_eq_true.mp h1 m' ((mem_applicable cfg ms k m').mpr ⟨hm', happ'⟩)
  have h3 := List.all_eq_true.mp h2 e he
  rw [hty, hty'] at h3
  simpa using h3

theorem tie_spec {cs : List Cand} (X : Ctx cfg ms k cs) (m m' : Meth) (hm : m ∈ ms)
    (happ : applicableTo cfg.H k m = true) (hm' : m' ∈ ms) (happ' : applicableTo cfg.H k m' = true)
    (hs : sameTypesAt k m m' = true) (hp : m.prio = m'.prio) (hns : sameSig m m' = false) : m.tb = m'.tb := by
  have htie := X.htie
  unfold sigTieOK at htie
  have h1 := List.all_eq_true.mp htie m ((mem_applicable cfg ms k m).mpr ⟨hm, happ⟩)
  have h2 := List.all_eq_true.mp h1 m' ((mem_applicable cfg ms k m').mpr ⟨hm', happ'⟩)
  rw [hs, hns, hp] at h2
  simpa using h2

/-! ### the order on `TT` -/

theorem leT_iff (e : Slot × Ty) (t t' : Ty) (hg : goodT cfg ms k (e, t) = true)
    (hg' : goodT cfg ms k (e, t') = true) :
    leT cfg ms k (e, t) (e, t') = true ↔ leTy cfg.H t t' = true := by
  unfold leT
  rw [hg, hg']
  simp only [beq_self_eq_true, Bool.and_true, Bool.true_and, Bool.or_eq_true, beq_iff_eq, Prod.mk.injEq,
    true_and]
  constructor
  · rintro (h | h)
    · subst h; unfold leTy; simp
    · exact h
  · exact Or.inr

theorem leT_mono (wf : cfg.H.WF) (slots : ∀ e ∈ k, SlotOK cfg ms e) (a b : TT)
    (h : leT cfg ms k a b = true) (hne : a ≠ b) : lvlT cfg ms a > lvlT cfg ms b := by
  obtain ⟨e, t⟩ := a
  obtain ⟨e', t'⟩ := b
  unfold leT at h
  rw [Bool.or_eq_true] at h
  rcases h with h | h
  · exact absurd (eq_of_beq h) hne
  · simp only [Bool.and_eq_true, beq_iff_eq] at h
    obtain ⟨⟨⟨he, hg⟩, hg'⟩, hle⟩ := h
    subst he
    unfold goodT at hg hg'
    simp only [Bool.and_eq_true, List.contains_iff_mem] at hg hg'
    have S := slots e hg.1
    obtain ⟨x, rfl⟩ := S.cls t hg.2
    obtain ⟨y, rfl⟩ := S.cls t' hg'.2
    obtain ⟨⟨t0, lx⟩, hlx, ex⟩ := List.mem_map.mp hg.2
    obtain ⟨⟨t1, ly⟩, hly, ey⟩ := List.mem_map.mp hg'.2
    dsimp only at ex ey
    subst ex; subst ey
    have hxy : x ≠ y := fun e' => hne (by rw [e'])
    have hsub : cfg.H.sub x y = true := by
      unfold leTy at hle
      rw [Bool.or_eq_true] at hle
      rcases hle with h | h
      · have := eq_of_beq h
        injection this with this
        exact absurd this hxy
      · rw [C13_cls cfg.H wf] at h; exact h
    unfold lvlT
    dsimp only
    rw [lvlOf_of_mem _ S.nodup _ _ hlx, lvlOf_of_mem _ S.nodup _ _ hly]
    exact S.mono x y lx ly hlx hly hsub hxy

theorem tysM_eq_iff {cs : List Cand} (X : Ctx cfg ms k cs) (m m' : Meth) (hm : m ∈ ms)
    (happ : applicableTo cfg.H k m = true) (hm' : m' ∈ ms) (happ' : applicableTo cfg.H k m' = true) :
    tysM k m = tysM k m' ↔ sameTypesAt k m m' = true := by
  unfold tysM sameTypesAt
  rw [List.map_inj_left, List.all_eq_true]
  refine forall_congr' fun e => forall_congr' fun he => ?_
  obtain ⟨t, hty, _⟩ := app_slot X m hm happ e he
  obtain ⟨t', hty', _⟩ := app_slot X m' hm' happ' e he
  rw [hty, hty']
  simp

theorem all2_leT_iff {cs : List Cand} (X : Ctx cfg ms k cs) (m m' : Meth) (hm : m ∈ ms)
    (happ : applicableTo cfg.H k m = true) (hm' : m' ∈ ms) (happ' : applicableTo cfg.H k m' = true) :
    all2 (leT cfg ms k) (tysM k m) (tysM k m') = true ↔ leAt cfg.H k m m' = true := by
  unfold tysM leAt
  rw [all2_map, List.all_eq_true, List.all_eq_true]
  refine forall_congr' fun e => forall_congr' fun he => ?_
  obtain ⟨t, hty, hg⟩ := app_slot X m hm happ e he
  obtain ⟨t', hty', hg'⟩ := app_slot X m' hm' happ' e he
  rw [hty, hty']
  simp only [Option.getD_some]
  exact leT_iff e t t' hg hg'

/-! ### the hypotheses of the ranking core -/

theorem rankHyp {cs : List Cand} (X : Ctx cfg ms k cs) :
    RankHyp (leT cfg ms k) (lvlT cfg ms) (tysT ms k) (sigT ms) k.length cs where
  spec := fun c hc => (cand_meth X c hc).2.2.2.2.2
  len := fun c _ => by simp [tysT, tysM]
  mono := leT_mono X.wf X.slots
  comp := by
    intro c hc c' hc' i h h'
    obtain ⟨hm, _, happ, _⟩ := cand_meth X c hc
    obtain ⟨hm', _, happ', _⟩ := cand_meth X c' hc'
    have hi : i < k.length := by simpa [tysT, tysM] using h
    simp only [tysT, tysM, List.getElem_map]
    obtain ⟨t, hty, hg⟩ := app_slot X _ hm happ k[i] (List.getElem_mem hi)
    obtain ⟨t', hty', hg'⟩ := app_slot X _ hm' happ' k[i] (List.getElem_mem hi)
    rw [hty, hty']
    simp only [Option.getD_some]
    rw [leT_iff _ t t' hg hg', leT_iff _ t' t hg' hg]
    exact comp_spec X _ _ hm happ hm' happ' _ (List.getElem_mem hi) t t' hty hty'
  sigTie := by
    intro c hc c' hc' hty hp hsig
    obtain ⟨hm, _, happ, hp1, htb1, _⟩ := cand_meth X c hc
    obtain ⟨hm', _, happ', hp2, htb2, _⟩ := cand_meth X c' hc'
    rw [htb1, htb2]
    apply tie_spec X _ _ hm happ hm' happ'
    · exact (tysM_eq_iff X _ _ hm happ hm' happ').mp hty
    · rw [← hp1, ← hp2]; exact hp
    · cases hs : sameSig (methOf ms c.id) (methOf ms c'.id) with
      | false => rfl
      | true => exact absurd ((sigM_eq_iff ms _ _ hm).mpr hs) hsig

/-- the documented rule on candidates is the documented rule on their methods -/
theorem beats_iff {cs : List Cand} (X : Ctx cfg ms k cs) (c c' : Cand) (hc : c ∈ cs) (hc' : c' ∈ cs) :
    beatsC (leT cfg ms k) (tysT ms k) (sigT ms) c c' ↔
      beats cfg.H k (methOf ms c.id) (methOf ms c'.id) = true := by
  obtain ⟨hm, _, happ, hp1, htb1, _⟩ := cand_meth X c hc
  obtain ⟨hm', _, happ', hp2, htb2, _⟩ := cand_meth X c' hc'
  have hA := all2_leT_iff X _ _ hm happ hm' happ'
  have hB := tysM_eq_iff X _ _ hm happ hm' happ'
  have hS := sigM_eq_iff ms (methOf ms c.id) (methOf ms c'.id) hm
  have hSS : sameSig (methOf ms c.id) (methOf ms c'.id) = true →
      sameTypesAt k (methOf ms c.id) (methOf ms c'.id) = true := by
    intro h
    unfold sameTypesAt
    rw [List.all_eq_true]
    intro e _
    rw [sameSig_tyAt _ _ h]
    exact beq_self_eq_true _
  unfold beatsC beats tysT sigT
  rw [hp1, hp2, htb1, htb2]
  simp only [Bool.or_eq_true, Bool.and_eq_true, decide_eq_true_eq, Bool.not_eq_true']
  rw [hA, hS]
  constructor
  · rintro (p | ⟨pe, (⟨tne, a2⟩ | ⟨te, se, tb⟩)⟩)
    · exact Or.inl p
    · refine Or.inr ⟨pe, Or.inl ⟨a2, ?_⟩⟩
      cases h : sameTypesAt k (methOf ms c.id) (methOf ms c'.id) with
      | false => rfl
      | true => exact absurd (hB.mpr h) tne
    · exact Or.inr ⟨pe, Or.inr ⟨se, tb⟩⟩
  · rintro (p | ⟨pe, (⟨a2, tne⟩ | ⟨se, tb⟩)⟩)
    · exact Or.inl p
    · refine Or.inr ⟨pe, Or.inl ⟨?_, a2⟩⟩
      intro h
      rw [hB.mp h] at tne
      cases tne
    · exact Or.inr ⟨pe, Or.inr ⟨hB.mpr (hSS se), se, tb⟩⟩

end
/-! ### the pure lookup in terms of the first rank -/

section
variable {K F E : Type} [DecidableEq K] (plan : K → Plan F E)

theorem pureTop_nil (k : K) (hf : (plan k).fail = false) (hr : (plan k).ranks = []) :
    pureTop plan k = .noMethod := by
  simp [pureTop, hf, hr]

theorem pureTop_amb (k : K) (hf : (plan k).fail = false) (r : Rank F E) (rs : List (Rank F E))
    (hr : (plan k).ranks = r :: rs) (hfn : r.func = none) : pureTop plan k = .amb r.err := by
  have hw : ws plan k = [W.e (none, k) r.err] := by
    unfold ws
    rw [hr, writes_cons, hfn]
    rfl
  unfold pureTop
  rw [hf, hr, hw]
  simp [lastE]

theorem pureTop_ok (k : K) (hf : (plan k).fail = false) (r : Rank F E) (rs : List (Rank F E))
    (hr : (plan k).ranks = r :: rs) (f : F) (hfn : r.func = some f) : pureTop plan k = .ok f := by
  have hw : writes k (plan k).ranks [] =
      W.c (none, k) f :: (if r.codes.isEmpty then [] else writes k rs r.codes) := by
    rw [hr, writes_cons, hfn]
    rfl
  have hrest : ∀ w ∈ (if r.codes.isEmpty then [] else writes k rs r.codes : List (W K F E)),
      w.key.1 ≠ none := by
    intro w hw
    cases hc : r.codes.isEmpty with
    | true => rw [hc] at hw; simp at hw
    | false =>
      rw [hc] at hw
      simp only [Bool.false_eq_true, if_false] at hw
      intro hn
      have := (writes_keys k rs r.codes w hw).2.1 hn
      rw [this] at hc
      simp at hc
  have hE : lastE (none, k) (ws plan k) = none := by
    apply lastE_none_of_not_mem
    intro e he
    have he' := (mem_ws plan k _).1 he
    rw [hw] at he'
    rcases List.mem_cons.1 he' with h1 | h2
    · cases h1
    · exact hrest _ h2 rfl
  have hC : lastC (none, k) (ws plan k) = some f := by
    have hmem : W.c (none, k) f ∈ ws plan k := (mem_ws plan k _).2 (by rw [hw]; exact List.mem_cons_self ..)
    obtain ⟨g, hg⟩ := lastC_some_of_mem (none, k) f _ hmem
    have hg' := (mem_ws plan k _).1 (lastC_mem _ _ _ hg)
    rw [hw] at hg'
    rcases List.mem_cons.1 hg' with h1 | h2
    · cases h1; exact hg
    · exact absurd rfl (hrest _ h2)
  unfold pureTop
  rw [hf, hr, hE, hC]
  simp

end

/-! ### the first rank of a static table -/

theorem not_dependent_of_static (ms : List Meth) (hst : staticTable ms = true) (m : Meth) (hm : m ∈ ms) :
    m.dependent = false := by
  unfold staticTable at hst
  have h1 := List.all_eq_true.mp hst m hm
  unfold Meth.dependent
  rw [List.any_eq_false]
  intro p hp
  have h2 := List.all_eq_true.mp h1 p hp
  obtain ⟨s, t⟩ := p
  cases t <;> simp [Ty.isCls] at h2
  simp [Ty.isDep]

theorem mkRanks_cons_static (ms : List Meth) (hst : staticTable ms = true) (g : List Cand) (gs : List (List Cand)) :
    ∃ r rs, mkRanks ms (g :: gs) = r :: rs ∧ r.err = g.map (·.id) ∧
      r.func = (match g.map (·.id) with | [id] => some (Entry.meth id) | _ => none) := by
  have hdep : (g.map (·.id)).any (fun id => ((findMeth ms id).map Meth.dependent).getD false) = false := by
    rw [List.any_eq_false]
    intro id _
    cases hfm : findMeth ms id with
    | none => simp
    | some m =>
      have hm : m ∈ ms := List.mem_of_find?_eq_some hfm
      simp [not_dependent_of_static ms hst m hm]
  refine ⟨_, _, rfl, rfl, ?_⟩
  dsimp only
  rw [hdep]
  rfl

/-! ### winners and the first group -/

section
variable {cfg : Cfg} {ms : List Meth} {k : Key}

theorem winners_mem (cfg : Cfg) (ms : List Meth) (k : Key) (m : Meth) :
    m ∈ winners cfg.H ms k ↔ (m ∈ ms ∧ applicableTo cfg.H k m = true) ∧
      ∀ m' ∈ ms, applicableTo cfg.H k m' = true → m'.id = m.id ∨ beats cfg.H k m m' = true := by
  unfold winners
  simp only [List.mem_filter, List.all_eq_true, mem_applicable, Bool.or_eq_true, beq_iff_eq, and_imp]

theorem firstGroup_of_winners {cs : List Cand} (X : Ctx cfg ms k cs) (w : Meth)
    (hw : w ∈ winners cfg.H ms k) : ∃ cw ∈ cs, cw.id = w.id ∧ firstGroup cs = [cw] := by
  obtain ⟨⟨hwm, hwa⟩, hall⟩ := (winners_mem cfg ms k w).mp hw
  obtain ⟨cw, hcw, hcwid⟩ := X.ok.complete w hwm hwa
  have hmw : methOf ms cw.id = w := by rw [hcwid]; exact methOf_mem ms X.hid w hwm
  refine ⟨cw, hcw, hcwid, ?_⟩
  apply firstGroup_of_winner (leT cfg ms k) (lvlT cfg ms) (tysT ms k) (sigT ms) (leT_refl cfg ms k) (rankHyp X)
    (nodup_of_map_nodup (·.id) cs X.ok.nodup) cw hcw
  intro c hc hne
  rw [beats_iff X cw c hcw hc, hmw]
  obtain ⟨hm, hmid, happ, _⟩ := cand_meth X c hc
  rcases hall _ hm happ with h | h
  · exfalso
    apply hne
    exact eq_of_nodup_map (·.id) cs X.ok.nodup c hc cw hcw (by rw [← hmid, h, hcwid])
  · exact h

theorem winner_of_firstGroup' {cs : List Cand} (X : Ctx cfg ms k cs) (h : Cand)
    (hg : firstGroup cs = [h]) : h ∈ cs ∧ methOf ms h.id ∈ winners cfg.H ms k := by
  obtain ⟨hh, hwin⟩ := winner_of_firstGroup (leT cfg ms k) (lvlT cfg ms) (tysT ms k) (sigT ms)
    (leT_refl cfg ms k) (rankHyp X) h hg
  refine ⟨hh, ?_⟩
  obtain ⟨hm, hmid, happ, _⟩ := cand_meth X h hh
  rw [winners_mem]
  refine ⟨⟨hm, happ⟩, ?_⟩
  intro m' hm' happ'
  obtain ⟨c', hc', hc'id⟩ := X.ok.complete m' hm' happ'
  have hmc : methOf ms c'.id = m' := by rw [hc'id]; exact methOf_mem ms X.hid m' hm'
  by_cases e : c' = h
  · left
    rw [hmid, ← hc'id, e]
  · right
    have := (beats_iff X h c' hh hc').mp (hwin c' hc' e)
    rw [hmc] at this
    exact this

theorem firstGroup_ne_nil (cs : List Cand) (hne : cs ≠ []) : firstGroup cs ≠ [] := by
  unfold firstGroup
  have perm := sort_perm cs
  cases hs : sortCands cs with
  | nil =>
    rw [hs] at perm
    exact absurd (List.perm_nil.mp perm.symm) hne
  | cons a b => simp

end

/-- C02 for a key whose run-time types are plain classes (the call without arguments, `k = []`, included) -/
theorem pure_agrees_all (cfg : Cfg) (ms : List Meth) (wf : cfg.H.WF) (anti : cfg.H.Antisym)
    (hid : (ms.map (·.id)).Nodup) (hst : staticTable ms = true)
    (k : Key) (hkc : ∀ e ∈ k, e.2.isCls = true)
    (hcc : candComparable cfg.H ms k = true) (htie : sigTieOK cfg.H ms k = true) :
    specAgrees (pureLookup (plan cfg ms) (none, k)) (specResolve cfg.H ms k) := by
  have slots : ∀ e ∈ k, SlotOK cfg ms e := fun e he => slotOK_of_cls cfg ms wf anti hst e (hkc e he)
  obtain ⟨cs, hcs, ok⟩ := candidates_ok_all cfg ms hid k slots
  have X : Ctx cfg ms k cs := ⟨wf, hid, slots, ok, hcc, htie⟩
  have hplan : plan cfg ms k =
      { ranks := mkRanks ms (ranks cs), allCodes := (sortCands cs).filterMap (fun c => codeOf ms c.id) } := by
    unfold plan
    rw [hcs]
    rfl
  have hf : (plan cfg ms k).fail = false := by rw [hplan]
  have hr : (plan cfg ms k).ranks = mkRanks ms (ranks cs) := by rw [hplan]
  show specAgrees (pureTop (plan cfg ms) k) _
  by_cases hcse : cs = []
  · have hrk : ranks cs = [] := by
      have := ranks_head cs
      rw [if_pos hcse] at this
      cases h : ranks cs with
      | nil => rfl
      | cons a b => rw [h] at this; cases this
    rw [pureTop_nil _ k hf (by rw [hr, hrk]; rfl)]
    have hap : applicable cfg.H ms k = [] := by
      apply List.eq_nil_iff_forall_not_mem.mpr
      intro m hm
      obtain ⟨hm1, hm2⟩ := (mem_applicable cfg ms k m).mp hm
      obtain ⟨c, hc, _⟩ := ok.complete m hm1 hm2
      rw [hcse] at hc
      cases hc
    unfold specResolve winners
    rw [hap]
    simp [specAgrees]
  · have hh := ranks_head cs
    rw [if_neg hcse] at hh
    obtain ⟨tl, htl⟩ : ∃ tl, ranks cs = firstGroup cs :: tl := by
      cases hrk : ranks cs with
      | nil => rw [hrk] at hh; cases hh
      | cons a b =>
        rw [hrk] at hh
        simp only [List.head?_cons, Option.some.injEq] at hh
        exact ⟨b, by rw [hh]⟩
    obtain ⟨r, rs, hmk, herr, hfunc⟩ := mkRanks_cons_static ms hst (firstGroup cs) tl
    have hr' : (plan cfg ms k).ranks = r :: rs := by rw [hr, htl, hmk]
    have hapne : (applicable cfg.H ms k).isEmpty = false := by
      obtain ⟨c, hc⟩ := List.exists_mem_of_ne_nil cs hcse
      obtain ⟨hm, _, happ, _⟩ := cand_meth X c hc
      have := (mem_applicable cfg ms k _).mpr ⟨hm, happ⟩
      cases hap : applicable cfg.H ms k with
      | nil => rw [hap] at this; cases this
      | cons a b => rfl
    match hfg : firstGroup cs with
    | [] => exact absurd hfg (firstGroup_ne_nil cs hcse)
    | [h] =>
      rw [hfg] at hfunc
      rw [pureTop_ok _ k hf r rs hr' _ hfunc]
      obtain ⟨hhc, hwin⟩ := winner_of_firstGroup' X h hfg
      have huniq : ∀ w ∈ winners cfg.H ms k, w = methOf ms h.id := by
        intro w hw
        obtain ⟨cw, hcw, hcwid, hfg'⟩ := firstGroup_of_winners X w hw
        rw [hfg] at hfg'
        cases hfg'
        have hwm := ((winners_mem cfg ms k w).mp hw).1.1
        rw [hcwid]
        exact (methOf_mem ms hid w hwm).symm
      have hnd : (winners cfg.H ms k).Nodup := by
        unfold winners applicable
        exact (List.filter_sublist.trans List.filter_sublist).nodup (nodup_of_map_nodup (·.id) ms hid)
      have hw1 := singleton_of_nodup_all_eq _ hnd _ hwin huniq
      unfold specResolve
      rw [hw1]
      exact (cand_meth X h hhc).2.1.symm
    | h :: h2 :: rest =>
      rw [hfg] at hfunc
      rw [pureTop_amb _ k hf r rs hr' hfunc]
      have hnw : ∀ w, winners cfg.H ms k ≠ [w] := by
        intro w hw
        obtain ⟨cw, _, _, hfg'⟩ := firstGroup_of_winners X w (by rw [hw]; exact List.mem_cons_self)
        rw [hfg] at hfg'
        cases hfg'
      unfold specResolve
      split
      · rename_i w hw
        exact absurd hw (hnw w)
      · rw [hapne]
        trivial

/-- C02 for a non-empty key whose run-time types are plain classes -/
theorem pure_agrees (cfg : Cfg) (ms : List Meth) (wf : cfg.H.WF) (anti : cfg.H.Antisym)
    (hid : (ms.map (·.id)).Nodup) (hst : staticTable ms = true)
    (k : Key) (hkc : ∀ e ∈ k, e.2.isCls = true) (_hne : k ≠ [])
    (hcc : candComparable cfg.H ms k = true) (htie : sigTieOK cfg.H ms k = true) :
    specAgrees (pureLookup (plan cfg ms) (none, k)) (specResolve cfg.H ms k) :=
  pure_agrees_all cfg ms wf anti hid hst k hkc hcc htie

end Ovld
