import Ovldverif.Spec.ClassSpec
import Ovldverif.Props.C08
/-!
# Class bodies: the graph operations of `translate` on an abstract graph (`AG`: nodes, mixins, own definitions)

Part 1: graphs on which nothing was ever compiled, locked or linked back (`Simple`): every well-formed
`create` / `addMixins` / `register` is accepted and acts on the projections `len` / `mx` / `ow` only (`AG.step`).
-/
set_option autoImplicit false
namespace Ovld

/-! ## simple graphs -/

/-- nothing compiled, nothing locked, no linked-back edges -/
def Simple (g : Graph) : Prop :=
  ∀ k, (g.get k).compiled = false ∧ (g.get k).locked = false ∧ (g.get k).children = [] ∧ (g.get k).linkback = false

theorem Graph.get_empty (k : Nat) : (({} : Graph)).get k = default := by
  simp [Graph.get]

theorem Simple.empty : Simple {} := by
  intro k; rw [Graph.get_empty]; exact ⟨rfl, rfl, rfl, rfl⟩

theorem Simple.set {g : Graph} (hs : Simple g) (n : Nat) (x : Node)
    (hx : x.compiled = false ∧ x.locked = false ∧ x.children = [] ∧ x.linkback = false) : Simple (g.set n x) := by
  intro k
  rw [Graph.get_set]
  split
  · exact hx
  · exact hs k

theorem Simple.update {g : Graph} (hs : Simple g) (n : Nat) : Graph.update g.depth g n = (g, none) :=
  Graph.update_leaf _ g n (hs n).1 (hs n).2.2.1

/-- abstract graph: what `defns` depends on -/
structure AG where
  len : Nat := 0
  mx : Nat → List Nat := fun _ => []
  ow : Nat → List (Def × Int) := fun _ => []

def upd {α : Type} (f : Nat → α) (n : Nat) (v : α) : Nat → α := fun k => if k = n then v else f k

theorem upd_same {α : Type} (f : Nat → α) (n : Nat) (v : α) : upd f n v n = v := by simp [upd]
theorem upd_ne {α : Type} (f : Nat → α) (n : Nat) (v : α) (k : Nat) (h : k ≠ n) : upd f n v k = f k := by
  simp [upd, h]
theorem upd_self {α : Type} (f : Nat → α) (n : Nat) : upd f n (f n) = f := by
  funext k; unfold upd; split
  · next h => rw [h]
  · rfl
theorem upd_upd {α : Type} (f : Nat → α) (n : Nat) (v w : α) : upd (upd f n v) n w = upd f n w := by
  funext k; unfold upd; split <;> rfl

def Graph.abs (g : Graph) : AG := ⟨g.len, g.mx, g.ow⟩

def AG.step (a : AG) : GOp → AG
  | .create ms _ => { a with len := a.len + 1, mx := upd a.mx a.len ms }
  | .addMixins n ms => { a with mx := upd a.mx n (a.mx n ++ ms) }
  | .register n d => { a with ow := upd a.ow n (setDefn ((a.ow n).length + 1) (a.ow n) d 0) }
  | _ => a

def AG.ok (a : AG) : GOp → Prop
  | .create ms lb => lb = false ∧ ∀ m ∈ ms, m < a.len
  | .addMixins n ms => n < a.len ∧ ∀ m ∈ ms, m < a.len ∧ m ≠ n ∧ ¬ Anc a.mx n m
  | .register n _ => n < a.len
  | _ => False

theorem AG.ext {a b : AG} (h1 : a.len = b.len) (h2 : a.mx = b.mx) (h3 : a.ow = b.ow) : a = b := by
  cases a; cases b; simp at h1 h2 h3; simp [h1, h2, h3]

theorem filter_ne_of_forall (n : Nat) (ms : List Nat) (h : ∀ m ∈ ms, m ≠ n) : ms.filter (fun m => m != n) = ms := by
  apply List.filter_eq_self.mpr
  intro m hm; simpa using h m hm

theorem Graph.abs_empty : (({} : Graph)).abs = {} := by
  apply AG.ext
  · rfl
  · funext k; show (Graph.get {} k).mixins = []; rw [Graph.get_empty]; rfl
  · funext k; show (Graph.get {} k).own = []; rw [Graph.get_empty]; rfl

/-- `register` on a simple graph -/
theorem Simple.register {g : Graph} (hs : Simple g) (n : Nat) (d : Def) (hn : n < g.len) :
    Simple (g.register n d).1 ∧ (g.register n d).1.abs = g.abs.step (.register n d) ∧ (g.register n d).2 = none := by
  rw [Graph.register_eq g n d (hs n).2.1]
  dsimp only
  have hs1 : Simple (g.setOwn n (setDefn ((g.get n).own.length + 1) (g.get n).own d 0)) :=
    hs.set n _ (hs n)
  rw [hs1.update n]
  refine ⟨hs1, ?_, rfl⟩
  apply AG.ext
  · exact Graph.setOwn_len _ _ _
  · exact Graph.setOwn_mx _ _ _
  · funext k
    show (g.setOwn n _).ow k = upd g.ow n _ k
    by_cases hk : k = n
    · subst hk
      rw [upd_same]
      show ((g.set k _).get k).own = _
      rw [Graph.get_set, if_pos ⟨rfl, hn⟩]; rfl
    · rw [upd_ne _ _ _ _ hk, Graph.setOwn_ow_ne _ _ _ _ hk]

/-- `add_mixins` on a simple graph -/
theorem Simple.addMixins {g : Graph} (hs : Simple g) (n : Nat) (ms : List Nat) (hn : n < g.len)
    (hms : ∀ m ∈ ms, m ≠ n) :
    Simple (g.addMixins n ms).1 ∧ (g.addMixins n ms).1.abs = g.abs.step (.addMixins n ms) ∧
      (g.addMixins n ms).2 = none := by
  unfold Graph.addMixins
  dsimp only
  rw [if_neg (by rw [(hs n).2.1]; simp), if_neg (by rw [(hs n).2.2.2]; simp), filter_ne_of_forall n ms hms]
  have hs1 : Simple (g.set n { g.get n with mixins := (g.get n).mixins ++ ms }) := hs.set n _ (hs n)
  rw [hs1.update n]
  refine ⟨hs1, ?_, rfl⟩
  apply AG.ext
  · exact Graph.len_set _ _ _
  · funext k
    show ((g.set n _).get k).mixins = upd g.mx n _ k
    rw [Graph.get_set]
    by_cases hk : k = n
    · subst hk; rw [if_pos ⟨rfl, hn⟩, upd_same]; rfl
    · rw [if_neg (fun hh => hk hh.1), upd_ne _ _ _ _ hk]; rfl
  · exact Graph.proj_set Node.own g n _ rfl

/-- `create` (without linkback) on a simple graph -/
theorem Simple.create {g : Graph} (hs : Simple g) (ms : List Nat) (hms : ∀ m ∈ ms, m < g.len) :
    Simple (g.create ms false) ∧ (g.create ms false).abs = g.abs.step (.create ms false) := by
  have hget := Graph.get_append g { linkback := false }
  generalize hg0 : Graph.mk (g.nodes ++ [{ linkback := false }]) = g0 at hget
  have hlen0 : g0.len = g.len + 1 := by subst hg0; simp [Graph.len]
  have hs0 : Simple g0 := by
    intro k; rw [hget k]; split
    · exact ⟨rfl, rfl, rfl, rfl⟩
    · exact hs k
  have hcreate : g.create ms false = (g0.addMixins g.nodes.length ms).1 := by subst hg0; rfl
  rw [hcreate]
  obtain ⟨h1, h2, _⟩ := hs0.addMixins g.nodes.length ms (by rw [hlen0]; exact Nat.lt_succ_self _)
    (fun m hm => Nat.ne_of_lt (hms m hm))
  refine ⟨h1, ?_⟩
  rw [h2]
  have hdef : g.get g.nodes.length = default := Graph.get_of_ge g _ (Nat.le_refl _)
  apply AG.ext
  · exact hlen0
  · funext k
    show upd g0.mx g.nodes.length (g0.mx g.nodes.length ++ ms) k = upd g.mx g.len ms k
    have h0 : g0.mx g.nodes.length = [] := by
      show (g0.get g.nodes.length).mixins = []
      rw [hget, if_pos rfl]
    rw [h0]
    by_cases hk : k = g.nodes.length
    · subst hk; rw [upd_same]; show _ = upd g.mx g.nodes.length ms g.nodes.length; rw [upd_same]; rfl
    · rw [upd_ne _ _ _ _ hk, upd_ne _ _ _ _ (by exact hk)]
      show (g0.get k).mixins = (g.get k).mixins
      rw [hget, if_neg hk]
  · funext k
    show (g0.get k).own = (g.get k).own
    rw [hget]; split
    · next hk => rw [hk, hdef]; rfl
    · rfl

/-! ## sequences of operations -/

def AG.run (a : AG) (ops : List GOp) : AG := ops.foldl AG.step a

def AG.oks : AG → List GOp → Prop
  | _, [] => True
  | a, op :: rest => a.ok op ∧ AG.oks (a.step op) rest

theorem AG.run_append (a : AG) (l1 l2 : List GOp) : a.run (l1 ++ l2) = (a.run l1).run l2 := by
  simp [AG.run, List.foldl_append]

theorem AG.oks_append (l1 l2 : List GOp) : ∀ (a : AG), a.oks (l1 ++ l2) ↔ a.oks l1 ∧ (a.run l1).oks l2 := by
  induction l1 with
  | nil => intro a; simp [AG.oks, AG.run]
  | cons op l1 ih =>
    intro a
    simp only [List.cons_append, AG.oks, ih, AG.run, List.foldl_cons, and_assoc]

/-- mixin lists only mention existing nodes; nodes that do not exist yet have no definitions -/
def AG.closed (a : AG) : Prop := (∀ k, ∀ m ∈ a.mx k, m < a.len) ∧ ∀ k, a.len ≤ k → a.ow k = []

theorem AG.closed_step {a : AG} (hc : a.closed) (op : GOp) (hok : a.ok op) : (a.step op).closed := by
  cases op with
  | create ms lb =>
    refine ⟨?_, fun k hk => hc.2 k (Nat.le_of_succ_le hk)⟩
    intro k m hm
    show m < a.len + 1
    have hm' : m ∈ upd a.mx a.len ms k := hm
    unfold upd at hm'
    split at hm'
    · exact Nat.lt_succ_of_lt (hok.2 m hm')
    · exact Nat.lt_succ_of_lt (hc.1 k m hm')
  | addMixins n ms =>
    refine ⟨?_, hc.2⟩
    intro k m hm
    show m < a.len
    have hm' : m ∈ upd a.mx n (a.mx n ++ ms) k := hm
    unfold upd at hm'
    split at hm'
    · rcases List.mem_append.mp hm' with h | h
      · exact hc.1 n m h
      · exact (hok.2 m h).1
    · exact hc.1 k m hm'
  | register n d =>
    refine ⟨hc.1, fun k hk => ?_⟩
    show upd a.ow n _ k = []
    have hn : n < a.len := hok
    have hk' : a.len ≤ k := hk
    rw [upd_ne _ _ _ _ (by omega)]
    exact hc.2 k hk
  | unregister n id => exact hc
  | call n c => exact hc

theorem AG.closed_run (ops : List GOp) : ∀ (a : AG), a.closed → a.oks ops → (a.run ops).closed := by
  induction ops with
  | nil => intro a h _; exact h
  | cons op rest ih => intro a h hok; exact ih _ (AG.closed_step h op hok.1) hok.2

theorem AG.closed_empty : AG.closed {} := ⟨fun _ _ hm => (nomatch hm), fun _ _ => rfl⟩

theorem Simple.step (cfg : Cfg) {g : Graph} (hs : Simple g) (op : GOp) (hok : g.abs.ok op) :
    Simple (g.step cfg op).1 ∧ (g.step cfg op).1.abs = g.abs.step op ∧ g.opOK op = true ∧
      (g.step cfg op).2 = none := by
  cases op with
  | create ms lb =>
    obtain ⟨rfl, hms⟩ := hok
    obtain ⟨h1, h2⟩ := hs.create ms hms
    refine ⟨h1, h2, ?_, rfl⟩
    simp only [Graph.opOK, List.all_eq_true, decide_eq_true_eq]
    exact hms
  | addMixins n ms =>
    obtain ⟨hn, hms⟩ := hok
    obtain ⟨h1, h2, h3⟩ := hs.addMixins n ms hn (fun m hm => (hms m hm).2.1)
    refine ⟨h1, h2, ?_, h3⟩
    simp only [Graph.opOK, Bool.and_eq_true, List.all_eq_true, decide_eq_true_eq, bne_iff_ne, ne_eq,
      Bool.not_eq_true']
    refine ⟨hn, fun m hm => ⟨⟨(hms m hm).1, (hms m hm).2.1⟩, ?_⟩⟩
    cases hanc : g.isAnc n m
    · rfl
    · exfalso
      unfold Graph.isAnc at hanc
      rw [Graph.derives_eq] at hanc
      exact (hms m hm).2.2 (ancB_sound _ _ _ _ hanc)
  | register n d =>
    obtain ⟨h1, h2, h3⟩ := hs.register n d hok
    refine ⟨h1, h2, ?_, h3⟩
    simp only [Graph.opOK, decide_eq_true_eq]
    exact hok
  | unregister n id => exact hok.elim
  | call n c => exact hok.elim

theorem Simple.runOps (cfg : Cfg) (ops : List GOp) : ∀ (g : Graph), Simple g → g.abs.oks ops →
    Simple (Graph.runOps cfg g ops) ∧ (Graph.runOps cfg g ops).abs = g.abs.run ops ∧
      Graph.opsOK cfg g ops = true := by
  induction ops with
  | nil => intro g hs _; exact ⟨hs, rfl, rfl⟩
  | cons op rest ih =>
    intro g hs hok
    obtain ⟨h1, h2, h3, h4⟩ := hs.step cfg op hok.1
    obtain ⟨i1, i2, i3⟩ := ih (g.step cfg op).1 h1 (by rw [h2]; exact hok.2)
    refine ⟨i1, ?_, ?_⟩
    · show (Graph.runOps cfg (g.step cfg op).1 rest).abs = _
      rw [i2, h2]; rfl
    · simp only [Graph.opsOK, Bool.and_eq_true]
      refine ⟨⟨h3, ?_⟩, i3⟩
      rw [h4]; rfl

/-! ## `defns` at the model's fuel, on graphs satisfying the invariant of C16 -/

def DD (g : Graph) (n : Nat) : List (Def × Int) := g.defns g.depth n

theorem foldl_overlay_map {α : Type} (F : α → List (Def × Int)) (xs : List α) (init : List (Def × Int)) :
    xs.foldl (fun acc m => overlay acc (F m)) init = (xs.map F).foldl overlay init := by
  rw [List.foldl_map]

theorem DD_unfold {g : Graph} (hi : Inv g) (n : Nat) :
    DD g n = overlay (ClassBody.overlayAll ((g.mx n).map (DD g))) (g.ow n) := by
  obtain ⟨ord, ht⟩ := hi.topo
  have hr := ht.ranked
  unfold DD ClassBody.overlayAll
  rw [Graph.depth_eq, Graph.defns_succ, ← foldl_overlay_map]
  congr 1
  refine foldl_congr_mem _ _ _ (fun acc m hm => ?_) _
  have hm' := (hr.2 n m hm).2.1
  have : List.idxOf m ord < g.len := hr.1 m hm'
  rw [Graph.defns_fuel g hr g.len (g.len + 1) m this (by omega)]

theorem DD_old {g g' : Graph} (hi : Inv g) (hc : ∀ k, ∀ m ∈ g.mx k, m < g.len)
    (hsame : ∀ k, k < g.len → g'.mx k = g.mx k ∧ g'.ow k = g.ow k) (hle : g.len ≤ g'.len) (m : Nat)
    (hm : m < g.len) : DD g' m = DD g m := by
  obtain ⟨ord, ht⟩ := hi.topo
  have hr := ht.ranked
  unfold DD
  rw [Graph.defns_local g g' _ m]
  · have : List.idxOf m ord < g.len := hr.1 m hm
    rw [Graph.depth_eq, Graph.depth_eq]
    exact Graph.defns_fuel g hr _ _ m (by omega) (by omega)
  · intro x hx
    have hx' : x < g.len := by
      rcases hx with rfl | hx
      · exact hm
      · obtain ⟨b, hb, _⟩ := hx.top_cases
        exact hc b x hb
    exact ⟨(hsame x hx').2, (hsame x hx').1⟩

namespace ClassBody

/-! ## the translation state and its abstract graph -/

/-- `st` performed well-formed operations only, and `a` is the abstract graph they produce -/
structure Snap (st : TState) (a : AG) : Prop where
  oks : AG.oks {} st.ops
  run : AG.run {} st.ops = a
  len : a.len = st.nn

theorem Snap.closed {st : TState} {a : AG} (h : Snap st a) : a.closed := by
  rw [← h.run]; exact AG.closed_run _ _ AG.closed_empty h.oks

theorem Snap.empty : Snap {} {} := ⟨trivial, rfl, rfl⟩

theorem Snap.congr {st st' : TState} {a : AG} (h : Snap st a) (ho : st'.ops = st.ops) (hn : st'.nn = st.nn) :
    Snap st' a := ⟨by rw [ho]; exact h.oks, by rw [ho]; exact h.run, by rw [hn]; exact h.len⟩

theorem Snap.emit {st : TState} {a : AG} (h : Snap st a) (op : GOp) (hok : a.ok op)
    (hlen : (a.step op).len = a.len) : Snap (st.emit op) (a.step op) := by
  refine ⟨?_, ?_, ?_⟩
  · show AG.oks {} (st.ops ++ [op])
    rw [AG.oks_append, h.run]
    exact ⟨h.oks, hok, trivial⟩
  · show AG.run {} (st.ops ++ [op]) = _
    rw [AG.run_append, h.run]; rfl
  · rw [hlen]; exact h.len

theorem Snap.register {st : TState} {a : AG} (h : Snap st a) (n : Nat) (d : Def) (hn : n < a.len) :
    Snap (st.emit (.register n d)) (a.step (.register n d)) := h.emit _ hn rfl

theorem Snap.addMixins {st : TState} {a : AG} (h : Snap st a) (n : Nat) (ms : List Nat)
    (hok : a.ok (.addMixins n ms)) : Snap (st.emit (.addMixins n ms)) (a.step (.addMixins n ms)) :=
  h.emit _ hok rfl

theorem Snap.create {st : TState} {a : AG} (h : Snap st a) (ms : List Nat) (hms : ∀ m ∈ ms, m < a.len) :
    Snap (st.create ms).1 (a.step (.create ms false)) := by
  refine ⟨?_, ?_, ?_⟩
  · show AG.oks {} (st.ops ++ [.create ms false])
    rw [AG.oks_append, h.run]
    exact ⟨h.oks, ⟨rfl, hms⟩, trivial⟩
  · show AG.run {} (st.ops ++ [.create ms false]) = _
    rw [AG.run_append, h.run]; rfl
  · show a.len + 1 = st.nn + 1
    rw [h.len]

@[simp] theorem create_snd (st : TState) (ms : List Nat) : (st.create ms).2 = st.nn := rfl
@[simp] theorem create_attr (st : TState) (ms : List Nat) : (st.create ms).1.attr = st.attr := rfl
@[simp] theorem create_hasF (st : TState) (ms : List Nat) : (st.create ms).1.hasF = st.hasF := rfl
@[simp] theorem create_nn (st : TState) (ms : List Nat) : (st.create ms).1.nn = st.nn + 1 := rfl
@[simp] theorem emit_attr (st : TState) (op : GOp) : (st.emit op).attr = st.attr := rfl
@[simp] theorem emit_hasF (st : TState) (op : GOp) : (st.emit op).hasF = st.hasF := rfl
@[simp] theorem emit_nn (st : TState) (op : GOp) : (st.emit op).nn = st.nn := rfl

/-- `regs` on the abstract graph -/
def _root_.Ovld.AG.regs (a : AG) (n : Nat) (ds : List Def) : AG := { a with ow := upd a.ow n (ClassBody.regs ds (a.ow n)) }

theorem regAll_fields (n : Nat) (ds : List Def) : ∀ (st : TState),
    (regAll st n ds).attr = st.attr ∧ (regAll st n ds).hasF = st.hasF ∧ (regAll st n ds).nn = st.nn := by
  induction ds with
  | nil => intro st; exact ⟨rfl, rfl, rfl⟩
  | cons d ds ih => intro st; exact ih (st.emit (.register n d))

theorem Snap.regAll (n : Nat) (ds : List Def) : ∀ {st : TState} {a : AG}, Snap st a → n < a.len →
    Snap (regAll st n ds) (a.regs n ds) := by
  induction ds with
  | nil =>
    intro st a h _
    have : a.regs n [] = a := by
      unfold AG.regs regs
      simp only [List.foldl_nil, upd_self]
    rw [this]; exact h
  | cons d ds ih =>
    intro st a h hn
    have h1 := ih (h.register n d hn) hn
    have : (a.step (.register n d)).regs n ds = a.regs n (d :: ds) := by
      unfold AG.regs AG.step regs
      simp only [upd_same, upd_upd, List.foldl_cons]
    rw [← this]; exact h1

theorem regs_append (ds1 ds2 : List Def) (o : List (Def × Int)) : regs (ds1 ++ ds2) o = regs ds2 (regs ds1 o) := by
  simp [regs, List.foldl_append]

end ClassBody

end Ovld
