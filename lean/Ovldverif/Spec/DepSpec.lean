import Ovldverif.Model.Dependent
/-!
# Specification of value-dependent dispatch within one rank (C10, C11)

`rankSpec`: among the handlers of the rank, exactly those whose every position accepts the actual value —
`isinstance(value, declared type)`: bound **and** condition — may run: one → it runs; none → fall through to
the next rank; several → ambiguity.  Nothing in it depends on which of the three bodies the generator emits.
-/
set_option autoImplicit false
namespace Ovld

section
variable (W : DWorld)

/-- `isinstance(value, declared type)` holds for every slot of the key -/
def accepts (k : List Slot) (args : List (Slot × DVal)) (h : DHandler) : Bool :=
  k.all (fun s => match argAt args s with
    | some v => isinstanceOf W (dTyAt h s) v == .yes
    | none => false)

def rankSpec (k : List Slot) (hs : List DHandler) (args : List (Slot × DVal)) : DRes :=
  match hs.filter (accepts W k args) with
  | [] => .fallthrough
  | [h] => .handler h.1
  | _ => .ambiguous

/-- per-handler, per-slot facts under which the three emitted bodies are all correct:
    * `static`: a non-dependent declared type accepts the value (guaranteed by the type-level stage, C13);
    * `check`: for a value-dependent declared type the generated check agrees with `isinstance` and does not raise
      (`C11_codegen_*` establish this for the built-in value types inside their bound);
    * `hashable`: an unhashable value is not (equal to) a key of a Literal of the rank — the keys of a Literal
      table are hashable.  An unhashable *argument* as such is fine: the table lookup falls through, as
      `rankSpec` says.  (Before the repair of finding D32 the lookup raised, and this field had to ask for
      `∀ a ∈ args, a.2.eq < unhashableFrom`, which implies the present one.) -/
structure RankOK (k : List Slot) (hs : List DHandler) (args : List (Slot × DVal)) : Prop where
  present : ∀ s ∈ k, ∃ v, argAt args s = some v
  static : ∀ h ∈ hs, ∀ s ∈ k, (dTyAt h s).isDep = false → ∀ v, argAt args s = some v → isinstanceOf W (dTyAt h s) v = .yes
  check : ∀ h ∈ hs, ∀ s ∈ k, (dTyAt h s).isDep = true → ∀ v, argAt args s = some v →
            genCheck W (dTyAt h s) v = isinstanceOf W (dTyAt h s) v ∧ genCheck W (dTyAt h s) v ≠ .raises
  hashable : ∀ s ∈ k, ∀ v, argAt args s = some v → unhashableFrom ≤ v.eq →
               ∀ h ∈ hs, ∀ ks b, dTyAt h s = .lit ks b → v.eq ∉ ks
  ids : (hs.map (·.1)).Nodup

end
end Ovld
