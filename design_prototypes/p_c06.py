# static tables: outcome must not depend on set iteration order nor on registration order of distinct signatures
import random, sys, itertools
import ovld.typemap as tm
from ovld import Ovld
MODE = {"key": None}
class PermSet(set):
    _seq = 0
    def __init__(self, it=()):
        super().__init__(); self._ord = {}
        for x in it: self.add(x)
    def add(self, x):
        if x not in self:
            PermSet._seq += 1; self._ord[x] = PermSet._seq
        super().add(x)
    def __iter__(self):
        items = list(super().__iter__())
        rnd = MODE["key"]
        items.sort(key=lambda x: self._ord[x])
        if rnd is not None: rnd.shuffle(items)
        return iter(items)
    def __iand__(self, other):
        for x in list(super().__iter__()):
            if x not in other: super().discard(x); self._ord.pop(x, None)
        return self
tm.set = PermSet
exec(open('p_c02.py').read().split("def gen(seed):")[1].join(["def gen(seed):", ""]).split("def faithful")[0]) if False else None
src = open('p_c02.py').read()
ns = {}
exec(src[src.index("def gen(seed):"):src.index("def spec(meths, call):")], globals())
bad = tot = 0
for seed in range(int(sys.argv[1]), int(sys.argv[2])):
    classes, meths, calls = gen(seed)
    # distinct signatures only (replacement order is meaningful)
    seen = set(); ms = []
    for m in meths:
        if m not in seen: seen.add(m); ms.append(m)
    outs = []
    for trial in range(4):
        rnd = random.Random(seed * 31 + trial)
        MODE["key"] = None if trial == 0 else rnd
        order = list(range(len(ms)))
        if trial: rnd.shuffle(order)
        try: F, fns = build([ms[i] for i in order])
        except Exception: outs = None; break
        res = []
        for call in calls:
            r = impl(F, call)
            if r[0] == "ran": r = ("ran", order[r[1]])
            res.append(r)
        outs.append(res)
    if not outs: continue
    for ci in range(len(calls)):
        tot += 1
        if len({o[ci] for o in outs}) > 1:
            bad += 1
            if bad < 6: print("ORDER-DEPENDENT seed", seed, [c.__name__ for c in calls[ci]], [o[ci] for o in outs])
print("total", tot, "order-dependent", bad)
