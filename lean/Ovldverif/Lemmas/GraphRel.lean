import Ovldverif.Lemmas.GraphBasic
/-!
# Ancestors, linked paths, ranks; fuel adequacy of `ancB` and `defns`
-/
set_option autoImplicit false
namespace Ovld

/-- `a` is a proper ancestor of `n`: reachable upwards through `mixins` -/
inductive Anc (mx : Nat → List Nat) : Nat → Nat → Prop
  | direct {m n : Nat} : m ∈ mx n → Anc mx m n
  | step {a m n : Nat} : m ∈ mx n → Anc mx a m → Anc mx a n

/-- linked path downwards: a chain through `children` -/
inductive LPath (ch : Nat → List Nat) : Nat → Nat → Prop
  | refl (a : Nat) : LPath ch a a
  | step {a b c : Nat} : b ∈ ch a → LPath ch b c → LPath ch a c

theorem Anc.trans {mx : Nat → List Nat} {a b c : Nat} (h1 : Anc mx a b) (h2 : Anc mx b c) : Anc mx a c := by
  induction h2 with
  | direct hm => exact Anc.step hm h1
  | step hm _ ih => exact Anc.step hm ih

theorem Anc.head {mx : Nat → List Nat} {a b c : Nat} (h1 : a ∈ mx b) (h2 : Anc mx b c) : Anc mx a c :=
  (Anc.direct h1).trans h2

/-- last edge of an ancestor chain seen from the top -/
theorem Anc.top_cases {mx : Nat → List Nat} {a c : Nat} (h : Anc mx a c) :
    ∃ b, a ∈ mx b ∧ (b = c ∨ Anc mx b c) := by
  induction h with
  | direct hm => exact ⟨_, hm, Or.inl rfl⟩
  | step hm _ ih =>
    obtain ⟨b, hb, hbc⟩ := ih
    refine ⟨b, hb, Or.inr ?_⟩
    rcases hbc with rfl | hbc
    · exact Anc.direct hm
    · exact Anc.step hm hbc

theorem LPath.trans {ch : Nat → List Nat} {a b c : Nat} (h1 : LPath ch a b) (h2 : LPath ch b c) : LPath ch a c := by
  induction h1 with
  | refl => exact h2
  | step hb _ ih => exact LPath.step hb (ih h2)

theorem LPath.snoc {ch : Nat → List Nat} {a b c : Nat} (h1 : LPath ch a b) (h2 : c ∈ ch b) : LPath ch a c :=
  h1.trans (LPath.step h2 (LPath.refl c))

theorem LPath.tail_cases {ch : Nat → List Nat} {a c : Nat} (h : LPath ch a c) :
    a = c ∨ ∃ b, c ∈ ch b ∧ LPath ch a b := by
  induction h with
  | refl => exact Or.inl rfl
  | @step a b c hb _ ih =>
    rcases ih with rfl | ⟨b', hb', hp⟩
    · exact Or.inr ⟨a, hb, LPath.refl a⟩
    · exact Or.inr ⟨b', hb', LPath.step hb hp⟩

theorem LPath.mono {ch ch' : Nat → List Nat} (hsub : ∀ k, ∀ c ∈ ch k, c ∈ ch' k) {a c : Nat}
    (h : LPath ch a c) : LPath ch' a c := by
  induction h with
  | refl => exact LPath.refl _
  | step hb _ ih => exact LPath.step (hsub _ _ hb) ih

theorem Anc.mono {mx mx' : Nat → List Nat} (hsub : ∀ k, ∀ c ∈ mx k, c ∈ mx' k) {a c : Nat}
    (h : Anc mx a c) : Anc mx' a c := by
  induction h with
  | direct hm => exact Anc.direct (hsub _ _ hm)
  | step hm _ ih => exact Anc.step (hsub _ _ hm) ih

/-! ## ranks -/

/-- `rk` witnesses that the mixin relation on the `L` nodes is acyclic with chains shorter than `L` -/
def Ranked (L : Nat) (mx : Nat → List Nat) (rk : Nat → Nat) : Prop :=
  (∀ n, n < L → rk n < L) ∧ ∀ n, ∀ m ∈ mx n, n < L ∧ m < L ∧ rk m < rk n

/-- `children` edges mirror `mixins` edges -/
def Mirror (L : Nat) (mx ch : Nat → List Nat) : Prop := ∀ a, ∀ c ∈ ch a, c < L ∧ a ∈ mx c

theorem Ranked.anc {L : Nat} {mx : Nat → List Nat} {rk : Nat → Nat} (hr : Ranked L mx rk) {a n : Nat}
    (h : Anc mx a n) : a < L ∧ n < L ∧ rk a < rk n := by
  induction h with
  | direct hm => obtain ⟨h1, h2, h3⟩ := hr.2 _ _ hm; exact ⟨h2, h1, h3⟩
  | step hm _ ih =>
    obtain ⟨h1, _, h3⟩ := hr.2 _ _ hm
    exact ⟨ih.1, h1, Nat.lt_trans ih.2.2 h3⟩

theorem Ranked.irrefl {L : Nat} {mx : Nat → List Nat} {rk : Nat → Nat} (hr : Ranked L mx rk) (n : Nat) :
    ¬ Anc mx n n := fun h => Nat.lt_irrefl _ (hr.anc h).2.2

theorem Ranked.child {L : Nat} {mx ch : Nat → List Nat} {rk : Nat → Nat} (hr : Ranked L mx rk)
    (hm : Mirror L mx ch) {a c : Nat} (h : c ∈ ch a) : a < L ∧ c < L ∧ rk a < rk c := by
  obtain ⟨h1, h2⟩ := hm a c h
  obtain ⟨_, h4, h5⟩ := hr.2 _ _ h2
  exact ⟨h4, h1, h5⟩

theorem ancB_sound (mx : Nat → List Nat) : ∀ (f a n : Nat), ancB mx f a n = true → Anc mx a n
  | 0, _, _, h => by simp [ancB] at h
  | f + 1, a, n, h => by
    simp only [ancB, List.any_eq_true, Bool.or_eq_true, beq_iff_eq] at h
    obtain ⟨m, hm, h⟩ := h
    rcases h with rfl | h
    · exact Anc.direct hm
    · exact Anc.step hm (ancB_sound mx f a m h)

theorem ancB_complete {L : Nat} {mx : Nat → List Nat} {rk : Nat → Nat} (hr : Ranked L mx rk) {a n : Nat}
    (h : Anc mx a n) : ∀ f, rk n < f → ancB mx f a n = true := by
  induction h with
  | direct hm =>
    intro f hf
    cases f with
    | zero => omega
    | succ f =>
      simp only [ancB, List.any_eq_true, Bool.or_eq_true, beq_iff_eq]
      exact ⟨_, hm, Or.inl rfl⟩
  | step hm _ ih =>
    intro f hf
    cases f with
    | zero => omega
    | succ f =>
      simp only [ancB, List.any_eq_true, Bool.or_eq_true, beq_iff_eq]
      have := (hr.2 _ _ hm).2.2
      exact ⟨_, hm, Or.inr (ih f (by omega))⟩

theorem ancB_iff {L : Nat} {mx : Nat → List Nat} {rk : Nat → Nat} (hr : Ranked L mx rk) (a n : Nat) :
    ancB mx (L + 1) a n = true ↔ Anc mx a n := by
  constructor
  · exact ancB_sound mx _ a n
  · intro h
    have := (hr.anc h).2.1
    exact ancB_complete hr h _ (by have := hr.1 n this; omega)

/-! ## `defns` -/

/-- `defns` of `n` only looks at `n` and its ancestors -/
theorem Graph.defns_local (g g' : Graph) : ∀ (f n : Nat),
    (∀ x, x = n ∨ Anc g.mx x n → g'.ow x = g.ow x ∧ g'.mx x = g.mx x) → g'.defns f n = g.defns f n
  | 0, _, _ => rfl
  | f + 1, n, h => by
    rw [Graph.defns_succ, Graph.defns_succ, (h n (Or.inl rfl)).1, (h n (Or.inl rfl)).2]
    congr 1
    refine foldl_congr_mem _ _ _ (fun a m hm => ?_) _
    rw [Graph.defns_local g g' f m]
    intro x hx
    apply h
    rcases hx with rfl | hx
    · exact Or.inr (Anc.direct hm)
    · exact Or.inr (Anc.step hm hx)

/-- fuel beyond the rank is irrelevant -/
theorem Graph.defns_fuel (g : Graph) {L : Nat} {rk : Nat → Nat} (hr : Ranked L g.mx rk) :
    ∀ (f1 f2 n : Nat), rk n < f1 → rk n < f2 → g.defns f1 n = g.defns f2 n
  | 0, _, _, h, _ => by omega
  | _ + 1, 0, _, _, h => by omega
  | f1 + 1, f2 + 1, n, h1, h2 => by
    rw [Graph.defns_succ, Graph.defns_succ]
    congr 1
    refine foldl_congr_mem _ _ _ (fun a m hm => ?_) _
    have := (hr.2 _ _ hm).2.2
    rw [Graph.defns_fuel g hr f1 f2 m (by omega) (by omega)]

end Ovld
