import Ovldverif.Model.Order
import Ovldverif.Model.Ty
import Ovldverif.Model.TypeOrder
