"""Entry point of ./check."""

import argparse
import os
import sys
import time
import traceback

sys.path.insert(0, os.path.dirname(os.path.abspath(__file__)))

import framework as fw  # noqa: E402
from common import seed as get_seed  # noqa: E402


def merge(outs):
    tot = {"pairs": 0, "nontrivial": 0, "corr": [], "viol": [], "hist": {}, "samples": [], "known": {}, "wf_bad": 0}
    for o in outs:
        for k in ("pairs", "nontrivial", "wf_bad"):
            tot[k] += o.get(k, 0)
        tot["corr"] += o.get("corr", [])
        tot["viol"] += o.get("viol", [])
        tot["samples"] += o.get("samples", [])
        for k, v in o.get("hist", {}).items():
            tot["hist"][k] = tot["hist"].get(k, 0) + v
        for k, v in o.get("known", {}).items():
            e = tot["known"].setdefault(k, {"count": 0, "witness": v["witness"]})
            e["count"] += v["count"]
    return tot


def thorough_recheck(tier, modules, audit):
    """thorough tier: the compiled .olean files of the property's modules (and everything they import) are
    re-checked by leanchecker, the toolchain's independent kernel re-checker"""
    if tier != "thorough":
        return
    ok, tail = fw.leanchecker(modules)
    audit["checker_cmd"] += " ; lake env leanchecker " + " ".join(modules)
    if not ok:
        raise fw.Broken("leanchecker rejected the compiled modules: " + tail[-400:])


def run_types(prop, tier, seed, t0):
    modules = {"C12": ["Ovldverif.Props.C12", "Ovldverif.Props.C12Mirror", "Ovldverif.Props.C13Generic", "Ovldverif.Lemmas.Fuel"], "C13": ["Ovldverif.Props.C13", "Ovldverif.Props.C13Generic", "Ovldverif.Lemmas.Fuel"]}[prop]
    modules = [m for m in modules if os.path.exists(os.path.join(fw.LEAN_DIR, m.replace(".", "/") + ".lean")) and m in open(os.path.join(fw.LEAN_DIR, "Ovldverif.lean")).read()]
    audit = fw.lean_audit(modules)
    thorough_recheck(tier, modules, audit)
    nb, per = (16, 12) if tier == "quick" else (64, 60)
    payloads = [(seed * 100003 + i, per, 6, 3, prop) for i in range(nb)]
    outs = fw.parallel("check_types", "worker", payloads)
    tot = merge(outs)
    known = fw.load_known(prop)
    known_lines = []
    import witness as wit

    for f in known:
        still = wit.replay(f["witness"])
        hits = tot["known"].get(f["id"], {"count": 0})["count"]
        if still:
            known_lines.append(f"KNOWN-FINDING: property={prop} {f['id']} {f['what']} (witness still fails; cases in this class on this run: {hits})")
    listed = {f["id"] for f in known}
    violations = fw.regressions(prop) + list(tot["viol"])
    for k, v in tot["known"].items():
        if k not in listed and v["count"]:
            violations.append({"law": f"failing class {k} is not a listed known finding", "count": v["count"], "witness": v["witness"]})
    corr = tot["corr"]
    # a correspondence break with no property failure on the real code is still reported
    corr_breaks = [] if violations else [{"layer": "A", "theorems": [t["name"] for t in audit["theorems"]], "smallest": corr[0], "count": len(corr)}] if corr else []
    stats = {
        "evaluations": tot["pairs"],
        "distinct_nontrivial": tot["nontrivial"],
        "rule": "ordered pairs of types from generated closures (depth<=3) over generated hierarchies (multiple inheritance, ABC.register, runtime protocols, generics), each evaluated on the real typeorder/subclasscheck and on the Lean model; non-trivial = distinct types whose order is not NONE (C12) / class-vs-type tests that hold (C13)",
        "samples": tot["samples"],
        "histogram": tot["hist"],
        "known_finding_hits": {k: v["count"] for k, v in tot["known"].items()},
        "assumptions": ["Hier.WF of each generated hierarchy is checked on the live classes; scenarios violating it: %d" % tot["wf_bad"]],
    }
    return fw.finish(prop, tier, seed, t0, audit, stats, violations, corr_breaks, known_lines)


def merge_streams(outs):
    tot = {"ops": 0, "corr": [], "hist": {}, "samples": [], "oracles": {}}
    for o in outs:
        tot["ops"] += o.get("ops", 0)
        tot["corr"] += o.get("corr", [])
        tot["samples"] += o.get("samples", [])[:1]
        for k, v in o.get("hist", {}).items():
            tot["hist"][k] = tot["hist"].get(k, 0) + v
        for name, oc in o.get("oracles", {}).items():
            t = tot["oracles"].setdefault(name, {"n": 0, "nontrivial": 0, "viol": [], "known": {}})
            t["n"] += oc["n"]
            t["nontrivial"] += oc["nontrivial"]
            t["viol"] += oc["viol"][:3]
            for k, v in oc["known"].items():
                e = t["known"].setdefault(k, {"count": 0, "witness": v["witness"]})
                e["count"] += v["count"]
    return tot


# per property: Lean modules holding its theorems, the streams it runs, the oracle it reads
SPECS = {
    "C01": dict(modules=["Ovldverif.Props.C01", "Ovldverif.Props.C01Dep"], streams=["fn", "fn_rich", "dep_f", "dep_e", "dep_comb", "rewrite", "dep_lit"], oracle="C01"),
    "C10": dict(modules=["Ovldverif.Props.C10", "Ovldverif.Props.C10Order"], streams=["dep_e", "dep_f", "dep_lit", "dep_comb"], oracle="C10"),
    "C11": dict(modules=["Ovldverif.Props.C11", "Ovldverif.Props.C11Comb", "Ovldverif.Props.C10", "Ovldverif.Props.C15"], streams=["dep_e", "dep_f", "dep_lit", "dep_comb", "annotations"], oracle="C11"),
    "C02": dict(modules=["Ovldverif.Props.C02", "Ovldverif.Props.C02Twin"], streams=["table_static", "fn_static", "levels"], oracle="C02"),
    "C03": dict(modules=["Ovldverif.Props.C03"], streams=["fn", "fn_static"], oracle="C03"),
    "C04": dict(modules=["Ovldverif.Props.C04"], streams=["table_static", "table_rich", "fn", "dep_f"], oracle="C04"),
    "C05": dict(modules=["Ovldverif.Props.C05", "Ovldverif.Props.C16"], streams=["table_static", "table_rich", "fn", "fn_types", "graph"], oracle="C05"),
    "C06": dict(modules=["Ovldverif.Props.C06", "Ovldverif.Props.C10", "Ovldverif.Props.C02Twin"], streams=["table_static", "fn_static", "levels", "levels_rich", "dep_f", "dep_lit_f"], oracle="C06"),
    "C07": dict(modules=["Ovldverif.Props.C07", "Ovldverif.Props.C07Chain", "Ovldverif.Props.C02Twin"], streams=["table_static", "fn_static", "levels", "graph", "dep_f", "dep_lit_f"], oracle="C07"),
    "C20": dict(modules=["Ovldverif.Props.C20", "Ovldverif.Props.C20Build", "Ovldverif.Props.C20Graph"], streams=["table_rich", "fn", "dep_f", "fn_types", "graph", "conc_first"], oracle="C20"),
    "C09": dict(modules=["Ovldverif.Props.C09", "Ovldverif.Props.C09Stmt"], streams=["rewrite", "rewrite_struct"], oracle="C09"),
    "C16": dict(modules=["Ovldverif.Props.C16"], streams=["graph"], oracle="C16"),
    "C18": dict(modules=["Ovldverif.Props.C18", "Ovldverif.Props.C18Resolve", "Ovldverif.Props.C18Tree", "Ovldverif.Props.C18Forest"], streams=["build", "table_cut", "table_cut_rich"], oracle="C18"),
    "C08": dict(modules=["Ovldverif.Props.C08", "Ovldverif.Props.C09"], streams=["graph", "graph_deep", "rewrite", "graph_self"], oracle="C08"),
    "C15": dict(modules=["Ovldverif.Props.C15"], streams=["annotations"], oracle="C15"),
    "C14": dict(modules=["Ovldverif.Props.C14"], streams=["annotations", "fn_types"], oracle="C14"),
    "C19": dict(modules=["Ovldverif.Props.C19Build", "Ovldverif.Props.C19Lookup"], streams=["conc"], oracle="C19"),
    "C17": dict(modules=["Ovldverif.Props.C17", "Ovldverif.Props.C08", "Ovldverif.Props.C16"], streams=["classes"], oracle="C17"),
}

STREAMS = {
    "table_static": ("check_table", "worker", lambda seed, n: (seed, n, True), "D"),
    "table_rich": ("check_table", "worker", lambda seed, n: (seed + 7, n, False), "D"),
    "table_cut": ("check_table", "worker", lambda seed, n: (seed + 11, n, True, True), "D"),
    "table_cut_rich": ("check_table", "worker", lambda seed, n: (seed + 13, n, False, True), "D"),
    "fn": ("check_fn", "worker", lambda seed, n: (seed + 11, n, {"static_only": False}), "F"),
    "fn_static": ("check_fn", "worker", lambda seed, n: (seed + 13, n, {"static_only": True}), "F"),
    "fn_rich": ("check_fn", "worker", lambda seed, n: (seed + 17, n, {"static_only": False, "bodies": True}), "F"),
    "dep_e": ("check_dep", "worker_e", lambda seed, n: (seed + 29, n, None), "E"),
    "dep_lit": ("check_dep", "worker_e", lambda seed, n: (seed + 31, n, "literals"), "E"),
    "dep_comb": ("check_dep", "worker_e", lambda seed, n: (seed + 33, n, "combos"), "E"),
    "dep_f": ("check_dep", "worker_f", lambda seed, n: (seed + 37, max(10, n // 2), None), "F"),
    "dep_lit_f": ("check_dep", "worker_f", lambda seed, n: (seed + 39, max(10, n // 2), "literals"), "F"),
    "levels": ("corr_c", "worker", lambda seed, n: (seed + 41, n, True), "C"),
    "levels_rich": ("corr_c", "worker", lambda seed, n: (seed + 43, n, False), "C"),
    "rewrite": ("check_rewrite", "worker", lambda seed, n: (seed + 47, n, {}), "H"),
    "rewrite_struct": ("corr_h", "worker", lambda seed, n: (seed + 53, 6 * n, {}), "H"),
    "build": ("check_build", "worker", lambda seed, n: (seed + 59, 2 * n, {"nmax": 400, "sweep": n > 100}), "I"),
    "annotations": ("corr_b", "worker", lambda seed, n: (seed + 67, n, {}), "B"),
    "fn_types": ("check_fn", "worker", lambda seed, n: (seed + 71, n, {"static_only": True, "type_args": True, "simple_sigs": True}), "F"),
    # thorough (n = 250): every line of thread 0 is a pre-emption point
    "conc_first": ("check_conc", "worker", lambda seed, n: (seed + 79, 1 if n <= 100 else 2, {"modes": ["first"], "per": 3, "three": 4}), "K"),
    "conc": ("check_conc", "worker", lambda seed, n: (seed + 73, 4 if n <= 100 else 2, {"exhaustive": n > 100}), "K"),
    "classes": ("corr_j", "worker", lambda seed, n: (seed + 61, n, {}), "J"),
    "graph": ("check_graph", "worker", lambda seed, n: (seed + 19, n, {}), "G"),
    "graph_self": ("check_graph", "worker_self", lambda seed, n: (seed + 83, n, {}), "G"),
    "graph_deep": ("check_graph", "worker", lambda seed, n: (seed + 23, n, {"nnodes": 6, "recurse_bias": 0.6}), "G"),
}


def run_generic(prop, tier, seed, t0):
    spec = SPECS[prop]
    root = open(os.path.join(fw.LEAN_DIR, "Ovldverif.lean")).read()
    modules = [m for m in spec["modules"] + ["Ovldverif.Lemmas.Fuel"] if m in root]
    audit = fw.lean_audit(modules)
    thorough_recheck(tier, modules, audit)
    nb, per = (16, 50) if tier == "quick" else (64, 250)
    outs = []
    for st in spec["streams"]:
        mod, fn, mk, layer = STREAMS[st]
        k = max(1, nb // len(spec["streams"]))
        payloads = [mk(seed * 100003 + i * 31, per) for i in range(k)]
        outs += fw.parallel(mod, fn, payloads)
    tot = merge_streams(outs)
    # a broken levels correspondence: directed search for an input on which the property itself fails
    lv = [c for c in tot["corr"] if c.get("layer") == "C"]
    if lv:
        import check_table

        extra = check_table.directed_from_levels(lv)
        if extra:
            corr_keep = tot["corr"]
            tot = merge_streams([tot, extra])
            tot["corr"] = corr_keep
    dd = [c for c in tot["corr"] if c.get("layer") == "D"]
    if dd and not tot["oracles"].get(spec["oracle"], {}).get("viol"):
        import check_table

        extra = check_table.directed_from_table(dd)
        if extra:
            corr_keep = tot["corr"]
            tot = merge_streams([tot] + extra)
            tot["corr"] = corr_keep
    # a broken correspondence and no failing input yet: search on — the streams of the layers that broke, sixteen more
    # batches each with other seeds (never reached on a tree where the correspondence holds)
    if tot["corr"] and not tot["oracles"].get(spec["oracle"], {}).get("viol"):
        broke = {c.get("layer") for c in tot["corr"]}
        more = []
        for st in spec["streams"]:
            mod, fn, mk, layer = STREAMS[st]
            if layer in broke and time.time() - t0 < 240:
                more += fw.parallel(mod, fn, [mk(seed * 100003 + 7777 + i * 31, per) for i in range(16)])
        if more:
            ex = merge_streams(more)
            if ex["oracles"].get(spec["oracle"], {}).get("viol"):
                corr_keep = tot["corr"]
                tot = merge_streams([tot, ex])
                tot["corr"] = corr_keep
    oc = tot["oracles"].get(spec["oracle"], {"n": 0, "nontrivial": 0, "viol": [], "known": {}})
    known = fw.load_known(prop)
    import witness as wit

    known_lines = []
    for f in known:
        if wit.replay(f["witness"]):
            hits = oc["known"].get(f["id"], {"count": 0})["count"]
            known_lines.append(f"KNOWN-FINDING: property={prop} {f['id']} {f['what']} (witness still fails; cases in this class on this run: {hits})")
    listed = {f["id"] for f in known}
    violations = fw.regressions(prop) + list(oc["viol"])
    for k, v in oc["known"].items():
        if k not in listed and v["count"]:
            violations.append({"law": f"failing class {k} is not a listed known finding", "count": v["count"], "witness": v["witness"]})
    corr = tot["corr"]
    corr_breaks = [] if violations else ([{"layer": corr[0].get("layer"), "theorems": [t["name"] for t in audit["theorems"]], "smallest": corr[0], "count": len(corr)}] if corr else [])
    stats = {
        "evaluations": oc["n"],
        "distinct_nontrivial": oc["nontrivial"],
        "rule": "generated scenarios (class DAGs with multiple inheritance / ABC.register / protocols; method tables with 0-3 positions, optional and keyword-only parameters, priorities, repeated signatures; operation sequences of register / unregister / lookup or call, bodies delegating with call_next / recurse / f.next) executed on the real code and on the Lean model (every operation compared: outcome, trace of entered methods with the identities of received arguments, cache key sets or resolve counts), plus the property's oracle on the real code; non-trivial = the oracle's case had at least two applicable methods / a nested delegation / a keyword or omitted argument, by property",
        "samples": tot["samples"],
        "histogram": tot["hist"],
        "known_finding_hits": {k: v["count"] for k, v in oc["known"].items()},
        "traces_validated_against_impl": tot["ops"],
        "assumptions": ["set iteration order imposed through ovld.typemap.set (ranked set) in correspondence runs"],
    }
    return fw.finish(prop, tier, seed, t0, audit, stats, violations, corr_breaks, known_lines)


RUNNERS = {"C12": run_types, "C13": run_types}
for _p in SPECS:
    RUNNERS[_p] = run_generic


def main():
    ap = argparse.ArgumentParser()
    ap.add_argument("prop")
    ap.add_argument("--tier", default=os.environ.get("VERIF_TIER", "quick"))
    ap.add_argument("--replay", default=None)
    a = ap.parse_args()
    t0 = time.time()
    seed = get_seed()
    try:
        fw.lake_build()
        if a.replay:
            import replay

            sys.exit(replay.run(a.prop, a.replay))
        if a.prop not in RUNNERS:
            print(f"unknown property {a.prop}")
            sys.exit(2)
        rc = RUNNERS[a.prop](a.prop, a.tier, seed, t0)
        sys.exit(rc)
    except fw.Broken as e:
        print("BROKEN-CHECK:", e)
        sys.exit(2)
    except SystemExit:
        raise
    except Exception:
        traceback.print_exc()
        sys.exit(2)


if __name__ == "__main__":
    main()
