import Ovldverif.Model.Normalize
import Ovldverif.Lemmas.Fuel
/-!
# C14 — types passed as arguments dispatch on `type[...]` by subtype

A type-valued argument `t` is keyed as `type[t]` (`subtlerType`); a method annotated `type[T]` is then applicable
exactly when `subclasscheck (type[t]) (type[T])`, which the theorems reduce to the subtype relation on `t` and `T`:
`issubclass` for classes, same-or-subclass origin with argument-wise subtyping for parametrised generics.
`cT` is the class id of `type`.
-/
set_option autoImplicit false
namespace Ovld.Norm
open Ovld

/-- a passed type `t` matches `type[T]` exactly when `t` is a subtype of `T` (any nesting) -/
theorem C14_type_arg (H : Hier) (cT : Nat) (hT : H.sub cT cT = true) (t1 t2 : Ty) :
    subclasscheck H (.gen cT [t1]) (.gen cT [t2]) = subclasscheck H t1 t2 := by
  by_cases e : t1 = t2
  · subst e
    unfold subclasscheck
    rw [subc_self, subc_self]
  · have hb : Ty.beq t1 t2 = false := Ty.beq_false_of_ne e
    have hfuel := subc_fuel H ((Ty.gen cT [t1]).size + (Ty.gen cT [t2]).size) t1 t2
      (by simp only [Ty.size, Ty.sizeL]; omega)
    rw [← hfuel]
    unfold subclasscheck
    rw [subc]
    simp [Ty.beq, Ty.beqL, hb, subcNe, zipWithT, hT]

/-- classes: a subclass -/
theorem C14_class_arg (H : Hier) (a b : Nat) (hrefl : H.sub a a = true) :
    subclasscheck H (.cls a) (.cls b) = H.sub a b := by
  unfold subclasscheck; rw [subc]
  by_cases h : a = b
  · subst h; simp [Ty.beq, hrefl]
  · simp [Ty.beq, h, subcNe, issubCls]

/-- parametrised generics: same-or-subclass origin, argument-wise subtyping -/
theorem C14_generic_arg (H : Hier) (o1 o2 : Nat) (as bs : List Ty) :
    subclasscheck H (.gen o1 as) (.gen o2 bs) =
      (Ty.beq (.gen o1 as) (.gen o2 bs) ||
        (H.sub o1 o2 && as.length == bs.length && (zipWithT (subclasscheck H) as bs).all id)) := by
  have hz : zipWithT (subc H ((Ty.gen o1 as).size + (Ty.gen o2 bs).size)) as bs =
      zipWithT (subclasscheck H) as bs :=
    zipWithT_congr _ _ as bs (fun a ha b hb => by
      have := Ty.mem_sizeL ha
      have := Ty.mem_sizeL hb
      exact subc_fuel H _ a b (by simp only [Ty.size]; omega))
  have hd : subclasscheck H (.gen o1 as) (.gen o2 bs) =
      subc H ((Ty.gen o1 as).size + (Ty.gen o2 bs).size + 1) (.gen o1 as) (.gen o2 bs) := rfl
  rw [hd, subc]
  cases e : Ty.beq (.gen o1 as) (.gen o2 bs)
  · simp [subcNe, hz]
  · simp

/-- bare `type` is `type[object]`, and so is `type[Any]` -/
theorem C14_bare_type (env : Env) (f : Nat) :
    normalize env (f + 1) .bareType = .ok (.rawType (.cls 0)) ∧
    normalize env (f + 1) (.typeOf .any) = .ok (.rawType (.cls 0)) := by
  constructor <;> simp [normalize, Ann.isAny]

/-- `typing.Any` passed as a value counts as `object` -/
theorem C14_any_value (cT : Nat) : subtlerType cT .anyVal = subtlerType cT (.typeVal (.cls 0)) := rfl

/-- ordinary (non-type) arguments keep their class as key -/
theorem C14_ordinary_args (cT c : Nat) : subtlerType cT (.inst c) = .cls c := rfl

theorem tord_merge_singleton (x : TOrd) : TOrd.merge [x] = x := by
  cases x <;> rfl

/-- a more specific `type[...]` annotation is preferred over a more general one … -/
theorem C14_prefers_specific (H : Hier) (cT : Nat) (t1 t2 : Ty) :
    typeorder H (.gen cT [t1]) (.gen cT [t2]) = typeorder H t1 t2 := by
  by_cases e : t1 = t2
  · subst e
    unfold typeorder
    rw [tord_self, tord_self]
  · have hb : Ty.beq t1 t2 = false := Ty.beq_false_of_ne e
    have hfuel := tord_fuel H ((Ty.gen cT [t1]).size + (Ty.gen cT [t2]).size) t1 t2
      (by simp only [Ty.size, Ty.sizeL]; omega)
    rw [← hfuel]
    have hs : tord H ((Ty.gen cT [t1]).size + (Ty.gen cT [t2]).size) (.cls cT) (.cls cT) = .same := by
      have : (Ty.gen cT [t1]).size + (Ty.gen cT [t2]).size =
          ((Ty.gen cT [t1]).size + (Ty.gen cT [t2]).size - 1) + 1 := by
        simp only [Ty.size]; omega
      rw [this]; exact tord_self H _ _
    unfold typeorder
    rw [tord]
    simp [Ty.beq, Ty.beqL, hb, hook, tstruct, zipWithT, hs, tord_merge_singleton]

/-- … and over plain `object` -/
theorem C14_over_object (H : Hier) (cT : Nat) (h1 : H.sub cT 0 = true) (h2 : H.sub 0 cT = false) (hne : cT ≠ 0)
    (t : Ty) : typeorder H (.gen cT [t]) (.cls 0) = .less := by
  have hfuel := tord_fuel H ((Ty.gen cT [t]).size + (Ty.cls 0).size) (.cls cT) (.cls 0)
    (by simp only [Ty.size]; omega)
  have hc : typeorder H (.cls cT) (.cls 0) = .less := by
    unfold typeorder
    rw [tord]; simp [Ty.beq, hne, hook, tstruct, pyIssub, issubCls, h1, h2, ofSub]
  unfold typeorder
  rw [tord]
  simp [Ty.beq, hook, tstruct, hfuel, hc]

end Ovld.Norm
