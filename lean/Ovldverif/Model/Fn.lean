import Ovldverif.Model.Entry
/-!
# Layer G (single function): `Ovld` with `register` / `unregister` / first-use `compile` / calls

core.py L341-573 for one function without mixins (the graph of functions is `Model/Graph.lean`).
Method bodies are small scripts: log the entry, then return, or delegate with `call_next`, `recurse` or
`f.next` on the method's own parameters or on constants; the value returned is the result of the innermost
method.  A depth budget shared with the real bodies keeps generated recursions finite.
-/
set_option autoImplicit false
namespace Ovld

inductive ArgSrc | param (i : Nat) | const (a : Arg)
deriving Inhabited

inductive Body
  | ret
  | callNext (args : List ArgSrc)
  | recurse (args : List ArgSrc)
  | next (args : List ArgSrc)
deriving Inhabited

structure Def where
  d : FnDef
  body : Body
deriving Inhabited

inductive Outcome
  | ran (id : Nat)            -- the innermost method that returned
  | ambiguous (ids : List Nat)
  | noMethod
  | bindError                 -- CPython's TypeError from the entry point's own signature
  | methodBindError           -- CPython's TypeError binding the forwarded arguments to the method
  | configError               -- ArgumentAnalyzer refuses the method set
  | locked
  | depth                     -- the depth budget of the generated bodies ran out
  | keyError
  | cycle
  | raised                    -- an exception escaped from a generated value check / a user condition
  | unsupported
deriving DecidableEq, Repr, Inhabited

/-- per method entered: its id, the forwarded positional values, the forwarded keyword values -/
abbrev Trace := List (Nat × List Nat × List (Nat × Nat))

structure Fn where
  defns : List (Def × Int) := []     -- `_defns` in dict order, with the tiebreak of each signature
  compiled : Bool := false
  mm : MMap := {}
  ana : Analysis := default
  allowReplacement : Bool := true
  locked : Bool := false

/-- `Signature.__eq__` on two definitions with given tiebreaks -/
def sameSigDef (a : FnDef) (ta : Int) (b : FnDef) (tb : Int) : Bool :=
  let ma := a.toMeth ta; let mb := b.toMeth tb
  ma.params == mb.params && ma.reqPos == mb.reqPos && ma.maxPos == mb.maxPos && ma.reqNames == mb.reqNames &&
  ma.prio == mb.prio && ta == tb && a.isMethod == b.isMethod

/-- `_set(sig, fn)` (core.py L549-554): push an existing definition of the same signature down -/
def setDefn : Nat → List (Def × Int) → Def → Int → List (Def × Int)
  | 0, ds, _, _ => ds
  | f + 1, ds, x, tb =>
    match ds.find? (fun e => sameSigDef e.1.d e.2 x.d tb) with
    | some old =>
      let ds' := setDefn f ds old.1 (tb - 1)
      -- `self._defns[sig] = fn` overwrites in place (dict order of an existing key is kept)
      ds'.map (fun e => if sameSigDef e.1.d e.2 x.d tb then (x, tb) else e)
    | none => ds ++ [(x, tb)]

/-- CPython code objects compare *by value*.  Two adapted copies of the same function with the same signature
    string differ only when the rewrite mentions a per-copy global (`___CODE<n>`, i.e. the body uses
    `call_next`); otherwise their code objects are equal, and they collide as cache-key components. -/
def codeOfHandle (df : Def) (i : Nat) : Nat :=
  match df.body with
  | .callNext _ => 2000 + i
  | _ => 1000 + df.d.id

/-- the table entries built by `compile`: every `(signature, function)` pair of `_defns` gets a freshly
    adapted function object (its own identity and its own code object): the handle is the index in `_defns` -/
def Fn.methsOf (ds : List (Def × Int)) : List Meth :=
  ds.zipIdx.map (fun (e, i) => { e.1.d.toMeth e.2 with id := i, code := codeOfHandle e.1 i })

/-- iteration rank of a handle: by definition, then by recency (the harness orders handlers this way) -/
def Fn.cfgOf (cfg : Cfg) (ds : List (Def × Int)) : Cfg :=
  { cfg with hRank := fun h => match ds[h]? with
      | some e => cfg.hRank e.1.d.id * 1024 + e.2.natAbs
      | none => 0 }

/-- `compile()` for a function without mixins -/
def Fn.compile (fn : Fn) : Except CfgErr Fn := do
  let ana ← analyze (fn.defns.map (·.1.d))
  let mm := (Fn.methsOf fn.defns).foldl MMap.register {}
  return { fn with compiled := true, mm := mm, ana := ana }

/-- `register` then `_update()` (recompile when already compiled) -/
def Fn.register (fn : Fn) (x : Def) : Fn × Option Outcome :=
  if fn.locked then (fn, some .locked) else
  if !fn.allowReplacement && fn.defns.any (fun e => sameSigDef e.1.d e.2 x.d 0) then (fn, some .configError) else
  let ds := setDefn (fn.defns.length + 1) fn.defns x 0
  let fn' := { fn with defns := ds }
  if fn.compiled then
    match fn'.compile with
    | .ok f => (f, none)
    | .error _ => (fn', some .configError)
  else (fn', none)

def Fn.unregister (fn : Fn) (id : Nat) : Fn × Option Outcome :=
  if fn.locked then (fn, some .locked) else
  let fn' := { fn with defns := fn.defns.filter (fun e => e.1.d.id != id) }
  if fn.compiled then
    match fn'.compile with
    | .ok f => (f, none)
    | .error _ => (fn', some .configError)
  else (fn', none)

def depthLimit : Nat := 6

section exec
variable (cfg : Cfg)

def findDef (fn : Fn) (h : Nat) : Option Def := fn.defns[h]?.map (·.1)

def evalArgs (received : List Arg) : List ArgSrc → List Arg
  | [] => []
  | .param i :: r => (match received[i]? with | some a => [a] | none => []) ++ evalArgs received r
  | .const a :: r => a :: evalArgs received r

def keyOfArgs (ana : Analysis) (useSubtler : Bool) (args : List Arg) : Key :=
  args.zipIdx.map (fun (v, i) => (Slot.pos i, if useSubtler || ana.complexPos.contains i then v.subtler else v.cls))

def resOutcome : Res Entry (List Nat) → Outcome
  | .ok _ => .unsupported
  | .amb ids => .ambiguous ids
  | .noMethod => .noMethod
  | .failed => .cycle
  | .keyError => .keyError

/-- run a dict entry on forwarded arguments -/
def runEntry : Nat → Fn → Entry → Dispatch → Nat → Fn × Outcome × Trace × Nat
  | 0, fn, _, _, _ => (fn, .depth, [], 0)
  | f + 1, fn, e, x, depth =>
    match e with
    | .meth id =>
      match findDef fn id with
      | none => (fn, .keyError, [], 0)
      | some df =>
        match methodBind df.d x with
        | none => (fn, .methodBindError, [], 0)
        | some _ =>
          let tr : Trace := [(df.d.id, x.passPos.map (·.vid), x.passKw.map (fun p => (p.1, p.2.vid)))]
          let deleg (ck : Option Nat) (args : List Arg) (subtler : Bool) : Fn × Outcome × Trace × Nat :=
            if depth ≥ depthLimit then (fn, .depth, tr, 0) else
            let key := keyOfArgs fn.ana subtler args
            let nr := if fn.mm.resolvesAt (Fn.cfgOf cfg fn.defns) (ck, key) then 1 else 0
            let (mm', r) := fn.mm.lookup (Fn.cfgOf cfg fn.defns) (ck, key)
            let fn' := { fn with mm := mm' }
            match r with
            | .ok e' =>
              let (fn'', o, t, n) := runEntry f fn' e' { key := key, passPos := args, passKw := [] } (depth + 1)
              (fn'', o, tr ++ t, nr + n)
            | r => (fn', resOutcome r, tr, nr)
          match df.body with
          | .ret => (fn, .ran df.d.id, tr, 0)
          | .callNext srcs => deleg (some (codeOfHandle df id)) (evalArgs x.passPos srcs) false
          | .recurse srcs => deleg none (evalArgs x.passPos srcs) false
          | .next srcs => deleg (some (codeOfHandle df id)) (evalArgs x.passPos srcs) true
    | .dep hs next =>
      -- the generated dependent dispatcher of this rank (Layer E), called with the forwarded arguments
      let handlers : List DHandler := hs.map (fun h => (h, ((fn.mm.meths.find? (fun m => m.id == h)).map (·.params)).getD []))
      let args : List (Slot × DVal) :=
        (x.passPos.zipIdx.map (fun (a, i) => (Slot.pos i, a.val))) ++ (x.passKw.map (fun (n, a) => (Slot.kw n, a.val)))
      match dispatch cfg.dworld (x.key.map (·.1)) handlers args with
      | .handler h => runEntry f fn (.meth h) x depth
      | .fallthrough =>
        (match next with
         | .noNext => (fn, .noMethod, [], 0)
         | .ambNext ids => (fn, .ambiguous ids, [], 0)
         | e' => runEntry f fn e' x depth)
      | .ambiguous => (fn, .ambiguous hs, [], 0)
      | .raised => (fn, .raised, [], 0)
    | .noNext => (fn, .noMethod, [], 0)
    | .ambNext ids => (fn, .ambiguous ids, [], 0)

/-- a call of the function object: lazy build, entry point, lookup, method; the last component counts the
    lookups that had to run `resolve` -/
def Fn.call (fn : Fn) (c : Call) : Fn × Outcome × Trace × Nat :=
  let built : Except CfgErr Fn := if fn.compiled then .ok fn else fn.compile
  match built with
  | .error _ => (fn, .configError, [], 0)
  | .ok fn =>
    match entry fn.ana c with
    | .error _ => (fn, .bindError, [], 0)
    | .ok x =>
      let nr := if fn.mm.resolvesAt (Fn.cfgOf cfg fn.defns) (none, x.key) then 1 else 0
      let (mm', r) := fn.mm.lookup (Fn.cfgOf cfg fn.defns) (none, x.key)
      let fn' := { fn with mm := mm' }
      match r with
      | .ok e =>
        let (fn'', o, t, n) := runEntry cfg 64 fn' e x 1
        (fn'', o, t, nr + n)
      | r => (fn', resOutcome r, [], nr)

end exec
end Ovld
