import Ovldverif.Model.Batch
/-!
# graphlib-style batching: predecessors come strictly earlier; an acyclic graph is covered completely

Port of `design_prototypes/Layers.lean` (`pred_earlier`) plus completeness.
-/
set_option autoImplicit false
namespace Ovld
variable {α : Type} [DecidableEq α]

/-- unfolding of one round when something is ready -/
theorem batches_succ_of_ne (pred : α → List α) (f : Nat) (rem done : List α)
    (hr : ready pred rem done ≠ []) :
    batches pred (f + 1) rem done =
      ready pred rem done ::
        batches pred f (rem.filter (fun v => v ∉ ready pred rem done)) (done ++ ready pred rem done) := by
  simp [batches, hr]

/-- unfolding of one round when nothing is ready -/
theorem batches_succ_of_eq (pred : α → List α) (f : Nat) (rem done : List α)
    (hr : ready pred rem done = []) : batches pred (f + 1) rem done = [] := by
  simp [batches, hr]

theorem mem_ready_iff (pred : α → List α) (rem done : List α) (v : α) :
    v ∈ ready pred rem done ↔ v ∈ rem ∧ ∀ u ∈ pred v, u ∈ done := by
  simp only [ready, List.mem_filter, List.all_eq_true, decide_eq_true_eq]

theorem batchIdx_ge (v : α) :
    ∀ (bs : List (List α)) (i j : Nat), batchIdx v bs i = some j → j ≥ i := by
  intro bs
  induction bs with
  | nil => intro i j h; simp [batchIdx] at h
  | cons b bs ih =>
    intro i j h
    simp only [batchIdx] at h
    split at h
    · cases h; omega
    · have := ih (i+1) j h; omega

/-- Key invariant: anything placed in a batch has all its predecessors in `done` at that time;
    and `done` only contains nodes of earlier batches (or the initial `done`). -/
theorem pred_before (pred : α → List α) :
    ∀ (f : Nat) (rem done : List α) (start : Nat) (u v : α) (jv : Nat),
      u ∈ pred v →
      batchIdx v (batches pred f rem done) start = some jv →
      (u ∈ done) ∨ (∃ ju, batchIdx u (batches pred f rem done) start = some ju ∧ ju < jv) := by
  intro f
  induction f with
  | zero => intro rem done start u v jv _ h; simp [batches, batchIdx] at h
  | succ f ih =>
    intro rem done start u v jv hu h
    by_cases hr : ready pred rem done = []
    · rw [batches_succ_of_eq pred f rem done hr] at h
      simp [batchIdx] at h
    · rw [batches_succ_of_ne pred f rem done hr] at h ⊢
      simp only [batchIdx] at h ⊢
      by_cases hv : v ∈ ready pred rem done
      · left
        exact ((mem_ready_iff pred rem done v).mp hv).2 u hu
      · rw [if_neg hv] at h
        have := ih (rem.filter (fun v => v ∉ ready pred rem done)) (done ++ ready pred rem done)
          (start+1) u v jv hu h
        rcases this with hd | ⟨ju, hju, hlt⟩
        · rcases List.mem_append.mp hd with hd | hd
          · left; exact hd
          · right
            refine ⟨start, by rw [if_pos hd], ?_⟩
            have := batchIdx_ge v _ _ _ h; omega
        · right
          by_cases hub : u ∈ ready pred rem done
          · refine ⟨start, by rw [if_pos hub], ?_⟩
            have := batchIdx_ge u _ _ _ hju; omega
          · exact ⟨ju, by rw [if_neg hub]; exact hju, hlt⟩

/-- a predecessor of `v` sits in a strictly earlier batch than `v` -/
theorem pred_earlier (pred : α → List α) (f : Nat) (nodes : List α) (u v : α) (jv : Nat)
    (hu : u ∈ pred v) (h : batchIdx v (batches pred f nodes []) 0 = some jv) :
    ∃ ju, batchIdx u (batches pred f nodes []) 0 = some ju ∧ ju < jv := by
  rcases pred_before pred f nodes [] 0 u v jv hu h with hd | r
  · cases hd
  · exact r

/-- generalised `batches_sub` -/
theorem batches_sub_gen (pred : α → List α) :
    ∀ (f : Nat) (rem done : List α), rem.Nodup →
      (batches pred f rem done).flatten.Nodup ∧ ∀ v ∈ (batches pred f rem done).flatten, v ∈ rem := by
  intro f
  induction f with
  | zero =>
    intro rem done _
    simp [batches]
  | succ f ih =>
    intro rem done nd
    by_cases hr : ready pred rem done = []
    · rw [batches_succ_of_eq pred f rem done hr]
      simp
    · rw [batches_succ_of_ne pred f rem done hr, List.flatten_cons]
      have ndr : (ready pred rem done).Nodup := List.Nodup.sublist List.filter_sublist nd
      have nd' : (rem.filter (fun v => v ∉ ready pred rem done)).Nodup :=
        List.Nodup.sublist List.filter_sublist nd
      obtain ⟨ih1, ih2⟩ := ih (rem.filter (fun v => v ∉ ready pred rem done))
        (done ++ ready pred rem done) nd'
      refine ⟨?_, ?_⟩
      · refine List.nodup_append.mpr ⟨ndr, ih1, ?_⟩
        intro a ha b hb hab
        have hb' := ih2 b hb
        rw [List.mem_filter] at hb'
        have hnb : b ∉ ready pred rem done := by simpa using hb'.2
        exact hnb (hab ▸ ha)
      · intro v hv
        rcases List.mem_append.mp hv with hv | hv
        · exact ((mem_ready_iff pred rem done v).mp hv).1
        · exact (List.mem_filter.mp (ih2 v hv)).1

/-- every batch element is a node, and no node occurs twice in the batches -/
theorem batches_sub (pred : α → List α) (f : Nat) (nodes : List α) (nd : nodes.Nodup) :
    (batches pred f nodes []).flatten.Nodup ∧ ∀ v ∈ (batches pred f nodes []).flatten, v ∈ nodes :=
  batches_sub_gen pred f nodes [] nd

omit [DecidableEq α] in
/-- a non-empty list has an element of minimal rank -/
theorem exists_min_rank (rank : α → Nat) :
    ∀ (l : List α), l ≠ [] → ∃ v ∈ l, ∀ w ∈ l, rank v ≤ rank w := by
  intro l
  induction l with
  | nil => intro h; exact absurd rfl h
  | cons a l ih =>
    intro _
    by_cases hl : l = []
    · subst hl
      refine ⟨a, List.mem_cons_self, ?_⟩
      intro w hw
      rw [List.mem_singleton] at hw
      subst hw
      exact Nat.le_refl _
    · obtain ⟨m, hm, hmin⟩ := ih hl
      by_cases hle : rank a ≤ rank m
      · refine ⟨a, List.mem_cons_self, ?_⟩
        intro w hw
        rcases List.mem_cons.mp hw with hw | hw
        · subst hw; exact Nat.le_refl _
        · exact Nat.le_trans hle (hmin w hw)
      · refine ⟨m, List.mem_cons_of_mem a hm, ?_⟩
        intro w hw
        rcases List.mem_cons.mp hw with hw | hw
        · subst hw; omega
        · exact hmin w hw

/-- progress: with an acyclic predecessor relation whose predecessors are remaining or done,
    something is ready as long as something remains -/
theorem ready_ne_nil (pred : α → List α) (rank : α → Nat) (rem done : List α)
    (closed : ∀ v ∈ rem, ∀ u ∈ pred v, u ∈ rem ∨ u ∈ done)
    (acyclic : ∀ v ∈ rem, ∀ u ∈ pred v, rank u < rank v)
    (hne : rem ≠ []) : ready pred rem done ≠ [] := by
  obtain ⟨m, hm, hmin⟩ := exists_min_rank rank rem hne
  have hmr : m ∈ ready pred rem done := by
    rw [mem_ready_iff]
    refine ⟨hm, ?_⟩
    intro u hu
    rcases closed m hm u hu with h | h
    · have h1 := hmin u h
      have h2 := acyclic m hm u hu
      omega
    · exact h
  intro h
  rw [h] at hmr
  cases hmr

/-- generalised `batches_cover` -/
theorem batches_cover_gen (pred : α → List α) (rank : α → Nat) :
    ∀ (f : Nat) (rem done : List α),
      (∀ v ∈ rem, ∀ u ∈ pred v, u ∈ rem ∨ u ∈ done) →
      (∀ v ∈ rem, ∀ u ∈ pred v, rank u < rank v) →
      rem.length ≤ f →
      ∀ v ∈ rem, v ∈ (batches pred f rem done).flatten := by
  intro f
  induction f with
  | zero =>
    intro rem done _ _ hf v hv
    have : rem = [] := List.eq_nil_of_length_eq_zero (Nat.le_zero.mp hf)
    rw [this] at hv
    cases hv
  | succ f ih =>
    intro rem done closed acyclic hf v hv
    have hne : rem ≠ [] := by
      intro h; rw [h] at hv; cases hv
    have hr := ready_ne_nil pred rank rem done closed acyclic hne
    rw [batches_succ_of_ne pred f rem done hr, List.flatten_cons, List.mem_append]
    by_cases hvr : v ∈ ready pred rem done
    · exact Or.inl hvr
    · right
      have hsub : ∀ w, w ∈ rem.filter (fun v => v ∉ ready pred rem done) →
          w ∈ rem ∧ w ∉ ready pred rem done := by
        intro w hw
        rw [List.mem_filter] at hw
        exact ⟨hw.1, by simpa using hw.2⟩
      have hmk : ∀ w, w ∈ rem → w ∉ ready pred rem done →
          w ∈ rem.filter (fun v => v ∉ ready pred rem done) := by
        intro w hw hnw
        rw [List.mem_filter]
        exact ⟨hw, by simpa using hnw⟩
      apply ih
      · intro w hw u hu
        rcases closed w (hsub w hw).1 u hu with h | h
        · by_cases hur : u ∈ ready pred rem done
          · exact Or.inr (List.mem_append.mpr (Or.inr hur))
          · exact Or.inl (hmk u h hur)
        · exact Or.inr (List.mem_append.mpr (Or.inl h))
      · intro w hw u hu
        exact acyclic w (hsub w hw).1 u hu
      · have hlt : (rem.filter (fun v => v ∉ ready pred rem done)).length < rem.length := by
          rw [List.length_filter_lt_length_iff_exists]
          obtain ⟨m, hm⟩ := List.exists_mem_of_ne_nil _ hr
          refine ⟨m, ((mem_ready_iff pred rem done m).mp hm).1, ?_⟩
          simpa using hm
        omega
      · exact hmk v hv hvr

-- `nd` is not needed for coverage; it is kept so that the signature matches `batches_sub`/`batches_perm`
set_option linter.unusedVariables false in
/-- completeness: if the predecessor relation is acyclic (witnessed by a rank that strictly increases along
    it) and predecessors are nodes, then with fuel `≥ nodes.length` every node lands in some batch
    (graphlib would raise `CycleError` otherwise) -/
theorem batches_cover (pred : α → List α) (nodes : List α) (nd : nodes.Nodup)
    (closed : ∀ v ∈ nodes, ∀ u ∈ pred v, u ∈ nodes)
    (rank : α → Nat) (acyclic : ∀ v ∈ nodes, ∀ u ∈ pred v, rank u < rank v)
    (f : Nat) (hf : nodes.length ≤ f) :
    ∀ v ∈ nodes, v ∈ (batches pred f nodes []).flatten :=
  batches_cover_gen pred rank f nodes []
    (fun v hv u hu => Or.inl (closed v hv u hu)) acyclic hf

/-- hence the batches are a permutation of the nodes -/
theorem batches_perm (pred : α → List α) (nodes : List α) (nd : nodes.Nodup)
    (closed : ∀ v ∈ nodes, ∀ u ∈ pred v, u ∈ nodes)
    (rank : α → Nat) (acyclic : ∀ v ∈ nodes, ∀ u ∈ pred v, rank u < rank v) :
    (batches pred nodes.length nodes []).flatten.Perm nodes := by
  obtain ⟨h1, h2⟩ := batches_sub pred nodes.length nodes nd
  refine (List.perm_ext_iff_of_nodup h1 nd).mpr ?_
  intro a
  exact ⟨h2 a, batches_cover pred nodes nd closed rank acyclic nodes.length (Nat.le_refl _) a⟩

/-- the batch index is defined exactly for the elements of the batches -/
theorem batchIdx_isSome (v : α) (bs : List (List α)) (i : Nat) :
    (batchIdx v bs i).isSome = true ↔ v ∈ bs.flatten := by
  induction bs generalizing i with
  | nil => simp [batchIdx]
  | cons b bs ih =>
    rw [List.flatten_cons, List.mem_append]
    simp only [batchIdx]
    by_cases hb : v ∈ b
    · rw [if_pos hb]
      simp [hb]
    · rw [if_neg hb, ih (i + 1)]
      simp [hb]

end Ovld
