"""Shared plumbing: paths, the driver subprocess, seeds, replay files."""

import json
import os
import subprocess
import sys
import time

VERIF = os.path.dirname(os.path.dirname(os.path.abspath(__file__)))
REPO = os.environ.get("OVLD_REPO", "/repo")
LEAN_DIR = os.path.join(VERIF, "lean")
DRIVER = os.path.join(LEAN_DIR, ".lake", "build", "bin", "driver")
REPLAYS = os.path.join(VERIF, "replays")
EVIDENCE = os.path.join(VERIF, "evidence")


def use_repo():
    """import ovld from /repo's *current working tree*"""
    src = os.path.join(REPO, "src")
    if src not in sys.path:
        sys.path.insert(0, src)
    sys.dont_write_bytecode = True


def seed():
    try:
        return int(os.environ.get("VERIF_SEED", "0"))
    except ValueError:
        return 0


def run_driver(scenarios, timeout=600):
    """scenarios: list of JSON-able dicts; returns list of decoded results (same length)"""
    if not scenarios:
        return []
    data = "\n".join(json.dumps(s, separators=(",", ":")) for s in scenarios) + "\n"
    p = subprocess.run([DRIVER], input=data.encode(), stdout=subprocess.PIPE, stderr=subprocess.PIPE, timeout=timeout)
    if p.returncode != 0:
        raise RuntimeError(f"driver failed rc={p.returncode}: {p.stderr.decode()[:2000]}")
    lines = [l for l in p.stdout.decode().split("\n") if l.strip()]
    if len(lines) != len(scenarios):
        raise RuntimeError(f"driver returned {len(lines)} lines for {len(scenarios)} scenarios")
    return [json.loads(l) for l in lines]


def write_replay(prop, name, payload):
    os.makedirs(REPLAYS, exist_ok=True)
    path = os.path.join(REPLAYS, f"{prop}_{name}.json")
    with open(path, "w") as f:
        json.dump(payload, f, indent=1, default=str)
    return path


class Timer:
    def __init__(self):
        self.t0 = time.time()

    def s(self):
        return round(time.time() - self.t0, 2)
