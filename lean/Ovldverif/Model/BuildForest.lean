import Ovldverif.Model.BuildTree
/-!
# Layer I, continued: a function with ANY NUMBER of linked variants under failing builds

`Model/BuildTree.lean` has one linked variant.  With several (`Ovld(mixins=[p], linkback=True)` more than once, two
classes deriving from one `OvldBase` class with `@extend_super`, …) `Ovld._update` walks over them:

```
def _update(self):
    first = None
    try:
        if self._compiled:
            self.compile()
    except BaseException as exc:
        first = exc
    for child in self.children:
        try:
            child._update()
        except BaseException as exc:
            if first is None:
                first = exc
    if first is not None:
        raise first
```

(this is the `fix:` for finding D47; `updateOldF` below is the code before it — `try: … finally: for child in
self.children: child._update()` — where a variant whose rebuild fails ends the loop: the variants after it keep
serving the previous definitions).

Each variant is built from the function's definitions plus its own.  Faults as in `BuildTree.lean`: natural failures
(`Cfg`) and one interrupt bit per build.
-/
set_option autoImplicit false
namespace Ovld.Build

structure Child where
  c : S := {}
  own : List Nat := []
deriving DecidableEq, Repr

structure F where
  p : S := {}
  cs : List Child := []
deriving DecidableEq, Repr

/-- the definitions a variant is built from -/
def Child.eff (p : S) (ch : Child) : List Nat := p.defns ++ ch.own

def Child.view (p : S) (ch : Child) : S := { ch.c with defns := ch.eff p }

/-- `child._update()` (a variant has no variants of its own here) -/
def updChild (cfg : Cfg) (p : S) (ch : Child) (ic : Bool) : Child × Bool :=
  if ch.c.compiled then
    match compile cfg (ch.view p) (intr ic) with
    | (s', ok, _) => ({ ch with c := s' }, ok)
  else ({ ch with c := ch.view p }, true)

/-- the loop over the variants, after the fix: every one of them is updated -/
def updAll (cfg : Cfg) (p : S) : List Child → List Bool → List Child × Bool
  | [], _ => ([], true)
  | ch :: rest, ics =>
    let r := updChild cfg p ch (ics.headD false)
    let rs := updAll cfg p rest ics.tail
    (r.1 :: rs.1, r.2 && rs.2)

/-- the loop before the fix: the first variant whose rebuild fails ends it (the others only see the new definitions
    in their `defns` property, which is computed from the function's) -/
def updAllOld (cfg : Cfg) (p : S) : List Child → List Bool → List Child × Bool
  | [], _ => ([], true)
  | ch :: rest, ics =>
    let r := updChild cfg p ch (ics.headD false)
    if r.2 then
      let rs := updAllOld cfg p rest ics.tail
      (r.1 :: rs.1, rs.2)
    else (r.1 :: rest.map (fun x => { x with c := { x.c with defns := x.eff p } }), false)

def rebuildP (cfg : Cfg) (p : S) (ip : Bool) : S × Bool :=
  if p.compiled then
    match compile cfg p (intr ip) with
    | (s', ok, _) => (s', ok)
  else (p, true)

def updateF (all : Cfg → S → List Child → List Bool → List Child × Bool)
    (cfg : Cfg) (t : F) (ip : Bool) (ics : List Bool) : F × Out :=
  let r := rebuildP cfg t.p ip
  let rs := all cfg r.1 t.cs ics
  ({ p := r.1, cs := rs.1 }, if r.2 && rs.2 then .done else .error)

inductive FOp
  /-- `p.register(d)`; `ip`: an interrupt inside the function's rebuild; `ics`: one bit per variant, in order -/
  | regP (d : Nat) (ip : Bool) (ics : List Bool)
  | unregP (d : Nat) (ip : Bool) (ics : List Bool)
  /-- a new linked variant -/
  | newC
  /-- `cs[i].register(d)` -/
  | regC (i : Nat) (d : Nat) (ic : Bool)
  | callP (r : Route) (ip : Bool)
  | callC (i : Nat) (r : Route) (ic : Bool)
deriving Repr

def stepFWith (all : Cfg → S → List Child → List Bool → List Child × Bool) (cfg : Cfg) (t : F) : FOp → F × Out
  | .regP d ip ics => updateF all cfg { t with p := { t.p with defns := addDef t.p.defns d } } ip ics
  | .unregP d ip ics => updateF all cfg { t with p := { t.p with defns := t.p.defns.filter (· != d) } } ip ics
  | .newC => ({ t with cs := t.cs ++ [{ c := { defns := t.p.defns }, own := [] }] }, .done)
  | .regC i d ic =>
    match t.cs[i]? with
    | none => (t, .error)
    | some ch =>
      let r := updChild cfg t.p { ch with own := addDef ch.own d } ic
      ({ t with cs := t.cs.set i r.1 }, if r.2 then .done else .error)
  | .callP r ip =>
    match call cfg t.p r (intr ip) with
    | (p', o) => ({ t with p := p' }, o)
  | .callC i r ic =>
    match t.cs[i]? with
    | none => (t, .error)
    | some ch =>
      match call cfg (ch.view t.p) r (intr ic) with
      | (c', o) => ({ t with cs := t.cs.set i { ch with c := c' } }, o)

def stepF := stepFWith updAll
def stepFOld := stepFWith updAllOld

def runF (cfg : Cfg) (t : F) : List FOp → F
  | [] => t
  | op :: rest => runF cfg (stepF cfg t op).1 rest

def runFOld (cfg : Cfg) (t : F) : List FOp → F
  | [] => t
  | op :: rest => runFOld cfg (stepFOld cfg t op).1 rest

/-- a variant is out of service or serves exactly what it is to be built from, and its `defns` mirror that -/
def Child.safe (p : S) (ch : Child) : Bool := safeS ch.c (ch.eff p) && ch.c.defns == ch.eff p

def F.safe (t : F) : Bool := safeS t.p t.p.defns && t.cs.all (Child.safe t.p)

end Ovld.Build
