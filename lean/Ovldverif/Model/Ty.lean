import Ovldverif.Model.Order
/-!
# Layer A (2/3): normalised annotation objects

`Ty` mirrors the objects that `ovld.types.normalize_type` produces and that `mro.typeorder` /
`mro.subclasscheck` / `dependent.is_dependent` inspect.

* `cls c`        a plain class (class ids index the hierarchy tables; id 0 is `object`)
* `gen o args`   a `types.GenericAlias` / `typing` alias with a class origin (`list[int]`, `type[A]`)
* `union`/`inter`  `ovld.types.Union[...]` / `Intersection[...]` (a `MetaMC` class)
* `exactly`/`strict`/`hasm`/`pred`  `MetaMC` classes over a `SingleFunctionHandler`
  (`Exactly[c]`, `StrictSubclass[c]`, `HasMethod[m]`, `class_check(p)`); these compare by *identity*,
  which is what `tag` stands for
* `lit keys bound`  `Equals[...]` (`Literal[...]`); `keys` are the equality classes of the values
  (Python `==`), so that structural equality of `Ty` is Python equality of the type objects
* `prod ps bound`   `ProductType[...]` (`tuple[...]`)
* `fdep fn ps bound`  a `FuncDependentType` instance: `fn` is the identity of its class, a parameter is
  `none` when it is `typing.Any`, else an opaque identity
-/
set_option autoImplicit false

namespace Ovld

inductive Ty where
  | cls (c : Nat)
  | gen (o : Nat) (args : List Ty)
  | union (ts : List Ty)
  | inter (ts : List Ty)
  | exactly (tag c : Nat)
  | strict (tag c : Nat)
  | hasm (tag m : Nat)
  | pred (tag k : Nat)
  | lit (keys : List Nat) (bound : Ty)
  | prod (ps : List Ty) (bound : Ty)
  | fdep (fn : Nat) (ps : List (Option Nat)) (bound : Ty)
deriving Inhabited, Repr

namespace Ty

mutual
/-- Python `==` on the type objects -/
def beq : Ty → Ty → Bool
  | cls a, cls b => a == b
  | gen o a, gen p b => o == p && beqL a b
  | union a, union b => beqL a b
  | inter a, inter b => beqL a b
  | exactly t a, exactly u b => t == u && a == b
  | strict t a, strict u b => t == u && a == b
  | hasm t a, hasm u b => t == u && a == b
  | pred t a, pred u b => t == u && a == b
  | lit k a, lit l b => k == l && beq a b
  | prod p a, prod q b => beqL p q && beq a b
  | fdep f p a, fdep g q b => f == g && p == q && beq a b
  | _, _ => false
def beqL : List Ty → List Ty → Bool
  | [], [] => true
  | a :: as, b :: bs => beq a b && beqL as bs
  | _, _ => false
end

mutual
def size : Ty → Nat
  | cls _ => 1
  | gen _ a => 2 + sizeL a
  | union a => 2 + sizeL a
  | inter a => 2 + sizeL a
  | exactly _ _ => 2
  | strict _ _ => 2
  | hasm _ _ => 2
  | pred _ _ => 2
  | lit _ b => 2 + size b
  | prod p b => 2 + sizeL p + size b
  | fdep _ _ b => 2 + size b
def sizeL : List Ty → Nat
  | [] => 0
  | a :: as => size a + sizeL as
end

/-- `isinstance(t, DependentType)` -/
def isDepTop : Ty → Bool
  | lit .. => true | prod .. => true | fdep .. => true | _ => false

mutual
/-- `dependent.is_dependent` (dependent.py L62-67) -/
def isDep : Ty → Bool
  | cls _ => false
  | gen _ a => isDepL a
  | union a => isDepL a
  | inter a => isDepL a
  | exactly .. => false
  | strict .. => false
  | hasm .. => false
  | pred .. => false
  | lit .. => true
  | prod .. => true
  | fdep .. => true
def isDepL : List Ty → Bool
  | [] => false
  | a :: as => isDep a || isDepL as
end

def isGen : Ty → Bool | gen .. => true | _ => false
def isCls : Ty → Bool | cls _ => true | _ => false

/-- a class object whose only base is `object` (instances of `MetaMC` / `DependentType`) -/
def isSynthetic : Ty → Bool
  | cls _ => false | gen .. => false | _ => true

def bound? : Ty → Option Ty
  | lit _ b => some b | prod _ b => some b | fdep _ _ b => some b | _ => none

/-- which parameters are `typing.Any` (only `FuncDependentType` parameters can be) -/
def anyMask : Ty → List Bool
  | lit k _ => k.map (fun _ => false)
  | prod p _ => p.map (fun _ => false)
  | fdep _ p _ => p.map (·.isNone)
  | _ => []

def countAnyNot : List Bool → List Bool → Nat
  | a :: as, b :: bs => (if a && !b then 1 else 0) + countAnyNot as bs
  | _, _ => 0

/-- `self < other` between dependent types (`DependentType.__lt__` is constantly `False`,
    `FuncDependentType.__lt__` dependent.py L191-202) -/
def depLt (self other : Ty) : Bool :=
  match self with
  | fdep .. =>
    let m1 := self.anyMask; let m2 := other.anyMask
    m1.length == m2.length && countAnyNot m2 m1 > 0 && countAnyNot m1 m2 == 0
  | _ => false

end Ty
end Ovld
