"""Correspondence layer D (table level): the real MultiTypeMap / TypeMap driven directly vs the Lean model.

Set iteration order: `ovld.typemap.set` is rebound to RankedSet, whose iteration order is a rank chosen by
the scenario (`tyrank` for types, `hrank` for handlers), the same ranks the model receives.
"""

import graphlib
import json
import random
import sys
import types as pytypes

from common import run_driver, use_repo
from typegen import TypeGen
from world import C_TYPE, NBUILTIN, make_world

use_repo()

RANK = {"fn": None}


class RankedSet(set):
    def __iter__(self):
        items = list(set.__iter__(self))
        f = RANK["fn"]
        if f is None:
            return iter(items)
        return iter(sorted(items, key=f))

    def __iand__(self, other):
        # `candidates &= results.keys()`: builtin set.__iand__ refuses a dict view and the fallback would
        # produce a plain set; keep the ranked set
        for x in list(set.__iter__(self)):
            if x not in other:
                self.discard(x)
        return self


class TableError(TypeError):
    def __init__(self, key, group):
        self.key = key
        self.group = sorted(c.handler._mid for c in group) if group else []
        super().__init__("amb" if group else "nomethod")


def install_ranked_set():
    import ovld.typemap as tmod

    tmod.set = RankedSet


def make_handler(mid, npos, kws, self_first=False):
    params = [f"a{i}" for i in range(npos)]
    if kws:
        params.append("*")
        params += [f"k{n}" for n in kws]
    src = f"def h{mid}({', '.join(params)}): return {mid}\n"
    glb = {}
    exec(compile(src, f"<verif-h{mid}>", "exec"), glb)
    fn = glb[f"h{mid}"]
    fn._mid = mid
    return fn


def make_sig(w, m):
    from ovld.core import Signature

    tys = []
    for s in m["params"]:
        t = w.ty(s[2])
        tys.append(t if s[0] == "p" else (f"k{s[1]}", t))
    return Signature(
        types=tuple(tys),
        return_type=object,
        req_pos=m["reqPos"],
        max_pos=m["maxPos"],
        req_names=frozenset(f"k{n}" for n in m["reqNames"]),
        vararg=False,
        priority=m["prio"],
        tiebreak=m["tb"],
        is_method=False,
        arginfo=[],
    )


def key_tuple(w, k):
    out = []
    for s in k:
        t = w.ty(s[2])
        out.append(t if s[0] == "p" else (f"k{s[1]}", t))
    return tuple(out)


def canon_entry(fn):
    if hasattr(fn, "_mid"):
        return ["m", fn._mid]
    g = getattr(fn, "__globals__", {})
    if "FALLTHROUGH" in g:
        hs = []
        i = 0
        while f"HANDLER{i}" in g:
            hs.append(g[f"HANDLER{i}"]._mid)
            i += 1
        ft = g["FALLTHROUGH"]
        nx = "noNext" if getattr(ft, "__name__", "") == "raise_error" else canon_entry(ft)
        return ["d", hs, nx]
    return ["?", repr(fn)]


def run_impl(w, sc):
    import ovld.typemap as tmod

    install_ranked_set()
    tyobjs = [w.ty(d) for d in sc["tyrank_desc"]]
    tyrank = {}
    for i, t in enumerate(tyobjs):
        tyrank.setdefault(t, i)
    hrank = {mid: i for i, mid in enumerate(sc["hrank"])}

    def rank(x):
        if isinstance(x, tuple):  # (handler, sig) entries of TypeMap.entries
            x = x[0]
        if hasattr(x, "_mid"):
            return (1, hrank.get(x._mid, len(hrank)))
        try:
            return (0, tyrank.get(x, len(tyrank)))
        except TypeError:
            return (0, len(tyrank))

    RANK["fn"] = rank
    orig_resolve = tmod.MultiTypeMap.resolve
    nres = [0]

    def counting_resolve(self_, key):
        nres[0] += 1
        return orig_resolve(self_, key)

    tmod.MultiTypeMap.resolve = counting_resolve
    budget = [None]

    class CutNow(BaseException):
        pass

    def tick():
        if budget[0] is not None:
            if budget[0] == 0:
                budget[0] = None
                raise CutNow()
            budget[0] -= 1

    def counting_setitem(self_, key, value):
        tick()
        dict.__setitem__(self_, key, value)

    class CountingDict(dict):
        def __setitem__(self_, key, value):
            tick()
            dict.__setitem__(self_, key, value)

    tmod.MultiTypeMap.__setitem__ = counting_setitem
    try:
        mm = tmod.MultiTypeMap(name="t", key_error=TableError)
        mm.errors = CountingDict()
        handlers = {}
        codes = {}
        for m in sc["meths"]:
            npos = m["maxPos"]
            kws = [s[1] for s in m["params"] if s[0] == "k"]
            h = make_handler(m["id"], npos, kws)
            handlers[m["id"]] = h
            codes[m["code"]] = h.__code__
        keyobjs = [key_tuple(w, k) for k in sc["keys_desc"]]
        rtobjs = [w.ty(d) for d in sc["rtypes_desc"]]
        code2id = {id(c): cid for cid, c in codes.items()}

        def ckstr(key):
            if key and isinstance(key[0], pytypes.CodeType):
                c = str(code2id.get(id(key[0]), "?"))
                key = key[1:]
            else:
                c = "-"
            ki = "?"
            for i, ko in enumerate(keyobjs):
                if ko == key:
                    ki = str(i)
                    break
            return f"{c}:{ki}"

        out = []
        for op in sc["ops"]:
            res = None
            nres[0] = 0
            preds0 = sum(w.pred_calls)
            if op[0] == "reg":
                m = sc["meths"][op[1]]
                mm.register(make_sig(w, m), handlers[m["id"]])
            elif op[0] == "cut":
                key = keyobjs[op[2]]
                if op[1] is not None:
                    key = (codes[op[1]], *key)
                budget[0] = op[3]
                try:
                    mm[key]
                except CutNow:
                    res = ["cut"]
                except Exception:  # noqa
                    pass
                finally:
                    budget[0] = None
                res = None
            else:
                key = keyobjs[op[2]]
                if op[1] is not None:
                    key = (codes[op[1]], *key)
                try:
                    fn = mm[key]
                    res = ["ok", canon_entry(fn)]
                except TableError as e:
                    res = ["amb", e.group] if e.group else ["nomethod"]
                except graphlib.CycleError:
                    res = ["cycle"]
                except KeyError:
                    res = ["keyerror"]
                except Exception as e:  # noqa: anything else the real code raises is an outcome to be compared
                    res = ["exc", type(e).__name__]
            ck = sorted(set(ckstr(k) for k in mm.keys()))
            ek = sorted(set(ckstr(k) for k in mm.errors.keys()))
            ak = sorted(set(ckstr(k) for k in mm.all.keys()))
            tk = set()
            for slot, tm in mm.maps.items():
                sn = f"p{slot}" if isinstance(slot, int) else f"k{slot[1:]}"
                for t in tm.keys():
                    ti = "?"
                    for i, ro in enumerate(rtobjs):
                        if ro == t:
                            ti = str(i)
                            break
                    tk.add(f"{sn}:{ti}")
            out.append({"r": res, "ck": ck, "ek": ek, "ak": ak, "tk": sorted(tk), "nres": nres[0], "npred": sum(w.pred_calls) - preds0})
        return out
    finally:
        RANK["fn"] = None
        tmod.MultiTypeMap.resolve = orig_resolve
        del tmod.MultiTypeMap.__setitem__


def gen_scenario(rng, static_only=True, features=True, nuser=None, kinds=None, nmeth=None, npos_max=3, kw=True, cuts=False):
    w = make_world(rng, features=features, nuser=nuser)
    if kinds is None:
        kinds = ["cls"] * 6 if static_only else ["cls"] * 6 + ["union", "inter", "exactly", "strict", "hasm", "pred", "gen", "type"]
    g = TypeGen(w, rng, kinds=kinds)
    npos = rng.randint(1, npos_max)
    kwnames = [0, 1] if (kw and rng.random() < 0.3) else []
    nmeth = nmeth if nmeth is not None else rng.randint(1, 6)
    pool = [g.gen(1) for _ in range(rng.randint(2, 6))]
    if rng.random() < 0.6:
        # register on the ancestors of one well-connected class: forks of unequal depth, diamonds
        tb = w.tables()["sub"]
        focus = max(range(NBUILTIN, w.n), key=lambda c: (sum(tb[c]), rng.random()))
        anc = [c for c in range(w.n) if tb[focus][c] and c != 1]
        rng.shuffle(anc)
        pool = [["cls", c] for c in anc[: rng.randint(2, 6)]] + pool[:1]
    meths = []
    sigs = {}
    for i in range(nmeth):
        maxpos = rng.choice([npos] * 4 + list(range(0, npos + 1)))
        reqpos = maxpos if rng.random() < 0.75 else rng.randint(0, maxpos)
        params = [["p", j, rng.choice(pool)] for j in range(maxpos)]
        mykw = [n for n in kwnames if rng.random() < 0.6]
        params += [["k", n, rng.choice(pool)] for n in mykw]
        reqnames = [n for n in mykw if rng.random() < 0.5]
        prio = rng.choice([0, 0, 0, 0, 1, -1, 2])
        if meths and rng.random() < 0.15:  # repeat an existing signature
            o = rng.choice(meths)
            params, maxpos, reqpos, reqnames, prio = json.loads(json.dumps(o["params"])), o["maxPos"], o["reqPos"], list(o["reqNames"]), o["prio"]
        m = {"id": i, "code": 100 + i, "params": params, "reqPos": reqpos, "maxPos": maxpos, "reqNames": reqnames, "prio": prio, "tb": 0}
        sk = json.dumps([params, reqpos, maxpos, reqnames, prio])
        for o in sigs.get(sk, []):
            o["tb"] -= 1
        sigs.setdefault(sk, []).append(m)
        meths.append(m)
    # runtime types: classes (and type[...] for class arguments)
    rtypes = [["cls", c] for c in range(w.n)]
    if not static_only:
        rtypes += [["gen", C_TYPE, [["cls", c]]] for c in range(NBUILTIN, w.n)]
    keys = []
    nkeys = rng.randint(2, 8)
    from ovld.mro import subclasscheck

    rtobjs = [w.ty(d) for d in rtypes]

    def fitting(tdesc):
        t = w.ty(tdesc)
        out = []
        for d, o in zip(rtypes, rtobjs):
            try:
                if subclasscheck(o, t):
                    out.append(d)
            except Exception:
                pass
        return out

    for _ in range(nkeys):
        m = rng.choice(meths)
        n = rng.choice([m["maxPos"]] * 6 + [m["reqPos"]] * 2 + list(range(0, npos + 1)))
        k = []
        for j in range(n):
            cands = None
            if j < m["maxPos"] and rng.random() < 0.85:
                cands = fitting(m["params"][j][2])
            if not cands:
                cands = [["cls", c] for c in range(NBUILTIN, w.n)] if rng.random() < 0.8 else rtypes
            # prefer the most derived classes: they reach the most methods
            k.append(["p", j, rng.choice(cands[-3:] if rng.random() < 0.5 else cands)])
        mykws = [s for s in m["params"] if s[0] == "k"]
        for nme in kwnames:
            mine = [s for s in mykws if s[1] == nme]
            if mine and rng.random() < 0.85:
                cands = fitting(mine[0][2]) or rtypes
                k.append(["k", nme, rng.choice(cands)])
            elif rng.random() < 0.2:
                k.append(["k", nme, rng.choice(rtypes)])
        if k not in keys:
            keys.append(k)
    ops = []
    late = [i for i in range(nmeth) if rng.random() < 0.3]
    for i in range(nmeth):
        if i not in late:
            ops.append(["reg", i])
    if not ops:
        ops.append(["reg", 0])
        late = [i for i in late if i != 0]
    nget = rng.randint(3, 14)
    asked = []
    for _ in range(nget):
        if late and rng.random() < 0.25:
            ops.append(["reg", late.pop(0)])
            # look the earlier keys up again: nothing computed before the change may survive it (C05)
            for g in rng.sample(asked, min(len(asked), rng.randint(1, 3))):
                ops.append(list(g))
        ki = rng.randrange(len(keys))
        c = None
        if rng.random() < 0.4:
            c = 100 + rng.randrange(nmeth)
        if cuts and rng.random() < 0.45:
            # the same lookup, interrupted after n dict writes of its resolution; then the key and the
            # continuations from every method are looked up
            ops.append(["cut", c, ki, rng.choice([0, 0, 1, 1, 2, 3, 5])])
            follow = [["get", None, ki]] + [["get", 100 + m, ki] for m in rng.sample(range(nmeth), min(nmeth, 3))]
            rng.shuffle(follow)
            ops.extend(follow)
        ops.append(["get", c, ki])
        asked.append(["get", c, ki])
    # ranks
    alltys = []
    for m in meths:
        for s in m["params"]:
            if s[2] not in alltys:
                alltys.append(s[2])
    tyrank = list(alltys)
    rng.shuffle(tyrank)
    hrank = list(range(nmeth))
    rng.shuffle(hrank)
    sc = {"meths": meths, "keys_desc": keys, "rtypes_desc": rtypes, "ops": ops, "tyrank_desc": tyrank, "hrank": hrank}
    return w, sc


def to_model(w, sc):
    def slots(ps):
        return [[s[0], s[1], w.tyj(s[2])] for s in ps]

    return {
        "layer": "D",
        "hier": w.tables(),
        "tyrank": [w.tyj(t) for t in sc["tyrank_desc"]],
        "hrank": sc["hrank"],
        "meths": [{**m, "params": slots(m["params"])} for m in sc["meths"]],
        "keys": [slots(k) for k in sc["keys_desc"]],
        "rtypes": [w.tyj(t) for t in sc["rtypes_desc"]],
        "ops": sc["ops"],
    }


def run(seed, n, **kw):
    rng = random.Random(seed)
    scs, impls, keep = [], [], []
    for _ in range(n):
        w, sc = gen_scenario(rng, **kw)
        impls.append(run_impl(w, sc))
        scs.append(to_model(w, sc))
        keep.append((w, sc))
    res = run_driver(scs)
    diffs = []
    nops = 0
    hist = {}
    for i, (r, im) in enumerate(zip(res, impls)):
        if "error" in r:
            diffs.append((i, "driver-error", r["error"]))
            continue
        for j, (a, b) in enumerate(zip(r["ops"], im)):
            nops += 1
            if b["r"]:
                hist[b["r"][0]] = hist.get(b["r"][0], 0) + 1
            a = dict(a)
            if isinstance(a["r"], dict) and "nw" in a["r"]:
                a["r"] = None
                b = {k: v for k, v in b.items() if k != "nres"}
            if isinstance(a["r"], dict):
                a["nres"] = a["r"]["nres"]
                a["r"] = a["r"]["res"]
            b = {k: v for k, v in b.items() if k != "npred" and (k != "nres" or "nres" in a)}
            if b.get("r") == ["cycle"]:
                b.pop("nres", None); a.pop("nres", None)
            if a != b:
                diffs.append((i, j, "model", a, "impl", b, keep[i][1]["ops"][j]))
                break
    return nops, diffs, hist, keep


if __name__ == "__main__":
    seed = int(sys.argv[1]) if len(sys.argv) > 1 else 0
    n = int(sys.argv[2]) if len(sys.argv) > 2 else 50
    static = (sys.argv[3] == "static") if len(sys.argv) > 3 else True
    nops, diffs, hist, keep = run(seed, n, static_only=static, cuts=len(sys.argv) > 4)
    print("ops", nops, "diffs", len(diffs), hist)
    for d in diffs[:5]:
        print(json.dumps(d, default=str)[:1500])
        print(json.dumps(to_model(*keep[d[0]]))[:3000])
