import Ovldverif.Spec.Runs
import Ovldverif.Lemmas.CacheInv
import Ovldverif.Lemmas.PlanOK
/-!
# Invariants of the public table (`MMap`) and of the function object (`Fn`) under lookups / calls

Shared by `Props/C04.lean` and `Props/C20.lean`.
-/
set_option autoImplicit false
namespace Ovld

/-! ## generic cache layer -/
section generic
variable {K F E : Type}

/-- the three dicts are empty (the key lists are not constrained) -/
structure StBlank (st : St K F E) : Prop where
  cache : ∀ ck, st.cache ck = none
  errors : ∀ ck, st.errors ck = none
  all : ∀ k, st.all k = none

theorem StBlank.empty : StBlank (St.empty : St K F E) := ⟨fun _ => rfl, fun _ => rfl, fun _ => rfl⟩

theorem StBlank.cleared {st : St K F E} (_h : StBlank st) : StBlank (cleared st) :=
  ⟨fun _ => rfl, fun _ => rfl, fun _ => rfl⟩

/-- `register` leaves nothing behind, whatever had been looked up before (C05, table level) -/
theorem StBlank.of_cleared (st : St K F E) : StBlank (Ovld.cleared st) :=
  ⟨fun _ => rfl, fun _ => rfl, fun _ => rfl⟩

variable [DecidableEq K] (plan : K → Plan F E)

theorem StBlank.inv {st : St K F E} (h : StBlank st) : CInv plan st :=
  { cache_sub := by intro ck f hc; rw [h.cache] at hc; cases hc
    errors_sub := by intro ck f hc; rw [h.errors] at hc; cases hc
    all_eq := by intro k cs hc; rw [h.all] at hc; cases hc
    closed_c := by intro k hk; exact absurd (h.cache (none, k)) hk
    closed_e := by intro k hk; exact absurd (h.cache (none, k)) hk
    top_all := by intro k f hc; rw [h.cache] at hc; cases hc }

/-- a lookup that does not resolve keeps not resolving after any other lookup -/
theorem resolves_stable (ok : PlanOK plan) (st : St K F E) (hi : CInv plan st) (ck ck' : CKey K)
    (h : resolves plan st ck = false) : resolves plan (lookup plan st ck').1 ck = false := by
  obtain ⟨c, k⟩ := ck
  cases hf : (plan k).fail with
  | true => cases c <;> simp [resolves, hf]
  | false =>
    cases c with
    | none =>
      cases hc : st.cache (none, k) with
      | none => simp [resolves, hc, hf] at h
      | some f =>
        have := cache_monotone plan st ck' (none, k) f ok hi hc
        simp [resolves, this]
    | some c =>
      cases hc : st.cache (some c, k) with
      | some f =>
        have := cache_monotone plan st ck' (some c, k) f ok hi hc
        simp [resolves, this]
      | none =>
        cases hc' : st.cache (none, k) with
        | none => simp [resolves, hc, hc', hf] at h
        | some f =>
          have := cache_monotone plan st ck' (none, k) f ok hi hc'
          simp [resolves, this]

/-- after a successful lookup the same lookup does not resolve -/
theorem lookup_ok_warm (ok : PlanOK plan) (st : St K F E) (hi : CInv plan st) (ck : CKey K) (f : F)
    (hok : (lookup plan st ck).2 = .ok f) : resolves plan (lookup plan st ck).1 ck = false :=
  warm_no_resolve plan ok st hi ck f hok []

end generic

/-! ## the public table -/

/-- invariant of a table with registered entries `ms` -/
structure MInv (cfg : Cfg) (ms : List Meth) (mm : MMap) : Prop where
  meths : mm.meths = ms
  inv : CInv (plan cfg ms) mm.st

/-- what `table[ck]` returns, as a function of the registered entries only -/
def MMap.pure (cfg : Cfg) (ms : List Meth) (ck : CKey Key) : Res Entry (List Nat) :=
  pureLookup (plan cfg ms) ck

theorem MMap.pure_eq (cfg : Cfg) (ms : List Meth) (ck : CKey Key) :
    MMap.pure cfg ms ck = pureLookup (plan cfg ms) ck := rfl

theorem MMap.lookup_st (cfg : Cfg) (mm : MMap) (ck : CKey Key) :
    (mm.lookup cfg ck).1.st = (Ovld.lookup (plan cfg mm.meths) mm.st ck).1 := rfl

theorem MMap.lookup_res (cfg : Cfg) (mm : MMap) (ck : CKey Key) :
    (mm.lookup cfg ck).2 = (Ovld.lookup (plan cfg mm.meths) mm.st ck).2 := rfl

theorem MMap.lookup_meths (cfg : Cfg) (mm : MMap) (ck : CKey Key) : (mm.lookup cfg ck).1.meths = mm.meths := rfl

theorem MMap.resolvesAt_eq (cfg : Cfg) (mm : MMap) (ck : CKey Key) :
    mm.resolvesAt cfg ck = resolves (plan cfg mm.meths) mm.st ck := rfl

/-- a table lookup returns the pure answer and preserves the invariant -/
theorem MMap.lookup_spec (cfg : Cfg) (ms : List Meth) (ok : PlanOK (plan cfg ms))
    (mm : MMap) (h : MInv cfg ms mm) (ck : CKey Key) :
    (mm.lookup cfg ck).2 = MMap.pure cfg ms ck ∧ MInv cfg ms (mm.lookup cfg ck).1 := by
  obtain ⟨hm, hi⟩ := h
  subst hm
  have hs := Ovld.lookup_spec (plan cfg mm.meths) ok mm.st ck hi
  refine ⟨?_, MMap.lookup_meths cfg mm _, ?_⟩
  · rw [MMap.lookup_res, MMap.pure_eq]; exact hs.1
  · rw [MMap.lookup_st]; exact hs.2

/-- an interrupted table lookup preserves the invariant, wherever the interrupt falls -/
theorem MMap.lookupCut_inv (cfg : Cfg) (ms : List Meth) (ok : PlanOK (plan cfg ms))
    (mm : MMap) (h : MInv cfg ms mm) (ck : CKey Key) (n : Nat) : MInv cfg ms (mm.lookupCut cfg ck n) := by
  obtain ⟨hm, hi⟩ := h
  subst hm
  exact ⟨rfl, Ovld.lookupCut_inv (plan cfg mm.meths) ok mm.st ck n hi⟩

/-- `mm2` resolves at most where `mm1` does -/
def MMap.Le (cfg : Cfg) (mm1 mm2 : MMap) : Prop :=
  ∀ ck, mm1.resolvesAt cfg ck = false → mm2.resolvesAt cfg ck = false

theorem MMap.Le.refl (cfg : Cfg) (mm : MMap) : MMap.Le cfg mm mm := fun _ h => h

theorem MMap.Le.trans {cfg : Cfg} {a b c : MMap} (h1 : MMap.Le cfg a b) (h2 : MMap.Le cfg b c) :
    MMap.Le cfg a c := fun ck h => h2 ck (h1 ck h)

theorem MMap.lookup_le (cfg : Cfg) (ms : List Meth) (ok : PlanOK (plan cfg ms))
    (mm : MMap) (h : MInv cfg ms mm) (ck' : CKey Key) : MMap.Le cfg mm (mm.lookup cfg ck').1 := by
  obtain ⟨hm, hi⟩ := h
  subst hm
  intro ck hck
  rw [MMap.resolvesAt_eq] at hck ⊢
  rw [MMap.lookup_meths, MMap.lookup_st]
  exact resolves_stable (plan cfg mm.meths) ok mm.st hi _ _ hck

theorem MMap.lookup_ok_warm (cfg : Cfg) (ms : List Meth) (ok : PlanOK (plan cfg ms))
    (mm : MMap) (h : MInv cfg ms mm) (ck : CKey Key) (f : Entry) (hok : (mm.lookup cfg ck).2 = .ok f) :
    (mm.lookup cfg ck).1.resolvesAt cfg ck = false := by
  obtain ⟨hm, hi⟩ := h
  subst hm
  rw [MMap.resolvesAt_eq, MMap.lookup_meths, MMap.lookup_st]
  rw [MMap.lookup_res] at hok
  exact Ovld.lookup_ok_warm (plan cfg mm.meths) ok mm.st hi _ f hok

/-! ### freshly built tables -/

theorem MMap.foldl_register (ms : List Meth) : ∀ (mm : MMap),
    (ms.foldl MMap.register mm).meths = mm.meths ++ ms ∧
    (StBlank mm.st → StBlank (ms.foldl MMap.register mm).st) := by
  induction ms with
  | nil => intro mm; exact ⟨by simp, fun h => h⟩
  | cons m ms ih =>
    intro mm
    have := ih (mm.register m)
    refine ⟨?_, fun h => this.2 h.cleared⟩
    rw [List.foldl_cons, this.1]
    simp [MMap.register]

theorem MMap.fresh_inv (cfg : Cfg) (ms : List Meth) : MInv cfg ms (MMap.fresh ms) := by
  have := MMap.foldl_register ms {}
  refine ⟨?_, ?_⟩
  · unfold MMap.fresh; rw [this.1]; rfl
  · exact (this.2 StBlank.empty).inv _

theorem MMap.runLookups_inv (cfg : Cfg) (ms : List Meth) (ok : PlanOK (plan cfg ms)) :
    ∀ (hist : List (CKey Key)) (mm : MMap), MInv cfg ms mm →
      MInv cfg ms (mm.runLookups cfg hist) ∧ MMap.Le cfg mm (mm.runLookups cfg hist)
  | [], mm, h => ⟨h, MMap.Le.refl cfg mm⟩
  | ck :: rest, mm, h =>
    have h1 := (MMap.lookup_spec cfg ms ok mm h ck).2
    have h2 := MMap.runLookups_inv cfg ms ok rest _ h1
    ⟨h2.1, (MMap.lookup_le cfg ms ok mm h ck).trans h2.2⟩

/-! ## the function object -/

/-- invariant of a compiled function object with definitions `ds` -/
structure FInv (cfg : Cfg) (ds : List (Def × Int)) (ana : Analysis) (fn : Fn) : Prop where
  defns : fn.defns = ds
  compiled : fn.compiled = true
  ana : fn.ana = ana
  mm : MInv (Fn.cfgOf cfg ds) (Fn.methsOf ds) fn.mm

abbrev Result := Fn × Outcome × Trace × Nat

/-- one table lookup of a call, followed by the continuation `k` on success -/
def lookThen (cfg : Cfg) (k : Fn → Entry → Result) (fn : Fn) (tr : Trace) (ck : CKey Key) : Result :=
  let nr := if fn.mm.resolvesAt (Fn.cfgOf cfg fn.defns) ck then 1 else 0
  let fn' := { fn with mm := (fn.mm.lookup (Fn.cfgOf cfg fn.defns) ck).1 }
  match (fn.mm.lookup (Fn.cfgOf cfg fn.defns) ck).2 with
  | .ok e' => ((k fn' e').1, (k fn' e').2.1, tr ++ (k fn' e').2.2.1, nr + (k fn' e').2.2.2)
  | r => (fn', resOutcome r, tr, nr)

/-- which lookup a method body performs, if any -/
def bodyKey (df : Def) (id : Nat) : Option (Option Nat × List ArgSrc × Bool) :=
  match df.body with
  | .ret => none
  | .callNext srcs => some (some (codeOfHandle df id), srcs, false)
  | .recurse srcs => some (none, srcs, false)
  | .next srcs => some (some (codeOfHandle df id), srcs, true)

theorem runEntry_zero (cfg : Cfg) (fn : Fn) (e : Entry) (x : Dispatch) (d : Nat) :
    runEntry cfg 0 fn e x d = (fn, .depth, [], 0) := rfl

/-- what the generated dependent dispatcher of a `.dep hs _` entry answers on the forwarded arguments; it reads
    the declared types of the handlers from the registered entries only -/
def depRes (cfg : Cfg) (meths : List Meth) (hs : List Nat) (x : Dispatch) : DRes :=
  dispatch cfg.dworld (x.key.map (·.1))
    (hs.map (fun h => (h, ((meths.find? (fun m => m.id == h)).map (·.params)).getD [])))
    ((x.passPos.zipIdx.map (fun (a, i) => (Slot.pos i, a.val))) ++ (x.passKw.map (fun (n, a) => (Slot.kw n, a.val))))

theorem runEntry_dep (cfg : Cfg) (f : Nat) (fn : Fn) (hs : List Nat) (nx : Entry) (x : Dispatch) (d : Nat) :
    runEntry cfg (f + 1) fn (.dep hs nx) x d =
      match depRes cfg fn.mm.meths hs x with
      | .handler h => runEntry cfg f fn (.meth h) x d
      | .fallthrough =>
        (match nx with
         | .noNext => (fn, .noMethod, [], 0)
         | .ambNext ids => (fn, .ambiguous ids, [], 0)
         | e' => runEntry cfg f fn e' x d)
      | .ambiguous => (fn, .ambiguous hs, [], 0)
      | .raised => (fn, .raised, [], 0) := by
  cases nx <;> rw [runEntry] <;> first | rfl | (intros; contradiction)

theorem runEntry_noNext (cfg : Cfg) (f : Nat) (fn : Fn) (x : Dispatch) (d : Nat) :
    runEntry cfg (f + 1) fn .noNext x d = (fn, .noMethod, [], 0) := by
  rw [runEntry]

theorem runEntry_ambNext (cfg : Cfg) (f : Nat) (fn : Fn) (ids : List Nat) (x : Dispatch) (d : Nat) :
    runEntry cfg (f + 1) fn (.ambNext ids) x d = (fn, .ambiguous ids, [], 0) := by
  rw [runEntry]

theorem runEntry_meth (cfg : Cfg) (f : Nat) (fn : Fn) (id : Nat) (x : Dispatch) (depth : Nat) :
    runEntry cfg (f + 1) fn (.meth id) x depth =
      match findDef fn id with
      | none => (fn, .keyError, [], 0)
      | some df =>
        match methodBind df.d x with
        | none => (fn, .methodBindError, [], 0)
        | some _ =>
          let tr : Trace := [(df.d.id, x.passPos.map (·.vid), x.passKw.map (fun p => (p.1, p.2.vid)))]
          match bodyKey df id with
          | none => (fn, .ran df.d.id, tr, 0)
          | some (ck, srcs, subtler) =>
            if depth ≥ depthLimit then (fn, .depth, tr, 0) else
            lookThen cfg
              (fun fn' e' => runEntry cfg f fn' e'
                { key := keyOfArgs fn.ana subtler (evalArgs x.passPos srcs),
                  passPos := evalArgs x.passPos srcs, passKw := [] } (depth + 1))
              fn tr (ck, keyOfArgs fn.ana subtler (evalArgs x.passPos srcs)) := by
  rw [runEntry]
  cases findDef fn id with
  | none => rfl
  | some df =>
    dsimp only
    cases methodBind df.d x with
    | none => rfl
    | some _ =>
      dsimp only [bodyKey]
      cases df.body <;> rfl

theorem resOutcome_not_ran (r : Res Entry (List Nat)) (id : Nat) (h : ∀ e, r ≠ .ok e) : resOutcome r ≠ .ran id := by
  cases r <;> simp [resOutcome] at h ⊢

theorem lookThen_ok (cfg : Cfg) (ds : List (Def × Int)) (k : Fn → Entry → Result) (fn : Fn) (hd : fn.defns = ds)
    (tr : Trace) (ck : CKey Key) (e' : Entry)
    (h : (fn.mm.lookup (Fn.cfgOf cfg ds) ck).2 = .ok e') :
    lookThen cfg k fn tr ck =
      let nr := if fn.mm.resolvesAt (Fn.cfgOf cfg ds) ck then 1 else 0
      let fn' := { fn with mm := (fn.mm.lookup (Fn.cfgOf cfg ds) ck).1 }
      ((k fn' e').1, (k fn' e').2.1, tr ++ (k fn' e').2.2.1, nr + (k fn' e').2.2.2) := by
  subst hd
  unfold lookThen
  rw [h]

theorem lookThen_not_ok (cfg : Cfg) (ds : List (Def × Int)) (k : Fn → Entry → Result) (fn : Fn)
    (hd : fn.defns = ds) (tr : Trace) (ck : CKey Key)
    (h : ∀ e', (fn.mm.lookup (Fn.cfgOf cfg ds) ck).2 ≠ .ok e') :
    lookThen cfg k fn tr ck =
      ({ fn with mm := (fn.mm.lookup (Fn.cfgOf cfg ds) ck).1 },
        resOutcome (fn.mm.lookup (Fn.cfgOf cfg ds) ck).2, tr,
        if fn.mm.resolvesAt (Fn.cfgOf cfg ds) ck then 1 else 0) := by
  subst hd
  unfold lookThen
  generalize (fn.mm.lookup (Fn.cfgOf cfg fn.defns) ck).2 = r at h
  cases r with
  | ok e => exact absurd rfl (h e)
  | _ => rfl

/-- two executions of the same step from two states satisfying the invariant: same outcome, same trace, both
    final states satisfy the invariant and are at least as warm as the initial ones; and if the first
    execution ran a method to completion and the second starts at least as warm as the first ended, the
    second resolves nothing -/
structure RunRel (cfg : Cfg) (ds : List (Def × Int)) (ana : Analysis)
    (fn1 fn2 : Fn) (r1 r2 : Result) : Prop where
  inv1 : FInv cfg ds ana r1.1
  inv2 : FInv cfg ds ana r2.1
  outcome : r1.2.1 = r2.2.1
  trace : r1.2.2.1 = r2.2.2.1
  le1 : MMap.Le (Fn.cfgOf cfg ds) fn1.mm r1.1.mm
  le2 : MMap.Le (Fn.cfgOf cfg ds) fn2.mm r2.1.mm
  warm : ∀ id, r1.2.1 = .ran id → MMap.Le (Fn.cfgOf cfg ds) r1.1.mm fn2.mm → r2.2.2.2 = 0

theorem RunRel.triv (cfg : Cfg) (ds : List (Def × Int)) (ana : Analysis) (fn1 fn2 : Fn)
    (h1 : FInv cfg ds ana fn1) (h2 : FInv cfg ds ana fn2) (o : Outcome) (t : Trace) :
    RunRel cfg ds ana fn1 fn2 (fn1, o, t, 0) (fn2, o, t, 0) :=
  ⟨h1, h2, rfl, rfl, MMap.Le.refl _ _, MMap.Le.refl _ _, fun _ _ _ => rfl⟩

theorem FInv.setMM {cfg : Cfg} {ds : List (Def × Int)} {ana : Analysis} {fn : Fn}
    (h : FInv cfg ds ana fn) (mm : MMap) (hm : MInv (Fn.cfgOf cfg ds) (Fn.methsOf ds) mm) :
    FInv cfg ds ana { fn with mm := mm } :=
  ⟨h.defns, h.compiled, h.ana, hm⟩

theorem lookThen_rel (cfg : Cfg) (ds : List (Def × Int)) (ana : Analysis)
    (ok : PlanOK (plan (Fn.cfgOf cfg ds) (Fn.methsOf ds)))
    (k : Fn → Entry → Result)
    (hk : ∀ fn1 fn2 e, FInv cfg ds ana fn1 → FInv cfg ds ana fn2 →
      RunRel cfg ds ana fn1 fn2 (k fn1 e) (k fn2 e))
    (fn1 fn2 : Fn) (h1 : FInv cfg ds ana fn1) (h2 : FInv cfg ds ana fn2) (tr : Trace) (ck : CKey Key) :
    RunRel cfg ds ana fn1 fn2 (lookThen cfg k fn1 tr ck) (lookThen cfg k fn2 tr ck) := by
  have s1 := MMap.lookup_spec _ _ ok fn1.mm h1.mm ck
  have s2 := MMap.lookup_spec _ _ ok fn2.mm h2.mm ck
  have l1 := MMap.lookup_le _ _ ok fn1.mm h1.mm ck
  have l2 := MMap.lookup_le _ _ ok fn2.mm h2.mm ck
  have w1 := MMap.lookup_ok_warm _ _ ok fn1.mm h1.mm ck
  have i1 := h1.setMM _ s1.2
  have i2 := h2.setMM _ s2.2
  cases hr : MMap.pure (Fn.cfgOf cfg ds) (Fn.methsOf ds) ck with
  | ok e' =>
    have r1 := s1.1.trans hr
    have r2 := s2.1.trans hr
    rw [lookThen_ok cfg ds k fn1 h1.defns tr ck e' r1, lookThen_ok cfg ds k fn2 h2.defns tr ck e' r2]
    have hh := hk _ _ e' i1 i2
    refine ⟨hh.inv1, hh.inv2, hh.outcome, ?_, l1.trans hh.le1, l2.trans hh.le2, ?_⟩
    · show tr ++ _ = tr ++ _
      rw [hh.trace]
    · intro id ho hle
      have hw : fn2.mm.resolvesAt (Fn.cfgOf cfg ds) ck = false := hle ck (hh.le1 ck (w1 e' r1))
      have hn := hh.warm id ho (hle.trans l2)
      show (if fn2.mm.resolvesAt (Fn.cfgOf cfg ds) ck then 1 else 0) + _ = 0
      rw [hw, hn]; rfl
  | _ =>
    have r1 := s1.1.trans hr
    have r2 := s2.1.trans hr
    rw [lookThen_not_ok cfg ds k fn1 h1.defns tr ck (by rw [r1]; intro e' h; cases h),
        lookThen_not_ok cfg ds k fn2 h2.defns tr ck (by rw [r2]; intro e' h; cases h), r1, r2]
    refine ⟨i1, i2, rfl, rfl, l1, l2, ?_⟩
    intro id ho
    simp [resOutcome] at ho

theorem findDef_eq (fn : Fn) (ds : List (Def × Int)) (h : fn.defns = ds) (id : Nat) :
    findDef fn id = ds[id]?.map (·.1) := by
  subst h; rfl

theorem runEntry_rel (cfg : Cfg) (ds : List (Def × Int)) (ana : Analysis)
    (ok : PlanOK (plan (Fn.cfgOf cfg ds) (Fn.methsOf ds))) :
    ∀ (f : Nat) (fn1 fn2 : Fn) (e : Entry) (x : Dispatch) (d : Nat),
      FInv cfg ds ana fn1 → FInv cfg ds ana fn2 →
      RunRel cfg ds ana fn1 fn2 (runEntry cfg f fn1 e x d) (runEntry cfg f fn2 e x d) := by
  intro f
  induction f with
  | zero => intro fn1 fn2 e x d h1 h2; exact RunRel.triv cfg ds ana fn1 fn2 h1 h2 _ _
  | succ f ih =>
    intro fn1 fn2 e x d h1 h2
    cases e with
    | dep hs nx =>
      -- both states carry the same registered entries, hence the same handlers and the same dispatcher answer;
      -- the dispatcher performs no lookup: the recursive calls start from the same states `fn1`, `fn2`
      rw [runEntry_dep, runEntry_dep, h1.mm.meths, h2.mm.meths]
      cases depRes cfg (Fn.methsOf ds) hs x with
      | handler h => exact ih fn1 fn2 (.meth h) x d h1 h2
      | fallthrough =>
        cases nx with
        | noNext => exact RunRel.triv cfg ds ana fn1 fn2 h1 h2 _ _
        | ambNext ids => exact RunRel.triv cfg ds ana fn1 fn2 h1 h2 _ _
        | meth id => exact ih fn1 fn2 (.meth id) x d h1 h2
        | dep hs' nx' => exact ih fn1 fn2 (.dep hs' nx') x d h1 h2
      | ambiguous => exact RunRel.triv cfg ds ana fn1 fn2 h1 h2 _ _
      | raised => exact RunRel.triv cfg ds ana fn1 fn2 h1 h2 _ _
    | noNext =>
      rw [runEntry_noNext, runEntry_noNext]
      exact RunRel.triv cfg ds ana fn1 fn2 h1 h2 _ _
    | ambNext ids =>
      rw [runEntry_ambNext, runEntry_ambNext]
      exact RunRel.triv cfg ds ana fn1 fn2 h1 h2 _ _
    | meth id =>
      rw [runEntry_meth, runEntry_meth, findDef_eq fn1 ds h1.defns, findDef_eq fn2 ds h2.defns, h1.ana, h2.ana]
      cases ds[id]?.map (·.1) with
      | none => exact RunRel.triv cfg ds ana fn1 fn2 h1 h2 _ _
      | some df =>
        dsimp only
        cases methodBind df.d x with
        | none => exact RunRel.triv cfg ds ana fn1 fn2 h1 h2 _ _
        | some _ =>
          dsimp only
          cases bodyKey df id with
          | none => exact RunRel.triv cfg ds ana fn1 fn2 h1 h2 _ _
          | some p =>
            obtain ⟨ck, srcs, subtler⟩ := p
            dsimp only
            by_cases hd : d ≥ depthLimit
            · rw [if_pos hd, if_pos hd]; exact RunRel.triv cfg ds ana fn1 fn2 h1 h2 _ _
            · rw [if_neg hd, if_neg hd]
              exact lookThen_rel cfg ds ana ok _ (fun a b e' ha hb => ih a b e' _ _ ha hb) fn1 fn2 h1 h2 _ _

/-- `Fn.call` on a compiled function object -/
theorem Fn.call_compiled (cfg : Cfg) (fn : Fn) (hc : fn.compiled = true) (c : Call) :
    fn.call cfg c =
      match entry fn.ana c with
      | .error _ => (fn, .bindError, [], 0)
      | .ok x => lookThen cfg (fun fn' e => runEntry cfg 64 fn' e x 1) fn [] (none, x.key) := by
  unfold Fn.call
  rw [hc]
  simp only [↓reduceIte]
  cases entry fn.ana c with
  | error _ => rfl
  | ok x =>
    dsimp only [lookThen]
    cases (fn.mm.lookup (Fn.cfgOf cfg fn.defns) (none, x.key)).2 <;> rfl

theorem call_rel (cfg : Cfg) (ds : List (Def × Int)) (ana : Analysis)
    (ok : PlanOK (plan (Fn.cfgOf cfg ds) (Fn.methsOf ds)))
    (fn1 fn2 : Fn) (h1 : FInv cfg ds ana fn1) (h2 : FInv cfg ds ana fn2) (c : Call) :
    RunRel cfg ds ana fn1 fn2 (fn1.call cfg c) (fn2.call cfg c) := by
  rw [Fn.call_compiled cfg fn1 h1.compiled, Fn.call_compiled cfg fn2 h2.compiled, h1.ana, h2.ana]
  cases entry ana c with
  | error _ => exact RunRel.triv cfg ds ana fn1 fn2 h1 h2 _ _
  | ok x =>
    exact lookThen_rel cfg ds ana ok _ (fun a b e' ha hb => runEntry_rel cfg ds ana ok 64 a b e' x 1 ha hb)
      fn1 fn2 h1 h2 _ _

theorem runCalls_inv (cfg : Cfg) (ds : List (Def × Int)) (ana : Analysis)
    (ok : PlanOK (plan (Fn.cfgOf cfg ds) (Fn.methsOf ds))) :
    ∀ (hist : List Call) (fn : Fn), FInv cfg ds ana fn →
      FInv cfg ds ana (fn.runCalls cfg hist) ∧ MMap.Le (Fn.cfgOf cfg ds) fn.mm (fn.runCalls cfg hist).mm
  | [], _, h => ⟨h, MMap.Le.refl _ _⟩
  | c :: rest, fn, h =>
    have h1 := call_rel cfg ds ana ok fn fn h h c
    have h2 := runCalls_inv cfg ds ana ok rest _ h1.inv1
    ⟨h2.1, h1.le1.trans h2.2⟩

/-! ### the first call compiles -/

/-- the function object right after `compile()` -/
def Fn.built (ds : List (Def × Int)) (ana : Analysis) : Fn :=
  { defns := ds, compiled := true, mm := MMap.fresh (Fn.methsOf ds), ana := ana }

theorem Fn.built_inv (cfg : Cfg) (ds : List (Def × Int)) (ana : Analysis) :
    FInv cfg ds ana (Fn.built ds ana) :=
  ⟨rfl, rfl, rfl, MMap.fresh_inv _ _⟩

theorem Fn.call_fresh_ok (cfg : Cfg) (ds : List (Def × Int)) (ana : Analysis)
    (h : analyze (ds.map (·.1.d)) = .ok ana) (c : Call) :
    (Fn.fresh ds).call cfg c = (Fn.built ds ana).call cfg c := by
  rw [Fn.call_compiled cfg (Fn.built ds ana) rfl]
  unfold Fn.call
  have hb : (if (Fn.fresh ds).compiled = true then Except.ok (Fn.fresh ds) else (Fn.fresh ds).compile) =
      Except.ok (Fn.built ds ana) := by
    show (Fn.fresh ds).compile = _
    unfold Fn.compile
    show (analyze (ds.map (·.1.d)) >>= _) = _
    rw [h]; rfl
  rw [hb]
  show (match entry ana c with | .error _ => _ | .ok x => _) = (match entry ana c with | .error _ => _ | .ok x => _)
  cases entry ana c with
  | error _ => rfl
  | ok x =>
    dsimp only [lookThen]
    cases ((Fn.built ds ana).mm.lookup (Fn.cfgOf cfg (Fn.built ds ana).defns) (none, x.key)).2 <;> rfl

theorem Fn.call_fresh_err (cfg : Cfg) (ds : List (Def × Int)) (err : CfgErr)
    (h : analyze (ds.map (·.1.d)) = .error err) (c : Call) :
    (Fn.fresh ds).call cfg c = (Fn.fresh ds, .configError, [], 0) := by
  unfold Fn.call
  have hb : (if (Fn.fresh ds).compiled = true then Except.ok (Fn.fresh ds) else (Fn.fresh ds).compile) =
      Except.error err := by
    show (Fn.fresh ds).compile = _
    unfold Fn.compile
    show (analyze (ds.map (·.1.d)) >>= _) = _
    rw [h]; rfl
  rw [hb]

theorem Fn.runCalls_fresh_err (cfg : Cfg) (ds : List (Def × Int)) (err : CfgErr)
    (h : analyze (ds.map (·.1.d)) = .error err) : ∀ (hist : List Call), (Fn.fresh ds).runCalls cfg hist = Fn.fresh ds
  | [] => rfl
  | c :: rest => by
    show Fn.runCalls cfg ((Fn.fresh ds).call cfg c).1 rest = _
    rw [Fn.call_fresh_err cfg ds err h c]
    exact Fn.runCalls_fresh_err cfg ds err h rest

/-- after any history, a never-called function object behaves like some state satisfying the invariant -/
theorem Fn.runCalls_fresh_ok (cfg : Cfg) (ds : List (Def × Int)) (ana : Analysis)
    (ok : PlanOK (plan (Fn.cfgOf cfg ds) (Fn.methsOf ds)))
    (h : analyze (ds.map (·.1.d)) = .ok ana) (hist : List Call) :
    ∃ fnH, FInv cfg ds ana fnH ∧
      ∀ c, ((Fn.fresh ds).runCalls cfg hist).call cfg c = fnH.call cfg c := by
  cases hist with
  | nil => exact ⟨Fn.built ds ana, Fn.built_inv cfg ds ana, fun c => Fn.call_fresh_ok cfg ds ana h c⟩
  | cons c0 rest =>
    have hi := (call_rel cfg ds ana ok _ _ (Fn.built_inv cfg ds ana) (Fn.built_inv cfg ds ana) c0).inv1
    refine ⟨Fn.runCalls cfg ((Fn.built ds ana).call cfg c0).1 rest, (runCalls_inv cfg ds ana ok rest _ hi).1, ?_⟩
    intro c
    show (Fn.runCalls cfg ((Fn.fresh ds).call cfg c0).1 rest).call cfg c = _
    rw [Fn.call_fresh_ok cfg ds ana h c0]

end Ovld
