import Ovldverif.Model.Json
import Ovldverif.Model.JsonD
import Ovldverif.Model.JsonF
import Ovldverif.Model.JsonE
import Ovldverif.Model.JsonG
import Ovldverif.Model.JsonH
import Ovldverif.Model.Build
import Ovldverif.Model.BuildTree
import Ovldverif.Model.BuildForest
import Ovldverif.Model.ClassBody
import Ovldverif.Spec.ClassSpec
import Ovldverif.Model.Normalize
import Ovldverif.Model.RewriteStmt
import Ovldverif.Spec.Types
import Ovldverif.Spec.Resolve
/-! Line-protocol driver: one JSON scenario per input line, one JSON result per output line. -/
open Lean Ovld

def runA (j : Json) : Except String Json := do
  let H ← hierOfJson (← jField j "hier")
  let ts ← (← jArr (← jField j "types")).toList.mapM tyOfJson
  let ord := ts.map (fun a => String.join (ts.map (fun b => (typeorder H a b).code)))
  let sub := ts.map (fun a => String.join (ts.map (fun b => if subclasscheck H a b then "1" else "0")))
  let n ← jNat (jFieldD j "n" (Json.num 0))
  let plain := String.join (ts.map (fun t => if t.plain then "1" else "0"))
  let down := String.join (ts.map (fun t => if t.downClosed then "1" else "0"))
  let memM := (List.range n).map (fun c => String.join (ts.map (fun t => if t.plain then (if mem H c t then "1" else "0") else "-")))
  let eff := ts.map (fun a => String.join (ts.map (fun b => if a.effHook b then "1" else "0")))
  return Json.mkObj [("ord", toJson ord), ("sub", toJson sub), ("plain", toJson plain), ("down", toJson down),
    ("mem", toJson memM), ("eff", toJson eff),
    ("frag", toJson (ts.map (fun a => String.join (ts.map (fun b => if symFrag a b then "1" else "0")))))]

def dedupS (xs : List String) : List String :=
  (xs.foldl (fun acc x => if acc.contains x then acc else x :: acc) []).mergeSort (fun a b => a ≤ b)

def ckStr (keys : List Key) (ck : CKey Key) : String :=
  let ki := match keys.findIdx? (· == ck.2) with | some i => toString i | none => "?"
  match ck.1 with
  | some c => s!"{c}:{ki}"
  | none => s!"-:{ki}"

def slotStr : Slot → String
  | .pos i => s!"p{i}"
  | .kw n => s!"k{n}"

def specToJson : SpecRes → Json
  | .ran id => Json.arr #[Json.str "ran", toJson id]
  | .ambiguous => Json.arr #[Json.str "ambiguous"]
  | .noMethod => Json.arr #[Json.str "nomethod"]

def runD (j : Json) : Except String Json := do
  let cfg ← cfgOfJson j
  let meths ← (← jArr (← jField j "meths")).toList.mapM methOfJson
  let keys ← (← jArr (← jField j "keys")).toList.mapM keyOfJson
  let rts ← (← jArr (jFieldD j "rtypes" (Json.arr #[]))).toList.mapM tyOfJson
  let ops ← jArr (← jField j "ops")
  let mut mm : MMap := {}
  let mut out : Array Json := #[]
  for op in ops do
    let a ← jArr op
    let kind ← jStr a[0]!
    let mut res : Json := Json.null
    if kind == "reg" then
      let mi ← jNat a[1]!
      match meths[mi]? with
      | some m => mm := mm.register m
      | none => throw "bad method index"
    else if kind == "get" then
      let c : Option Nat ← (if a[1]!.isNull then pure none else some <$> jNat a[1]!)
      let ki ← jNat a[2]!
      match keys[ki]? with
      | some k =>
        let nres : Nat := if mm.resolvesAt cfg (c, k) then 1 else 0
        let (mm', r) := mm.lookup cfg (c, k)
        let fresh := (({ meths := mm.meths } : MMap).lookup cfg (c, k)).2
        mm := mm'
        let spec := match c with
          | none => specResolveE cfg.H mm.meths k
          | some code => nextSpecE cfg.H mm.meths code k
        let strict := match c with
          | none => specResolve cfg.H mm.meths k
          | some code => nextSpec cfg.H mm.meths code k
        res := Json.mkObj [("res", resToJson r), ("fresh", resToJson fresh), ("spec", specToJson spec),
          ("static", toJson (staticTable mm.meths)), ("cc", toJson (candComparable cfg.H mm.meths k)),
          ("tie", toJson (sigTieOKE cfg.H mm.meths k)), ("readings", toJson (decide (spec = strict))),
          ("napp", toJson (applicable cfg.H mm.meths k).length), ("nres", toJson nres)]
      | none => throw "bad key index"
    else if kind == "cut" then
      let c : Option Nat ← (if a[1]!.isNull then pure none else some <$> jNat a[1]!)
      let ki ← jNat a[2]!
      let n ← jNat a[3]!
      match keys[ki]? with
      | some k =>
        let will := mm.resolvesAt cfg (c, k)
        let nw := if will then (ws (plan cfg mm.meths) k).length else 0
        mm := mm.lookupCut cfg (c, k) n
        res := Json.mkObj [("nw", toJson nw), ("will", toJson will)]
      | none => throw "bad key index"
    else throw s!"bad op {kind}"
    let ck := dedupS (mm.st.cacheKeys.map (ckStr keys))
    let ek := dedupS (mm.st.errorKeys.map (ckStr keys))
    let ak := dedupS (mm.st.allKeys.map (fun k => ckStr keys (none, k)))
    let tk := dedupS (mm.tcache.map (fun e =>
      let ti := match rts.findIdx? (· == e.2) with | some i => toString i | none => "?"
      s!"{slotStr e.1}:{ti}"))
    out := out.push (Json.mkObj [("r", res), ("ck", toJson ck), ("ek", toJson ek), ("ak", toJson ak), ("tk", toJson tk)])
  return Json.mkObj [("ops", Json.arr out)]

def runF (j : Json) : Except String Json := do
  let cfg ← cfgOfJson j
  let pool ← (← jArr (← jField j "args")).mapM argOfJson
  let defs ← (← jArr (← jField j "defs")).mapM (defOfJson pool)
  let ops ← jArr (← jField j "ops")
  let mut fn : Fn := { allowReplacement := ← jBool (jFieldD j "allowReplacement" (Json.bool true)) }
  let mut out : Array Json := #[]
  for op in ops do
    let a ← jArr op
    let kind ← jStr a[0]!
    if kind == "reg" then
      match defs[(← jNat a[1]!)]? with
      | some d =>
        let (fn', e) := fn.register d
        fn := fn'
        out := out.push (Json.mkObj [("o", match e with | some o => outcomeToJson o | none => Json.arr #[Json.str "ok"])])
      | none => throw "bad def index"
    else if kind == "unreg" then
      match defs[(← jNat a[1]!)]? with
      | some d =>
        let (fn', e) := fn.unregister d.d.id
        fn := fn'
        out := out.push (Json.mkObj [("o", match e with | some o => outcomeToJson o | none => Json.arr #[Json.str "ok"])])
      | none => throw "bad def index"
    else if kind == "call" then
      let c ← callOfJson pool a
      -- specification side (not part of the model): the documented rule on the key the entry point builds
      let fb : Option Fn := if fn.compiled then some fn else (match fn.compile with | .ok f => some f | .error _ => none)
      let specInfo : List (String × Json) := match fb with
        | none => [("bind", Json.null)]
        | some fb =>
          match entry fb.ana c with
          | .error _ => [("bind", toJson false)]
          | .ok x =>
            let ms := fb.mm.meths
            let sp := match specResolveE cfg.H ms x.key with
              | .ran h => (match fb.defns[h]? with | some e => SpecRes.ran e.1.d.id | none => SpecRes.ran 9999)
              | r => r
            [("bind", toJson true), ("spec", specToJson sp), ("static", toJson (staticTable ms)),
             ("cc", toJson (candComparable cfg.H ms x.key)), ("tie", toJson (sigTieOKE cfg.H ms x.key)),
             ("readings", toJson (decide (specResolveE cfg.H ms x.key = specResolve cfg.H ms x.key))),
             ("napp", toJson (applicable cfg.H ms x.key).length), ("keylen", toJson x.key.length),
             ("truncated", toJson (decide (x.passPos.length + x.passKw.length < c.pos.length + c.kw.length)))]
      let (fn', o, t, nres) := fn.call cfg c
      fn := fn'
      out := out.push (Json.mkObj ([("o", outcomeToJson o), ("t", traceToJson t), ("nres", toJson nres)] ++ specInfo))
    else throw s!"bad op {kind}"
  return Json.mkObj [("ops", Json.arr out)]

def runE (j : Json) : Except String Json := do
  let W ← dworldOfJson j
  let slots ← (← jArr (← jField j "slots")).toList.mapM (fun x => do slotOfJson (← jArr x))
  let hs ← (← jArr (← jField j "handlers")).toList.mapM dhandlerOfJson
  let calls ← (← jArr (← jField j "calls")).toList.mapM (fun c => do (← jArr c).toList.mapM slotValOfJson)
  let strat := match strategy W slots hs with
    | .keyed _ _ => "keyed"
    | .firstMatch => "first"
    | .counting => "counting"
  let res := calls.map (fun args => dresToJson (dispatch W slots hs args))
  -- per handler and call: the generated check of every dependent slot vs isinstance of the declared type
  let checks := calls.map (fun args => hs.map (fun h =>
    String.join (slots.map (fun s => match argAt args s with
      | some v => triToStr (genCheck W (dTyAt h s) v) ++ triToStr (isinstanceOf W (dTyAt h s) v)
      | none => "??"))))
  return Json.mkObj [("strategy", Json.str strat), ("res", Json.arr res.toArray), ("checks", toJson checks)]

def runG (j : Json) : Except String Json := do
  let cfg ← cfgOfJson j
  let pool ← (← jArr (← jField j "args")).mapM argOfJson
  let defs ← (← jArr (← jField j "defs")).mapM (defOfJson pool)
  runGraph cfg pool defs (← jArr (← jField j "ops")) (← jBool (jFieldD j "ignoreLocks" (Json.bool false)))

/-- layer C: `TypeMap.__missing__` levels for a set of registered types (in the given iteration order) -/
def runC (j : Json) : Except String Json := do
  let H ← hierOfJson (← jField j "hier")
  let avail ← (← jArr (← jField j "types")).toList.mapM tyOfJson
  let qs ← (← jArr (← jField j "queries")).toList.mapM tyOfJson
  let res := qs.map (fun q =>
    match levels H q avail with
    | none => Json.str "cycle"
    | some lv => toJson ((lv.map (fun (t, l) => [avail.findIdx (· == t), l])).mergeSort (fun a b => a[0]! ≤ b[0]!)))
  return Json.mkObj [("levels", Json.arr res.toArray)]

/-- layer I: the build state machine (`Model/Build.lean`) -/
def bStateJson (s : Build.S) : Json :=
  Json.mkObj [("defns", toJson s.defns), ("compiled", toJson s.compiled),
    ("entry", match s.entry with | none => Json.null | some e => toJson e), ("table", toJson s.table)]

def bOutJson : Build.Out → Json
  | .done => Json.str "done"
  | .error => Json.str "error"
  | .served e t => Json.arr #[Json.str "served", toJson e, toJson t]

def runI (j : Json) : Except String Json := do
  let bad ← (← jArr (jFieldD j "bad" (Json.arr #[]))).toList.mapM jNat
  let conflict ← (← jArr (jFieldD j "conflict" (Json.arr #[]))).toList.mapM jNat
  let cfg : Build.Cfg := { bad := fun d => bad.contains d,
                           namesOK := fun ds => !(ds.any (fun d => conflict.contains d) && ds.length ≥ 2) }
  let ops ← jArr (← jField j "ops")
  let mut s : Build.S := {}
  let mut out : Array Json := #[]
  for op in ops do
    let a ← jArr op
    let kind ← jStr a[0]!
    if true then
      -- the state in which the operation's build (if any) starts, and the micro-steps that precede it
      let d ← (if kind == "call" then pure 0 else jNat a[1]!)
      let s1 : Build.S := match kind with
        | "reg" => { s with defns := if s.defns.contains d then s.defns else s.defns ++ [d] }
        | "unreg" => { s with defns := s.defns.filter (· != d) }
        | _ => s
      let base : Nat := if kind == "call" then 0 else 2
      let spec := a[2]!
      let mut fault : Option Nat := none
      let mut noM : Option Json := none
      if spec.isNull then fault := none
      else match spec with
        | .num _ => fault := some (← jNat spec)
        | _ =>
          let phase ← jStr (← jField spec "phase")
          if phase == "pre" then fault := some 0
          else if phase == "gap" then fault := some 1
          else if phase == "after" then fault := none
          else
            let pre ← jField spec "pre"
            let pt ← (← jArr (← jField pre "table")).toList.mapM jNat
            let pe ← jBool (← jField pre "entry")
            let pc ← jBool (← jField pre "compiled")
            let cands := (List.range (s1.defns.length + 7)).filter (fun i =>
              let x := (Build.compileRaw cfg s1 (some i)).1
              x.table == pt && x.entry.isSome == pe && x.compiled == pc)
            match cands.head? with
            | some i => fault := some (base + i)
            | none => noM := some (Json.arr ((Build.buildTrace cfg s1).map bStateJson).toArray)
      match noM with
      | some t => out := out.push (Json.mkObj [("nomatch", t)])
      | none =>
        let bop : Build.Op ← (match kind with
          | "reg" => pure (Build.Op.register d fault)
          | "unreg" => pure (Build.Op.unregister d fault)
          | "call" => do
            let r ← jStr a[1]!
            pure (Build.Op.call (if r == "fn" then .fn else .obj) fault)
          | _ => throw s!"bad op {kind}")
        let gap := bop.inGap s
        let safeB := fun (s : Build.S) => (s.entry.isNone && !s.compiled) || (s.compiled && s.entry == some s.defns && s.table == s.defns)
        let wantTrace := match a[3]? with | some (Json.bool true) => true | _ => false
        let builds := match bop with
          | .call .fn _ => s.entry.isNone
          | .call .obj _ => !s.compiled || s.entry.isNone
          | _ => s.compiled
        let trace : Json := if wantTrace && builds then Json.arr ((Build.buildTrace cfg s1).map bStateJson).toArray else Json.null
        let (s', o) := Build.step cfg s bop
        s := s'
        out := out.push (Json.mkObj [("out", bOutJson o), ("s", bStateJson s), ("gap", toJson gap), ("safe", toJson (safeB s)), ("trace", trace),
          ("fault", match fault with | none => Json.null | some n => toJson n)])
  return Json.mkObj [("ops", Json.arr out)]

/-- layer T: a function and a linked variant under failing builds (`Model/BuildTree.lean`) -/
def runT (j : Json) : Except String Json := do
  let bad ← (← jArr (jFieldD j "bad" (Json.arr #[]))).toList.mapM jNat
  let conflict ← (← jArr (jFieldD j "conflict" (Json.arr #[]))).toList.mapM jNat
  let cfg : Build.Cfg := { bad := fun d => bad.contains d,
                           namesOK := fun ds => !(ds.any (fun d => conflict.contains d) && ds.length ≥ 2) }
  let old := match jFieldD j "old" (Json.bool false) with | Json.bool b => b | _ => false
  let ops ← jArr (← jField j "ops")
  let mut t : Build.T := {}
  let mut out : Array Json := #[]
  for op in ops do
    let a ← jArr op
    let kind ← jStr a[0]!
    let flag := fun (i : Nat) => match a[i]? with | some (Json.bool true) => true | _ => false
    let top : Build.TOp ← (match kind with
      | "regP" => do pure (Build.TOp.regP (← jNat a[1]!) (flag 2) (flag 3))
      | "unregP" => do pure (Build.TOp.unregP (← jNat a[1]!) (flag 2) (flag 3))
      | "regC" => do pure (Build.TOp.regC (← jNat a[1]!) (flag 2))
      | "callP" => do
        let r ← jStr a[1]!
        pure (Build.TOp.callP (if r == "fn" then .fn else .obj) (flag 2))
      | "callC" => do
        let r ← jStr a[1]!
        pure (Build.TOp.callC (if r == "fn" then .fn else .obj) (flag 2))
      | _ => throw s!"bad op {kind}")
    let (t', o) := if old then Build.stepOld cfg t top else Build.stepT cfg t top
    t := t'
    out := out.push (Json.mkObj [("out", bOutJson o), ("p", bStateJson t.p), ("c", bStateJson t.c), ("own", toJson t.own),
      ("safe", toJson t.safe)])
  return Json.mkObj [("ops", Json.arr out)]

/-- layer U: a function with any number of linked variants (`Model/BuildForest.lean`) -/
def runU (j : Json) : Except String Json := do
  let bad ← (← jArr (jFieldD j "bad" (Json.arr #[]))).toList.mapM jNat
  let conflict ← (← jArr (jFieldD j "conflict" (Json.arr #[]))).toList.mapM jNat
  let pairs ← (← jArr (jFieldD j "pairs" (Json.arr #[]))).toList.mapM (fun x => do
    let a ← jArr x
    pure ((← jNat a[0]!), (← jNat a[1]!)))
  let cfg : Build.Cfg := { bad := fun d => bad.contains d,
                           namesOK := fun ds => !(ds.any (fun d => conflict.contains d) && ds.length ≥ 2) &&
                             pairs.all (fun ab => !(ds.contains ab.1 && ds.contains ab.2)) }
  let old := match jFieldD j "old" (Json.bool false) with | Json.bool b => b | _ => false
  let ops ← jArr (← jField j "ops")
  let mut t : Build.F := {}
  let mut out : Array Json := #[]
  for op in ops do
    let a ← jArr op
    let kind ← jStr a[0]!
    let flag := fun (i : Nat) => match a[i]? with | some (Json.bool true) => true | _ => false
    let flags := fun (i : Nat) => match a[i]? with
      | some (Json.arr xs) => xs.toList.map (fun x => match x with | Json.bool true => true | _ => false)
      | _ => []
    let top : Build.FOp ← (match kind with
      | "regP" => do pure (Build.FOp.regP (← jNat a[1]!) (flag 2) (flags 3))
      | "unregP" => do pure (Build.FOp.unregP (← jNat a[1]!) (flag 2) (flags 3))
      | "newC" => pure Build.FOp.newC
      | "regC" => do pure (Build.FOp.regC (← jNat a[1]!) (← jNat a[2]!) (flag 3))
      | "callP" => do
        let r ← jStr a[1]!
        pure (Build.FOp.callP (if r == "fn" then .fn else .obj) (flag 2))
      | "callC" => do
        let r ← jStr a[2]!
        pure (Build.FOp.callC (← jNat a[1]!) (if r == "fn" then .fn else .obj) (flag 3))
      | _ => throw s!"bad op {kind}")
    let (t', o) := if old then Build.stepFOld cfg t top else Build.stepF cfg t top
    t := t'
    out := out.push (Json.mkObj [("out", bOutJson o), ("p", bStateJson t.p),
      ("cs", Json.arr (t.cs.map (fun ch => bStateJson ch.c)).toArray), ("safe", toJson t.safe)])
  return Json.mkObj [("ops", Json.arr out)]

/-- layer J: class bodies under the overloading metaclass (`Model/ClassBody.lean`) -/
def runJ (j : Json) : Except String Json := do
  let cfg ← cfgOfJson j
  let pool ← (← jArr (← jField j "args")).mapM argOfJson
  let defs ← (← jArr (← jField j "defs")).mapM (defOfJson pool)
  let ks ← (← jArr (← jField j "classes")).toList.mapM (fun c => do
    let ds ← (← natList (← jField c "defs")).mapM (fun i => match defs[i]? with
      | some d => pure d
      | none => throw "bad def index")
    pure ({ bases := ← natList (← jField c "bases"), mixin := ← jBool (← jField c "mixin"), defs := ds,
            extend := ← jBool (← jField c "extend"), mro := ← natList (← jField c "mro") } : ClassBody.ClassDecl))
  let st := ClassBody.translate ks
  let mut g : Graph := Graph.runOps cfg {} st.ops
  let attrJ : ClassBody.Attr → Json
    | .none => Json.arr #[Json.str "none"]
    | .plain d => Json.arr #[Json.str "plain", toJson d.d.id]
    | .node n f => Json.arr #[Json.str "node", toJson n, toJson f]
  let mut out : Array Json := #[]
  for c in (← jArr (← jField j "calls")) do
    let a ← jArr c
    let ci ← jNat a[0]!
    match st.attr[ci]? with
    | some (.node n _) =>
      let call ← callOfJson pool #[Json.null, Json.arr #[a[1]!], Json.arr #[]]
      let exp := g.expected cfg n call
      let (g', o, t, _) := g.call cfg n call
      g := g'
      out := out.push (Json.mkObj [("o", outcomeToJson o), ("t", traceToJson t),
        ("exp", Json.mkObj [("o", outcomeToJson exp.1), ("t", traceToJson exp.2)])])
    | _ => out := out.push Json.null
  -- the declarative specification (Spec/ClassSpec.lean) against the graph the class bodies produce
  let g0 : Graph := Graph.runOps cfg {} st.ops
  let effs := ClassBody.effAll ks
  let ids (l : List (Def × Int)) : List (Nat × Int) := l.map (fun e => (e.1.d.id, e.2))
  let specOK : List Bool := (List.range ks.length).map (fun i =>
    match st.attr[i]?, effs[i]? with
    | some ClassBody.Attr.none, some e => e.kind == .none
    | some (ClassBody.Attr.plain d), some e => e.kind == .plain && (e.fn.map (·.d.id)) == some d.d.id
    | some (ClassBody.Attr.node n fl), some e => e.kind == .ovld && e.flagged == fl && ids (g0.defns g0.depth n) == ids e.defns
    | _, _ => false)
  return Json.mkObj [("attr", Json.arr (st.attr.map attrJ).toArray), ("nn", toJson st.nn), ("nops", toJson st.ops.length),
    ("spec", toJson specOK),
    ("calls", Json.arr out)]

/-- layer B: normalisation of annotations and `subtler_type` (`Model/Normalize.lean`) -/
partial def annOfJson (j : Json) : Except String Norm.Ann := do
  let a ← jArr j
  let k ← jStr a[0]!
  let list (x : Json) : Except String (List Norm.Ann) := do (← jArr x).toList.mapM annOfJson
  match k with
  | "missing" => pure .missing
  | "any" => pure .any
  | "cls" => pure (.cls (← jNat a[1]!))
  | "bareType" => pure .bareType
  | "typeOf" => pure (.typeOf (← annOfJson a[1]!))
  | "name" => pure (.name (← jStr a[1]!))
  | "annotated" => pure (.annotated (← annOfJson a[1]!))
  | "unionT" => pure (.unionT (← list a[1]!))
  | "pipe" => pure (.pipe (← list a[1]!))
  | "tup" => pure (.tup (← list a[1]!))
  | "literal" => pure (.literal (← (← jArr a[1]!).toList.mapM jNat))
  | "tupleG" => pure (.tupleG (← list a[1]!))
  | "gen" => pure (.gen (← jNat a[1]!) (← list a[2]!))
  | _ => throw s!"bad annotation kind {k}"

partial def annToJson : Norm.Ann → Json
  | .missing => Json.arr #[Json.str "missing"]
  | .any => Json.arr #[Json.str "any"]
  | .cls c => Json.arr #[Json.str "cls", toJson c]
  | .bareType => Json.arr #[Json.str "bareType"]
  | .typeOf a => Json.arr #[Json.str "typeOf", annToJson a]
  | .name s => Json.arr #[Json.str "name", Json.str s]
  | .annotated a => Json.arr #[Json.str "annotated", annToJson a]
  | .unionT as => Json.arr #[Json.str "unionT", Json.arr (as.map annToJson).toArray]
  | .pipe as => Json.arr #[Json.str "pipe", Json.arr (as.map annToJson).toArray]
  | .tup as => Json.arr #[Json.str "tup", Json.arr (as.map annToJson).toArray]
  | .literal vs => Json.arr #[Json.str "literal", toJson vs]
  | .tupleG as => Json.arr #[Json.str "tupleG", Json.arr (as.map annToJson).toArray]
  | .gen o as => Json.arr #[Json.str "gen", toJson o, Json.arr (as.map annToJson).toArray]

partial def ntyToJson : Norm.NTy → Json
  | .cls c => Json.arr #[Json.str "cls", toJson c]
  | .rawType a => Json.arr #[Json.str "rawType", annToJson a]
  | .union ms => Json.arr #[Json.str "union", Json.arr (ms.map ntyToJson).toArray]
  | .lit vs b => Json.arr #[Json.str "lit", toJson vs, ntyToJson b]
  | .prod ms => Json.arr #[Json.str "prod", Json.arr (ms.map ntyToJson).toArray]
  | .fast h ms o => Json.arr #[Json.str "fast", toJson h, Json.arr (ms.map ntyToJson).toArray, toJson o]

partial def tyToJsonB : Ty → Json
  | .cls c => Json.arr #[Json.str "cls", toJson c]
  | .gen o as => Json.arr #[Json.str "gen", toJson o, Json.arr (as.map tyToJsonB).toArray]
  | _ => Json.arr #[Json.str "other"]

def runB (j : Json) : Except String Json := do
  let ej ← jField j "env"
  let gl ← (← jArr (← jField ej "globals")).toList.mapM (fun p => do
    let a ← jArr p
    pure (← jStr a[0]!, ← annOfJson a[1]!))
  let valcls ← (← jArr (← jField ej "valcls")).toList.mapM jNat
  let hs ← (← jArr (← jField ej "handler")).toList.mapM (fun p => do
    let a ← jArr p
    pure (← jNat a[0]!, ← jNat a[1]!))
  let subM ← boolMatrix (jFieldD ej "sub" (Json.arr #[]))
  let mros ← (← jArr (jFieldD ej "mro" (Json.arr #[]))).toList.mapM (fun p => do (← jArr p).toList.mapM jNat)
  let env : Norm.Env := { globals := fun s => (gl.find? (·.1 == s)).map (·.2),
                          valCls := fun v => valcls[v]?.getD 0,
                          handler := fun o => (hs.find? (·.1 == o)).map (·.2),
                          sub := tableFn subM,
                          mro := fun c => mros[c]?.getD [] }
  let cT ← jNat (← jField j "cT")
  let anns ← (← jArr (← jField j "anns")).toList.mapM annOfJson
  let res := anns.map (fun a =>
    match Norm.normalize env (a.size + 8) a with
    | .ok t => ntyToJson t
    | .error e => Json.arr #[Json.str "error", Json.str (match e with | .nameError => "name" | .noHandler => "nohandler" | .fuel => "fuel")])
  let args ← (← jArr (jFieldD j "args" (Json.arr #[]))).toList.mapM (fun p => do
    let a ← jArr p
    let k ← jStr a[0]!
    match k with
    | "inst" => pure (Norm.PyArg.inst (← jNat a[1]!))
    | "type" => pure (Norm.PyArg.typeVal (← tyOfJson a[1]!))
    | "any" => pure Norm.PyArg.anyVal
    | _ => throw "bad arg kind")
  let sub := args.map (fun a => tyToJsonB (Norm.subtlerType cT a))
  return Json.mkObj [("norm", Json.arr res.toArray), ("subtler", Json.arr sub.toArray)]

/-- layer H: the model of `NameConverter` applied to an expression of the modelled subset -/
partial def stmtOfJson (j : Json) : Except String Ovld.Rw.Stmt := do
  let a ← jArr j
  let k ← jStr a[0]!
  let block (x : Json) : Except String (List Ovld.Rw.Stmt) := do (← jArr x).toList.mapM stmtOfJson
  match k with
  | "assign" => pure (.assign (← jStr a[1]!) (← Ovld.Rw.exprOfJson a[2]!))
  | "expr" => pure (.expr (← Ovld.Rw.exprOfJson a[1]!))
  | "ret" => pure (.ret (← Ovld.Rw.exprOfJson a[1]!))
  | "ite" => pure (.ite (← Ovld.Rw.exprOfJson a[1]!) (← block a[2]!) (← block a[3]!))
  | "while" => pure (.while (← Ovld.Rw.exprOfJson a[1]!) (← block a[2]!))
  | "try" => pure (.tryFinally (← block a[1]!) (← block a[2]!))
  | "raise" => pure (.raise (← jNat a[1]!))
  | "pass" => pure .pass
  | _ => throw s!"bad statement kind {k}"

partial def stmtToJson : Ovld.Rw.Stmt → Json
  | .assign x e => Json.arr #[Json.str "assign", Json.str x, Ovld.Rw.exprToJson e]
  | .expr e => Json.arr #[Json.str "expr", Ovld.Rw.exprToJson e]
  | .ret e => Json.arr #[Json.str "ret", Ovld.Rw.exprToJson e]
  | .ite c t e => Json.arr #[Json.str "ite", Ovld.Rw.exprToJson c, Json.arr (t.map stmtToJson).toArray, Json.arr (e.map stmtToJson).toArray]
  | .while c b => Json.arr #[Json.str "while", Ovld.Rw.exprToJson c, Json.arr (b.map stmtToJson).toArray]
  | .tryFinally b f => Json.arr #[Json.str "try", Json.arr (b.map stmtToJson).toArray, Json.arr (f.map stmtToJson).toArray]
  | .raise n => Json.arr #[Json.str "raise", toJson n]
  | .pass => Json.arr #[Json.str "pass"]

def runH (j : Json) : Except String Json := do
  let es ← (← jArr (jFieldD j "exprs" (Json.arr #[]))).toList.mapM Ovld.Rw.exprOfJson
  let bs ← (← jArr (jFieldD j "blocks" (Json.arr #[]))).toList.mapM (fun b => do (← jArr b).toList.mapM stmtOfJson)
  return Json.mkObj [("rw", Json.arr (es.map (fun e => Ovld.Rw.exprToJson (Ovld.Rw.rw e 0).1)).toArray),
    ("userOnly", toJson (es.map Ovld.Rw.userOnly)),
    ("rwS", Json.arr (bs.map (fun b => Json.arr ((Ovld.Rw.rwS b 0).1.map stmtToJson).toArray)).toArray)]

def runLine (line : String) : String :=
  match Json.parse line with
  | .error e => (Json.mkObj [("error", Json.str s!"parse: {e}")]).compress
  | .ok j =>
    let r : Except String Json := do
      let layer ← jStr (← jField j "layer")
      match layer with
      | "A" => runA j
      | "C" => runC j
      | "D" => runD j
      | "F" => runF j
      | "E" => runE j
      | "G" => runG j
      | "H" => runH j
      | "I" => runI j
      | "T" => runT j
      | "U" => runU j
      | "J" => runJ j
      | "B" => runB j
      | _ => throw s!"unknown layer {layer}"
    match r with
    | .ok v => v.compress
    | .error e => (Json.mkObj [("error", Json.str e)]).compress

partial def loop (h : IO.FS.Stream) (out : IO.FS.Stream) : IO Unit := do
  let line ← h.getLine
  if line.isEmpty then return ()
  let t := line.trimAscii.toString
  if !t.isEmpty then
    out.putStrLn (runLine t)
  loop h out

def main : IO Unit := do
  let out ← IO.getStdout
  loop (← IO.getStdin) out
  out.flush
