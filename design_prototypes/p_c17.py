import random, sys, linecache
from ovld import OvldBase, OvldMC, extend_super, recurse, call_next
TYPES = {"int": int, "str": str, "float": float, "list": list, "object": object}
cnt = [0]
def class_src(cname, bases, defs, ext):
    # defs: list of (tname, kind); ext: mark first def with @extend_super
    lines = [f"class {cname}({', '.join(bases) if bases else 'OvldBase'}):"]
    if not defs: lines.append("    pass")
    for i, (tname, kind) in enumerate(defs):
        if i == 0 and ext: lines.append("    @extend_super")
        lines.append(f"    def f(self, x: {tname}):")
        if kind == "rec": lines.append(f"        return ['{cname}:{tname}', type(self).__name__] + [recurse(a) for a in x]")
        else: lines.append(f"        return ('{cname}:{tname}', type(self).__name__)")
    return "\n".join(lines) + "\n"
def ref(defns, x, selfname):
    t = type(x).__name__
    key = t if t in defns else ("object" if "object" in defns else None)
    if key is None: return "NOMETHOD"
    owner, kind = defns[key]
    if kind == "rec":
        sub = [ref(defns, a, selfname) for a in x]
        for s in sub:
            if s == "NOMETHOD": return s
        return [f"{owner}:{key}", selfname] + sub
    return (f"{owner}:{key}", selfname)
bad = tot = 0
for seed in range(int(sys.argv[1]), int(sys.argv[2])):
    rnd = random.Random(seed)
    ns = {"OvldBase": OvldBase, "extend_super": extend_super, "recurse": recurse, **TYPES}
    PLAIN = set()
    classes = []  # (name, bases idx, eff defns or None if no f)
    ok = True
    for i in range(rnd.randint(2, 6)):
        cname = f"C{i}"
        k = 0 if not classes else rnd.choice([0, 1, 1, 1, 2])
        k = min(k, len(classes))
        bidx = sorted(rnd.sample(range(len(classes)), k), reverse=True)   # later classes first -> consistent MRO more often
        nd = rnd.choice([0, 1, 2, 2, 3])
        defs = []
        for _ in range(nd):
            tname = rnd.choice(list(TYPES)); 
            if tname in [d[0] for d in defs]: continue
            defs.append((tname, "rec" if tname == "list" else "leaf"))
        base_has_f = any(classes[b][2] is not None for b in bidx)
        ext = bool(defs) and base_has_f and rnd.random() < 0.7
        src = class_src(cname, [classes[b][0] for b in bidx], defs, ext)
        fn = f"<c17_{seed}_{i}>"; linecache.cache[fn] = (len(src), None, src.splitlines(True), fn)
        try: exec(compile(src, fn, "exec"), ns)
        except TypeError as e:   # MRO conflict
            ok = False; break
        if len(defs) == 1 and not ext: PLAIN.add(cname)
        if defs:
            eff = {}
            if ext:
                for b in bidx:
                    if classes[b][2] is not None: eff.update(classes[b][2])
            for (tname, kind) in defs: eff[tname] = (cname, kind)
        else:
            eff = None
            for c in ns[cname].__mro__[1:]:
                j = next((j for j, cl in enumerate(classes) if cl[0] == c.__name__), None)
                if j is not None and "f" in c.__dict__:
                    eff = classes[j][2]
                    if c.__name__ in PLAIN: PLAIN.add(cname)
                    break
        classes.append((cname, bidx, eff))
    if not ok: continue
    inputs = [1, "a", 2.5, [1, "a", [2.5]], None]
    for rep in range(2):
        for (cname, bidx, eff) in classes:
            if eff is None: continue
            if cname in PLAIN: continue
            o = ns[cname]()
            for x in inputs:
                tot += 1
                try: got = o.f(x)
                except TypeError as e: got = "NOMETHOD" if "No method" in str(e) else "TE:" + str(e)[:60]
                except Exception as e: got = "EXC:" + type(e).__name__ + ":" + str(e)[:50]
                exp = ref(eff, x, cname)
                if got != exp:
                    bad += 1
                    if bad < 6: print("MISMATCH seed", seed, cname, repr(x), "got", got, "exp", exp)
print("total", tot, "bad", bad)
