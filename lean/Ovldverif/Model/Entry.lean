import Ovldverif.Model.MultiMap
import Ovldverif.Model.Dependent
/-!
# Layer F: `Signature.extract`, `ArgumentAnalyzer`, and the generated entry point (`generate_dispatch`)

core.py L136-338, recode.py L56-170.  A Python method definition is a list of parameters (after an optional
`self`); the analyzer classifies the positions / names over all registered methods; the generated entry point
is modelled by how CPython binds a call to its parameter list and by which lookup key / argument list each of
its `return` statements uses (the early exits for omitted optional positionals truncate both).
-/
set_option autoImplicit false
namespace Ovld

inductive PKind | posOnly | posOrKw | kwOnly
deriving DecidableEq, Repr, Inhabited

structure Param where
  name : Nat
  kind : PKind
  required : Bool
  ty : Ty
deriving Inhabited

/-- a registered Python function (one `def`) -/
structure FnDef where
  id : Nat
  code : Nat
  isMethod : Bool
  params : List Param
  prio : Int
deriving Inhabited

def FnDef.positional (d : FnDef) : List Param := d.params.filter (fun p => p.kind != .kwOnly)
def FnDef.kwOnly (d : FnDef) : List Param := d.params.filter (fun p => p.kind == .kwOnly)

/-- `Signature.extract` + `replace(priority=..., tiebreak=...)`: the table entry of a definition -/
def FnDef.toMeth (d : FnDef) (tb : Int) : Meth :=
  let pos := d.positional
  { id := d.id, code := d.code,
    params := (pos.zipIdx.map (fun (p, i) => (Slot.pos i, p.ty))) ++ (d.kwOnly.map (fun p => (Slot.kw p.name, p.ty))),
    reqPos := (pos.filter (·.required)).length,
    maxPos := pos.length,
    reqNames := (d.kwOnly.filter (·.required)).map (·.name),
    prio := d.prio, tb := tb }

/-- result of `ArgumentAnalyzer.compile` -/
structure Analysis where
  npos : Nat                 -- number of positions any method declares
  nreq : Nat                 -- positions required by every method (a prefix)
  nstrict : Nat              -- strictly positional prefix (`ARGi` names)
  names : List Nat           -- names of the positions `nstrict ..`
  kwReq : List Nat
  kwOpt : List Nat
  isMethod : Bool
  complexPos : List Nat      -- positions looked up with `subtler_type`
  complexKw : List Nat
deriving Repr, Inhabited

inductive CfgErr | nameConflict | selfMix
deriving DecidableEq, Repr

def dedupNat : List Nat → List Nat
  | [] => []
  | x :: xs => let r := dedupNat xs; if r.contains x then r else x :: r

/-- first occurrences, in order -/
def dedupFirst (xs : List Nat) : List Nat :=
  xs.foldl (fun acc x => if acc.contains x then acc else acc ++ [x]) []

def dedupOpt : List (Option Nat) → List (Option Nat)
  | [] => []
  | x :: xs => let r := dedupOpt xs; if r.contains x then r else x :: r

/-- the canonical keys (position or keyword name) under which a parameter name is declared -/
inductive Canon | pos (i : Nat) | kw (n : Nat)
deriving DecidableEq, Repr

def canonsOf (d : FnDef) : List (Nat × Canon) :=
  (d.positional.zipIdx.filterMap (fun (p, i) => if p.kind == .posOrKw then some (p.name, Canon.pos i) else none)) ++
  (d.kwOnly.map (fun p => (p.name, Canon.kw p.name)))

def dedupCanon : List Canon → List Canon
  | [] => []
  | x :: xs => let r := dedupCanon xs; if r.contains x then r else x :: r

/-- names declared at position `i` over all definitions (`none` = positional-only there) -/
def namesAt (ds : List FnDef) (i : Nat) : List (Option Nat) :=
  dedupOpt (ds.filterMap (fun d => match d.positional[i]? with
    | some p => some (if p.kind == .posOrKw then some p.name else none)
    | none => none))

def isGenAlias : Ty → Bool | .gen .. => true | _ => false

def analyze (ds : List FnDef) : Except CfgErr Analysis := do
  -- is_method must agree (core.py L266-271)
  let isM := match ds with | d :: _ => d.isMethod | [] => false
  if ds.any (fun d => d.isMethod != isM) then throw .selfMix
  -- every name has one canonical key (L276-285)
  let all := ds.flatMap canonsOf
  let names := dedupNat (all.map (·.1))
  for n in names do
    let cs := dedupCanon ((all.filter (fun p => p.1 == n)).map (·.2))
    if cs.length != 1 then throw .nameConflict
  let total := ds.length
  let npos := ds.foldl (fun acc d => max acc d.positional.length) 0
  let reqAt (i : Nat) : Bool :=
    (ds.filter (fun d => match d.positional[i]? with | some p => p.required | none => false)).length == total
  let nreq := ((List.range npos).takeWhile reqAt).length
  -- trailing positions with exactly one string name are "positional"; the rest is strict (L291-300)
  let single (i : Nat) : Bool := match namesAt ds i with | [some _] => true | _ => false
  let npositional := ((List.range npos).reverse.takeWhile single).length
  let nstrict := npos - npositional
  let nms := (List.range npos).filterMap (fun i => if i < nstrict then none else
    match namesAt ds i with | [some n] => some n | _ => none)
  let kws := dedupFirst (ds.flatMap (fun d => d.kwOnly.map (·.name)))
  let kwReqd (n : Nat) : Bool :=
    (ds.filter (fun d => d.kwOnly.any (fun p => p.name == n && p.required))).length == total
  return {
    npos := npos, nreq := nreq, nstrict := nstrict, names := nms,
    kwReq := kws.filter kwReqd, kwOpt := kws.filter (fun n => !kwReqd n),
    isMethod := isM,
    complexPos := (List.range npos).filter (fun i => ds.any (fun d => match d.positional[i]? with
      | some p => isGenAlias p.ty | none => false)),
    complexKw := kws.filter (fun n => ds.any (fun d => d.kwOnly.any (fun p => p.name == n && isGenAlias p.ty))) }

/-- a run-time argument: its class, and — when the value is itself a type object — the `type[...]` key that
    `subtler_type` computes for it -/
structure Arg where
  vid : Nat                  -- identity of the value (for "received exactly what was supplied")
  cls : Ty                   -- `type(v)`
  subtler : Ty               -- `subtler_type(v)`
  val : DVal := default      -- the value itself, as far as value-dependent checks look at it
deriving Inhabited

structure Call where
  pos : List Arg
  kw : List (Nat × Arg)
deriving Inhabited

inductive BindErr | tooManyPos | unexpectedKw | multipleValues | missingRequired
deriving DecidableEq, Repr

/-- what the generated entry point does with a call: the lookup key and the arguments forwarded to the
    method that the table returns -/
structure Dispatch where
  key : Key
  passPos : List Arg
  passKw : List (Nat × Arg)

def Analysis.optCount (a : Analysis) : Nat := a.npos - a.nreq

/-- how many leading positions are positional-only in the generated `def` (recode.py L103-120) -/
def Analysis.posOnly (a : Analysis) : Nat :=
  let npo := a.npos - max a.nreq a.nstrict   -- non-strict optional positionals (`po`)
  if npo > 1 then a.npos
  else if a.nstrict > 0 then a.nstrict
  else 0

def Analysis.nameOfPos (a : Analysis) (i : Nat) : Option Nat :=
  if i < a.nstrict then none else a.names[i - a.nstrict]?

def keyTy (complex : Bool) (x : Arg) : Ty := if complex then x.subtler else x.cls

/-- CPython's binding of the call to the generated parameter list, then the body of `__DISPATCH__` -/
def entry (a : Analysis) (c : Call) : Except BindErr Dispatch := do
  if c.pos.length > a.npos then throw .tooManyPos
  -- keywords: a positional-or-keyword parameter not yet filled, or a keyword-only name
  let mut slots : List (Nat × Arg) := []      -- positions filled by keyword
  let mut kws : List (Nat × Arg) := []
  for (n, v) in c.kw do
    match (List.range a.npos).find? (fun i => i ≥ a.posOnly && a.nameOfPos i == some n) with
    | some i =>
      if i < c.pos.length || slots.any (fun s => s.1 == i) then throw .multipleValues
      slots := slots ++ [(i, v)]
    | none =>
      if (a.kwReq ++ a.kwOpt).contains n then
        if kws.any (fun s => s.1 == n) then throw .multipleValues
        kws := kws ++ [(n, v)]
      else throw .unexpectedKw
  let valAt (i : Nat) : Option Arg :=
    match c.pos[i]? with
    | some v => some v
    | none => (slots.find? (fun s => s.1 == i)).map (·.2)
  for i in List.range a.nreq do
    if (valAt i).isNone then throw .missingRequired
  for n in a.kwReq do
    if !(kws.any (fun s => s.1 == n)) then throw .missingRequired
  -- first omitted optional positional: early exit with the positional prefix (L149-161); keyword-only
  -- arguments are kept (since the `fix:` for finding D8)
  let firstMissing := (List.range a.npos).find? (fun i => i ≥ a.nreq && (valAt i).isNone)
  let kreq := a.kwReq.filterMap (fun n => (kws.find? (fun s => s.1 == n)))
  let kopt := a.kwOpt.filterMap (fun n => (kws.find? (fun s => s.1 == n)))
  let kk := kreq ++ kopt
  let vals := match firstMissing with
    | some m => (List.range m).filterMap valAt
    | none => (List.range a.npos).filterMap valAt
  return { key := vals.zipIdx.map (fun (v, i) => (Slot.pos i, keyTy (a.complexPos.contains i) v)) ++
                  kk.map (fun (n, v) => (Slot.kw n, keyTy (a.complexKw.contains n) v)),
           passPos := vals, passKw := kk }

/-- binding of the forwarded arguments by the selected method itself (its own defaults fill the rest);
    `none` = CPython raises TypeError inside the call -/
def methodBind (d : FnDef) (x : Dispatch) : Option (List (Nat × Option Arg)) :=
  let pos := d.positional
  if x.passPos.length > pos.length then none else
  let kwOK := x.passKw.all (fun (n, _) =>
    d.kwOnly.any (fun p => p.name == n) ||
    (pos.zipIdx.any (fun (p, i) => p.kind == .posOrKw && p.name == n && i ≥ x.passPos.length)))
  if !kwOK then none else
  let bound : List (Nat × Option Arg) :=
    (pos.zipIdx.map (fun (p, i) => (p.name, match x.passPos[i]? with
      | some v => some v
      | none => (x.passKw.find? (fun s => s.1 == p.name)).map (·.2)))) ++
    (d.kwOnly.map (fun p => (p.name, (x.passKw.find? (fun s => s.1 == p.name)).map (·.2))))
  let missing := d.params.any (fun p => p.required && match bound.find? (fun b => b.1 == p.name) with
    | some (_, some _) => false | _ => true)
  if missing then none else some bound

end Ovld
