#!/usr/bin/env python3
"""Re-validate the seeded changes: apply each seeded/<name>/patch.diff to /repo, run the quick checks its meta.json
says caught it (up to three seeds), undo.  Prints one line per (change, property); exit 1 if one is no longer caught.
Usage: tools/regress_seeded.py [name-prefix ...]"""
import json, os, subprocess, sys

ROOT = "/verif/seeded"
sel = sys.argv[1:]
bad = 0
for name in sorted(os.listdir(ROOT)):
    if sel and not any(name.startswith(s) for s in sel):
        continue
    d = os.path.join(ROOT, name)
    try:
        meta = json.load(open(os.path.join(d, "meta.json")))
    except Exception:
        print(name, "no meta.json"); continue
    props = [p for p, t in meta.get("caught_by", {}).items() if "VIOLATION" in t and not t.lower().startswith("not ")]
    if subprocess.run(["git", "-C", "/repo", "apply", os.path.join(d, "patch.diff")]).returncode:
        print(name, "PATCH DOES NOT APPLY"); bad += 1; continue
    try:
        for p in props:
            got = None
            for sd in ("1", "2", "3"):
                r = subprocess.run(["./check", p], cwd="/verif", env={**os.environ, "VERIF_SEED": sd}, stdout=subprocess.PIPE, stderr=subprocess.STDOUT, timeout=1800)
                lines = [l for l in r.stdout.decode().split("\n") if l.startswith("VIOLATION")]
                if lines:
                    got = (sd, "no-input" if all("no-failing-input-found" in l for l in lines) else "input")
                    break
                if p == "C19":
                    break
            print(name, p, "caught seed=%s %s" % got if got else "MISSED", flush=True)
            if not got:
                bad += 1
    finally:
        subprocess.run(["git", "-C", "/repo", "checkout", "--", "."])
sys.exit(1 if bad else 0)
