/-! Scratch prototype: fuel-structural typeorder on {class, generic alias, Union} and mirror symmetry on the
    fragment "not both operands are unions", proved at *equal fuel* (mirrored branches reuse the same fuel). -/
set_option autoImplicit false

inductive Order' | less | more | same | none
deriving DecidableEq, Repr
namespace Order'
def opposite : Order' → Order'
  | less => more | more => less | o => o
@[simp] theorem opp_opp (o : Order') : o.opposite.opposite = o := by cases o <;> rfl
/-- Order.merge: on the *set* of inputs; the empty set gives LESS, as in the code -/
def merge (os : List Order') : Order' :=
  if os ≠ [] ∧ os.all (· = same) then same
  else if os.all (fun o => o = less ∨ o = same) then less
  else if os.all (fun o => o = more ∨ o = same) then more
  else none
end Order'
open Order'

inductive Ty where
  | cls (c : Nat)
  | gen (o : Nat) (args : List Ty)
  | union (ts : List Ty)

mutual
def Ty.beq : Ty → Ty → Bool
  | .cls a, .cls b => a == b
  | .gen o a, .gen p b => o == p && Ty.beqL a b
  | .union a, .union b => Ty.beqL a b
  | _, _ => false
def Ty.beqL : List Ty → List Ty → Bool
  | [], [] => true
  | a :: as, b :: bs => Ty.beq a b && Ty.beqL as bs
  | _, _ => false
end

mutual
theorem Ty.beq_comm : ∀ (a b : Ty), Ty.beq a b = Ty.beq b a
  | .cls a, .cls b => by simp [Ty.beq, Bool.beq_comm]
  | .gen o a, .gen p b => by simp [Ty.beq, Ty.beqL_comm a b, Bool.beq_comm (a := o)]
  | .union a, .union b => by simp [Ty.beq, Ty.beqL_comm a b]
  | .cls _, .gen _ _ | .cls _, .union _ | .gen _ _, .cls _ | .gen _ _, .union _ | .union _, .cls _ | .union _, .gen _ _ => by simp [Ty.beq]
theorem Ty.beqL_comm : ∀ (a b : List Ty), Ty.beqL a b = Ty.beqL b a
  | [], [] => rfl
  | [], _ :: _ | _ :: _, [] => by simp [Ty.beqL]
  | a :: as, b :: bs => by simp [Ty.beqL, Ty.beq_comm a b, Ty.beqL_comm as bs]
end

def ofSub (sx sy : Bool) : Order' := if sx && sy then same else if sx then less else if sy then more else none
theorem ofSub_comm (x y : Bool) : ofSub y x = (ofSub x y).opposite := by
  cases x <;> cases y <;> rfl

def unionOrd (cmp : List Order') : Order' :=
  let c := cmp.filter (· ≠ Order'.none)
  if c = [] then Order'.none else if c.any (fun x => x = more ∨ x = same) then more else less

def isUnion : Ty → Bool | .union _ => true | _ => false

section
variable (sub : Nat → Nat → Bool)

def zipOrd (f : Ty → Ty → Order') : List Ty → List Ty → List Order'
  | a :: as, b :: bs => f a b :: zipOrd f as bs
  | _, _ => []

/-- generic alias (o, as) against plain class b, at fuel f (body of the `o1 and not o2` branch) -/
def genVsCls (o b : Nat) : Order' :=
  let r := ofSub (sub o b) (sub b o)
  if r = same then less else r

def tord : Nat → Ty → Ty → Order'
  | 0, _, _ => Order'.none
  | f + 1, t1, t2 =>
    if Ty.beq t1 t2 then same else
    match t1, t2 with
    | .union ts, _ => unionOrd (ts.map (fun t => tord f t t2))
    | _, .union ts => (unionOrd (ts.map (fun t => tord f t t1))).opposite
    | .cls a, .cls b => ofSub (sub a b) (sub b a)
    | .cls a, .gen o _ => (genVsCls sub o a).opposite
    | .gen o _, .cls b => genVsCls sub o b
    | .gen o as, .gen p bs =>
      let r := if o = p then same else ofSub (sub o p) (sub p o)
      if r ≠ same then r
      else if as ≠ [] ∧ bs = [] then less else if bs ≠ [] ∧ as = [] then more
      else if as.length ≠ bs.length then Order'.none else merge (zipOrd (tord f) as bs)
end

/-- fragment: never two unions facing each other, recursively through generic arguments -/
def symFragL (sf : Ty → Ty → Bool) : List Ty → List Ty → Bool
  | a :: as, b :: bs => sf a b && symFragL sf as bs
  | _, _ => true
def symFrag : Nat → Ty → Ty → Bool
  | 0, _, _ => true
  | f + 1, t1, t2 =>
    match t1, t2 with
    | .union _, .union _ => false
    | .gen _ as, .gen _ bs => symFragL (symFrag f) as bs
    | _, _ => true

namespace Order'
theorem all_map_opp (p q : Order' → Prop) [DecidablePred p] [DecidablePred q] (h : ∀ o, p o.opposite ↔ q o) (os : List Order') :
    (os.map opposite).all (fun o => decide (p o)) = os.all (fun o => decide (q o)) := by
  induction os with
  | nil => rfl
  | cons a t ih => simp [ih, h]
theorem merge_opp (os : List Order') (hne0 : os ≠ []) : merge (os.map opposite) = (merge os).opposite := by
  have h1 := all_map_opp (· = same) (· = same) (by intro o; cases o <;> simp [opposite]) os
  have h2 := all_map_opp (fun o => o = less ∨ o = same) (fun o => o = more ∨ o = same) (by intro o; cases o <;> simp [opposite]) os
  have h3 := all_map_opp (fun o => o = more ∨ o = same) (fun o => o = less ∨ o = same) (by intro o; cases o <;> simp [opposite]) os
  have hne : (os.map opposite ≠ []) := by simpa using hne0
  unfold merge
  rw [h1, h2, h3]
  by_cases a : os.all (fun o => decide (o = same)) = true
  · simp only [a, hne, hne0, ne_eq, not_false_eq_true, and_self, if_true, opposite]
  · by_cases b : os.all (fun o => decide (o = less ∨ o = same)) = true
    · by_cases c : os.all (fun o => decide (o = more ∨ o = same)) = true
      · exfalso; apply a
        rw [List.all_eq_true] at *
        intro x hx; have := b x hx; have := c x hx
        cases x <;> simp_all
      · simp only [a, b, c, and_false, if_false, if_true, opposite, Bool.false_eq_true]
    · by_cases c : os.all (fun o => decide (o = more ∨ o = same)) = true
      · simp only [a, b, c, and_false, if_false, if_true, opposite, Bool.false_eq_true]
      · simp only [a, b, c, and_false, if_false, opposite, Bool.false_eq_true]
end Order'

section
variable (sub : Nat → Nat → Bool)

theorem zipOrd_mirror (g : Ty → Ty → Order') (sf : Ty → Ty → Bool)
    (h : ∀ a b, sf a b = true → g b a = (g a b).opposite) :
    ∀ (as bs : List Ty), symFragL sf as bs = true → zipOrd g bs as = (zipOrd g as bs).map opposite
  | [], [] => by intro _; simp [zipOrd]
  | [], _ :: _ => by intro _; simp [zipOrd]
  | _ :: _, [] => by intro _; simp [zipOrd]
  | a :: as, b :: bs => by
    intro hs
    simp only [symFragL, Bool.and_eq_true] at hs
    simp [zipOrd, h a b hs.1, zipOrd_mirror g sf h as bs hs.2]

theorem zipOrd_ne_nil (g : Ty → Ty → Order') : ∀ (as bs : List Ty), as ≠ [] → as.length = bs.length → zipOrd g as bs ≠ []
  | [], _ => by intro h; exact absurd rfl h
  | _ :: _, [] => by intro _ h; simp at h
  | _ :: _, _ :: _ => by intro _ _; simp [zipOrd]

theorem genVsCls_def (o b : Nat) : genVsCls sub o b = (let r := ofSub (sub o b) (sub b o); if r = same then less else r) := rfl

theorem tord_mirror (anti : ∀ a b, sub a b = true → sub b a = true → a = b) :
    ∀ (f : Nat) (t1 t2 : Ty), symFrag f t1 t2 = true → tord sub f t2 t1 = (tord sub f t1 t2).opposite := by
  intro f
  induction f with
  | zero => intro t1 t2 _; simp [tord, opposite]
  | succ f ih =>
    intro t1 t2 hs
    unfold tord
    rw [Ty.beq_comm t2 t1]
    by_cases e : Ty.beq t1 t2 = true
    · simp [e, opposite]
    · simp only [e, Bool.false_eq_true, if_false]
      cases t1 with
      | cls a =>
        cases t2 with
        | cls b => exact ofSub_comm _ _
        | gen p bs => exact (opp_opp _).symm
        | union ts => exact (opp_opp _).symm
      | gen o as =>
        cases t2 with
        | cls b => rfl
        | union ts => exact (opp_opp _).symm
        | gen p bs =>
          simp only [symFrag] at hs
          have zm := zipOrd_mirror (tord sub f) (symFrag f) ih as bs hs
          -- origin comparison is mirror-symmetric
          have r_sym : (if p = o then same else ofSub (sub p o) (sub o p)) = (if o = p then same else ofSub (sub o p) (sub p o)).opposite := by
            by_cases eo : o = p
            · subst eo; simp [opposite]
            · have : ¬ p = o := fun h => eo h.symm
              rw [if_neg eo, if_neg this]; exact ofSub_comm _ _
          simp only []
          rw [r_sym]
          generalize hr : (if o = p then same else ofSub (sub o p) (sub p o)) = r
          by_cases rs : r = same
          · subst rs
            simp only [opposite, ne_eq, not_true_eq_false, if_false]
            by_cases c1 : as ≠ [] ∧ bs = []
            · have : ¬ (bs ≠ [] ∧ as = []) := by intro h; exact h.1 c1.2
              simp [c1, this, opposite]
            · by_cases c2 : bs ≠ [] ∧ as = []
              · simp [c1, c2, opposite]
              · by_cases c3 : as.length ≠ bs.length
                · have : bs.length ≠ as.length := fun h => c3 h.symm
                  simp [c1, c2, c3, this, opposite]
                · have c3' : as.length = bs.length := by omega
                  have c3'' : ¬ bs.length ≠ as.length := by omega
                  simp only [c1, c2, c3, c3'', if_false]
                  -- both argument lists non-empty (else the types would be equal, given antisymmetry)
                  have asne : as ≠ [] := by
                    intro h; subst h
                    have : bs = [] := by cases bs <;> simp_all
                    subst this
                    -- then o ≠ p would give r ≠ same by antisymmetry; o = p gives beq true
                    by_cases eo : o = p
                    · subst eo; simp [Ty.beq, Ty.beqL] at e
                    · simp only [eo, if_false] at hr
                      unfold ofSub at hr
                      by_cases s1 : sub o p = true <;> by_cases s2 : sub p o = true <;> simp [s1, s2] at hr
                      exact eo (anti o p s1 s2)
                  rw [zm, merge_opp _ (zipOrd_ne_nil _ as bs asne c3')]
                  rfl
          · have : r.opposite ≠ same := by cases r <;> simp_all [opposite]
            simp [rs, this]
      | union ts =>
        cases t2 with
        | cls b => rfl
        | gen p bs => rfl
        | union us => simp [symFrag] at hs
end
#print axioms tord_mirror

/-! Witness for finding D3 (outside the fragment): overlapping unions compare `less` in both directions. -/
def sub0 : Nat → Nat → Bool := fun a b => a == b || b == 0
example : tord sub0 7 (.union [.cls 1, .cls 2]) (.union [.cls 2, .cls 3]) = less
        ∧ tord sub0 7 (.union [.cls 2, .cls 3]) (.union [.cls 1, .cls 2]) = less := by decide
/-! Non-vacuity: a pair inside the fragment with a non-trivial answer. -/
example : symFrag 9 (.gen 5 [.union [.cls 1, .cls 2]]) (.gen 5 [.cls 1]) = true
        ∧ tord sub0 9 (.gen 5 [.union [.cls 1, .cls 2]]) (.gen 5 [.cls 1]) = more := by decide
