"""Development-time helper (never run by a check): copy the witnesses of unlisted failing classes from
replay files into known_findings.json after they have been triaged by hand."""
import glob, json, sys
prop = sys.argv[1]
what = {
 "D3": "typeorder is not mirror-symmetric when two effective __type_order__ hooks of different design face each other ({pair}): each hook answers from its own side only (types.py Union/Intersection.__type_order__, Exactly handler, dependent.py DependentType.__type_order__)",
 "D22": "two evaluations of Exactly[A] are unequal objects (SingleFunctionHandler has identity equality) and compare MORE in both directions",
 "D17": "subclasscheck is not transitive through {pair}: B <= A <= T but not B <= T; inherent in the documented meaning of the constructor",
}
path = "/verif/known_findings.json"
try:
    data = json.load(open(path))
except Exception:
    data = {"findings": [], "fixed": []}
have = {(f["property"], f["id"]) for f in data["findings"]}
for f in sorted(glob.glob(f"/verif/replays/{prop}_*.json")):
    d = json.load(open(f))
    law = d.get("law", "")
    if not law.startswith("failing class "):
        continue
    cid = law.split()[2]
    if (prop, cid) in have:
        continue
    d_id, _, pair = cid.partition(":")
    data["findings"].append({"property": prop, "id": cid, "defect": d_id, "what": what[d_id].format(pair=pair), "witness": d["witness"]})
    have.add((prop, cid))
json.dump(data, open(path, "w"), indent=1)
print(len(data["findings"]), "findings")
