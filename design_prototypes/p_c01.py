# soundness oracle needs no model: every arg a method receives must be isinstance of its declared annotation (as ovld normalises it)
import random, sys, collections, typing, linecache
from typing import Literal
from ovld import Ovld, Dependent
from ovld.types import normalize_type, Union as OUnion, Intersection, Exactly, StrictSubclass, HasMethod
from ovld.dependent import StartsWith, EndsWith, HasKey, Regexp
exec(open('p_c02.py').read().split("def gen(seed):")[0])   # PermSet injection
class A: pass
class B(A): pass
class C:
    def foo(self): return 1
class D(B, C): pass
VALUES = [0, 1, 2, True, False, "a", "ab", "ba", "", None, 1.5, (1, "a"), (1, 2), ("a",), [1], ["a"], [], {"a": 1}, {"b": 2}, {}, A(), B(), C(), D(), A, B, D, int, list[int], list[B]]
total_pred = lambda x: True
def pos(x): return isinstance(x, (int, float)) and x > 0
def mk_type(rnd, depth=2):
    r = rnd.random()
    leafs = [int, str, bool, float, object, A, B, C, D, list, dict, tuple, type(None)]
    if depth == 0 or r < 0.25: return rnd.choice(leafs)
    if r < 0.35: return Literal[tuple(rnd.sample([0, 1, 2, True, "a", "ab", None], rnd.choice([1, 1, 2, 3])))]
    if r < 0.42: return Dependent[rnd.choice([int, float, object, bool]), rnd.choice([pos, total_pred])]
    if r < 0.50: return rnd.choice([StartsWith["a"], EndsWith["a"], HasKey["a"], Regexp["^a"]])
    if r < 0.58: return rnd.choice([Exactly, StrictSubclass])[rnd.choice([A, B, C, int])]
    if r < 0.62: return HasMethod["foo"]
    if r < 0.72: return typing.Union[mk_type(rnd, depth - 1), mk_type(rnd, depth - 1)]
    if r < 0.80:
        a, b = normalize_type(mk_type(rnd, depth - 1), None), normalize_type(mk_type(rnd, depth - 1), None)
        return Intersection[a, b]
    if r < 0.86: return tuple[mk_type(rnd, 0), mk_type(rnd, 0)]
    if r < 0.90: return list[rnd.choice([int, str, A, B])]
    if r < 0.95: return type[rnd.choice([A, B, int, object, list[A], list[B]])]
    return dict[str, rnd.choice([int, str])]
REC = []
stats = collections.Counter(); shown = collections.Counter()
for seed in range(int(sys.argv[1]), int(sys.argv[2])):
    rnd = random.Random(seed)
    F = Ovld(name="F"); anns = {}
    nm = rnd.randint(1, 6)
    try:
        for j in range(nm):
            t = mk_type(rnd)
            src = f"def m{j}(x: T):\n    REC.append(({j}, x))\n    return {j}\n"
            g = {"T": t, "REC": REC}
            fn = f"<c01_{seed}_{j}>"; linecache.cache[fn] = (len(src), None, src.splitlines(True), fn)
            exec(compile(src, fn, "exec"), g)
            F.register(g[f"m{j}"], priority=rnd.choice([0, 0, 0, 1]))
            anns[j] = normalize_type(t, None)
        F.compile()
    except Exception as e:
        stats["config:" + type(e).__name__] += 1; continue
    for v in VALUES:
        REC.clear(); stats["calls"] += 1
        try: F(v); out = "ran"
        except TypeError as e: out = "TE" if ("No method" in str(e) or "Ambig" in str(e)) else "TE-other:" + str(e)[:40]
        except Exception as e: out = "EXC:" + type(e).__name__
        if out.startswith("TE-other") or out.startswith("EXC"):
            stats[out.split(":")[0] + ":" + out.split(":")[1][:25]] += 1
            k = out.split(":")[0]
            if shown[k] < 6: shown[k] += 1; print(out, "| seed", seed, repr(v)[:30], [str(anns[j]) for j in anns])
        for (j, x) in REC:
            try: okv = isinstance(x, anns[j])
            except Exception as e: okv = f"isinstance-raised {type(e).__name__}"
            if okv is not True:
                stats["UNSOUND"] += 1
                if shown["UNSOUND"] < 8: shown["UNSOUND"] += 1; print("UNSOUND seed", seed, "method", j, "ann", anns[j], "got", repr(x)[:30], okv)
print(dict(stats))
