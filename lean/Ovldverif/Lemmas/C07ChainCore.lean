import Ovldverif.Lemmas.C07Core
import Ovldverif.Lemmas.PlanOK
/-!
# C07, whole chains: helper lemmas about `mkRanks` and `_pull`

* what `mkRanks` keeps of each group (`err`, `codes`, and that a `.meth id` callable means the group is `[id]`);
* the heads of the groups `_pull` emits form a sublist of its input, so they inherit its sortedness.
-/
set_option autoImplicit false
namespace Ovld

/-- rank `j` of `mkRanks` is built from group `j` -/
theorem mkRanks_getElem? (ms : List Meth) : ∀ (gs : List (List Cand)) (j : Nat) (r : Rank Entry (List Nat)),
    (mkRanks ms gs)[j]? = some r →
    ∃ g, gs[j]? = some g ∧ r.err = g.map (·.id) ∧ r.codes = (g.map (·.id)).filterMap (codeOf ms) ∧
      ∀ id, r.func = some (Entry.meth id) → g.map (·.id) = [id]
  | [], j, r, h => by simp [mkRanks] at h
  | g :: gs, 0, r, h => by
    rw [mkRanks] at h
    simp only [List.getElem?_cons_zero, Option.some.injEq] at h
    subst h
    refine ⟨g, rfl, rfl, rfl, ?_⟩
    intro id hid
    dsimp only at hid
    split at hid
    · cases hid
    · split at hid
      · rename_i id' e
        injection hid with e1
        injection e1 with e2
        rw [e, e2]
      · cases hid
  | g :: gs, j + 1, r, h => by
    rw [mkRanks] at h
    simp only [List.getElem?_cons_succ] at h
    exact mkRanks_getElem? ms gs j r h

theorem mkRanks_err_chain (ms : List Meth) : ∀ gs : List (List Cand),
    (mkRanks ms gs).map (·.err) = gs.map (fun g => g.map (·.id))
  | [] => rfl
  | g :: gs => by
    rw [mkRanks, List.map_cons, List.map_cons, mkRanks_err_chain ms gs]

theorem mkRanks_length_chain (ms : List Meth) (gs : List (List Cand)) : (mkRanks ms gs).length = gs.length := by
  have := congrArg List.length (mkRanks_err_chain ms gs)
  simpa using this

/-- the heads of the groups `_pull` emits, in order, are a sublist of the candidate list -/
theorem pull_heads_sublist (f : Nat) : ∀ (cands : List Cand) (processed : List Nat),
    ((pull f cands processed).filterMap List.head?).Sublist cands := by
  induction f with
  | zero => intro cands processed; simp [pull]
  | succ f ih =>
    intro cands processed
    rw [pull]
    have hsub : (cands.filter (fun c => !processed.contains c.id)).Sublist cands := List.filter_sublist
    generalize cands.filter (fun c => !processed.contains c.id) = l at hsub
    cases l with
    | nil => simp
    | cons c1 rest =>
      dsimp only
      rw [List.filterMap_cons]
      simp only [List.head?_cons]
      exact ((ih rest _).cons_cons c1).trans hsub

theorem flatten_eq_heads {α : Type} : ∀ (L : List (List α)), (∀ g ∈ L, ∃ c, g = [c]) →
    L.flatten = L.filterMap List.head?
  | [], _ => rfl
  | g :: L, h => by
    obtain ⟨c, rfl⟩ := h g List.mem_cons_self
    rw [List.flatten_cons, List.filterMap_cons, flatten_eq_heads L (fun g hg => h g (List.mem_cons_of_mem _ hg))]
    rfl

/-- the priority recorded in a candidate is the priority of its method -/
theorem candidates_prio (cfg : Cfg) (ms : List Meth) (k : Key) (cs : List Cand)
    (h : candidates cfg ms k = some cs) : ∀ c ∈ cs, c.prio = (methOf ms c.id).prio := by
  unfold candidates at h
  split at h
  · cases h
  · cases Option.some.inj h
    intro c hc
    obtain ⟨id, _, rfl⟩ := List.mem_map.mp hc
    rfl

/-- a plan that does not fail is `mkRanks` over the groups of `_pull` -/
theorem plan_ranks_of_ok (cfg : Cfg) (ms : List Meth) (k : Key) (hf : (plan cfg ms k).fail = false) :
    ∃ cs, candidates cfg ms k = some cs ∧ (plan cfg ms k).ranks = mkRanks ms (ranks cs) := by
  unfold plan at hf ⊢
  cases h : candidates cfg ms k with
  | none => rw [h] at hf; cases hf
  | some cs => exact ⟨cs, rfl, rfl⟩

theorem map_id_singleton (g : List Cand) (id : Nat) (h : g.map (·.id) = [id]) : ∃ c, g = [c] ∧ c.id = id := by
  match g, h with
  | [c], h => exact ⟨c, rfl, by simpa using h⟩

end Ovld
