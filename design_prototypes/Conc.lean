/-! Scratch prototype: interleaved lookups on the shared caches of a MultiTypeMap.
    With the publication order "remembered errors and continuation entries first, first rank last",
    every thread's lookup returns the pure answer under EVERY schedule. -/
set_option autoImplicit false

abbrev Code := Nat
abbrev Key := Nat
abbrev Fn := Nat
abbrev ErrId := Nat
abbrev CKey := Option Code × Key

inductive Res | ok (f : Fn) | amb (e : ErrId) | noMethod (k : Key)
deriving DecidableEq, Repr

inductive W | c (ck : CKey) (f : Fn) | e (ck : CKey) (err : ErrId)

structure St where
  cache : CKey → Option Fn
  errors : CKey → Option ErrId
  all : Key → Option (List Code)

def St.empty : St := ⟨fun _ => none, fun _ => none, fun _ => none⟩

def applyW1 (st : St) : W → St
  | .c ck f => { st with cache := fun x => if x = ck then some f else st.cache x }
  | .e ck err => { st with errors := fun x => if x = ck then some err else st.errors x }

/-- the final content a resolution of k publishes, as two partial maps -/
structure Pub where
  pc : CKey → Option Fn
  pe : CKey → Option ErrId
  codes : Key → List Code
  ranksEmpty : Key → Bool
  ws : Key → List W            -- the writes, in the order they are performed

/-- hypotheses tying the write lists to the final maps, plus the publication order -/
structure PubOK (P : Pub) : Prop where
  consC : ∀ k ck f, W.c ck f ∈ P.ws k → P.pc ck = some f ∧ ck.2 = k
  consE : ∀ k ck e, W.e ck e ∈ P.ws k → P.pe ck = some e ∧ ck.2 = k
  complC : ∀ ck f, P.pc ck = some f → W.c ck f ∈ P.ws ck.2
  complE : ∀ ck e, P.pe ck = some e → W.e ck e ∈ P.ws ck.2
  /-- the first rank is published last -/
  topLast : ∀ k f pre post, P.ws k = pre ++ W.c (none, k) f :: post → post = []
  emptyNoWrites : ∀ k, P.ranksEmpty k = true → P.ws k = []
  top_excl : ∀ k f, P.pc (none, k) = some f → P.pe (none, k) = none ∧ P.ranksEmpty k = false
  next_top : ∀ c k f, P.pc (some c, k) = some f → P.pe (some c, k) = none ∧ c ∈ P.codes k ∧ P.pe (none, k) = none ∧ P.ranksEmpty k = false ∧ ∃ g, P.pc (none, k) = some g

def pureTop (P : Pub) (k : Key) : Res :=
  if P.ranksEmpty k then .noMethod k
  else match P.pe (none, k) with
    | some e => .amb e
    | none => match P.pc (none, k) with
      | some f => .ok f
      | none => .noMethod k

def pureNext (P : Pub) (c : Code) (k : Key) : Res :=
  match pureTop P k with
  | .ok f =>
    if c ∉ P.codes k then .ok f
    else match P.pe (some c, k) with
      | some e => .amb e
      | none => match P.pc (some c, k) with
        | some f' => .ok f'
        | none => .noMethod k
  | r => r

def pureLookup (P : Pub) : CKey → Res
  | (none, k) => pureTop P k
  | (some c, k) => pureNext P c k

/-- program counter of one thread -/
inductive PC
  | top0 (k : Key) (ret : Option Code)                 -- about to read cache[(none,k)]; ret = Some c when called from a continuation lookup
  | top1 (k : Key) (ret : Option Code)                 -- miss: about to record all[k]
  | top2 (k : Key) (ret : Option Code) (rest : List W) -- publishing
  | top3 (k : Key) (ret : Option Code)                 -- about to read errors[(none,k)]
  | top4 (k : Key) (ret : Option Code)                 -- about to read cache[(none,k)]
  | next0 (c : Code) (k : Key)                         -- about to read cache[(some c,k)]
  | next1 (c : Code) (k : Key) (f : Fn)                -- top returned ok f: about to read all[k]
  | next2 (c : Code) (k : Key)                         -- about to read errors[(some c,k)]
  | next3 (c : Code) (k : Key)                         -- about to read cache[(some c,k)]
  | done (r : Res)

def startPC : CKey → PC
  | (none, k) => .top0 k none
  | (some c, k) => .next0 c k

/-- how the top sub-lookup hands its result back -/
def retTop (ret : Option Code) (k : Key) (r : Res) : PC :=
  match ret, r with
  | none, r => .done r
  | some c, .ok f => .next1 c k f
  | some _, r => .done r

/-- one atomic step of one thread on the shared state -/
def step (P : Pub) (st : St) : PC → St × PC
  | .top0 k ret => match st.cache (none, k) with
    | some f => (st, retTop ret k (.ok f))
    | none => (st, .top1 k ret)
  | .top1 k ret =>
    let st' := { st with all := fun k' => if k' = k then some (P.codes k) else st.all k' }
    if P.ranksEmpty k then (st', retTop ret k (.noMethod k)) else (st', .top2 k ret (P.ws k))
  | .top2 k ret [] => (st, .top3 k ret)
  | .top2 k ret (w :: rest) => (applyW1 st w, .top2 k ret rest)
  | .top3 k ret => match st.errors (none, k) with
    | some e => (st, retTop ret k (.amb e))
    | none => (st, .top4 k ret)
  | .top4 k ret => match st.cache (none, k) with
    | some f => (st, retTop ret k (.ok f))
    | none => (st, retTop ret k (.noMethod k))
  | .next0 c k => match st.cache (some c, k) with
    | some f => (st, .done (.ok f))
    | none => (st, .top0 k (some c))
  | .next1 c k f => match st.all k with
    | none => (st, .done (.noMethod k))
    | some cs => if c ∉ cs then (st, .done (.ok f)) else (st, .next2 c k)
  | .next2 c k => match st.errors (some c, k) with
    | some e => (st, .done (.amb e))
    | none => (st, .next3 c k)
  | .next3 c k => match st.cache (some c, k) with
    | some f => (st, .done (.ok f))
    | none => (st, .done (.noMethod k))
  | .done r => (st, .done r)

structure Sys where
  st : St
  pcs : List PC

def Sys.stepThread (P : Pub) (s : Sys) (i : Nat) : Sys :=
  match s.pcs[i]? with
  | none => s
  | some pc => let (st', pc') := step P s.st pc; ⟨st', s.pcs.set i pc'⟩

def Sys.run (P : Pub) (s : Sys) : List Nat → Sys
  | [] => s
  | i :: sched => (s.stepThread P i).run P sched

section
variable (P : Pub)

def Present (st : St) : W → Prop
  | .c ck f => st.cache ck = some f
  | .e ck e => st.errors ck = some e

structure Resolved (st : St) (k : Key) : Prop where
  all : st.all k ≠ none
  c : ∀ c, st.cache (some c, k) = P.pc (some c, k)
  e : ∀ c, st.errors (c, k) = P.pe (c, k)

structure G (st : St) : Prop where
  g1 : ∀ ck f, st.cache ck = some f → P.pc ck = some f
  g2 : ∀ ck e, st.errors ck = some e → P.pe ck = some e
  g3 : ∀ k cs, st.all k = some cs → cs = P.codes k
  g4 : ∀ k f, st.cache (none, k) = some f → Resolved P st k

structure Ext (st st' : St) : Prop where
  c : ∀ ck f, st.cache ck = some f → st'.cache ck = some f
  e : ∀ ck e, st.errors ck = some e → st'.errors ck = some e
  a : ∀ k, st.all k ≠ none → st'.all k ≠ none

theorem Ext.refl (st : St) : Ext st st := ⟨fun _ _ h => h, fun _ _ h => h, fun _ h => h⟩

theorem Present.stable {st st' : St} (x : Ext st st') : ∀ w, Present st w → Present st' w
  | .c ck f, h => x.c ck f h
  | .e ck e, h => x.e ck e h

theorem Resolved.stable {st st' : St} {k : Key} (x : Ext st st') (g : G P st') (r : Resolved P st k) : Resolved P st' k := by
  refine ⟨x.a k r.all, ?_, ?_⟩
  · intro c
    cases h : P.pc (some c, k) with
    | some f => exact x.c _ f (by rw [r.c c, h])
    | none =>
      cases h' : st'.cache (some c, k) with
      | none => rfl
      | some f => have := g.g1 _ f h'; rw [h] at this; cases this
  · intro c
    cases h : P.pe (c, k) with
    | some e => exact x.e _ e (by rw [r.e c, h])
    | none =>
      cases h' : st'.errors (c, k) with
      | none => rfl
      | some e => have := g.g2 _ e h'; rw [h] at this; cases this

/-- all writes of k present + the global invariant = the key is fully resolved -/
theorem resolved_of_present (ok : PubOK P) {st : St} {k : Key} (g : G P st)
    (ha : st.all k ≠ none) (hp : ∀ w ∈ P.ws k, Present st w) : Resolved P st k := by
  refine ⟨ha, ?_, ?_⟩
  · intro c
    cases h : P.pc (some c, k) with
    | some f => exact hp _ (ok.complC (some c, k) f h)
    | none =>
      cases h' : st.cache (some c, k) with
      | none => rfl
      | some f => have := g.g1 _ f h'; rw [h] at this; cases this
  · intro c
    cases h : P.pe (c, k) with
    | some e => exact hp _ (ok.complE (c, k) e h)
    | none =>
      cases h' : st.errors (c, k) with
      | none => rfl
      | some e => have := g.g2 _ e h'; rw [h] at this; cases this

/-- thread-local invariant, relative to the thread's request -/
def L (st : St) (req : CKey) : PC → Prop
  | .top0 k ret => req = (ret, k)
  | .top1 k ret => req = (ret, k)
  | .top2 k ret rest => req = (ret, k) ∧ st.all k ≠ none ∧ P.ranksEmpty k = false ∧
      ∃ pre, P.ws k = pre ++ rest ∧ ∀ w ∈ pre, Present st w
  | .top3 k ret => req = (ret, k) ∧ st.all k ≠ none ∧ P.ranksEmpty k = false ∧ ∀ w ∈ P.ws k, Present st w
  | .top4 k ret => req = (ret, k) ∧ st.all k ≠ none ∧ P.ranksEmpty k = false ∧ (∀ w ∈ P.ws k, Present st w) ∧ P.pe (none, k) = none
  | .next0 c k => req = (some c, k)
  | .next1 c k f => req = (some c, k) ∧ pureTop P k = .ok f ∧ Resolved P st k
  | .next2 c k => req = (some c, k) ∧ (∃ f, pureTop P k = .ok f) ∧ c ∈ P.codes k ∧ Resolved P st k
  | .next3 c k => req = (some c, k) ∧ (∃ f, pureTop P k = .ok f) ∧ c ∈ P.codes k ∧ Resolved P st k ∧ P.pe (some c, k) = none
  | .done r => r = pureLookup P req

theorem L.stable {st st' : St} {req : CKey} (x : Ext st st') (g : G P st') : ∀ pc, L P st req pc → L P st' req pc
  | .top0 _ _, h => h
  | .top1 _ _, h => h
  | .top2 _ _ _, ⟨h1, h2, h3, pre, h4, h5⟩ => ⟨h1, x.a _ h2, h3, pre, h4, fun w hw => Present.stable x w (h5 w hw)⟩
  | .top3 _ _, ⟨h1, h2, h3, h4⟩ => ⟨h1, x.a _ h2, h3, fun w hw => Present.stable x w (h4 w hw)⟩
  | .top4 _ _, ⟨h1, h2, h3, h4, h5⟩ => ⟨h1, x.a _ h2, h3, fun w hw => Present.stable x w (h4 w hw), h5⟩
  | .next0 _ _, h => h
  | .next1 _ _ _, ⟨h1, h2, h3⟩ => ⟨h1, h2, h3.stable P x g⟩
  | .next2 _ _, ⟨h1, h2, h3, h4⟩ => ⟨h1, h2, h3, h4.stable P x g⟩
  | .next3 _ _, ⟨h1, h2, h3, h4, h5⟩ => ⟨h1, h2, h3, h4.stable P x g, h5⟩
  | .done _, h => h
end

section
variable (P : Pub)

theorem pureTop_ok_of_pc (ok : PubOK P) {k : Key} {f : Fn} (h : P.pc (none, k) = some f) : pureTop P k = .ok f := by
  obtain ⟨h1, h2⟩ := ok.top_excl k f h
  simp [pureTop, h1, h2, h]

theorem L_retTop (ok : PubOK P) {st : St} {k : Key} {ret : Option Code} {r : Res}
    (hr : r = pureTop P k) (hres : ∀ f, r = .ok f → Resolved P st k) :
    L P st (ret, k) (retTop ret k r) := by
  cases ret with
  | none => simp only [retTop, L, pureLookup]; exact hr
  | some c =>
    cases r with
    | ok f => exact ⟨rfl, hr.symm, hres f rfl⟩
    | amb e => simp only [retTop, L, pureLookup, pureNext, ← hr]
    | noMethod k' => simp only [retTop, L, pureLookup, pureNext, ← hr]

theorem step_ok (ok : PubOK P) (st : St) (req : CKey) (pc : PC) (g : G P st) (l : L P st req pc) :
    Ext st (step P st pc).1 ∧ G P (step P st pc).1 ∧ L P (step P st pc).1 req (step P st pc).2 := by
  cases pc with
  | done r => exact ⟨Ext.refl _, g, l⟩
  | top0 k ret =>
    simp only [L] at l; subst l
    simp only [step]
    cases h : st.cache (none, k) with
    | none => exact ⟨Ext.refl _, g, rfl⟩
    | some f =>
      refine ⟨Ext.refl _, g, L_retTop P ok (pureTop_ok_of_pc P ok (g.g1 _ f h)).symm (fun _ _ => g.g4 k f h)⟩
  | top1 k ret =>
    simp only [L] at l; subst l
    simp only [step]
    have hx : Ext st { st with all := fun k' => if k' = k then some (P.codes k) else st.all k' } :=
      ⟨fun _ _ h => h, fun _ _ h => h, fun k' h => by by_cases e : k' = k <;> simp [e, h]⟩
    have hg : G P { st with all := fun k' => if k' = k then some (P.codes k) else st.all k' } := by
      refine ⟨g.g1, g.g2, ?_, ?_⟩
      · intro k' cs h
        by_cases e : k' = k
        · subst e; simp at h; exact h.symm
        · simp [e] at h; exact g.g3 k' cs h
      · intro k' f h
        have r := g.g4 k' f h
        exact ⟨hx.a k' r.all, r.c, r.e⟩
    by_cases he : P.ranksEmpty k = true
    · simp only [he, if_true]
      refine ⟨hx, hg, L_retTop P ok (by simp [pureTop, he]) (fun f h => by cases h)⟩
    · simp only [he, if_false]
      refine ⟨hx, hg, rfl, by simp, by simpa using he, [], rfl, fun _ h => by cases h⟩
  | top2 k ret rest =>
    obtain ⟨hreq, hall, hne, pre, hws, hpre⟩ := l
    cases rest with
    | nil =>
      simp only [step]
      refine ⟨Ext.refl _, g, hreq, hall, hne, ?_⟩
      intro w hw; rw [hws] at hw; simp at hw; exact hpre w hw
    | cons w rest =>
      simp only [step]
      have hwin : w ∈ P.ws k := by rw [hws]; simp
      -- the write is consistent with everything already there
      have hx : Ext st (applyW1 st w) := by
        cases w with
        | c ck f =>
          refine ⟨?_, fun _ _ h => h, fun _ h => h⟩
          intro ck' f' h
          simp only [applyW1]
          by_cases e : ck' = ck
          · subst e; simp; have := g.g1 _ f' h; rw [(ok.consC k _ f hwin).1] at this; exact (Option.some.inj this)
          · simp [e, h]
        | e ck er =>
          refine ⟨fun _ _ h => h, ?_, fun _ h => h⟩
          intro ck' e' h
          simp only [applyW1]
          by_cases e : ck' = ck
          · subst e; simp; have := g.g2 _ e' h; rw [(ok.consE k _ er hwin).1] at this; exact (Option.some.inj this)
          · simp [e, h]
      have hpres : Present (applyW1 st w) w := by cases w <;> simp [applyW1, Present]
      have hg1 : ∀ ck f, (applyW1 st w).cache ck = some f → P.pc ck = some f := by
        intro ck f h
        cases w with
        | c ck' f' =>
          simp only [applyW1] at h
          by_cases e : ck = ck'
          · subst e; simp at h; subst h; exact (ok.consC k _ _ hwin).1
          · simp [e] at h; exact g.g1 _ _ h
        | e ck' er => exact g.g1 _ _ h
      have hg2 : ∀ ck e, (applyW1 st w).errors ck = some e → P.pe ck = some e := by
        intro ck e h
        cases w with
        | e ck' er =>
          simp only [applyW1] at h
          by_cases e' : ck = ck'
          · subst e'; simp at h; subst h; exact (ok.consE k _ _ hwin).1
          · simp [e'] at h; exact g.g2 _ _ h
        | c ck' f' => exact g.g2 _ _ h
      have hg3 : ∀ k' cs, (applyW1 st w).all k' = some cs → cs = P.codes k' := by
        intro k' cs h; cases w <;> exact g.g3 k' cs h
      have hpre' : ∀ w' ∈ pre ++ [w], Present (applyW1 st w) w' := by
        intro w' hw'
        rcases List.mem_append.mp hw' with h | h
        · exact Present.stable hx w' (hpre w' h)
        · simp at h; subst h; exact hpres
      have hg : G P (applyW1 st w) := by
        refine ⟨hg1, hg2, hg3, ?_⟩
        intro k' f h
        -- either the entry was there before (stable), or it is the first rank of k just written (then everything is present)
        cases hc : st.cache (none, k') with
        | some f0 =>
          have r := g.g4 k' f0 hc
          refine ⟨hx.a k' r.all, ?_, ?_⟩
          · intro c
            cases hp : P.pc (some c, k') with
            | some f1 => exact hx.c _ f1 (by rw [r.c c, hp])
            | none =>
              cases h' : (applyW1 st w).cache (some c, k') with
              | none => rfl
              | some f1 => have := hg1 _ f1 h'; rw [hp] at this; cases this
          · intro c
            cases hp : P.pe (c, k') with
            | some e1 => exact hx.e _ e1 (by rw [r.e c, hp])
            | none =>
              cases h' : (applyW1 st w).errors (c, k') with
              | none => rfl
              | some e1 => have := hg2 _ e1 h'; rw [hp] at this; cases this
        | none =>
          -- then w is the write of (none, k')
          cases w with
          | e ck er => simp [applyW1, hc] at h
          | c ck f' =>
            simp only [applyW1] at h
            by_cases e : ((none : Option Code), k') = ck
            · subst e
              have hk : k' = k := (ok.consC k _ f' hwin).2
              subst hk
              have hrest : rest = [] := ok.topLast k' f' pre rest hws
              subst hrest
              have hall' : (applyW1 st (W.c (none, k') f')).all k' ≠ none := hall
              have hp : ∀ w' ∈ P.ws k', Present (applyW1 st (W.c (none, k') f')) w' := by
                intro w' hw'; rw [hws] at hw'; exact hpre' w' (by simpa using hw')
              refine ⟨hall', ?_, ?_⟩
              · intro c
                cases hpc : P.pc (some c, k') with
                | some f1 => exact hp _ (ok.complC (some c, k') f1 hpc)
                | none =>
                  cases h' : (applyW1 st (W.c (none, k') f')).cache (some c, k') with
                  | none => rfl
                  | some f1 => have := hg1 _ f1 h'; rw [hpc] at this; cases this
              · intro c
                cases hpe : P.pe (c, k') with
                | some e1 => exact hp _ (ok.complE (c, k') e1 hpe)
                | none =>
                  cases h' : (applyW1 st (W.c (none, k') f')).errors (c, k') with
                  | none => rfl
                  | some e1 => have := hg2 _ e1 h'; rw [hpe] at this; cases this
            · simp [e, hc] at h
      refine ⟨hx, hg, hreq, hx.a k hall, hne, pre ++ [w], by rw [hws]; simp, hpre'⟩
  | top3 k ret =>
    obtain ⟨hreq, hall, hne, hp⟩ := l
    subst hreq
    simp only [step]
    cases h : st.errors (none, k) with
    | some e =>
      have hpe := g.g2 _ e h
      exact ⟨Ext.refl _, g, L_retTop P ok (by simp [pureTop, hne, hpe]) (fun f h => by cases h)⟩
    | none =>
      refine ⟨Ext.refl _, g, rfl, hall, hne, hp, ?_⟩
      cases hpe : P.pe (none, k) with
      | none => rfl
      | some e => have := hp _ (ok.complE (none, k) e hpe); simp [Present, h] at this
  | top4 k ret =>
    obtain ⟨hreq, hall, hne, hp, hpe⟩ := l
    subst hreq
    simp only [step]
    cases h : st.cache (none, k) with
    | some f =>
      have hpc := g.g1 _ f h
      exact ⟨Ext.refl _, g, L_retTop P ok (by simp [pureTop, hne, hpe, hpc]) (fun _ _ => g.g4 k f h)⟩
    | none =>
      have hpc : P.pc (none, k) = none := by
        cases hpc : P.pc (none, k) with
        | none => rfl
        | some f => have := hp _ (ok.complC (none, k) f hpc); simp [Present, h] at this
      exact ⟨Ext.refl _, g, L_retTop P ok (by simp [pureTop, hne, hpe, hpc]) (fun f h => by cases h)⟩
  | next0 c k =>
    simp only [L] at l; subst l
    simp only [step]
    cases h : st.cache (some c, k) with
    | none => exact ⟨Ext.refl _, g, rfl⟩
    | some f =>
      refine ⟨Ext.refl _, g, ?_⟩
      have hpc := g.g1 _ f h
      obtain ⟨h1, h2, h3, h4, g', h5⟩ := ok.next_top c k f hpc
      simp [L, pureLookup, pureNext, pureTop, h1, h2, h3, h4, h5, hpc]
  | next1 c k f =>
    obtain ⟨hreq, htop, hr⟩ := l
    subst hreq
    simp only [step]
    cases h : st.all k with
    | none => exact absurd h hr.all
    | some cs =>
      have := g.g3 k cs h; subst this
      by_cases hm : c ∈ P.codes k
      · simp only [hm, not_true_eq_false, if_false]
        exact ⟨Ext.refl _, g, rfl, ⟨f, htop⟩, hm, hr⟩
      · simp only [hm, not_false_eq_true, if_true]
        refine ⟨Ext.refl _, g, ?_⟩
        simp [L, pureLookup, pureNext, htop, hm]
  | next2 c k =>
    obtain ⟨hreq, ⟨f, htop⟩, hm, hr⟩ := l
    subst hreq
    simp only [step]
    cases h : st.errors (some c, k) with
    | some e =>
      refine ⟨Ext.refl _, g, ?_⟩
      have : P.pe (some c, k) = some e := by rw [← hr.e (some c)]; exact h
      simp [L, pureLookup, pureNext, htop, hm, this]
    | none =>
      refine ⟨Ext.refl _, g, rfl, ⟨f, htop⟩, hm, hr, ?_⟩
      rw [← hr.e (some c)]; exact h
  | next3 c k =>
    obtain ⟨hreq, ⟨f, htop⟩, hm, hr, hpe⟩ := l
    subst hreq
    simp only [step]
    cases h : st.cache (some c, k) with
    | some f' =>
      refine ⟨Ext.refl _, g, ?_⟩
      have : P.pc (some c, k) = some f' := by rw [← hr.c c]; exact h
      simp [L, pureLookup, pureNext, htop, hm, hpe, this]
    | none =>
      refine ⟨Ext.refl _, g, ?_⟩
      have : P.pc (some c, k) = none := by rw [← hr.c c]; exact h
      simp [L, pureLookup, pureNext, htop, hm, hpe, this]
end

section
variable (P : Pub)

def SysInv (reqs : List CKey) (s : Sys) : Prop :=
  G P s.st ∧ s.pcs.length = reqs.length ∧ ∀ i (h : i < s.pcs.length) (h' : i < reqs.length), L P s.st reqs[i] s.pcs[i]

theorem G_empty : G P St.empty :=
  { g1 := by intro _ _ h; cases h
    g2 := by intro _ _ h; cases h
    g3 := by intro _ _ h; cases h
    g4 := by intro _ _ h; cases h }

theorem L_start (st : St) (ck : CKey) : L P st ck (startPC ck) := by
  obtain ⟨c, k⟩ := ck
  cases c <;> simp [startPC, L]

theorem inv_init (reqs : List CKey) : SysInv P reqs ⟨St.empty, reqs.map startPC⟩ := by
  refine ⟨G_empty P, by simp, ?_⟩
  intro i h h'
  simp only [List.getElem_map]
  exact L_start P _ _

theorem inv_step (ok : PubOK P) (reqs : List CKey) (s : Sys) (i : Nat) (h : SysInv P reqs s) :
    SysInv P reqs (s.stepThread P i) := by
  obtain ⟨g, hlen, hl⟩ := h
  unfold Sys.stepThread
  cases hi : s.pcs[i]? with
  | none => exact ⟨g, hlen, hl⟩
  | some pc =>
    have hib : i < s.pcs.length := by
      cases Nat.lt_or_ge i s.pcs.length with
      | inl h => exact h
      | inr h => rw [List.getElem?_eq_none h] at hi; cases hi
    have hpc : s.pcs[i] = pc := by rw [List.getElem?_eq_getElem hib] at hi; exact Option.some.inj hi
    have hir : i < reqs.length := by omega
    obtain ⟨hx, hg, hL⟩ := step_ok P ok s.st reqs[i] pc g (hpc ▸ hl i hib hir)
    refine ⟨hg, by simp [hlen], ?_⟩
    intro j hj hj'
    simp only [List.length_set] at hj
    by_cases e : j = i
    · subst e; simp only [List.getElem_set_self]; exact hL
    · have : (s.pcs.set i (step P s.st pc).2)[j] = s.pcs[j] := by
        rw [List.getElem_set_ne (by omega)]
      rw [this]
      exact L.stable P hx hg _ (hl j hj hj')

theorem inv_run (ok : PubOK P) (reqs : List CKey) : ∀ (sched : List Nat) (s : Sys), SysInv P reqs s → SysInv P reqs (s.run P sched)
  | [], _, h => h
  | i :: rest, s, h => inv_run ok reqs rest _ (inv_step P ok reqs s i h)

/-- C19 (lookup level): whatever the schedule, a thread that has finished holds the answer a lone lookup gives. -/
theorem C19_lookup_linearizable (ok : PubOK P) (reqs : List CKey) (sched : List Nat) (i : Nat) (r : Res)
    (hi : i < reqs.length)
    (hdone : ((Sys.mk St.empty (reqs.map startPC)).run P sched).pcs[i]? = some (.done r)) :
    r = pureLookup P reqs[i] := by
  have inv := inv_run P ok reqs sched _ (inv_init P reqs)
  obtain ⟨_, hlen, hl⟩ := inv
  have hib : i < ((Sys.mk St.empty (reqs.map startPC)).run P sched).pcs.length := by omega
  have := hl i hib hi
  rw [List.getElem?_eq_getElem hib] at hdone
  rw [Option.some.inj hdone] at this
  exact this
end
#print axioms C19_lookup_linearizable

/-! Witness for finding D16b: with the CURRENT order (first rank first) a second thread can observe the first rank
    without its continuation entry and gets a spurious "no method". -/
def Pbad : Pub where
  pc := fun ck => if ck = (none, 0) then some 10 else if ck = (some 5, 0) then some 11 else none
  pe := fun _ => none
  codes := fun _ => [5]
  ranksEmpty := fun _ => false
  ws := fun k => if k = 0 then [W.c (none, 0) 10, W.c (some 5, 0) 11] else []

def badRun : Sys := (Sys.mk St.empty [startPC (none, 0), startPC (some 5, 0)]).run Pbad [0, 0, 0, 1, 1, 1, 1, 1]

def isDoneNoMethod : Option PC → Bool
  | some (.done (.noMethod _)) => true
  | _ => false
def isOk11 : Res → Bool
  | .ok 11 => true
  | _ => false

example : isDoneNoMethod badRun.pcs[1]? = true ∧ isOk11 (pureLookup Pbad (some 5, 0)) = true := by decide
