import Ovldverif.Model.Fn
import Ovldverif.Spec.Runs
/-!
# Layer G: the graph of overloaded functions (`Ovld` with mixins, `copy`, `variant`, `add_mixins`, `linkback`)

core.py L360-594.  Every node has its own definitions; `defns` overlays the mixins' definitions (recursively, in
mixin order) with the node's own; a definition of identical signature replaces in place.  `compile` locks the
*direct* mixins that are not linked back and builds the table from the overlay as it is at that moment
(`built`); `_update` recompiles a compiled node and propagates to `children` (linked-back descendants only).
A call runs on the table in service, i.e. on `built`, which is how a stale child is observable.
-/
set_option autoImplicit false
namespace Ovld

structure Node where
  own : List (Def × Int) := []
  mixins : List Nat := []
  children : List Nat := []
  linkback : Bool := false
  locked : Bool := false
  compiled : Bool := false
  mm : MMap := {}
  ana : Analysis := default
  built : List (Def × Int) := []
deriving Inhabited

structure Graph where
  nodes : List Node := []

def Graph.get (g : Graph) (n : Nat) : Node := g.nodes[n]?.getD default

def Graph.set (g : Graph) (n : Nat) (x : Node) : Graph :=
  { nodes := g.nodes.zipIdx.map (fun (y, i) => if i == n then x else y) }

/-- `dict.update` with `Signature` keys: replace in place, else append -/
def overlay (base add : List (Def × Int)) : List (Def × Int) :=
  add.foldl (fun acc e =>
    if acc.any (fun o => sameSigDef o.1.d o.2 e.1.d e.2)
    then acc.map (fun o => if sameSigDef o.1.d o.2 e.1.d e.2 then e else o)
    else acc ++ [e]) base

/-- the `defns` property (core.py L383-389); fuel bounds the depth of the mixin DAG -/
def Graph.defns (g : Graph) : Nat → Nat → List (Def × Int)
  | 0, _ => []
  | f + 1, n =>
    let x := g.get n
    overlay (x.mixins.foldl (fun acc m => overlay acc (g.defns f m)) []) x.own

def Graph.depth (g : Graph) : Nat := g.nodes.length + 1

/-- `lock()`: this function and, transitively, everything it derives from (L427-430) -/
def Graph.lock : Nat → Graph → Nat → Graph
  | 0, g, _ => g
  | f + 1, g, n =>
    let g1 := g.set n { g.get n with locked := true }
    (g1.get n).mixins.foldl (fun g m => Graph.lock f g m) g1

/-- `_lock_unlinked_ancestors()` (L432-439): a linked mixin keeps propagating, so only *its* unlinked
    ancestors are locked; an unlinked mixin is locked with everything above it -/
def Graph.lockUnlinked : Nat → Graph → Nat → Graph
  | 0, g, _ => g
  | f + 1, g, n =>
    (g.get n).mixins.foldl (fun g m =>
      if (g.get m).children.contains n then Graph.lockUnlinked f g m else Graph.lock f g m) g

/-- `compile()` -/
def Graph.compile (g : Graph) (n : Nat) : Graph × Option CfgErr :=
  let g1 := Graph.lockUnlinked (g.nodes.length + 1) g n
  let ds := g1.defns g1.depth n
  match analyze (ds.map (·.1.d)) with
  | .error e => (g1, some e)
  | .ok ana =>
    let mm := (Fn.methsOf ds).foldl MMap.register {}
    (g1.set n { g1.get n with compiled := true, mm := mm, ana := ana, built := ds }, none)

/-- `_update()` (L567-573) -/
def Graph.update : Nat → Graph → Nat → Graph × Option CfgErr
  | 0, g, _ => (g, none)
  | f + 1, g, n =>
    let (g1, e1) := if (g.get n).compiled then g.compile n else (g, none)
    (g1.get n).children.foldl (fun (acc : Graph × Option CfgErr) c =>
      let (g', e') := Graph.update f acc.1 c
      (g', match acc.2 with | some e => some e | none => e')) (g1, e1)

inductive GOp
  | create (mixins : List Nat) (linkback : Bool)
  | addMixins (n : Nat) (mixins : List Nat)
  | register (n : Nat) (d : Def)
  | unregister (n : Nat) (id : Nat)
  | call (n : Nat) (c : Call)

/-- `add_mixins` (L445-452), followed by `_update()` -/
def Graph.addMixins (g : Graph) (n : Nat) (ms : List Nat) : Graph × Option Outcome :=
  let x := g.get n
  if x.locked then (g, some .locked) else
  let ms := ms.filter (fun m => m != n)
  let g1 := if x.linkback then ms.foldl (fun g m => let y := g.get m; g.set m { y with children := y.children ++ [n] }) g else g
  let g2 := g1.set n { g1.get n with mixins := (g1.get n).mixins ++ ms }
  let (g3, e) := Graph.update g2.depth g2 n
  (g3, e.map (fun _ => .configError))

def Graph.create (g : Graph) (mixins : List Nat) (linkback : Bool) : Graph :=
  let n := g.nodes.length
  let g1 : Graph := { nodes := g.nodes ++ [{ linkback := linkback }] }
  (g1.addMixins n mixins).1

def Graph.register (g : Graph) (n : Nat) (d : Def) : Graph × Option Outcome :=
  let x := g.get n
  if x.locked then (g, some .locked) else
  let own := setDefn (x.own.length + 1) x.own d 0
  let g1 := g.set n { x with own := own }
  let (g2, e) := Graph.update g1.depth g1 n
  (g2, e.map (fun _ => .configError))

def Graph.unregister (g : Graph) (n : Nat) (id : Nat) : Graph × Option Outcome :=
  let x := g.get n
  if x.locked then (g, some .locked) else
  let g1 := g.set n { x with own := x.own.filter (fun e => e.1.d.id != id) }
  let (g2, e) := Graph.update g1.depth g1 n
  (g2, e.map (fun _ => .configError))

/-- a call on node `n`: lazy build, then the single-function semantics on the table in service -/
def Graph.call (cfg : Cfg) (g : Graph) (n : Nat) (c : Call) : Graph × Outcome × Trace × Nat :=
  let (g1, e) := if (g.get n).compiled then (g, none) else g.compile n
  match e with
  | some _ => (g1, .configError, [], 0)
  | none =>
    let x := g1.get n
    let view : Fn := { defns := x.built, compiled := true, mm := x.mm, ana := x.ana }
    let (v', o, t, k) := view.call cfg c
    (g1.set n { x with mm := v'.mm }, o, t, k)

/-- specification side of C16: what node `n` must behave like right now — a fresh function carrying the
    overlay of its ancestors' and its own current definitions -/
def Graph.expected (cfg : Cfg) (g : Graph) (n : Nat) (c : Call) : Outcome × Trace :=
  let r := (Fn.fresh (g.defns g.depth n)).call cfg c
  (r.2.1, r.2.2.1)

/-- one operation on the graph -/
def Graph.step (cfg : Cfg) (g : Graph) : GOp → Graph × Option Outcome
  | .create ms lb => (g.create ms lb, none)
  | .addMixins n ms => g.addMixins n ms
  | .register n d => g.register n d
  | .unregister n id => g.unregister n id
  | .call n c => let r := g.call cfg n c; (r.1, some r.2.1)

/-- a sequence of operations -/
def Graph.runOps (cfg : Cfg) : Graph → List GOp → Graph
  | g, [] => g
  | g, op :: rest => Graph.runOps cfg (g.step cfg op).1 rest

end Ovld
