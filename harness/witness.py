"""Replay of known-finding witnesses on the real code: returns True when the witness still fails."""

from common import use_repo

use_repo()

OPP = {"LESS": "MORE", "MORE": "LESS", "SAME": "SAME", "NONE": "NONE"}


def replay(w):
    kind = w["kind"]
    if kind == "typeorder-pair":
        from ovld.mro import typeorder
        from world import World

        wd = World(w["world"])
        a, b = wd.ty(w["t1"]), wd.ty(w["t2"])
        x, y = typeorder(a, b).name, typeorder(b, a).name
        return y != OPP[x]
    if kind == "subclass-triple":
        from ovld.mro import subclasscheck
        from world import World

        wd = World(w["world"])
        a, b, c = [wd.ty(t) for t in w["ts"]]
        return subclasscheck(a, b) and subclasscheck(b, c) and not subclasscheck(a, c)
    import witness_ext

    return witness_ext.replay(w)
